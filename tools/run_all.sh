#!/bin/bash
# runs every registered check of a tier in sequence and prints a summary line per check
tier=${1:-quick}; shift
ids=${@:-$(python3 -c "import json;print(' '.join(sorted(k for k in json.load(open('checks.json')) if not k.startswith('_'))))")}
for c in $ids; do
  t0=$(date +%s)
  ./check $c --tier $tier > out_$c.log 2>&1; rc=$?
  t1=$(date +%s)
  echo "$c tier=$tier rc=$rc wall=$((t1-t0))s $(grep -c '^KNOWN-FINDING' out_$c.log) known $(grep '^check ' out_$c.log | tail -1)"
  grep -E '^VIOLATION|^INCONCLUSIVE|signature:' out_$c.log | head -5
done
