#!/bin/bash
# runs every registered check of a tier in sequence and prints a summary line per check
tier=${1:-quick}; shift
ids=${@:-$(python3 -c "import json;print(' '.join(sorted(k for k in json.load(open('checks.json')) if not k.startswith('_'))))")}
mkdir -p out
for c in $ids; do
  t0=$(date +%s)
  ./check $c --tier $tier > out/sweep_$c.log 2>&1; rc=$?
  t1=$(date +%s)
  echo "$c tier=$tier rc=$rc wall=$((t1-t0))s $(grep -c '^KNOWN-FINDING' out/sweep_$c.log) known $(grep '^check ' out/sweep_$c.log | tail -1)"
  grep -E '^VIOLATION|^INCONCLUSIVE|signature:' out/sweep_$c.log | head -5
done
