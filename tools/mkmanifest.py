#!/usr/bin/env python3
"""Regenerates /verif/MANIFEST.json from checks.json (+ properties.jsonl for the not_applicable list)."""
import json, os, subprocess
ROOT = os.path.dirname(os.path.dirname(os.path.abspath(__file__)))
conf = json.load(open(os.path.join(ROOT, "checks.json")))
props = [json.loads(l) for l in open(os.path.join(ROOT, "properties.jsonl")) if l.strip()]
na_reasons = conf.get("_not_applicable", {})
hooks = conf.get("_hooks", {})
checks = []
for p in props:
    cid = p["id"]
    c = conf.get(cid)
    if not c or c.get("disabled"):
        continue
    checks.append({
        "property_id": cid,
        "quick_cmd": "./check %s --tier quick" % cid,
        "thorough_cmd": "./check %s --tier thorough" % cid,
        "evidence_file": "/verif/evidence/%s.json" % cid,
        "replay_cmd_template": "./check %s --replay {path}" % cid,
        "engine": "rapid-harness",
        "level_claimed": {"category": c["level"], "text": c.get("level_text", ""), "design_ref": c.get("design_ref", "DESIGN.md §6 " + cid)},
        "level_note": c.get("level_note", ""),
        "technique": c.get("technique", "property-based testing (pgregory.net/rapid) against an explicit oracle"),
    })
claimed = {c["property_id"] for c in checks}
na = [{"property_id": p["id"], "reason": na_reasons.get(p["id"], "check not built yet; planned in DESIGN.md §6 " + p["id"])} for p in props if p["id"] not in claimed]
m = {
    "version": 1,
    "setup_cmd": "./check --setup",
    "hooks": {
        "guard": "verif",
        "enable": "go build/test -tags verif (the driver adds the tag to every build of /repo packages)",
        "baseline_off_cmd": "for m in . plugins/contrib; do (cd /repo/$m && go test -vet=off -count=1 -timeout 25m ./...) || exit 1; done",
        "source_commits": hooks.get("source_commits", []),
        "add_only": True,
    },
    "engines": [{"name": "rapid-harness", "path": "/verif/harness", "serves_properties": sorted(claimed),
                 "kind_free_text": "Go module with one test package per property: rapid (v1.3.0) generators and state machines, reference models, child executors, synctest bubbles and strace fault injection; driven by /verif/check"}],
    "checks": checks,
    "notes": conf.get("_notes", ""),
    "not_applicable": na,
}
json.dump(m, open(os.path.join(ROOT, "MANIFEST.json"), "w"), indent=1)
print("MANIFEST.json: %d checks, %d not_applicable" % (len(checks), len(na)))
