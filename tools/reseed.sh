#!/bin/bash
# Re-runs the stored seeded changes (all, or the ids given) against the current checks: confirms the demonstration and
# runs the check(s) recorded in the seed's meta.json. Prints one line per seed.
cd /verif
ids=${@:-$(ls seeded)}
for id in $ids; do
  tmp=$(mktemp -d /tmp/reseed.XXXXXX); mkdir -p $tmp/_seed; cp -r seeded/$id/* $tmp/_seed/
  checks=$(python3 -c "
import json
m=json.load(open('/verif/seeded/$id/meta.json'))
print(' '.join((m.get('verified_by_maintainer') or {}).get('checks',{}).keys()) or '$id'[:3])")
  out=$(tools/seedcheck.py $id $tmp $checks 2>&1 | grep -E "seed |check " | tr '\n' ' ')
  echo "$id: $out"
  rm -rf $tmp
done
