#!/usr/bin/env python3
"""Regenerates the seeded-change summary and table of DESIGN.md §17 from /verif/seeded/*/meta.json (idempotent)."""
import json, glob, os, re, subprocess
rows = []
n = conf = caught_first = caught_after = 0
for d in sorted(glob.glob('/verif/seeded/*/meta.json')):
    m = json.load(open(d)); v = m.get('verified_by_maintainer') or {}
    n += 1
    if v.get('confirmed'):
        conf += 1
    c = any(r['rc'] == 1 for r in v.get('checks', {}).values())
    note = m.get('maintainer_note', '')
    if c and re.search(r'first miss|first reported as inconclusive', note, re.I):
        caught_after += 1
    elif c:
        caught_first += 1
summary = ("%d seeded changes (%d properties, first round; a second round on %d of them; a third on four), %d confirmed by their demonstration in both directions. "
           "%d were reported by the registered quick check as it stood; %d were first missed (or only inconclusive) and are reported after the check was strengthened; "
           "%d is not reported by any check." % (
    n, len({json.load(open(d))['property'] for d in glob.glob('/verif/seeded/*-s1/meta.json')}),
    len(glob.glob('/verif/seeded/*-s2')), conf, caught_first, caught_after, n - caught_first - caught_after))
table = subprocess.check_output(['python3', '/verif/tools/seedtable.py'], text=True)
p = '/verif/DESIGN.md'
s = open(p).read()
def put(tag, text, s):
    b, e = '<!-- %s:begin -->' % tag, '<!-- %s:end -->' % tag
    block = b + '\n' + text.strip() + '\n' + e
    if b in s:
        return re.sub(re.escape(b) + r'.*?' + re.escape(e), lambda _: block, s, flags=re.S)
    return s.replace({'seedsummary': 'SEEDSUMMARY', 'seedtable': 'SEEDTABLE'}[tag], block)
s = put('seedsummary', summary, s)
s = put('seedtable', table, s)
open(p, 'w').write(s)
print(summary)
