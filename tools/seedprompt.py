#!/usr/bin/env python3
"""Prints the prompt for a fresh seeding sub-agent for one property (only the property text and a scratch worktree)."""
import json, sys
pid = sys.argv[1]
wt = sys.argv[2]
focus = sys.argv[3] if len(sys.argv) > 3 else ""   # second-round seeds: a clause of the statement to aim at
p = [json.loads(l) for l in open('/verif/properties.jsonl') if l.strip()]
p = [x for x in p if x['id'] == pid][0]
print(f"""You are testing how good a verification suite is by planting a realistic bug. You get a scratch git worktree of the Go project els0r/goProbe (packet-capture flow aggregator with goDB, a columnar time-partitioned flow database, a condition query language and a custom hash map) at {wt} . Work ONLY inside {wt} . Do not read or write anything under /verif, /repo or /root/.vp (those are off limits), and do not look for existing verification machinery: your change must be independent of it.

The property that goProbe is supposed to satisfy:

  Title: {p['title']}
  Statement: {p['statement']}
  It quantifies over: {', '.join(p['quantifier']['over'])} — {p['quantifier']['text']}
  Code it is anchored in: {', '.join(p['anchors']['files'])}

{("Aim specifically at this part of the property (other parts have been looked at already): " + focus + chr(10) + chr(10)) if focus else ""}Your task: make ONE small, realistic change to the goProbe source in the worktree (the kind of mistake a competent developer could make in a refactoring, an optimisation or a bug fix — not sabotage, no dead giveaways like comments saying it is a bug) that BREAKS this property, while
  (a) everything still compiles (`go build ./...` and `go vet ./<changed pkgs>`),
  (b) the existing test suite still passes, and
  (c) the breakage needs something specific to manifest — a particular interleaving, a crash or I/O fault at a particular point, a multi-step sequence of operations, an unusual input (boundary size, specific value class), a specific configuration, or two cooperating code sites that each look fine alone — NOT something ordinary use would expose at once (a change that makes every query wrong is useless).

Then write a demonstration: a Go test (preferred; a new *_test.go file in a suitable package of the worktree) or a small program that FAILS with your change and PASSES without it. Verify both directions yourself (save your change with `git diff > /tmp/<your-own-name>.diff`, undo it with `git apply -R`, re-apply with `git apply`; NEVER use `git stash`: the stash is shared between all worktrees of the repository and other people work in sibling worktrees).

Environment (offline sandbox, no network): run go commands inside the worktree with
  export GOPROXY=off    # do NOT set GOFLAGS or GOSUMDB (the worktree is a Go workspace)
`go test ./pkg/...` etc. work offline. The full existing suite is: `cd {wt} && go test -count=1 -timeout 25m ./...` (takes several minutes; pkg/e2etest ≈ 3 min, pkg/capture ≈ 1.5 min). One test, TestResolveInConditional in pkg/goDB/conditions/node, always fails in this sandbox because there is no DNS — ignore exactly that one. Run at least the packages you touched plus pkg/goDB/..., pkg/capture/..., pkg/query/..., pkg/results/..., cmd/... ; run the full suite once at the end. Always wrap long commands in `timeout`. Other people run go commands on this machine at the same time: never use `pkill`, `killall` or `kill` by name pattern — only kill process ids you started yourself. The worktree has some files guarded by the build tag `verif` (pkg/verifhook, export_verif.go files) — ignore them and do not change them.

Deliverables, all inside {wt}/_seed/ :
  - patch.diff : `git diff` of the source change only (without the demo file and without _seed/),
  - the demonstration file(s) (copy; say in meta.json where the test must be placed and how to run it),
  - meta.json : {{"property": "{pid}", "summary": "...", "what_it_needs_to_manifest": "...", "files_changed": [...], "demo": {{"place_at": "...", "run": "go test ./... -run ..."}}, "existing_tests_run": "what you ran and the result"}}.
Leave the worktree with your source change applied. In your final reply summarise the change, why existing tests do not notice it, what is needed to trigger it, and the exact commands you ran to confirm fail-with / pass-without.""")
