#!/usr/bin/env python3
"""Confirms a seeded change and runs the registered check(s) against it.

  tools/seedcheck.py <seed-id> <agent-worktree> [check ids to run ...]

1. copies <agent-worktree>/_seed/ to /verif/seeded/<seed-id>/
2. creates a scratch worktree of /repo HEAD, places the demonstration, runs it without the change (must pass),
   applies patch.diff, builds, runs the demonstration (must fail)
3. runs ./check <id> (quick) with VERIF_REPO pointing at the patched scratch worktree
4. records everything in /verif/seeded/<seed-id>/meta.json and removes the scratch worktree
"""
import json, os, shutil, subprocess, sys, time
sid, awt = sys.argv[1], sys.argv[2]
checks = sys.argv[3:] or [sid[:3]]
dst = "/verif/seeded/" + sid
src = os.path.join(awt, "_seed")
os.makedirs(dst, exist_ok=True)
try:
    prev_meta = json.load(open(os.path.join(dst, "meta.json")))
except Exception:
    prev_meta = {}
for f in os.listdir(src):
    if os.path.isdir(os.path.join(src, f)):
        if f != "logs":
            shutil.copytree(os.path.join(src, f), os.path.join(dst, f), dirs_exist_ok=True)
    elif os.path.getsize(os.path.join(src, f)) < 2_000_000:
        shutil.copy(os.path.join(src, f), dst)
meta = json.load(open(os.path.join(dst, "meta.json")))
wt = "/tmp/seedchk-" + sid
subprocess.run(["git", "-C", "/repo", "worktree", "remove", "--force", wt], capture_output=True)
subprocess.check_call(["git", "-C", "/repo", "worktree", "add", "-q", wt, "HEAD"])
env = dict(os.environ, GOPROXY="off")
env.pop("GOFLAGS", None)
def sh(cmd, timeout=1500):
    p = subprocess.run(cmd, shell=True, cwd=wt, env=env, capture_output=True, text=True, timeout=timeout)
    return p.returncode, (p.stdout + p.stderr)[-3000:]
demo = meta.get("demo", {})
place = (demo.get("place_at", "") or "").split(" ")[0].strip()
if len(sys.argv) > 3 and sys.argv[3].startswith("place="):
    place = sys.argv[3][6:]
    checks = sys.argv[4:] or [sid[:3]]
demofiles = [f for f in os.listdir(dst) if f.endswith(".go")]
if not demofiles and place:
    for dp, _, fns in os.walk(dst):
        for fn in fns:
            if os.path.join(dp, fn).endswith(place):
                shutil.copy(os.path.join(dp, fn), dst)
                demofiles = [fn]
conf = {}
# demonstrations that consist of several files: meta.demo.files {"_seed/<file>": "<path in the repository>"} or a
# directory demo/ that mirrors the repository layout
multi = {}
for k, v in (demo.get("files") or {}).items() if isinstance(demo.get("files"), dict) else []:
    f = os.path.join(dst, os.path.basename(k))
    if os.path.exists(f):
        multi[f] = v
if os.path.isdir(os.path.join(dst, "demo")):
    for dp, _, fns in os.walk(os.path.join(dst, "demo")):
        for fn in fns:
            if fn.endswith(".go"):
                multi[os.path.join(dp, fn)] = os.path.relpath(os.path.join(dp, fn), os.path.join(dst, "demo"))
try:
    if multi:
        for f, rel in multi.items():
            os.makedirs(os.path.dirname(os.path.join(wt, rel)), exist_ok=True)
            shutil.copy(f, os.path.join(wt, rel))
        place, demofiles = "", []
    if place and demofiles:
        target = os.path.join(wt, place)
        if place.endswith(".go"):
            os.makedirs(os.path.dirname(target), exist_ok=True)
            shutil.copy(os.path.join(dst, demofiles[0]), target)
        else:
            os.makedirs(target, exist_ok=True)
            for f in demofiles:
                shutil.copy(os.path.join(dst, f), target)
    runcmd = demo.get("run", "")
    if os.environ.get("SEED_RUN"):
        runcmd = os.environ["SEED_RUN"]
    runcmd = runcmd.replace("export GOPROXY=off;", "").replace("export GOPROXY=off &&", "").split("#")[0].strip()
    import re as _re
    runcmd = _re.sub(r"^cd \S+ && ", "", runcmd)
    runcmd = _re.sub(r"^cp \S+ \S+ && ", "", runcmd)
    runcmd = _re.sub(r"^GOPROXY=off ", "", runcmd)
    runcmd = "timeout 900 " + runcmd
    rc0, out0 = sh(runcmd)
    conf["demo_without_change"] = {"rc": rc0, "tail": out0[-400:]}
    rc, out = sh("git apply " + os.path.join(dst, "patch.diff"))
    if rc != 0:
        # the tree has moved on since the change was written (later fix: / hook commits): three-way merge
        rc, out = sh("git apply -3 " + os.path.join(dst, "patch.diff") + " && git reset -q")
        conf["apply_three_way"] = True
    conf["apply"] = rc
    rcb, outb = sh("go build ./... ")
    conf["build_with_change"] = rcb
    rc1, out1 = sh(runcmd)
    conf["demo_with_change"] = {"rc": rc1, "tail": out1[-600:]}
    ok = rc0 == 0 and rcb == 0 and rc1 != 0
    conf["confirmed"] = ok
    print("seed %s: demo without change rc=%d, with change rc=%d, build rc=%d -> %s" % (sid, rc0, rc1, rcb, "CONFIRMED" if ok else "NOT CONFIRMED"))
    # remove the demo file(s) so that the harness builds only see the source change
    for rel in multi.values():
        os.remove(os.path.join(wt, rel))
    if place and demofiles:
        if place.endswith(".go"):
            os.remove(os.path.join(wt, place))
        else:
            for f in demofiles:
                os.remove(os.path.join(wt, place, f))
    res = {}
    for cid in checks:
        t0 = time.time()
        p = subprocess.run(["./check", cid, "--tier", "quick"], cwd="/verif", env=dict(os.environ, VERIF_REPO=wt), capture_output=True, text=True)
        sig = [l.strip() for l in p.stdout.splitlines() if l.strip().startswith("signature:")]
        res[cid] = {"rc": p.returncode, "signatures": sig[:3], "wall_s": round(time.time() - t0, 1)}
        print("  check %s on the seeded tree: rc=%d %s (%.0fs)" % (cid, p.returncode, sig[:2], time.time() - t0))
        open(os.path.join(dst, "check_%s.log" % cid), "w").write(p.stdout[-8000:])
    conf["checks"] = res
finally:
    subprocess.run(["git", "-C", "/repo", "worktree", "remove", "--force", wt], capture_output=True)
    import hashlib
    shutil.rmtree(os.path.join("/verif/.build", "alt-" + hashlib.sha1(os.path.abspath(wt).encode()).hexdigest()[:10]), ignore_errors=True)
prev = prev_meta.get("verified_by_maintainer") or {}
if prev_meta.get("maintainer_note") and not meta.get("maintainer_note"):
    meta["maintainer_note"] = prev_meta["maintainer_note"]
if prev.get("checks") and conf.get("checks") is not None:
    merged = dict(prev["checks"]); merged.update(conf["checks"]); conf["checks"] = merged
meta["verified_by_maintainer"] = conf
meta["repo_head"] = subprocess.check_output(["git", "-C", "/repo", "rev-parse", "--short", "HEAD"], text=True).strip()
json.dump(meta, open(os.path.join(dst, "meta.json"), "w"), indent=1)
