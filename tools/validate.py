#!/opt/veriftools/pyvenv/bin/python
"""Validates MANIFEST.json and every evidence file against the schemas."""
import json, sys, glob, jsonschema
ms = json.load(open('/root/.vp/MANIFEST.schema.json')); es = json.load(open('/root/.vp/EVIDENCE.schema.json'))
jsonschema.validate(json.load(open('/verif/MANIFEST.json')), ms)
ok = True
for f in sorted(glob.glob('/verif/evidence/*.json')):
    try:
        jsonschema.validate(json.load(open(f)), es)
    except Exception as e:
        ok = False; print("INVALID", f, str(e)[:300])
print("valid" if ok else "INVALID")
sys.exit(0 if ok else 1)
