#!/usr/bin/env python3
"""Prints the markdown table of seeded changes (for DESIGN.md §17) from /verif/seeded/*/meta.json."""
import json, glob, os
print("| seed | property | change (needs … to manifest) | confirmed | caught by (signature) | missed by |")
print("|---|---|---|---|---|---|")
for d in sorted(glob.glob('/verif/seeded/*/meta.json')):
    m = json.load(open(d)); sid = os.path.basename(os.path.dirname(d))
    v = m.get('verified_by_maintainer', {})
    caught = []; missed = []
    for cid, r in v.get('checks', {}).items():
        if r['rc'] == 1:
            caught.append("%s (%s)" % (cid, "; ".join(s.replace('signature: ', '') for s in r['signatures'][:2])[:110]))
        else:
            missed.append("%s (rc %d)" % (cid, r['rc']))
    extra = m.get('maintainer_note', '')
    summ = (m.get('summary', '')[:170] + '…').replace('|', '/').replace('\n', ' ')
    need = (m.get('what_it_needs_to_manifest', '')[:150] + '…').replace('|', '/').replace('\n', ' ')
    print("| %s | %s | %s **Needs:** %s | %s | %s | %s %s |" % (sid, m.get('property'), summ, need, 'yes' if v.get('confirmed') else 'NO', "; ".join(caught) or '—', "; ".join(missed) or '—', extra))
