// C11 — query results do not depend on parallelism or memory mode, and queries end.
package c11

import (
	"fmt"
	"net/netip"
	"os"
	"strings"
	"testing"
	"time"

	"github.com/els0r/goProbe/v4/pkg/goDB/encoder/encoders"
	"github.com/els0r/goProbe/v4/pkg/query"
	"pgregory.net/rapid"

	"verifharness/internal/evid"
	"verifharness/internal/execpool"
	"verifharness/internal/gen"
	"verifharness/internal/model"
	"verifharness/internal/qgen"
)

func TestMain(m *testing.M) {
	evid.Rule("(a) a reference database with 40–120 consecutive day directories (more than one 32-directory workload) and a generated query (generator of C08) is run in an executor child under every configuration of numProcessingUnits ∈ {1,2,3,4,8,16} (hook) × low-memory on/off × GOMAXPROCS ∈ {1,2,16} (quick: a drawn subset of 6 configurations, thorough: the full grid), " +
		"rows/totals/hits must equal the reference aggregation in every configuration and the block/directory statistics must be identical across configurations with no corrupted blocks; " +
		"(b) termination: databases with D ∈ {100, 2100 (quick), 4200 (thorough)} one-block day directories queried with 1 and 2 processing units: the child must answer; a child that does not answer is asked for a goroutine dump and only a structural deadlock witness (producer blocked in chan send inside CreateWorkerJobs, no worker goroutine) counts as a violation, anything else is inconclusive; " +
		"(c) owned schedules: the query runs in-process inside a synctest bubble on a database of 40–130 day directories with 2–4 workers; all its goroutines park at the step points compiled into goProbe's file operations and a cooperative scheduler releases one at a time following a rapid-drawn schedule (choice list plus run lengths: uniform interleaving, sticky runs, starvation); rows must equal the reference aggregation, statistics/hits/totals those of the single-worker run; every goroutine durably blocked with none at a step point after ten minutes of bubble time is a deadlock; " +
		"non-trivial = ≥ 2 configurations compared on a database with > 32 day directories in range, or D > 64·32·units, or (schedules) ≥ 2 workers performed column reads with ≥ 2 switches between them; distinct by (database, query, configuration set / schedule)")
	evid.Assume("liveness is judged only through a structural deadlock witness, never through a timeout alone",
		"in the configuration part goroutine schedules are varied through GOMAXPROCS, worker count and repetition and are not owned; in the schedule part they are owned at the granularity of goProbe's instrumented file operations")
	evid.Main(m)
}

var child = execpool.New(execpool.Bin("gpexec"), "TZ=UTC")

const day0 = int64(1262304000) // 2010-01-01

func bigDB(days int, t *rapid.T) *model.DB {
	db := &model.DB{Ifaces: map[string][]model.Block{}}
	var blocks []model.Block
	for d := 0; d < days; d++ {
		ts := day0 + int64(d)*86400 + 300*int64(1+d%200)
		var flows []model.Flow
		if t != nil && rapid.IntRange(0, 14).Draw(t, fmt.Sprintf("d%d.dense", d)) == 0 {
			// a dense day: enough distinct flows of both IP versions for the per-worker result maps to use their
			// overflow buckets and to grow (keys and counters derived from a few draws)
			n := rapid.IntRange(60, 220).Draw(t, fmt.Sprintf("d%d.ndense", d))
			base := rapid.IntRange(0, 3).Draw(t, fmt.Sprintf("d%d.base", d)) // overlapping key ranges across days
			for i := 0; i < n; i++ {
				k := base*50 + i
				var f model.Flow
				if i%3 == 2 {
					f = gen.FlowOf(fmt.Sprintf("2001:db8:1::%x", k+1), "2001:db8::1", 443, 6)
				} else {
					f = gen.FlowOf(fmt.Sprintf("10.20.%d.%d", k/250, 1+k%250), "10.0.0.2", uint16(53+k%3), 17)
				}
				f.PR, f.BR = uint64(1+k%5), uint64(64*(1+k%5))
				if k%4 == 0 {
					f.PS, f.BS = 1, 60
				}
				flows = append(flows, f)
			}
		} else if t != nil {
			n := rapid.IntRange(0, 3).Draw(t, fmt.Sprintf("d%d.n", d))
			seen := map[string]bool{}
			for i := 0; i < n; i++ {
				f := gen.DrawFlowKey(t, fmt.Sprintf("d%d.f%d", d, i), 0)
				k := fmt.Sprint(f.Sip, f.Dip, f.Dport, f.Proto)
				if seen[k] {
					continue
				}
				seen[k] = true
				f.PR, f.BR = uint64(1+d%7), uint64(64*(1+d%7))
				if d%3 == 0 {
					f.PS, f.BS = 2, 128
				}
				flows = append(flows, f)
			}
		} else {
			flows = []model.Flow{{Sip: netip.MustParseAddr("10.0.0.1"), Dip: netip.MustParseAddr("10.0.0.2"), Dport: 80, Proto: 6, PR: 1, BR: 64}}
		}
		blocks = append(blocks, model.Block{Ts: ts, Flows: flows})
	}
	db.Ifaces["eth0"] = blocks
	return db
}

type cfg struct {
	units, procs int
	lowmem       bool
}

func (c cfg) String() string { return fmt.Sprintf("units=%d lowmem=%v GOMAXPROCS=%d", c.units, c.lowmem, c.procs) }

func allCfgs() []cfg {
	var out []cfg
	for _, u := range []int{1, 2, 3, 4, 8, 16} {
		for _, l := range []bool{false, true} {
			for _, p := range []int{1, 2, 16} {
				out = append(out, cfg{u, p, l})
			}
		}
	}
	return out
}

func TestC11Configs(t *testing.T) {
	rapid.Check(t, func(t *rapid.T) {
		days := rapid.IntRange(40, 120).Draw(t, "days")
		db := bigDB(days, t)
		dir, err := os.MkdirTemp(os.Getenv("VERIF_WORK"), "c11-")
		if err != nil {
			t.Fatalf("tempdir: %v", err)
		}
		defer os.RemoveAll(dir)
		if err := gen.WriteDB(db, dir, encoders.EncoderTypeLZ4); err != nil {
			t.Fatalf("harness: %v", err)
		}
		q := qgen.Draw(t, db, qgen.Opts{Cond: gen.CondOpts{MaxDepth: 2}, WideRange: true})
		want, merr := db.Aggregate(q.Spec)
		if merr != nil {
			t.Fatalf("reference: %v", merr)
		}
		cfgs := allCfgs()
		if !evid.Thorough() {
			perm := rapid.Permutation(cfgs).Draw(t, "cfgs")
			cfgs = perm[:6]
		}
		daysInRange := 0
		for _, b := range db.Ifaces["eth0"] {
			if b.Ts >= q.Spec.First-86400 && b.Ts <= q.Spec.Last+86400 {
				daysInRange++
			}
		}
		nt := daysInRange > 32
		evid.Case(fmt.Sprintf("%d|%s|%v", days, q.Desc, cfgs), nt, fmt.Sprintf("configs:%d", len(cfgs)))
		if evid.WantSample(nt) {
			evid.Sample(map[string]any{"days": days, "query": q.Desc, "configs": fmt.Sprint(cfgs), "expected_rows": len(want)}, nt)
		}
		type st struct{ dirs, blocks, corrupted, workloads uint64 }
		var ref *st
		var refCfg cfg
		for _, c := range cfgs {
			q.Args.LowMem = c.lowmem
			var resp qgen.Response
			cerr := child.Call(qgen.Request{Op: "query", DB: dir, Args: &q.Args, Units: c.units, Procs: c.procs}, &resp, 60*time.Second)
			ctx := fmt.Sprintf("%s; %d days; %s", c, days, q.Desc)
			if cerr != nil {
				if ce, ok := execpool.IsCrash(cerr); ok {
					if ce.Kind == "hang" && !ce.Deadlock {
						evid.Class("inconclusive:no-answer-within-bound")
						t.Logf("inconclusive (no structural deadlock witness): %s %s", ce.Signature, ctx)
						return
					}
					t.Fatalf("%s\n%s", evid.Sig("C11:crash:"+ce.Signature, "the query process died or deadlocked: %s\n  %s", ce.Signature, ctx), ce.Stderr)
				}
				t.Fatalf("harness: %v", cerr)
			}
			if resp.Err != "" {
				t.Fatalf("%s", evid.Sig("C11:query-error", "%s: %s", ctx, resp.Err))
			}
			got, bad := qgen.RowsOf(resp.Result, q.Spec)
			if bad != "" {
				t.Fatalf("%s", evid.Sig("C11:row-shape", "%s: %s", ctx, bad))
			}
			if kind, detail := qgen.Diff(got, want); kind != "" {
				t.Fatalf("%s", evid.Sig("C11:"+kind, "%s: %s", ctx, detail))
			}
			if resp.Result.Summary.Hits.Total != len(want) {
				t.Fatalf("%s", evid.Sig("C11:hits", "%s: hits %d, rows %d", ctx, resp.Result.Summary.Hits.Total, len(want)))
			}
			s := resp.Result.Summary.Stats
			if s == nil {
				t.Fatalf("%s", evid.Sig("C11:stats", "%s: no statistics in the result", ctx))
			}
			cur := &st{s.DirectoriesProcessed, s.BlocksProcessed, s.BlocksCorrupted, s.Workloads}
			if cur.corrupted != 0 {
				t.Fatalf("%s", evid.Sig("C11:stats", "%s: %d corrupted blocks on an intact database", ctx, cur.corrupted))
			}
			if ref == nil {
				ref, refCfg = cur, c
			} else if *ref != *cur {
				t.Fatalf("%s", evid.Sig("C11:stats-differ", "statistics differ between configurations: %s -> %+v, %s -> %+v; %s", refCfg, *ref, c, *cur, q.Desc))
			}
		}
	})
}

// TestC11Termination: many day directories, few processing units.
func TestC11Termination(t *testing.T) {
	sizes := evid.Pick([]int{100, 2100}, []int{100, 2100, 4200})
	for _, d := range sizes {
		db := bigDB(d, nil)
		dir, err := os.MkdirTemp(os.Getenv("VERIF_WORK"), "c11big-")
		if err != nil {
			t.Fatalf("tempdir: %v", err)
		}
		if err := gen.WriteDB(db, dir, encoders.EncoderTypeNull); err != nil {
			os.RemoveAll(dir)
			t.Fatalf("harness: %v", err)
		}
		for _, units := range []int{1, 2, 16} {
			args := query.Args{Query: "sip,dip,dport,proto", Ifaces: "eth0", First: fmt.Sprintf("%d", day0-1000), Last: fmt.Sprintf("%d", day0+int64(d+2)*86400),
				Format: "json", MaxMemPct: 100, NumResults: 1 << 40, DNSResolution: query.DNSResolution{Timeout: time.Second, MaxRows: 25}}
			nt := d > 64*32*units
			evid.Case(fmt.Sprintf("termination|%d|%d", d, units), nt, fmt.Sprintf("days:%d", d), fmt.Sprintf("units:%d", units))
			evid.Sample(map[string]any{"kind": "termination", "day_directories": d, "units": units}, nt)
			var resp qgen.Response
			cerr := child.Call(qgen.Request{Op: "query", DB: dir, Args: &args, Units: units, Procs: 1}, &resp, 45*time.Second)
			ctx := fmt.Sprintf("%d day directories, %d processing unit(s)", d, units)
			if cerr != nil {
				os.RemoveAll(dir)
				if ce, ok := execpool.IsCrash(cerr); ok {
					if ce.Kind == "hang" && !ce.Deadlock {
						t.Fatalf("INCONCLUSIVE[%s] %s", ce.Signature, ctx)
					}
					if ce.Deadlock {
						t.Fatalf("%s", evid.Sig("C11:deadlock", "query over %s never ends: %s\n%s", ctx, ce.Signature, firstLines(ce.Stderr, 40)))
					}
					t.Fatalf("%s\n%s", evid.Sig("C11:crash:"+ce.Signature, "the query process died: %s (%s)", ce.Signature, ctx), ce.Stderr)
				}
				t.Fatalf("harness: %v", cerr)
			}
			if resp.Err != "" {
				os.RemoveAll(dir)
				t.Fatalf("%s", evid.Sig("C11:query-error", "%s: %s", ctx, resp.Err))
			}
			tot := resp.Result.Summary.Totals
			if tot.PacketsRcvd != uint64(d) || len(resp.Result.Rows) != 1 {
				os.RemoveAll(dir)
				t.Fatalf("%s", evid.Sig("C11:rows-missing", "%s: %d rows, %d packets; want 1 row with %d packets", ctx, len(resp.Result.Rows), tot.PacketsRcvd, d))
			}
			if s := resp.Result.Summary.Stats; s == nil || s.DirectoriesProcessed != uint64(d) || s.BlocksProcessed != uint64(d) {
				os.RemoveAll(dir)
				t.Fatalf("%s", evid.Sig("C11:stats", "%s: statistics %+v, want %d directories and blocks", ctx, s, d))
			}
		}
		os.RemoveAll(dir)
	}
}

func firstLines(s string, n int) string {
	l := strings.Split(s, "\n")
	if len(l) > n {
		l = l[:n]
	}
	return strings.Join(l, "\n")
}
