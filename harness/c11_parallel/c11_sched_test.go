// C11 (schedule part) — the worker goroutines of one query are run under schedules the harness owns.
package c11

import (
	"bytes"
	"context"
	"fmt"
	"os"
	"runtime"
	"sort"
	"strconv"
	"strings"
	"sync"
	"testing"
	"testing/synctest"
	"time"

	"github.com/els0r/goProbe/v4/pkg/goDB/encoder/encoders"
	"github.com/els0r/goProbe/v4/pkg/goDB/engine"
	"github.com/els0r/goProbe/v4/pkg/results"
	"github.com/els0r/goProbe/v4/pkg/types/workload"
	"github.com/els0r/goProbe/v4/pkg/verifhook"
	"pgregory.net/rapid"

	"verifharness/internal/evid"
	"verifharness/internal/gen"
	"verifharness/internal/qgen"
)

func gid() int64 {
	var buf [64]byte
	n := runtime.Stack(buf[:], false)
	f := bytes.Fields(buf[:n])
	id, _ := strconv.ParseInt(string(f[1]), 10, 64)
	return id
}

type parked struct {
	g     int64
	point string
	ch    chan struct{}
}

type coop struct {
	mu     sync.Mutex
	parked []*parked
}

func (s *coop) step(point string) {
	p := &parked{g: gid(), point: point[:strings.IndexByte(point+" ", ' ')], ch: make(chan struct{})}
	s.mu.Lock()
	s.parked = append(s.parked, p)
	s.mu.Unlock()
	<-p.ch
}

type schedOutcome struct {
	res          *results.Result
	err          error
	inconclusive string
	deadlock     string // structural witness: every goroutine of the query is durably blocked, none at a step point, no timer pending
	steps        int
	readers      map[int64]int // goroutine -> number of column reads it performed
	switches     int           // changes of the running goroutine between two consecutive column reads of different workers
	trace        []string
}

// runScheduled runs one query inside a synctest bubble; every goroutine of the query parks at the step points
// compiled into goProbe's file operations and exactly one parked goroutine is released at a time.
func runScheduled(tt *testing.T, dir string, q *qgen.Query, units int, choices, runLens []int) (oc schedOutcome) {
	oc.readers = map[int64]int{}
	defer func() {
		// synctest panics when the bubble is left with blocked goroutines: expected after a deadlock witness
		if r := recover(); r != nil {
			if oc.deadlock == "" {
				panic(r)
			}
		}
	}()
	synctest.Test(tt, func(_ *testing.T) {
		s := &coop{}
		verifhook.SetStepFn(s.step)
		defer verifhook.SetStepFn(nil)
		old := engine.VerifSetNumProcessingUnits(units)
		defer engine.VerifSetNumProcessingUnits(old)

		var (
			mu   sync.Mutex
			done bool
		)
		go func() {
			args := q.Args
			r, err := engine.NewQueryRunner(dir).Run(context.Background(), &args)
			mu.Lock()
			oc.res, oc.err, done = r, err, true
			mu.Unlock()
		}()

		var (
			cur      int64 = -1
			runLeft  int
			lastRead int64 = -1
			names          = map[int64]string{}
		)
		for tick := 0; tick < 2_000_000; tick++ {
			synctest.Wait()
			mu.Lock()
			d := done
			mu.Unlock()
			s.mu.Lock()
			n := len(s.parked)
			if d && n == 0 {
				s.mu.Unlock()
				return
			}
			if n == 0 {
				s.mu.Unlock()
				// synctest.Wait returned, so every goroutine of the bubble is durably blocked (channel, select, WaitGroup,
				// Cond, sleep — not I/O, not a mutex). Let ten minutes of bubble time pass so that every ticker and
				// timer of the query fires (memory watcher, keep-alive); if still nothing is parked at a step point
				// and the query has not returned, no goroutine of it can ever make progress again.
				for round := 0; round < 10 && n == 0 && !d; round++ {
					time.Sleep(time.Minute)
					synctest.Wait()
					mu.Lock()
					d = done
					mu.Unlock()
					s.mu.Lock()
					n = len(s.parked)
					s.mu.Unlock()
				}
				if d && n == 0 {
					return
				}
				if n > 0 {
					continue
				}
				buf := make([]byte, 1<<20)
				buf = buf[:runtime.Stack(buf, true)]
				oc.deadlock = blockedSummary(string(buf))
				return
			}
			pick := -1
			if runLeft > 0 {
				for i, p := range s.parked {
					if p.g == cur {
						pick = i
						runLeft--
						break
					}
				}
			}
			if pick < 0 {
				pick = choices[tick%len(choices)] % n
				runLeft = runLens[tick%len(runLens)]
			}
			p := s.parked[pick]
			s.parked = append(s.parked[:pick], s.parked[pick+1:]...)
			s.mu.Unlock()
			cur = p.g
			oc.steps++
			if _, ok := names[p.g]; !ok {
				names[p.g] = fmt.Sprintf("g%d", len(names))
			}
			if p.point == "gpfile.read" {
				oc.readers[p.g]++
				if lastRead >= 0 && lastRead != p.g {
					oc.switches++
				}
				lastRead = p.g
			}
			if len(oc.trace) < 300 {
				oc.trace = append(oc.trace, names[p.g]+":"+strings.TrimPrefix(strings.TrimPrefix(p.point, "gpfile."), "gpdir."))
			}
			close(p.ch)
		}
		oc.inconclusive = "step bound reached"
	})
	return
}

// TestC11Schedules: the same query under harness-owned schedules of its worker goroutines must return the rows of
// the reference aggregation and the statistics of the single-worker run.
func TestC11Schedules(tt *testing.T) {
	rapid.Check(tt, func(t *rapid.T) {
		days := rapid.IntRange(40, 130).Draw(t, "days")
		db := bigDB(days, t)
		dir, err := os.MkdirTemp(os.Getenv("VERIF_WORK"), "c11s-")
		if err != nil {
			t.Fatalf("tempdir: %v", err)
		}
		defer os.RemoveAll(dir)
		if err := gen.WriteDB(db, dir, encoders.EncoderTypeLZ4); err != nil {
			t.Fatalf("harness: %v", err)
		}
		q := qgen.Draw(t, db, qgen.Opts{Cond: gen.CondOpts{MaxDepth: 2}, WideRange: true})
		q.Args.LowMem = rapid.Bool().Draw(t, "lowmem")
		// the subject is the interplay of several workloads: ranges that cover at most one workload (32 day
		// directories) are widened to the whole database (range boundaries are C08's subject)
		if inRange := (q.Spec.Last - q.Spec.First) / 86400; inRange < 36 {
			q.Spec.First, q.Spec.Last = day0-1000, day0+int64(days+1)*86400
			q.Args.First, q.Args.Last = fmt.Sprint(q.Spec.First), fmt.Sprint(q.Spec.Last)
			q.Desc += fmt.Sprintf(" [range widened to %d..%d]", q.Spec.First, q.Spec.Last)
		}
		want, merr := db.Aggregate(q.Spec)
		if merr != nil {
			t.Fatalf("reference: %v", merr)
		}
		units := rapid.SampledFrom([]int{2, 2, 3, 4}).Draw(t, "units")
		choices := rapid.SliceOfN(rapid.IntRange(0, 63), 4, 48).Draw(t, "choices")
		runLens := rapid.SliceOfN(rapid.SampledFrom([]int{0, 0, 0, 0, 1, 1, 2, 3, 5, 8, 13, 40, 200, 100000}), 1, 8).Draw(t, "runLens")

		// single worker, default order: the statistics every schedule has to reproduce
		seq := runScheduled(tt, dir, q, 1, []int{0}, []int{0})
		if seq.inconclusive != "" {
			evid.Class("inconclusive:" + seq.inconclusive)
			return
		}
		if seq.deadlock != "" {
			t.Fatalf("%s", evid.Sig("C11:sched-deadlock", "the query never ends with a single worker: every goroutine is blocked for good (%s); %d days; %s", seq.deadlock, days, q.Desc))
		}
		oc := runScheduled(tt, dir, q, units, choices, runLens)
		if oc.inconclusive != "" {
			evid.Class("inconclusive:" + oc.inconclusive)
			return
		}
		if oc.deadlock != "" {
			t.Fatalf("%s", evid.Sig("C11:sched-deadlock", "the query never ends under this schedule: every goroutine is blocked for good (%s); units=%d lowmem=%v; %d days; %s; choices=%v runLens=%v\n  schedule: %s",
				oc.deadlock, units, q.Args.LowMem, days, q.Desc, choices, runLens, strings.Join(oc.trace, " ")))
		}
		active := 0
		for _, n := range oc.readers {
			if n > 0 {
				active++
			}
		}
		nt := active >= 2 && oc.switches >= 2
		swClass := "switches:0"
		switch {
		case oc.switches >= 100:
			swClass = "switches:100+"
		case oc.switches >= 10:
			swClass = "switches:10-99"
		case oc.switches >= 2:
			swClass = "switches:2-9"
		case oc.switches == 1:
			swClass = "switches:1"
		}
		evid.Case(fmt.Sprintf("sched|%d|%s|%d|%v|%v|%v", days, q.Desc, units, q.Args.LowMem, choices, runLens), nt,
			fmt.Sprintf("sched-units:%d", units), fmt.Sprintf("sched-active-workers:%d", active), "sched-"+swClass)
		if evid.WantSample(nt) {
			evid.Sample(map[string]any{"kind": "owned schedule", "days": days, "query": q.Desc, "units": units, "lowmem": q.Args.LowMem,
				"steps": oc.steps, "active_workers": active, "worker_switches": oc.switches, "schedule_head": strings.Join(head(oc.trace, 40), " ")}, nt)
		}
		ctx := fmt.Sprintf("units=%d lowmem=%v; %d days; %s; choices=%v runLens=%v\n  schedule: %s", units, q.Args.LowMem, days, q.Desc, choices, runLens, strings.Join(oc.trace, " "))
		if seq.err != nil {
			// the query is rejected independently of any schedule (nothing to compare)
			if oc.err == nil {
				t.Fatalf("%s", evid.Sig("C11:sched-error-differs", "the single-worker run failed (%v), the scheduled run did not; %s", seq.err, ctx))
			}
			return
		}
		if oc.err != nil {
			t.Fatalf("%s", evid.Sig("C11:sched-query-error", "%v; %s", oc.err, ctx))
		}
		got, bad := qgen.RowsOf(oc.res, q.Spec)
		if bad != "" {
			t.Fatalf("%s", evid.Sig("C11:sched-row-shape", "%s; %s", bad, ctx))
		}
		if kind, detail := qgen.Diff(got, want); kind != "" {
			t.Fatalf("%s", evid.Sig("C11:sched-"+kind, "%s; %s", detail, ctx))
		}
		a, b := seq.res.Summary.Stats, oc.res.Summary.Stats
		if a == nil || b == nil {
			t.Fatalf("%s", evid.Sig("C11:sched-stats", "no statistics in the result; %s", ctx))
		}
		if b.BlocksCorrupted != 0 {
			t.Fatalf("%s", evid.Sig("C11:sched-stats", "%d corrupted blocks on an intact database; %s", b.BlocksCorrupted, ctx))
		}
		if a.DirectoriesProcessed != b.DirectoriesProcessed || a.BlocksProcessed != b.BlocksProcessed || a.Workloads != b.Workloads || a.BytesLoaded != b.BytesLoaded || a.BytesDecompressed != b.BytesDecompressed {
			t.Fatalf("%s", evid.Sig("C11:sched-stats-differ", "statistics of the scheduled run (%s) differ from the single-worker run (%s); %s", statStr(b), statStr(a), ctx))
		}
		if oc.res.Summary.Hits.Total != seq.res.Summary.Hits.Total || oc.res.Summary.Totals != seq.res.Summary.Totals {
			t.Fatalf("%s", evid.Sig("C11:sched-summary-differs", "hits/totals %+v %+v differ from the single-worker run %+v %+v; %s", oc.res.Summary.Hits, oc.res.Summary.Totals, seq.res.Summary.Hits, seq.res.Summary.Totals, ctx))
		}
	})
}

// blockedSummary lists the goProbe frames the goroutines of a dump are blocked in.
func blockedSummary(dump string) string {
	var out []string
	for _, g := range strings.Split(dump, "\n\n") {
		if !strings.Contains(g, "els0r/goProbe") || strings.Contains(g, "c11_parallel.runScheduled") {
			continue
		}
		lines := strings.Split(g, "\n")
		state := lines[0]
		where := ""
		for _, l := range lines[1:] {
			if strings.HasPrefix(l, "github.com/els0r/goProbe") {
				where = l[:strings.IndexByte(l+"(", '(')]
				where = where[strings.LastIndexByte(where, '/')+1:]
				break
			}
		}
		if i := strings.Index(state, "["); i >= 0 {
			state = strings.TrimSuffix(state[i:], ":")
			if j := strings.Index(state, ","); j >= 0 {
				state = state[:j] + "]"
			}
			if j := strings.Index(state, " (durable)"); j >= 0 {
				state = state[:j] + "]"
			}
		}
		out = append(out, where+" "+state)
	}
	sort.Strings(out)
	return strings.Join(out, "; ")
}

func statStr(s *workload.Stats) string {
	return fmt.Sprintf("dirs %d blocks %d workloads %d loaded %d decompressed %d", s.DirectoriesProcessed, s.BlocksProcessed, s.Workloads, s.BytesLoaded, s.BytesDecompressed)
}

func head(s []string, n int) []string {
	if len(s) > n {
		return s[:n]
	}
	return s
}
