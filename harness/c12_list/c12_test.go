// C12 — interface summaries equal the data stored in the listed range and agree with a query.
package c12

import (
	"bytes"
	"encoding/json"
	"fmt"
	"os"
	"os/exec"
	"strings"
	"sync"
	"testing"
	"time"
	_ "time/tzdata"

	"github.com/els0r/goProbe/v4/pkg/goDB/encoder/encoders"
	"github.com/els0r/goProbe/v4/pkg/query"
	"pgregory.net/rapid"

	"verifharness/internal/evid"
	"verifharness/internal/execpool"
	"verifharness/internal/gen"
	"verifharness/internal/model"
	"verifharness/internal/qgen"
)

func TestMain(m *testing.M) {
	evid.Rule("a reference database (generator of C08: drops > 0, both families, several days around month/year boundaries) and a range (first,last) from the boundary set {block ts, ±1, ±300, between blocks, day start ±1/±300, before and after all data}; " +
		"the interface summary is obtained with the call sequence of `goQuery list` (NewDBWorkManager(NewMetadataQuery()).ReadMetadata) in an executor child with a generated TZ and compared with the sum over the model blocks with first <= ts <= last (IPv4/IPv6 flow counts, drops, four counters); " +
		"differential: the counters must equal Summary.Totals of an unconditioned engine query over the same interface and range; non-trivial = a bound lies strictly inside the data and is not a block timestamp, or lies on a day boundary; distinct by (database, interface, range, zone)")
	evid.Assume("block time in range means first <= block end timestamp <= last, the filter of the query engine, with which the property requires listings to agree",
		"ranges with first <= last only")
	evid.Main(m)
}

var (
	poolMu   sync.Mutex
	children = map[string]*execpool.Child{}
)

func child(tz string) *execpool.Child {
	poolMu.Lock()
	defer poolMu.Unlock()
	c, ok := children[tz]
	if !ok {
		c = execpool.New(execpool.Bin("gpexec"), "TZ="+tz)
		children[tz] = c
	}
	return c
}

type meta struct {
	Iface  string `json:"iface"`
	Counts struct {
		BR uint64 `json:"br"`
		BS uint64 `json:"bs"`
		PR uint64 `json:"pr"`
		PS uint64 `json:"ps"`
	} `json:"counts"`
	Traffic struct {
		V4    uint64 `json:"num_v4_entries"`
		V6    uint64 `json:"num_v6_entries"`
		Drops uint64 `json:"num_drops"`
	} `json:"traffic"`
}

type summary struct {
	V4, V6, Drops uint64
	C             model.Counters
}

func TestC12List(t *testing.T) {
	zs := []string{"UTC", "America/New_York", "Asia/Kolkata"}
	if evid.Thorough() {
		zs = append(zs, "Europe/Zurich", "Pacific/Auckland")
	}
	rapid.Check(t, func(t *rapid.T) {
		tz := rapid.SampledFrom(zs).Draw(t, "tz")
		loc, _ := time.LoadLocation(tz)
		db := gen.DrawDB(t, gen.DBOpts{MaxIfaces: 2, MaxBlocksDay: 4})
		if len(db.Ifaces) == 0 {
			t.Skip("empty database")
		}
		dir, err := os.MkdirTemp(os.Getenv("VERIF_WORK"), "c12-")
		if err != nil {
			t.Fatalf("tempdir: %v", err)
		}
		defer os.RemoveAll(dir)
		old := time.Local
		time.Local = loc
		werr := gen.WriteDB(db, dir, encoders.EncoderTypeLZ4)
		time.Local = old
		if werr != nil {
			t.Fatalf("harness: writing the reference database failed: %v", werr)
		}
		for r := 0; r < 3; r++ {
			ifc := rapid.SampledFrom(db.IfaceNames()).Draw(t, fmt.Sprintf("r%d.iface", r))
			bounds := qgen.Boundaries(db, []string{ifc})
			i := rapid.IntRange(0, len(bounds)-1).Draw(t, fmt.Sprintf("r%d.first", r))
			j := rapid.IntRange(i, len(bounds)-1).Draw(t, fmt.Sprintf("r%d.last", r))
			first, last := bounds[i], bounds[j]
			blocks := db.Ifaces[ifc]
			var want summary
			isTs := map[int64]bool{}
			for _, b := range blocks {
				isTs[b.Ts] = true
				if b.Ts < first || b.Ts > last {
					continue
				}
				want.Drops += b.Drops
				for _, f := range b.Flows {
					if f.IsV4() {
						want.V4++
					} else {
						want.V6++
					}
					want.C.Add(f)
				}
			}
			lo, hi := blocks[0].Ts, blocks[len(blocks)-1].Ts
			inside := func(v int64) bool { return v > lo && v < hi && !isTs[v] }
			dayB := func(v int64) bool { return v%86400 == 0 && v >= lo-86400 && v <= hi+86400 }
			nt := inside(first) || inside(last) || dayB(first) || dayB(last)
			var cls []string
			if inside(first) || inside(last) {
				cls = append(cls, "bound-between-blocks")
			}
			if dayB(first) || dayB(last) {
				cls = append(cls, "bound-on-day-boundary")
			}
			if last < lo {
				cls = append(cls, "range-before-data")
			}
			if first > hi {
				cls = append(cls, "range-after-data")
			}
			cls = append(cls, "tz:"+tz)
			canon := fmt.Sprintf("%s|%s|%d|%d|%v", tz, ifc, first, last, gen.DescribeDB(db))
			evid.Case(canon, nt, cls...)
			if evid.WantSample(nt) {
				evid.Sample(map[string]any{"tz": tz, "iface": ifc, "first": first, "last": last, "db": gen.DescribeDB(db), "expected": fmt.Sprintf("%+v", want)}, nt)
			}
			ctx := fmt.Sprintf("TZ=%s iface=%s first=%d last=%d\n  blocks of %s: %s", tz, ifc, first, last, ifc, describe(blocks))

			var resp qgen.Response
			cerr := child(tz).Call(qgen.Request{Op: "list", DB: dir, Iface: ifc, First: first, Last: last}, &resp, 60*time.Second)
			if cerr != nil {
				if ce, ok := execpool.IsCrash(cerr); ok {
					if ce.Kind == "hang" {
						evid.Class("inconclusive:no-answer-within-bound")
						t.Logf("inconclusive (no structural deadlock witness): %s %s", ce.Signature, ctx)
						return
					}
					t.Fatalf("%s\n%s", evid.Sig("C12:crash:"+ce.Signature, "the listing process died: %s\n  %s", ce.Signature, ctx), ce.Stderr)
				}
				t.Fatalf("harness: %v", cerr)
			}
			var got summary
			if resp.Err != "" {
				// a range without any data may be reported as an error or as an empty summary
				if want == (summary{}) {
					evid.Class("empty-range-reported-as-error")
					continue
				}
				t.Fatalf("%s", evid.Sig("C12:list-error", "listing failed: %s\n  %s", resp.Err, ctx))
			}
			var m meta
			if err := json.Unmarshal(resp.Meta, &m); err != nil {
				t.Fatalf("harness: decode metadata %s: %v", resp.Meta, err)
			}
			got = summary{V4: m.Traffic.V4, V6: m.Traffic.V6, Drops: m.Traffic.Drops, C: model.Counters{BR: m.Counts.BR, BS: m.Counts.BS, PR: m.Counts.PR, PS: m.Counts.PS}}
			if got != want {
				sig := "C12:summary"
				switch {
				case got.C == want.C && got.V4 == want.V4 && got.V6 == want.V6:
					sig = "C12:summary-drops"
				case got.Drops == want.Drops:
					sig = "C12:summary-flows-counters"
				}
				t.Fatalf("%s", evid.Sig(sig, "listing reports %+v, blocks in range sum to %+v\n  %s", got, want, ctx))
			}
			// the command itself: `goQuery list [ifaces]` (cmd/goQuery/cmd/list.go) with JSON output, for every fourth range
			// (thorough: every eighth); the arguments name the interface alone, twice, together with another existing
			// interface or with a name the database does not have, or no interface at all
			if rapid.IntRange(0, evid.Pick(3, 7)).Draw(t, fmt.Sprintf("r%d.cli", r)) == 0 {
				sumOf := func(name string) summary {
					var w summary
					for _, b := range db.Ifaces[name] {
						if b.Ts < first || b.Ts > last {
							continue
						}
						w.Drops += b.Drops
						for _, f := range b.Flows {
							if f.IsV4() {
								w.V4++
							} else {
								w.V6++
							}
							w.C.Add(f)
						}
					}
					return w
				}
				names := db.IfaceNames()
				other := names[rapid.IntRange(0, len(names)-1).Draw(t, fmt.Sprintf("r%d.cli.other", r))]
				var ifArgs []string
				argKind := rapid.SampledFrom([]string{"one", "one", "twice", "with-other", "other-first-and-twice", "with-unknown", "none"}).Draw(t, fmt.Sprintf("r%d.cli.args", r))
				switch argKind {
				case "one":
					ifArgs = []string{ifc}
				case "twice":
					ifArgs = []string{ifc, ifc}
				case "with-other":
					ifArgs = []string{ifc, other}
				case "other-first-and-twice":
					ifArgs = []string{other, ifc, other}
				case "with-unknown":
					ifArgs = []string{"nosuch0", ifc}
				}
				expect := map[string]bool{}
				for _, a := range ifArgs {
					if _, ok := db.Ifaces[a]; ok {
						expect[a] = true
					}
				}
				if argKind == "none" {
					for _, n := range names {
						expect[n] = true
					}
				}
				cmd := exec.Command(execpool.Bin("goquery"), append([]string{"-d", dir, "-e", "json", "-f", fmt.Sprint(first), "-l", fmt.Sprint(last), "list"}, ifArgs...)...)
				cmd.Env = append(os.Environ(), "TZ="+tz)
				var stdout, stderr bytes.Buffer
				cmd.Stdout, cmd.Stderr = &stdout, &stderr
				cerr := cmd.Run()
				evid.Class("route:goquery-list-command")
				evid.Class("route:goquery-list-command:args-" + argKind)
				cctx := fmt.Sprintf("goQuery list %s\n  %s", strings.Join(ifArgs, " "), ctx)
				if cerr != nil {
					t.Fatalf("%s", evid.Sig("C12:cli-list-error", "goQuery list failed although the same listing through the library succeeded: %v %s\n  %s", cerr, firstLine(stderr.String()), cctx))
				}
				var ms []meta
				if err := json.Unmarshal(stdout.Bytes(), &ms); err != nil {
					t.Fatalf("%s", evid.Sig("C12:cli-list-output", "goQuery list -e json printed %q (%v)\n  %s", firstLine(stdout.String()), err, cctx))
				}
				listed := map[string]int{}
				for _, m := range ms {
					listed[m.Iface]++
					got2 := summary{V4: m.Traffic.V4, V6: m.Traffic.V6, Drops: m.Traffic.Drops, C: model.Counters{BR: m.Counts.BR, BS: m.Counts.BS, PR: m.Counts.PR, PS: m.Counts.PS}}
					if !expect[m.Iface] {
						t.Fatalf("%s", evid.Sig("C12:cli-interfaces", "goQuery list reports interface %q, which was not requested (or does not exist)\n  %s", m.Iface, cctx))
					}
					if w := sumOf(m.Iface); got2 != w {
						t.Fatalf("%s", evid.Sig("C12:cli-summary", "goQuery list reports %+v for %s, blocks in range sum to %+v\n  %s", got2, m.Iface, w, cctx))
					}
				}
				for n := range expect {
					if listed[n] != 1 {
						t.Fatalf("%s", evid.Sig("C12:cli-interfaces", "goQuery list reports interface %s %d times, want once (listed: %v)\n  %s", n, listed[n], listed, cctx))
					}
				}
			}
			// differential: totals of an unconditioned query over the same interface and range
			q := &qgen.Query{Args: query.Args{Query: "sip,dip,dport,proto", Ifaces: ifc, First: fmt.Sprintf("%d", first), Last: fmt.Sprintf("%d", last),
				Format: "json", MaxMemPct: 100, NumResults: 1 << 40, DNSResolution: query.DNSResolution{Timeout: time.Second, MaxRows: 25}}}
			qr, qerr := qgen.Run(child(tz), dir, q, 0)
			if qerr != nil || qr.Err != "" {
				t.Fatalf("%s", evid.Sig("C12:query-error", "query over the same range failed: %v %s\n  %s", qerr, qr.Err, ctx))
			}
			tot := qr.Result.Summary.Totals
			if (model.Counters{BR: tot.BytesRcvd, BS: tot.BytesSent, PR: tot.PacketsRcvd, PS: tot.PacketsSent}) != got.C {
				t.Fatalf("%s", evid.Sig("C12:differs-from-query", "listing reports counters %+v, the query over the same interface and range totals %+v\n  %s", got.C, tot, ctx))
			}
		}
	})
}

func firstLine(s string) string {
	s = strings.TrimSpace(s)
	if i := strings.IndexByte(s, '\n'); i >= 0 {
		s = s[:i]
	}
	if len(s) > 300 {
		s = s[:300]
	}
	return s
}

func describe(bs []model.Block) string {
	var s []string
	for _, b := range bs {
		var c model.Counters
		v4, v6 := 0, 0
		for _, f := range b.Flows {
			c.Add(f)
			if f.IsV4() {
				v4++
			} else {
				v6++
			}
		}
		s = append(s, fmt.Sprintf("[ts=%d v4=%d v6=%d drops=%d %+v]", b.Ts, v4, v6, b.Drops, c))
	}
	return strings.Join(s, " ")
}
