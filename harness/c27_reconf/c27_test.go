// C27 — capture reconfiguration converges to the configured interfaces without data loss.
//
// A real capture.Manager (capture.InitManager: real GoDB write-out handler, temporary database, the 300 s
// write-out scheduler) runs inside a testing/synctest bubble on in-memory packet sources. The host's interfaces
// are {eth0, eth1, eth2, wlan0, lo} (capture.VerifSetHostLinksFn). A case is a rapid-drawn sequence of
// configurations (explicit names, regular-expression keys incl. overlapping ones, auto-detection with excludes,
// parameter changes, `disable`), packets (a capharness packet script is the pool) delivered to whatever runs
// between the updates, clock gaps between updates of 0 s / < 1 s / 1 s / >= 2 s / across scheduled write-outs /
// just short of one, and a final Manager.Close. Everything is drawn outside the bubble; the bubble returns
// observations and a verdict as values.
//
// Schedule: the error logger of a stopped capture (Manager.logErrors) parks at the step point
// "capture.logErrors:closed <iface>" (pkg/verifhook). Per update the script decides whether the parked loggers run
// before the replacement capture is registered (released from the source-init function) or only after Update has
// returned.
//
// Oracle, after every Update (and again after the error loggers ran, and after the configuration was applied a
// second time):
//  1. running set: Manager.Config, Manager.Status and the open sources agree, and equal the interfaces the latest
//     configuration selects according to an independent reference (stdlib regexp over the universe; auto-detection =
//     universe minus excludes; an explicit name wins over regular expressions; `disable: true` = not captured);
//  2. applying the same configuration again reports no enabled / updated / disabled interface and restarts nothing;
//  3. every capture runs with ((*Capture).VerifConfig) the configuration the reference derives; where competing
//     regular expressions leave the choice open any candidate is accepted, but the whole sequence is repeated on
//     fresh managers and must yield the same observations every time; Manager.Config reports that configuration;
//  4. conservation per interface name: the sum of the counters of all blocks in the database after Close equals
//     the sum over the successfully parsed packets delivered to that interface's sources.
package c27

import (
	"fmt"
	"os"
	"sort"
	"strings"
	"testing"

	"pgregory.net/rapid"

	"verifharness/c20_capture/capharness"
	"verifharness/internal/evid"
)

func TestMain(m *testing.M) {
	evid.Rule("rapid draws outside the bubble: the order in which the host enumerates its interfaces (the 2-3 executions of a sequence use it as drawn, reversed and rotated; they must agree on every interface's state and configuration), 2-7 configurations over the host interfaces {eth0, eth1, eth2, wlan0, lo} — fresh ones (1-3 explicit names, 1-3 regular-expression keys from a pool with overlapping, anchored, " +
		"catch-all and non-matching patterns, both, or auto-detection with 0-3 excludes incl. regular expressions and names that do not exist), the previous one again (periodic reload), or the previous one with one change " +
		"(promisc, ring buffer, ignore_vlans, extra BPF filter, disable, entry added / removed, exclude added / removed); per step 0-5 packets from a capharness packet script (both families, TCP/UDP/ICMP/other, malformed ones) " +
		"to interfaces the previous configuration selects; instants: coarse sleep (none / 1 ms..120 s / 300..900 s across scheduled write-outs / up to 2 s..1 ms before the next scheduled write-out), packets, fine sleep " +
		"{0, 1 ms, 0.4 s, 0.999 s, 1 s, 1.5 s, 2 s, 7 s}; optional second application of every configuration; per update whether the error loggers of stopped captures run before the replacement is registered or after Update returned; final packets and Close. " +
		"Each case is executed 2-3 times on fresh managers. non-trivial = an interface with un-rotated (successfully parsed) traffic is removed or reconfigured by an Update; distinct by the script text")
	evid.Assume("the reference semantics of a configuration are taken from the documentation: IfaceName 'can also be a regexp matcher (e.g. \"/^eth[0-9]+$/\")' evaluated with stdlib regexp.MatchString on the host's interface names; "+
		"FindMatch 'first check for direct match, then check regexp matchers'; auto-detection 'will automatically detect interfaces available on the host (except for the excluded ones)' with the default capture configuration; "+
		"Disable 'explicitly disables capture on this interface'. Among several matching regular expressions no precedence is documented: any candidate is accepted and only determinism is demanded",
		"only configurations that pass Config.Validate are generated (every real caller validates: file reload, PUT /config); explicit names are taken from the host's interfaces",
		"write-outs an interface must have gone through are derived from the observed life of its sources: one at every scheduled instant (multiples of 300 s) while a source was open, one when a source is closed by an Update or by Close; "+
			"conservation itself does not depend on this (sum of all blocks = sum of parsed packets); the timestamps (scheduled instant; now + 1 s for reconfigurations) are used only to attribute a loss to finding "+fF19d,
		"successfully parsed = capharness.Packet.OK (ParsePacketV4/V6, verified by C19); counters by packet type as in C20; only decisive conversations are used",
		"schedule ownership: time, packet delivery, the instants of updates and scheduled write-outs, and the wake-up of the error loggers relative to the registration of a replacement capture are owned (synctest + verifhook step point); "+
			"the manager's parallel enable / disable goroutines inside one Update run under the Go scheduler",
		"the driver never acts in the same fake instant as the write-out scheduler (instants that are multiples of 300 s are moved by 1 µs)",
		"a case ends at the first hit of an open known finding; triggers of the findings are drawn per case (TestC27Reconf: each with probability 1/3) or excluded by construction (TestC27ReconfExcluding: all of them): "+
			fF19a+" competing regular expressions get equal parameters; "+fF19b+" ignore_vlans and the BPF filter are functions of (promisc, ring buffer) within a case; "+fF19c+" no disable entries; "+
			fF19d+" reconfiguration instants are moved so that now + 1 s (whole seconds) is later than the previous reconfiguration write-out and not a scheduled instant; "+fF26+" the error loggers always run before the replacement is registered")
	evid.Main(m)
}

func allDisabled(c []params) bool {
	for _, p := range c {
		if !p.Disable {
			return false
		}
	}
	return len(c) > 0
}

type staleInfo struct {
	Released []string        // interfaces of the error loggers that were let run
	Killed   []*instance     // captures whose source was closed while they ran
	Created  map[string]bool // interfaces whose previous capture this Update stopped
}

func describe(o map[string]ifObs) string {
	var s []string
	for _, n := range universe {
		if x, ok := o[n]; ok {
			s = append(s, n+x.String())
		}
	}
	return strings.Join(s, " ")
}

func candText(c []params) string {
	if len(c) == 0 {
		return "not selected"
	}
	var s []string
	for _, p := range c {
		s = append(s, p.String())
	}
	return strings.Join(s, " | ")
}

// checkPoint is clauses 1 and 3 of the oracle at one check point.
func checkPoint(s *seq, pt *point, exp, prevExp map[string][]params, stale *staleInfo) *verdict {
	st := s.Steps[pt.Step]
	where := fmt.Sprintf("step %d (%s, %s) configuration %v", pt.Step, st.Kind, pt.Phase, st.Cfg)
	for n := range pt.Obs {
		if !inUniverse(n) {
			return &verdict{Clause: "running-set-surplus", Text: fmt.Sprintf("%s: %s is reported / running but is no interface of the host: %v", where, n, pt.Obs[n])}
		}
	}
	for _, n := range universe {
		o, cands := pt.Obs[n], exp[n]
		var enabled []params
		mayNotRun := len(cands) == 0
		for _, p := range cands {
			if p.Disable {
				mayNotRun = true
			} else {
				enabled = append(enabled, p)
			}
		}
		switch {
		case !o.running() && !o.absent():
			return &verdict{Clause: "running-set-inconsistent", Text: fmt.Sprintf("%s: the observations of %s disagree: %v (expected: %s)\nall: %s", where, n, o, candText(cands), describe(pt.Obs))}
		case o.running() && len(enabled) == 0:
			if allDisabled(cands) {
				return &verdict{Known: fF19c, Clause: "disable-not-honoured", Text: fmt.Sprintf("%s: %s is captured (%v) although the entry that applies to it says `disable: true`", where, n, o)}
			}
			return &verdict{Clause: "running-set-surplus", Text: fmt.Sprintf("%s: %s is running %v but the configuration does not select it\nall: %s", where, n, o, describe(pt.Obs))}
		case o.absent() && !mayNotRun:
			if stale != nil && stale.Created[n] {
				released := false
				for _, x := range stale.Released {
					released = released || x == n
				}
				for _, k := range stale.Killed {
					if k.Iface == n && k.Step == pt.Step && released {
						return &verdict{Known: fF26, Clause: "replacement-torn-down", Text: fmt.Sprintf("%s: %s was reconfigured (previous capture stopped, capture #%d started and registered). After Update returned %s was running; "+
							"then the error logger of the stopped capture ran (step point %q) and closed / unregistered capture #%d: %s is not running although the configuration selects it (%s)", where, n, k.ID, n, stepPrefix+n, k.ID, n, candText(cands))}
					}
				}
			}
			return &verdict{Clause: "running-set-missing", Text: fmt.Sprintf("%s: %s is not running %v but the configuration selects it with %s\nall: %s", where, n, o, candText(cands), describe(pt.Obs))}
		case o.absent():
			continue
		}
		// running and selected: the configuration it runs with
		match := false
		for _, p := range enabled {
			match = match || p.text() == o.Verif
		}
		if !match {
			for _, p := range cands {
				if p.Disable && p.text() == o.Verif {
					return &verdict{Known: fF19c, Clause: "disable-not-honoured", Text: fmt.Sprintf("%s: %s is captured with the `disable: true` entry as its configuration (%v); candidates: %s", where, n, o, candText(cands))}
				}
			}
			if o.InstStep < pt.Step {
				for _, p := range enabled {
					if loudText(p.captureConfig()) == o.Loud {
						return &verdict{Known: fF19b, Clause: "change-not-applied", Text: fmt.Sprintf("%s: %s keeps running with the configuration of step %d [%s]; the latest configuration demands [%s] — "+
							"they differ only in ignore_vlans / extra_bpf_filters, which CaptureConfig.Equals does not compare, so the capture was not restarted", where, n, o.InstStep, o.Verif, p.text())}
					}
				}
			}
			return &verdict{Clause: "stale-config", Text: fmt.Sprintf("%s: %s runs with [%s] (capture #%d created in step %d); the configuration demands %s", where, n, o.Verif, o.Inst, o.InstStep, candText(enabled))}
		}
		if o.ConfCfg != o.Verif {
			if len(cands) > 1 {
				for _, p := range cands {
					if p.text() == o.ConfCfg {
						return &verdict{Known: fF19a, Clause: "overlap-random-choice", Text: fmt.Sprintf("%s: competing regular expressions for %s (%s): the capture runs with [%s] but Manager.Config reports [%s] — "+
							"a later application chose another entry (Go map order in IfaceMatcher.FindMatch)", where, n, candText(cands), o.Verif, o.ConfCfg)}
					}
				}
			}
			return &verdict{Clause: "config-report", Text: fmt.Sprintf("%s: Manager.Config reports [%s] for %s, the capture runs with [%s]", where, o.ConfCfg, n, o.Verif)}
		}
	}
	return nil
}

// checkReapply is clause 2: the second application of a configuration changes nothing.
func checkReapply(s *seq, pt *point, exp map[string][]params, closed map[string]bool, created int) *verdict {
	involved := map[string]bool{}
	for _, l := range pt.Changes {
		for _, n := range l {
			involved[n] = true
		}
	}
	for n := range closed {
		involved[n] = true
	}
	if len(involved) == 0 && created == 0 {
		return nil
	}
	st := s.Steps[pt.Step]
	text := fmt.Sprintf("step %d: applying configuration %v a second time reports enabled=%v updated=%v disabled=%v; captures stopped: %v, captures started: %d",
		pt.Step, st.Cfg, pt.Changes[0], pt.Changes[1], pt.Changes[2], keys(closed), created)
	amb := len(involved) > 0
	for n := range involved {
		amb = amb && len(exp[n]) > 1
	}
	if amb {
		return &verdict{Known: fF19a, Clause: "overlap-random-choice", Text: text + fmt.Sprintf(" — every interface involved is matched by competing regular expressions with different parameters (%s): the entry is chosen in Go map order", candText(exp[keys(involved)[0]]))}
	}
	return &verdict{Clause: "reapply-not-idempotent", Text: text}
}

func keys(m map[string]bool) []string {
	out := []string{}
	for k := range m {
		out = append(out, k)
	}
	sort.Strings(out)
	return out
}

// compareRuns is the determinism part of clause 3: the same sequence on a fresh manager yields the same observations.
func compareRuns(s *seq, a, b *runResult, ia, ib int) *verdict {
	for i := 0; i < len(a.Points) && i < len(b.Points); i++ {
		pa, pb := a.Points[i], b.Points[i]
		if pa.Step != pb.Step || pa.Phase != pb.Phase {
			return &verdict{Clause: "nondeterministic", Text: fmt.Sprintf("execution %d reaches check point %d at step %d (%s), execution %d at step %d (%s)", ia, i, pa.Step, pa.Phase, ib, pb.Step, pb.Phase)}
		}
		exp := reference(s.Steps[pa.Step].Cfg)
		for _, n := range universe {
			oa, ob := pa.Obs[n], pb.Obs[n]
			if oa.running() == ob.running() && oa.Verif == ob.Verif && oa.ConfCfg == ob.ConfCfg {
				continue
			}
			text := fmt.Sprintf("step %d (%s) configuration %v: %s is %v in execution %d and %v in execution %d of the same sequence", pa.Step, pa.Phase, s.Steps[pa.Step].Cfg, n, oa, ia, ob, ib)
			if len(exp[n]) > 1 {
				return &verdict{Known: fF19a, Clause: "overlap-random-choice", Text: text + fmt.Sprintf(" — %s is matched by competing regular expressions (%s): the entry applied is not a function of the configuration (Go map order, or the order in which the host enumerates its interfaces: %v / %v)", n, candText(exp[n]), linkOrder(s.Links, ia-1), linkOrder(s.Links, ib-1))}
			}
			return &verdict{Clause: "nondeterministic", Text: text}
		}
	}
	if len(a.Points) != len(b.Points) {
		return &verdict{Clause: "nondeterministic", Text: fmt.Sprintf("execution %d has %d check points, execution %d has %d", ia, len(a.Points), ib, len(b.Points))}
	}
	return nil
}

// linkOrder is the host's enumeration order in the k-th execution of a sequence.
func linkOrder(drawn []string, k int) []string {
	if len(drawn) == 0 {
		drawn = universe
	}
	out := append([]string(nil), drawn...)
	switch k % 3 {
	case 1:
		for i, j := 0, len(out)-1; i < j; i, j = i+1, j-1 {
			out[i], out[j] = out[j], out[i]
		}
	case 2:
		out = append(out[2%len(out):], out[:2%len(out)]...)
	}
	return out
}

func sumWOs(w []writeOut) (c capharness.Counters) {
	for _, x := range w {
		c.Add(x.Tot)
	}
	return
}

func describeWOs(w []writeOut) string {
	var s []string
	for _, x := range w {
		s = append(s, fmt.Sprintf("%d(%s, step %d, capture #%d):%v", x.Ts, x.Kind, x.Step, x.Inst, x.Tot))
	}
	return "[" + strings.Join(s, " ") + "]"
}

func describeBlocks(bs []capharness.Block) string {
	var s []string
	for _, b := range bs {
		s = append(s, fmt.Sprintf("%d:%v", b.Ts, b.Flows.Totals()))
	}
	return "[" + strings.Join(s, " ") + "]"
}

// checkEnd is clause 4 (conservation per interface name) on the database read back after Close.
func checkEnd(s *seq, res *runResult) *verdict {
	logs := ""
	if len(res.Logs) > 0 {
		logs = "\nerror log: " + strings.Join(res.Logs, " | ")
	}
	if res.ReadErr != nil {
		return &verdict{Clause: "database-unreadable", Text: fmt.Sprintf("reading the database back: %v%s", res.ReadErr, logs)}
	}
	if len(res.Extra) > 0 {
		return &verdict{Clause: "foreign-interface-directory", Text: fmt.Sprintf("the database contains %v, which are no interfaces of the host", res.Extra)}
	}
	// harness self-check: everything delivered is part of exactly one write-out (or was pending in a torn-down capture)
	deliv := map[string]capharness.Counters{}
	for _, in := range res.Insts {
		c := deliv[in.Iface]
		c.Add(in.total)
		deliv[in.Iface] = c
	}
	for _, n := range universe {
		want := sumWOs(res.WOs[n])
		if deliv[n] != want {
			return &verdict{Clause: "harness-accounting", Text: fmt.Sprintf("harness: %s: delivered %v, write-outs account for %v", n, deliv[n], want)}
		}
		var got capharness.Counters
		for _, b := range res.Blocks[n] {
			got.Add(b.Flows.Totals())
		}
		if got == want {
			continue
		}
		// a write-out whose timestamp an earlier write-out of the same interface carries already is rejected by the
		// database ("timestamp already present"): its traffic is gone
		seen := map[int64]writeOut{}
		var loss capharness.Counters
		var wit []string
		for _, w := range res.WOs[n] {
			if first, dup := seen[w.Ts]; dup {
				loss.Add(w.Tot)
				if w.Tot != (capharness.Counters{}) {
					wit = append(wit, fmt.Sprintf("write-out of capture #%d (%s, step %d) carries timestamp %d like the earlier write-out of capture #%d (%s, step %d) and holds %v", w.Inst, w.Kind, w.Step, w.Ts, first.Inst, first.Kind, first.Step, w.Tot))
				}
				continue
			}
			seen[w.Ts] = w
		}
		sum := got
		sum.Add(loss)
		present := false
		for _, l := range res.Logs {
			present = present || (strings.Contains(l, "already present") && strings.Contains(l, "iface="+n))
		}
		text := fmt.Sprintf("%s: the blocks in the database hold %v, the successfully parsed packets delivered to the interface sum to %v\n  blocks:     %s\n  write-outs: %s\n  in memory before Close: %v%s",
			n, got, want, describeBlocks(res.Blocks[n]), describeWOs(res.WOs[n]), res.Live[n], logs)
		if len(wit) > 0 && sum == want && present {
			return &verdict{Known: fF19d, Clause: "writeout-timestamp-collision", Text: fmt.Sprintf("%s: %s — the database rejected the block (\"timestamp already present\"), the traffic is lost (reconfiguration write-outs are stamped now + 1 s in whole seconds)\n%s", n, strings.Join(wit, "; "), text)}
		}
		return &verdict{Clause: "conservation", Text: text}
	}
	return nil
}

// ---------------------------------------------------------------- evidence

func caseClasses(s *seq, res *runResult) []string {
	set := map[string]bool{}
	set["triggers:"+s.allowText()] = true
	set[fmt.Sprintf("steps:%d", len(s.Steps))] = true
	set[fmt.Sprintf("executions:%d", s.Repeat)] = true
	for i, st := range s.Steps {
		set["config:"+st.Kind] = true
		if i > 0 {
			set["gap:"+st.GapCls] = true
			if st.Stamped {
				set["update-stamped-at-scheduled-instant"] = true
			}
		}
		if st.Cfg.Auto {
			set["kind:auto-detection"] = true
		} else {
			re, ex := false, false
			for _, e := range st.Cfg.Entries {
				if isRegexpKey(e.Key) {
					re = true
				} else {
					ex = true
				}
				if e.P.Disable {
					set["entry:disable"] = true
				}
			}
			switch {
			case re && ex:
				set["kind:explicit+regexp"] = true
			case re:
				set["kind:regexp"] = true
			default:
				set["kind:explicit"] = true
			}
			same, diff := st.Cfg.overlapping()
			if same {
				set["overlap:equal-parameters"] = true
			}
			if diff {
				set["overlap:different-parameters"] = true
			}
		}
		if len(reference(st.Cfg)) == 0 {
			set["selects-nothing"] = true
		}
		if st.Reapply {
			set["reapplied"] = true
		}
		if i > 0 {
			set["stale-loggers:"+lateText(st.Late)] = true
		}
	}
	set["gap-before-close:"+s.Final.GapCls] = true
	if res.NT {
		set["nontrivial"] = true
	}
	if res.Removed > 0 {
		set["interface-removed"] = true
	}
	if res.Reconf > 0 {
		set["interface-reconfigured"] = true
	}
	if res.Sched > 0 {
		set["scheduled-writeout"] = true
	}
	var out []string
	for k := range set {
		out = append(out, k)
	}
	return out
}

func fatal(rt *rapid.T, s *seq, v *verdict, exec int) {
	rt.Fatalf("%s", evid.Sig("C27:"+v.Clause, "%s\n(execution %d of %d)\nsequence:\n%s", v.Text, exec, s.Repeat, s.Canon()))
}

// known handles a verdict that carries a finding; it returns true if the case is explained.
func known(rt *rapid.T, s *seq, v *verdict, exec int) bool {
	if v.Known == "" {
		fatal(rt, s, v, exec)
	}
	if !s.Allow[v.Known] {
		v.Clause = "excluded-trigger-occurred/" + v.Clause
		v.Text = "the triggers of " + v.Known + " are excluded from this case, yet: " + v.Text
		fatal(rt, s, v, exec)
	}
	evid.Class("known:" + v.Clause)
	if evid.Known(v.Known, v.Text) {
		return true
	}
	fatal(rt, s, v, exec)
	return false
}

func runCase(t *testing.T, rt *rapid.T, allow map[string]bool) {
	s := drawSeq(rt, allow)
	canon := s.Canon()
	for f, n := range s.NExcl {
		for i := 0; i < n; i++ {
			evid.Excluded(f)
		}
	}
	var results []*runResult
	for k := 0; k < s.Repeat; k++ {
		// the executions differ in nothing but the order in which the host enumerates its interfaces:
		// as drawn, reversed, rotated by two
		sk := *s
		sk.Links = linkOrder(s.Links, k)
		res := execute(t, &sk)
		results = append(results, res)
		if res.Panic != "" || res.Err != nil || res.V != nil {
			break
		}
	}
	first := results[0]
	cl := caseClasses(s, first)
	evid.Case(canon, first.NT, cl...)
	evid.ClassN("packets-delivered", int64(first.Deliv))
	evid.ClassN("packets-skipped-nothing-running", int64(first.Skipped))
	evid.ClassN("captures-started", int64(len(first.Insts)))
	evid.ClassN("captures-removed-by-update", int64(first.Removed))
	evid.ClassN("captures-reconfigured-by-update", int64(first.Reconf))
	evid.ClassN("nontrivial-removals", int64(first.NTSteps))
	evid.ClassN("error-loggers-parked", int64(first.Stale))
	evid.ClassN("scheduled-writeouts", int64(first.Sched))
	if evid.WantSample(first.NT) {
		c := canon
		if len(c) > 2400 {
			c = c[:2400] + "…"
		}
		evid.Sample(map[string]any{"sequence": strings.Split(c, "\n"), "removed": first.Removed, "reconfigured": first.Reconf, "delivered": first.Deliv}, first.NT)
	}

	for k, res := range results {
		switch {
		case res.V != nil:
			// (a verdict reached inside the bubble wins over trouble while leaving the bubble afterwards)
			if known(rt, s, res.V, k+1) {
				return
			}
		case res.Panic != "":
			fatal(rt, s, &verdict{Clause: "panic", Text: "panic inside the bubble: " + res.Panic}, k+1)
		case res.Err != nil:
			fatal(rt, s, &verdict{Clause: "capture-stalled", Text: fmt.Sprintf("%v\nerror log: %s", res.Err, strings.Join(res.Logs, " | "))}, k+1)
		}
	}
	for k := 1; k < len(results); k++ {
		if v := compareRuns(s, results[0], results[k], 1, k+1); v != nil {
			if known(rt, s, v, k+1) {
				return
			}
		}
	}
	for k, res := range results {
		if v := checkEnd(s, res); v != nil {
			if known(rt, s, v, k+1) {
				return
			}
		}
	}
}

// allowFromEnv lets a run be restricted to the triggers of chosen findings: VERIF_C27_ALLOW=F19a,F26 | all | none.
func allowFromEnv() (map[string]bool, bool) {
	v := os.Getenv("VERIF_C27_ALLOW")
	if v == "" {
		return nil, false
	}
	a := map[string]bool{}
	for _, f := range allFindings {
		for _, x := range strings.Split(v, ",") {
			if x == "all" || "C27-"+strings.TrimSpace(x) == f {
				a[f] = true
			}
		}
	}
	return a, true
}

// TestC27Reconf searches the whole domain: per case the triggers of each finding are allowed with probability 1/3
// (at least one of them).
func TestC27Reconf(t *testing.T) {
	rapid.Check(t, func(rt *rapid.T) {
		allow, fixed := allowFromEnv()
		if !fixed {
			allow = map[string]bool{}
			for _, f := range allFindings {
				if rapid.IntRange(0, 2).Draw(rt, "allow."+f) == 0 {
					allow[f] = true
				}
			}
			if len(allow) == 0 {
				allow[rapid.SampledFrom(allFindings).Draw(rt, "allow.one")] = true
			}
		}
		runCase(t, rt, allow)
	})
}

// TestC27ReconfExcluding searches everything the findings do not touch: their triggers are excluded by construction.
func TestC27ReconfExcluding(t *testing.T) {
	rapid.Check(t, func(rt *rapid.T) { runCase(t, rt, map[string]bool{}) })
}
