package c27

import (
	"context"
	"errors"
	"fmt"
	"log/slog"
	"os"
	"path/filepath"
	"runtime/debug"
	"sort"
	"strings"
	"sync"
	"sync/atomic"
	"testing"
	"testing/synctest"
	"time"

	"github.com/els0r/goProbe/v4/cmd/goProbe/config"
	"github.com/els0r/goProbe/v4/pkg/capture"
	"github.com/els0r/goProbe/v4/pkg/capture/capturetypes"
	"github.com/els0r/goProbe/v4/pkg/types/hashmap"
	"github.com/els0r/goProbe/v4/pkg/verifhook"
	"github.com/els0r/telemetry/logging"
	"github.com/fako1024/gotools/link"
	slimcap "github.com/fako1024/slimcap/capture"

	"verifharness/c20_capture/capharness"
)

// deliverTimeout is the fake-clock bound on every blocking interaction of the driver with a capture.
const deliverTimeout = 5 * time.Second

const stepPrefix = "capture.logErrors:closed "

// ---------------------------------------------------------------- packet source

type delivery struct {
	layer   []byte
	pktType byte
	size    uint32
}

// source is an in-memory slimcap SourceZeroCopy (the recipe of capharness.Source without pause windows): packet
// delivery is an unbuffered hand-off, Unblock a buffered signal, Close closes a channel.
type source struct {
	name  string
	pkts  chan delivery
	unblk chan struct{}
	stop  chan struct{}
	once  sync.Once

	mu     sync.Mutex
	parked bool
	closed bool
	last   []byte
	recv   uint64
}

func newSource(name string) *source {
	return &source{name: name, pkts: make(chan delivery), unblk: make(chan struct{}, 64), stop: make(chan struct{})}
}

func (s *source) isParked() bool { s.mu.Lock(); defer s.mu.Unlock(); return s.parked }
func (s *source) isClosed() bool { s.mu.Lock(); defer s.mu.Unlock(); return s.closed }

func (s *source) NextIPPacketZeroCopy() (slimcap.IPLayer, slimcap.PacketType, uint32, error) {
	s.mu.Lock()
	s.parked = true
	for i := range s.last { // zero-copy contract: the previous packet's memory is gone
		s.last[i] = 0xee
	}
	s.last = nil
	s.mu.Unlock()
	unpark := func() { s.mu.Lock(); s.parked = false; s.mu.Unlock() }
	select {
	case <-s.stop:
		unpark()
		return nil, 0, 0, slimcap.ErrCaptureStopped
	default:
	}
	select {
	case <-s.unblk:
		unpark()
		return nil, 0, 0, slimcap.ErrCaptureUnblocked
	default:
	}
	select {
	case <-s.stop:
		unpark()
		return nil, 0, 0, slimcap.ErrCaptureStopped
	case <-s.unblk:
		unpark()
		return nil, 0, 0, slimcap.ErrCaptureUnblocked
	case d := <-s.pkts:
		s.mu.Lock()
		s.parked = false
		s.last = d.layer
		s.recv++
		s.mu.Unlock()
		return d.layer, d.pktType, d.size, nil
	}
}

func (s *source) deliver(p *capharness.Packet) error {
	d := delivery{layer: append([]byte(nil), p.Layer...), pktType: p.PktType, size: p.Size}
	tm := time.NewTimer(deliverTimeout)
	defer tm.Stop()
	select {
	case s.pkts <- d:
		return nil
	case <-tm.C:
		return fmt.Errorf("the capture on %s did not take packet %v within %v of the fake clock (it is not polling its source)", s.name, p, deliverTimeout)
	}
}

func (s *source) Unblock() error {
	select {
	case s.unblk <- struct{}{}:
	default:
	}
	return nil
}

func (s *source) Stats() (slimcap.Stats, error) {
	s.mu.Lock()
	defer s.mu.Unlock()
	st := slimcap.Stats{PacketsReceived: s.recv}
	s.recv = 0
	return st, nil
}

func (s *source) Close() error {
	s.once.Do(func() {
		s.mu.Lock()
		s.closed = true
		s.mu.Unlock()
		close(s.stop)
	})
	return nil
}

func (s *source) Link() *link.Link { return nil }

var errUnused = errors.New("c27: method not used by goProbe")

func (s *source) NextPayloadZeroCopy() ([]byte, slimcap.PacketType, uint32, error) {
	panic(errUnused)
}
func (s *source) NewPacket() slimcap.Packet                         { panic(errUnused) }
func (s *source) NextPacket(slimcap.Packet) (slimcap.Packet, error) { panic(errUnused) }
func (s *source) NextPayload([]byte) ([]byte, byte, uint32, error)  { panic(errUnused) }
func (s *source) NextIPPacket(slimcap.IPLayer) (slimcap.IPLayer, slimcap.PacketType, uint32, error) {
	panic(errUnused)
}
func (s *source) NextPacketFn(func([]byte, uint32, slimcap.PacketType, byte) error) error {
	panic(errUnused)
}

// ---------------------------------------------------------------- run state

// instance is one capture the manager created (one call of the source-init function).
type instance struct {
	ID      int
	Iface   string
	Step    int // the Update that created it
	Phase   string
	src     *source
	cfg     config.CaptureConfig // (*Capture).VerifConfig(): the configuration it was created with
	pending capharness.Counters  // successfully parsed packets delivered since its last write-out
	total   capharness.Counters
	ended   bool // the driver has accounted for its end
}

// writeOut is one write-out an interface must have gone through: at a scheduled instant while one of its captures ran,
// or at the reconfiguration that stopped the capture.
type writeOut struct {
	Ts   int64 // unix seconds
	Kind string
	Step int
	Inst int
	Tot  capharness.Counters
}

type parkedG struct {
	iface string
	ch    chan struct{}
}

// ifObs is what can be observed about one interface at a check point.
type ifObs struct {
	InConfig bool
	ConfCfg  string // Manager.Config()[iface]
	InStatus bool
	Open     int    // sources created for the interface and not closed
	Verif    string // VerifConfig of the open capture
	Loud     string // the same without IgnoreVLANs / filters
	Inst     int
	InstStep int
}

func (o ifObs) running() bool { return o.InConfig && o.InStatus && o.Open == 1 }
func (o ifObs) absent() bool  { return !o.InConfig && !o.InStatus && o.Open == 0 }
func (o ifObs) String() string {
	return fmt.Sprintf("{in Manager.Config: %v, in Manager.Status: %v, open sources: %d, running with: %s}", o.InConfig, o.InStatus, o.Open, o.Verif)
}

// point is a check point: the observation after an Update (or after the error loggers it woke up have run, or after
// the configuration was applied a second time).
type point struct {
	Step    int
	Phase   string // applied | loggers-ran | reapplied
	Obs     map[string]ifObs
	Changes [3][]string // reapplied: enabled, updated, disabled as reported
}

// verdict is the outcome of a run carried out of the bubble as a value.
type verdict struct {
	Known  string // candidate known finding ("" = plain failure)
	Clause string // failure signature clause
	Text   string
}

type runResult struct {
	Err     error
	Panic   string
	V       *verdict
	Points  []point
	WOs     map[string][]writeOut // per interface, in order
	Insts   []*instance
	Blocks  map[string][]capharness.Block
	ReadErr error
	Extra   []string // directories in the database that belong to no interface of the universe
	Logs    []string
	Live    map[string]capharness.Counters // flows in memory just before Close
	NT      bool                           // an interface with un-rotated traffic was removed or reconfigured
	NTSteps int
	Stale   int // error-logger goroutines that reached the step point
	Skipped int // packets scripted for an interface nothing ran on
	Deliv   int
	Removed int
	Reconf  int
	Sched   int // scheduled write-outs with at least one running capture
}

type run struct {
	mu      sync.Mutex
	s       *seq
	res     *runResult
	insts   []*instance
	parked  []*parkedG
	token   chan struct{}
	prompt  bool // the source-init function lets the stale error loggers of its interface run first
	curStep int
	phase   string
	fail    error
}

func (r *run) failf(format string, args ...any) {
	r.mu.Lock()
	if r.fail == nil {
		r.fail = fmt.Errorf(format, args...)
	}
	r.mu.Unlock()
}

func (r *run) failed() error { r.mu.Lock(); defer r.mu.Unlock(); return r.fail }

var current atomic.Pointer[run]

// stepFn is installed with verifhook.SetStepFn: the error logger of a capture whose error channel was closed parks
// here (before it takes the captures lock) until the driver releases it. All other step points pass.
func stepFn(pt string) {
	if !strings.HasPrefix(pt, stepPrefix) {
		return
	}
	r := current.Load()
	if r == nil {
		return
	}
	g := &parkedG{iface: pt[len(stepPrefix):], ch: make(chan struct{})}
	r.mu.Lock()
	r.parked = append(r.parked, g)
	r.res.Stale++
	r.mu.Unlock()
	<-g.ch
}

// release lets the parked error loggers of iface ("" = all) proceed and returns their number.
func (r *run) release(iface string) (n int) {
	r.mu.Lock()
	var keep []*parkedG
	for _, g := range r.parked {
		if iface == "" || g.iface == iface {
			close(g.ch)
			n++
		} else {
			keep = append(keep, g)
		}
	}
	r.parked = keep
	r.mu.Unlock()
	return
}

func (r *run) parkedNames() []string {
	r.mu.Lock()
	defer r.mu.Unlock()
	var out []string
	for _, g := range r.parked {
		out = append(out, g.iface)
	}
	sort.Strings(out)
	return out
}

// drain lets every parked error logger (and the ones that park as a consequence) run to its end.
func (r *run) drain() (released []string) {
	for i := 0; i < 64; i++ {
		synctest.Wait()
		n := r.parkedNames()
		if len(n) == 0 {
			return
		}
		released = append(released, n...)
		r.release("")
	}
	r.failf("error loggers keep arriving at the step point")
	return
}

// initFn is the source-init function handed to the manager.
func (r *run) initFn(c *capture.Capture) (capture.Source, error) {
	name := c.Iface()
	<-r.token
	defer func() { r.token <- struct{}{} }()
	if !inUniverse(name) {
		return nil, fmt.Errorf("no such network interface: %s", name)
	}
	r.mu.Lock()
	prompt := r.prompt
	r.mu.Unlock()
	if prompt {
		// order "before-replacement": the error logger of the capture this one replaces finishes before the new
		// capture is registered
		synctest.Wait()
		if r.release(name) > 0 {
			synctest.Wait()
		}
	}
	r.mu.Lock()
	in := &instance{ID: len(r.insts), Iface: name, Step: r.curStep, Phase: r.phase, src: newSource(name), cfg: c.VerifConfig()}
	r.insts = append(r.insts, in)
	r.mu.Unlock()
	return in.src, nil
}

func (r *run) open(iface string) (out []*instance) {
	r.mu.Lock()
	defer r.mu.Unlock()
	for _, in := range r.insts {
		if in.Iface == iface && !in.src.isClosed() {
			out = append(out, in)
		}
	}
	return
}

func (r *run) allInsts() []*instance {
	r.mu.Lock()
	defer r.mu.Unlock()
	return append([]*instance(nil), r.insts...)
}

// ---------------------------------------------------------------- logging

type logHandler struct{ attrs []slog.Attr }

func (h *logHandler) Enabled(_ context.Context, l slog.Level) bool { return l >= slog.LevelError }
func (h *logHandler) Handle(_ context.Context, rec slog.Record) error {
	r := current.Load()
	if r == nil {
		return nil
	}
	var sb strings.Builder
	sb.WriteString(rec.Message)
	each := func(a slog.Attr) bool { fmt.Fprintf(&sb, " %s=%v", a.Key, a.Value); return true }
	for _, a := range h.attrs {
		each(a)
	}
	rec.Attrs(each)
	r.mu.Lock()
	r.res.Logs = append(r.res.Logs, sb.String())
	r.mu.Unlock()
	return nil
}
func (h *logHandler) WithAttrs(attrs []slog.Attr) slog.Handler {
	return &logHandler{attrs: append(append([]slog.Attr(nil), h.attrs...), attrs...)}
}
func (h *logHandler) WithGroup(string) slog.Handler { return h }

type devNull struct{}

func (devNull) Write(p []byte) (int, error) { return len(p), nil }

var logOnce sync.Once

func installLogger() {
	logOnce.Do(func() {
		_, _ = logging.Init(logging.LevelError, logging.EncodingLogfmt, logging.WithOutput(devNull{}))
		slog.SetDefault(slog.New(&logHandler{}))
	})
}

// ---------------------------------------------------------------- driver

// execute runs the sequence against a real capture.Manager inside a synctest bubble and reads the database back.
func execute(t *testing.T, s *seq) *runResult {
	installLogger()
	res := &runResult{WOs: map[string][]writeOut{}, Blocks: map[string][]capharness.Block{}, Live: map[string]capharness.Counters{}}
	dir, err := os.MkdirTemp(os.Getenv("VERIF_WORK"), "c27-")
	if err != nil {
		res.Err = fmt.Errorf("tempdir: %w", err)
		return res
	}
	defer os.RemoveAll(dir)

	oldLinks := capture.VerifSetHostLinksFn(func(...string) (link.Links, error) {
		var l link.Links
		order := s.Links
		if len(order) == 0 {
			order = universe
		}
		for i, n := range order {
			l = append(l, &link.Link{Name: n, Index: i + 1})
		}
		return l, nil
	})
	verifhook.SetStepFn(stepFn)
	defer func() {
		verifhook.SetStepFn(nil)
		capture.VerifSetHostLinksFn(oldLinks)
		current.Store(nil)
	}()

	func() {
		defer func() {
			if p := recover(); p != nil {
				res.Panic = fmt.Sprintf("%v\n%s", p, debug.Stack())
			}
		}()
		synctest.Test(t, func(*testing.T) {
			defer func() {
				if p := recover(); p != nil { // a panic must not leave the bubble goroutine
					res.Panic = fmt.Sprintf("%v\n%s", p, debug.Stack())
				}
			}()
			bubble(s, dir, res)
		})
	}()
	verifhook.SetStepFn(nil)
	current.Store(nil)

	if res.Err == nil && res.Panic == "" && res.V == nil {
		ents, err := os.ReadDir(dir)
		if err != nil {
			res.ReadErr = err
			return res
		}
		for _, e := range ents {
			if !inUniverse(e.Name()) {
				res.Extra = append(res.Extra, e.Name())
				continue
			}
			b, err := capharness.ReadBlocks(filepath.Join(dir, e.Name()))
			if err != nil {
				res.ReadErr = fmt.Errorf("%s: %w", e.Name(), err)
				break
			}
			res.Blocks[e.Name()] = b
		}
	}
	return res
}

func names(c capturetypes.IfaceChanges) []string {
	out := []string{}
	for _, x := range c {
		out = append(out, x.Name)
	}
	sort.Strings(out)
	return out
}

func liveTotals(m *hashmap.AggFlowMap) (c capharness.Counters) {
	if m == nil {
		return
	}
	for it := m.Iter(); it.Next(); {
		v := it.Val()
		c.Add(capharness.Counters{BR: v.BytesRcvd, BS: v.BytesSent, PR: v.PacketsRcvd, PS: v.PacketsSent})
	}
	return
}

func bubble(s *seq, dir string, res *runResult) {
	r := &run{s: s, res: res, token: make(chan struct{}, 1)}
	r.token <- struct{}{}
	current.Store(r)
	if !time.Now().Equal(capharness.T0) {
		res.Err = fmt.Errorf("bubble clock starts at %v", time.Now())
		return
	}
	now := func() int64 { return int64(time.Since(capharness.T0)) }

	ctx, cancel := context.WithCancel(context.Background())
	var mgr *capture.Manager

	// ---- bookkeeping of write-outs (what the interfaces must have gone through, from observation of the sources)
	endInstance := func(in *instance, kind string, ts int64, step int) {
		if in.ended {
			return
		}
		in.ended = true
		if kind == "killed" {
			return // no write-out: whatever is pending is lost
		}
		res.WOs[in.Iface] = append(res.WOs[in.Iface], writeOut{Ts: ts, Kind: kind, Step: step, Inst: in.ID, Tot: in.pending})
		in.pending = capharness.Counters{}
	}
	// sleepUntil advances the fake clock; every scheduled write-out passed on the way rotates the running captures
	sleepUntil := func(at int64) bool {
		from := now()
		if at < from {
			r.failf("harness: the script goes back in time (%v -> %v)", dur(from), dur(at))
			return false
		}
		if at == from {
			return true
		}
		time.Sleep(time.Duration(at - from))
		synctest.Wait()
		if mgr == nil {
			return true
		}
		for b := (from/interval + 1) * interval; b < at; b += interval {
			any := false
			for _, in := range r.allInsts() {
				if !in.ended && !in.src.isClosed() {
					any = true
					res.WOs[in.Iface] = append(res.WOs[in.Iface], writeOut{Ts: capharness.T0.Unix() + b/second, Kind: "scheduled", Step: r.curStep, Inst: in.ID, Tot: in.pending})
					in.pending = capharness.Counters{}
				}
			}
			if any {
				res.Sched++
			}
		}
		return true
	}
	settle := func(what string) bool {
		synctest.Wait()
		if r.failed() != nil {
			return false
		}
		for _, in := range r.allInsts() {
			if !in.src.isClosed() && !in.src.isParked() {
				r.failf("%s: the capture on %s (capture #%d) is not waiting for packets", what, in.Iface, in.ID)
				return false
			}
		}
		return true
	}
	deliver := func(what string, acts []pktAct) bool {
		for _, a := range acts {
			open := r.open(a.Iface)
			if len(open) != 1 {
				res.Skipped++
				continue
			}
			p := s.Pool[a.Pkt]
			if err := open[0].src.deliver(p); err != nil {
				r.failf("%s: %v", what, err)
				return false
			}
			res.Deliv++
			if p.OK() {
				open[0].pending.Add(p.Counters())
				open[0].total.Add(p.Counters())
			}
			if !settle(what) {
				return false
			}
		}
		return true
	}
	observe := func() map[string]ifObs {
		out := map[string]ifObs{}
		conf := mgr.Config()
		for n, c := range conf {
			o := out[n]
			o.InConfig, o.ConfCfg = true, cfgText(c)
			out[n] = o
		}
		for _, in := range r.allInsts() {
			if in.src.isClosed() {
				continue
			}
			o := out[in.Iface]
			o.Open++
			o.Verif, o.Loud, o.Inst, o.InstStep = cfgText(in.cfg), loudText(in.cfg), in.ID, in.Step
			out[in.Iface] = o
		}
		for n := range mgr.Status(ctx) {
			o := out[n]
			o.InStatus = true
			out[n] = o
		}
		return out
	}
	// update calls fn (InitManager / Manager.Update) and turns a panic in the calling goroutine into a value
	call := func(fn func() (capturetypes.IfaceChanges, capturetypes.IfaceChanges, capturetypes.IfaceChanges, error)) (ch [3][]string, err error, panicked string) {
		defer func() {
			if p := recover(); p != nil {
				panicked = fmt.Sprintf("%v\n%s", p, debug.Stack())
			}
		}()
		en, up, dis, err := fn()
		return [3][]string{names(en), names(up), names(dis)}, err, ""
	}
	// accountEnds records the write-out of every capture whose source was closed by the call that just returned
	accountEnds := func(kind string, at int64, step int) (closed []*instance) {
		for _, in := range r.allInsts() {
			if !in.ended && in.src.isClosed() {
				closed = append(closed, in)
				if kind != "killed" {
					if in.pending.PR+in.pending.PS > 0 && kind == "reconfiguration" {
						res.NT = true
						res.NTSteps++
					}
				}
				endInstance(in, kind, capharness.T0.Unix()+at/second+1, step)
			}
		}
		return
	}
	teardown := func(afterPanic bool) {
		// leaving the bubble: every goroutine of the manager has to end
		if mgr != nil && afterPanic {
			// a panic inside Update may have left the manager locked (updateSelected does not defer its Unlock);
			// everything is quiescent here, so a held lock is a leaked one
			synctest.Wait()
			mgr.TryLock()
			mgr.Unlock()
		}
		cancel()
		res.Insts = r.allInsts()
		for _, in := range res.Insts {
			in.src.Close()
		}
		r.drain()
		time.Sleep(time.Duration(interval) + time.Second)
		r.drain()
	}
	stop := func(v *verdict) {
		res.V = v
		teardown(v.Clause == "update-panic" || v.Clause == "disable-panic" || v.Clause == "close-panic")
	}

	exp := map[string][]params{}
	for i := range s.Steps {
		st := &s.Steps[i]
		r.mu.Lock()
		r.curStep, r.phase, r.prompt = i, "applied", !st.Late
		r.mu.Unlock()
		what := fmt.Sprintf("step %d", i)
		if i > 0 {
			if !sleepUntil(st.PktAt) || !deliver(what, st.Pkts) || !sleepUntil(st.At) {
				break
			}
		} else if !sleepUntil(st.At) {
			break
		}
		before := map[string]bool{}
		for _, n := range universe {
			before[n] = len(r.open(n)) > 0
		}
		prevExp := exp
		exp = reference(st.Cfg)
		cfg := st.Cfg.build(dir, s.Encoder)
		if err := cfg.Validate(); err != nil {
			r.failf("harness: generated configuration %v is invalid: %v", st.Cfg, err)
			break
		}
		_, err, panicked := call(func() (en, up, dis capturetypes.IfaceChanges, err error) {
			if i == 0 {
				mgr, err = capture.InitManager(ctx, cfg, capture.WithSourceInitFn(r.initFn), capture.WithLocalBuffers(1, 64*1024*1024))
				return
			}
			return mgr.Update(ctx, cfg)
		})
		if panicked != "" {
			v := panicVerdict(i, "Update", st.Cfg, panicked, exp, before)
			if mgr == nil {
				res.V = v
				cancel()
				time.Sleep(time.Duration(interval) + time.Second)
				return
			}
			stop(v)
			return
		}
		if err != nil {
			r.failf("step %d: Update(%v) returned an error for a valid configuration: %v", i, st.Cfg, err)
			break
		}
		synctest.Wait()
		closed := accountEnds("reconfiguration", st.At, i)
		for _, in := range closed {
			if len(exp[in.Iface]) == 0 {
				res.Removed++
			} else {
				res.Reconf++
			}
		}
		if !settle(what + " after Update") {
			break
		}
		pt := point{Step: i, Phase: "applied", Obs: observe()}
		res.Points = append(res.Points, pt)
		if !settle(what + " after Status") {
			break
		}
		if v := checkPoint(s, &pt, exp, prevExp, nil); v != nil {
			stop(v)
			return
		}
		// the error loggers of the captures this Update stopped
		if released := r.drain(); len(released) > 0 {
			killed := accountEnds("killed", st.At, i)
			if !settle(what + " after the error loggers ran") {
				break
			}
			pt := point{Step: i, Phase: "loggers-ran", Obs: observe()}
			res.Points = append(res.Points, pt)
			if !settle(what + " after Status") {
				break
			}
			if v := checkPoint(s, &pt, exp, prevExp, &staleInfo{Released: released, Killed: killed, Created: closedNames(closed)}); v != nil {
				stop(v)
				return
			}
		}
		if st.Reapply {
			r.mu.Lock()
			r.phase = "reapplied"
			r.mu.Unlock()
			nInst := len(r.allInsts())
			ch, err, panicked := call(func() (capturetypes.IfaceChanges, capturetypes.IfaceChanges, capturetypes.IfaceChanges, error) {
				return mgr.Update(ctx, st.Cfg.build(dir, s.Encoder))
			})
			if panicked != "" {
				for _, n := range universe {
					before[n] = len(r.open(n)) > 0
				}
				stop(panicVerdict(i, "the second Update", st.Cfg, panicked, exp, before))
				return
			}
			if err != nil {
				r.failf("step %d: applying %v a second time returned an error: %v", i, st.Cfg, err)
				break
			}
			synctest.Wait()
			closed := accountEnds("reconfiguration", st.At, i)
			r.drain()
			accountEnds("killed", st.At, i)
			if !settle(what + " after the second application") {
				break
			}
			pt := point{Step: i, Phase: "reapplied", Obs: observe(), Changes: ch}
			res.Points = append(res.Points, pt)
			if !settle(what + " after Status") {
				break
			}
			if v := checkReapply(s, &pt, exp, closedNames(closed), len(r.allInsts())-nInst); v != nil {
				stop(v)
				return
			}
			if v := checkPoint(s, &pt, exp, prevExp, nil); v != nil {
				stop(v)
				return
			}
		}
	}
	if err := r.failed(); err != nil {
		res.Err = err
		teardown(false)
		return
	}

	// ---- the end: packets, what is still in memory, Close (= removal of every interface)
	r.mu.Lock()
	r.curStep, r.phase, r.prompt = len(s.Steps), "close", true
	r.mu.Unlock()
	if !sleepUntil(s.Final.PktAt) || !deliver("final packets", s.Final.Pkts) || !sleepUntil(s.Final.At) {
		res.Err = r.failed()
		teardown(false)
		return
	}
	chn := make(chan hashmap.AggFlowMapWithMetadata, len(universe)+1)
	mgr.GetFlowMaps(ctx, nil, chn)
	close(chn)
	for m := range chn {
		c := res.Live[m.Interface]
		c.Add(liveTotals(m.AggFlowMap))
		res.Live[m.Interface] = c
	}
	if !settle("final live query") {
		res.Err = r.failed()
		teardown(false)
		return
	}
	_, _, panicked := call(func() (a, b, c capturetypes.IfaceChanges, err error) { mgr.Close(ctx); return })
	if panicked != "" {
		stop(&verdict{Clause: "close-panic", Text: "Manager.Close panicked: " + panicked})
		return
	}
	synctest.Wait()
	accountEnds("close", s.Final.At, len(s.Steps))
	r.drain()
	for _, in := range r.allInsts() {
		if !in.src.isClosed() {
			r.failf("after Manager.Close the source of capture #%d on %s is still open", in.ID, in.Iface)
		}
	}
	res.Insts = r.allInsts()
	res.Err = r.failed()
	cancel()
	time.Sleep(time.Duration(interval) + time.Second)
	r.drain()
}

// panicVerdict classifies a panic of Update in the calling goroutine. The documented meaning of `disable` is "not
// captured"; a disabled entry has no ring buffer section (Validate demands it), and comparing it with the configuration
// of a running capture dereferences that nil ring buffer.
func panicVerdict(step int, what string, cfg *cfgSpec, panicked string, exp map[string][]params, running map[string]bool) *verdict {
	v := &verdict{Clause: "update-panic", Text: fmt.Sprintf("step %d: %s(%v) panicked: %s", step, what, cfg, panicked)}
	if !strings.Contains(panicked, "nil pointer") || !strings.Contains(panicked, "RingBufferConfig).Equals") {
		return v
	}
	for _, n := range universe {
		if !running[n] {
			continue
		}
		for _, p := range exp[n] {
			if p.Disable {
				v.Known, v.Clause = fF19c, "disable-panic"
				v.Text = fmt.Sprintf("step %d: %s(%v) panics (nil pointer dereference in RingBufferConfig.Equals, called from updateSelected while it holds the manager lock): %s is running and a `disable: true` entry (no ring buffer section) of the new configuration applies to it (%s)",
					step, what, cfg, n, candText(exp[n]))
				return v
			}
		}
	}
	return v
}

func closedNames(in []*instance) map[string]bool {
	out := map[string]bool{}
	for _, x := range in {
		out[x.Iface] = true
	}
	return out
}
