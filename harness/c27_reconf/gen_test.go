package c27

import (
	"encoding/json"
	"fmt"
	"regexp"
	"sort"
	"strings"

	"github.com/els0r/goProbe/v4/cmd/goProbe/config"
	"pgregory.net/rapid"

	"verifharness/c20_capture/capharness"
)

// Findings of this check (see the package comment of c27_test.go).
const (
	fF19a = "C27-F19a" // overlapping regular expressions: the configuration is chosen in Go map order
	fF19b = "C27-F19b" // CaptureConfig.Equals ignores IgnoreVLANs / ExtraBPFFilters: the change is not applied
	fF19c = "C27-F19c" // `disable: true` is not honoured
	fF19d = "C27-F19d" // two write-outs of an interface carry the same timestamp: the second block is rejected
	fF26  = "C27-F26"  // the error logger of a replaced capture tears down its replacement
)

var allFindings = []string{fF19a, fF19b, fF19c, fF19d, fF26}

// universe is the set of network interfaces of the simulated host (capture.VerifSetHostLinksFn).
var universe = []string{"eth0", "eth1", "eth2", "wlan0", "lo"}

func inUniverse(n string) bool {
	for _, u := range universe {
		if u == n {
			return true
		}
	}
	return false
}

const (
	second   = int64(1e9)
	interval = capharness.Interval // 300 s
)

// ---------------------------------------------------------------- capture parameters

type ringBuffer struct{ BlockSize, NumBlocks int }

var ringBuffers = []ringBuffer{
	{config.DefaultRingBufferBlockSize, config.DefaultRingBufferNumBlocks},
	{512 * 1024, config.DefaultRingBufferNumBlocks},
	{config.DefaultRingBufferBlockSize, 2},
}

// extra BPF filters as they appear in a JSON configuration (bpf.RawInstruction has no field tags)
var bpfFilters = []string{
	``,
	`[{"Op":40,"Jt":0,"Jf":0,"K":12},{"Op":6,"Jt":0,"Jf":0,"K":262144}]`,
	`[{"Op":6,"Jt":0,"Jf":0,"K":0}]`,
}

// params is one capture configuration in generator terms.
type params struct {
	Promisc bool
	VLAN    bool // IgnoreVLANs
	Disable bool
	RB      int // index into ringBuffers; -1 = no ring buffer section (only valid together with Disable)
	BPF     int // index into bpfFilters
}

var defaultParams = params{} // config.DefaultCaptureConfig(): not promiscuous, 1 MiB x 4, VLANs not ignored, no filters

func (p params) String() string {
	if p.Disable {
		return "{disable}"
	}
	return fmt.Sprintf("{promisc=%v rb=%d/%d ignore_vlans=%v bpf=#%d}", p.Promisc, ringBuffers[p.RB].BlockSize, ringBuffers[p.RB].NumBlocks, p.VLAN, p.BPF)
}

// captureConfig builds the configuration value the way a configuration file yields it (fresh objects on every call).
func (p params) captureConfig() config.CaptureConfig {
	c := config.CaptureConfig{Promisc: p.Promisc, IgnoreVLANs: p.VLAN, Disable: p.Disable}
	if p.RB >= 0 {
		c.RingBuffer = &config.RingBufferConfig{BlockSize: ringBuffers[p.RB].BlockSize, NumBlocks: ringBuffers[p.RB].NumBlocks}
	}
	if f := bpfFilters[p.BPF]; f != "" {
		if err := json.Unmarshal([]byte(f), &c.ExtraBPFFilters); err != nil {
			panic("harness: bpf filter literal: " + err.Error())
		}
	}
	return c
}

// cfgText renders an observed capture configuration field by field (pointers resolved).
func cfgText(c config.CaptureConfig) string {
	rb := "none"
	if c.RingBuffer != nil {
		rb = fmt.Sprintf("%d/%d", c.RingBuffer.BlockSize, c.RingBuffer.NumBlocks)
	}
	var f []string
	for _, i := range c.ExtraBPFFilters {
		f = append(f, fmt.Sprintf("%d,%d,%d,%d", i.Op, i.Jt, i.Jf, i.K))
	}
	return fmt.Sprintf("promisc=%v rb=%s ignore_vlans=%v bpf=[%s] disable=%v", c.Promisc, rb, c.IgnoreVLANs, strings.Join(f, ";"), c.Disable)
}

func (p params) text() string { return cfgText(p.captureConfig()) }

// loudEqual reports whether two configurations agree in the promiscuous flag and the ring buffer.
func loudText(c config.CaptureConfig) string {
	c.IgnoreVLANs, c.ExtraBPFFilters = false, nil
	return cfgText(c)
}

// ---------------------------------------------------------------- configurations

type entry struct {
	Key string // interface name or /regular expression/
	P   params
}

// cfgSpec is one goProbe configuration (interface part) as plain data.
type cfgSpec struct {
	Auto    bool
	Exclude []string
	Entries []entry // unique keys
}

func isRegexpKey(k string) bool {
	return len(k) >= 2 && strings.HasPrefix(k, "/") && strings.HasSuffix(k, "/")
}

func (c *cfgSpec) String() string {
	if c.Auto {
		return fmt.Sprintf("autodetection{exclude=%v}", c.Exclude)
	}
	var s []string
	for _, e := range c.Entries {
		s = append(s, fmt.Sprintf("%q:%v", e.Key, e.P))
	}
	sort.Strings(s)
	return "interfaces{" + strings.Join(s, ", ") + "}"
}

func (c *cfgSpec) clone() *cfgSpec {
	return &cfgSpec{Auto: c.Auto, Exclude: append([]string(nil), c.Exclude...), Entries: append([]entry(nil), c.Entries...)}
}

// build creates the configuration object handed to the manager.
func (c *cfgSpec) build(dbPath, encoder string) *config.Config {
	cfg := &config.Config{DB: config.DBConfig{Path: dbPath, EncoderType: encoder}, Interfaces: config.Ifaces{}}
	if c.Auto {
		cfg.AutoDetection = config.AutoDetectionConfig{Enabled: true, Exclude: append([]string(nil), c.Exclude...)}
		return cfg
	}
	for _, e := range c.Entries {
		cfg.Interfaces[e.Key] = e.P.captureConfig()
	}
	return cfg
}

// reference computes, independently of goProbe (stdlib regexp over the interface universe), the candidate
// configurations of every interface under a configuration:
//   - auto-detection: every host interface that no exclude entry names or matches, with the default configuration;
//   - otherwise an entry keyed by the interface name decides (documented: "first check for direct match");
//     without one, every regular-expression entry that matches the name is a candidate. Entries with equal
//     parameters count once. More than one candidate = the documentation does not say which one applies.
//
// No candidate = the interface is not selected. A candidate with Disable set means "not captured".
func reference(c *cfgSpec) map[string][]params {
	out := map[string][]params{}
	match := func(key, name string) bool {
		if !isRegexpKey(key) {
			return key == name
		}
		return regexp.MustCompile(key[1 : len(key)-1]).MatchString(name)
	}
	for _, n := range universe {
		if c.Auto {
			excluded := false
			for _, x := range c.Exclude {
				excluded = excluded || match(x, n)
			}
			if !excluded {
				out[n] = []params{defaultParams}
			}
			continue
		}
		var explicit *params
		var cands []params
		for i, e := range c.Entries {
			switch {
			case !isRegexpKey(e.Key):
				if e.Key == n {
					explicit = &c.Entries[i].P
				}
			case match(e.Key, n):
				dup := false
				for _, p := range cands {
					dup = dup || p == e.P
				}
				if !dup {
					cands = append(cands, e.P)
				}
			}
		}
		if explicit != nil {
			cands = []params{*explicit}
		}
		if len(cands) > 0 {
			out[n] = cands
		}
	}
	return out
}

// overlaps reports whether two regular-expression entries compete for an interface without an explicit entry.
func (c *cfgSpec) overlapping() (same, different bool) {
	for _, n := range universe {
		explicit := false
		var m []params
		for _, e := range c.Entries {
			if e.Key == n {
				explicit = true
			}
			if isRegexpKey(e.Key) && regexp.MustCompile(e.Key[1:len(e.Key)-1]).MatchString(n) {
				m = append(m, e.P)
			}
		}
		if explicit || len(m) < 2 {
			continue
		}
		for _, p := range m[1:] {
			if p == m[0] {
				same = true
			} else {
				different = true
			}
		}
	}
	return
}

// ---------------------------------------------------------------- sequences

type pktAct struct {
	Iface string
	Pkt   int // index into seq.Pool
}

// step is one configuration update with what precedes it.
type step struct {
	PktAt   int64    // ns since the start of the bubble clock at which Pkts are delivered
	Pkts    []pktAct // delivered to whatever runs on the named interface (skipped if nothing does)
	At      int64    // instant of the Update call
	Cfg     *cfgSpec
	Kind    string // how the configuration was derived
	Reapply bool   // apply the same configuration a second time right away
	Late    bool   // the error loggers of captures stopped by this Update run only after Update has returned
	GapCls  string // class of At - (previous At)
	Stamped bool   // the write-out of this reconfiguration carries the timestamp of a scheduled write-out
}

// seq is a whole case: plain data, drawn outside the bubble.
type seq struct {
	Allow   map[string]bool // findings whose triggers may be generated
	Encoder string
	Links   []string // order in which the host enumerates its interfaces (a permutation of the universe)
	Steps   []step // Steps[0] is the configuration the manager is started with (InitManager) at Steps[0].At
	Final   step   // packets before Close; At = instant of Close
	Pool    []*capharness.Packet
	Convs   []*capharness.Conv
	Repeat  int
	NExcl   map[string]int
}

func (s *seq) allowText() string {
	var a []string
	for _, f := range allFindings {
		if s.Allow[f] {
			a = append(a, strings.TrimPrefix(f, "C27-"))
		}
	}
	if len(a) == 0 {
		return "none"
	}
	return strings.Join(a, "+")
}

func (s *seq) Canon() string {
	var b strings.Builder
	fmt.Fprintf(&b, "encoder=%s triggers-allowed=%s repeat=%d host-links=%v\n", s.Encoder, s.allowText(), s.Repeat, s.Links)
	pk := func(a []pktAct) string {
		var x []string
		for _, p := range a {
			x = append(x, fmt.Sprintf("%s<-%v{%x}", p.Iface, s.Pool[p.Pkt], s.Pool[p.Pkt].Layer))
		}
		return strings.Join(x, " ")
	}
	for i, st := range s.Steps {
		if i > 0 && len(st.Pkts) > 0 {
			fmt.Fprintf(&b, "  @%v packets %s\n", dur(st.PktAt), pk(st.Pkts))
		}
		what := "Update"
		if i == 0 {
			what = "InitManager"
		}
		fmt.Fprintf(&b, "  @%v %s #%d (%s, gap %s) %v reapply=%v stale-loggers=%s\n", dur(st.At), what, i, st.Kind, st.GapCls, st.Cfg, st.Reapply, lateText(st.Late))
	}
	if len(s.Final.Pkts) > 0 {
		fmt.Fprintf(&b, "  @%v packets %s\n", dur(s.Final.PktAt), pk(s.Final.Pkts))
	}
	fmt.Fprintf(&b, "  @%v Close (gap %s)\n", dur(s.Final.At), s.Final.GapCls)
	return b.String()
}

func lateText(l bool) string {
	if l {
		return "after-update"
	}
	return "before-replacement"
}

func dur(ns int64) string { return fmt.Sprintf("+%.6fs", float64(ns)/1e9) }

var regexpPool = []string{
	"/eth.*/", "/^eth[0-9]+$/", "/eth[01]/", "/eth[12]/", "/^eth0$/", "/0$/", "/^(wlan|lo)/", "/.*/", "/^e/", "/lo|wlan0/", "/l/", "/tun.*/", "/^eth2|wlan/", "/[0-9]$/",
}

var excludePool = []string{"eth0", "eth1", "eth2", "wlan0", "lo", "tun0", "docker0", "/eth.*/", "/eth[01]/", "/^(wlan|lo)/", "/veth.*/", "/0$/", "/l/", "/.*/"}

type gen struct {
	t     *rapid.T
	s     *seq
	vlan  [2][3]bool // excluding mode for F19b: IgnoreVLANs and the BPF filter are functions of (promisc, ring buffer)
	bpf   [2][3]int
	nExcl map[string]int
}

func b2i(b bool) int {
	if b {
		return 1
	}
	return 0
}

func (g *gen) excluded(f string) { g.nExcl[f]++ }

// fixSilent makes the fields CaptureConfig.Equals does not look at functions of the ones it does (excluding mode).
func (g *gen) fixSilent(p params) params {
	if p.Disable || g.s.Allow[fF19b] {
		return p
	}
	v, f := g.vlan[b2i(p.Promisc)][p.RB], g.bpf[b2i(p.Promisc)][p.RB]
	if p.VLAN != v || p.BPF != f {
		g.excluded(fF19b)
	}
	p.VLAN, p.BPF = v, f
	return p
}

func (g *gen) params(l string) params {
	if g.s.Allow[fF19c] && rapid.IntRange(0, 5).Draw(g.t, l+"disable") == 0 {
		return params{Disable: true, RB: -1}
	}
	p := params{
		Promisc: rapid.Bool().Draw(g.t, l+"promisc"),
		RB:      rapid.SampledFrom([]int{0, 0, 1, 2}).Draw(g.t, l+"rb"),
		VLAN:    rapid.Bool().Draw(g.t, l+"vlan"),
		BPF:     rapid.SampledFrom([]int{0, 0, 1, 2}).Draw(g.t, l+"bpf"),
	}
	return g.fixSilent(p)
}

func (c *cfgSpec) hasKey(k string) bool {
	for _, e := range c.Entries {
		if e.Key == k {
			return true
		}
	}
	return false
}

func (g *gen) fresh(l string) (*cfgSpec, string) {
	t := g.t
	c := &cfgSpec{}
	kind := rapid.SampledFrom([]string{"explicit", "explicit", "regexp", "regexp", "mixed", "mixed", "auto"}).Draw(t, l+"kind")
	if kind == "auto" {
		c.Auto = true
		n := rapid.IntRange(0, 3).Draw(t, l+"nexclude")
		for i := 0; i < n; i++ {
			x := rapid.SampledFrom(excludePool).Draw(t, fmt.Sprintf("%sexclude%d", l, i))
			dup := false
			for _, y := range c.Exclude {
				dup = dup || x == y
			}
			if !dup {
				c.Exclude = append(c.Exclude, x)
			}
		}
		return c, "auto"
	}
	if kind != "regexp" {
		n := rapid.IntRange(1, 3).Draw(t, l+"nexplicit")
		for i := 0; i < n; i++ {
			k := rapid.SampledFrom(universe).Draw(t, fmt.Sprintf("%sname%d", l, i))
			if !c.hasKey(k) {
				c.Entries = append(c.Entries, entry{k, g.params(fmt.Sprintf("%sname%d.", l, i))})
			}
		}
	}
	if kind != "explicit" {
		n := rapid.IntRange(1, 3).Draw(t, l+"nregexp")
		for i := 0; i < n; i++ {
			k := rapid.SampledFrom(regexpPool).Draw(t, fmt.Sprintf("%sre%d", l, i))
			if !c.hasKey(k) {
				c.Entries = append(c.Entries, entry{k, g.params(fmt.Sprintf("%sre%d.", l, i))})
			}
		}
	}
	return c, kind
}

// derive changes one thing of the previous configuration.
func (g *gen) derive(l string, prev *cfgSpec) (*cfgSpec, string) {
	t := g.t
	c := prev.clone()
	if c.Auto {
		if len(c.Exclude) > 0 && rapid.Bool().Draw(t, l+"dropexclude") {
			i := rapid.IntRange(0, len(c.Exclude)-1).Draw(t, l+"which")
			c.Exclude = append(c.Exclude[:i], c.Exclude[i+1:]...)
			return c, "auto-exclude-less"
		}
		x := rapid.SampledFrom(excludePool).Draw(t, l+"exclude")
		for _, y := range c.Exclude {
			if x == y {
				return c, "same"
			}
		}
		c.Exclude = append(c.Exclude, x)
		return c, "auto-exclude-more"
	}
	switch op := rapid.SampledFrom([]string{"tweak", "tweak", "tweak", "add", "remove"}).Draw(t, l+"op"); {
	case op == "remove" && len(c.Entries) > 1:
		i := rapid.IntRange(0, len(c.Entries)-1).Draw(t, l+"which")
		c.Entries = append(c.Entries[:i], c.Entries[i+1:]...)
		return c, "remove-entry"
	case op == "add":
		k := rapid.SampledFrom(append(append([]string{}, universe...), regexpPool...)).Draw(t, l+"key")
		if c.hasKey(k) {
			return c, "same"
		}
		c.Entries = append(c.Entries, entry{k, g.params(l + "new.")})
		return c, "add-entry"
	}
	i := rapid.IntRange(0, len(c.Entries)-1).Draw(t, l+"which")
	p := c.Entries[i].P
	field := rapid.SampledFrom([]string{"promisc", "rb", "vlan", "bpf", "disable"}).Draw(t, l+"field")
	if field == "disable" && !g.s.Allow[fF19c] {
		g.excluded(fF19c)
		field = "promisc"
	}
	if (field == "vlan" || field == "bpf") && !g.s.Allow[fF19b] {
		// excluding mode: the silent fields only change together with one Equals compares
		g.excluded(fF19b)
		field = rapid.SampledFrom([]string{"promisc", "rb"}).Draw(t, l+"loudfield")
	}
	if p.Disable {
		c.Entries[i].P = g.params(l + "enable.")
		return c, "tweak-enable"
	}
	switch field {
	case "promisc":
		p.Promisc = !p.Promisc
	case "rb":
		p.RB = (p.RB + rapid.IntRange(1, 2).Draw(t, l+"rbstep")) % len(ringBuffers)
	case "vlan":
		p.VLAN = !p.VLAN
	case "bpf":
		p.BPF = (p.BPF + rapid.IntRange(1, 2).Draw(t, l+"bpfstep")) % len(bpfFilters)
	case "disable":
		p = params{Disable: true, RB: -1}
	}
	c.Entries[i].P = g.fixSilent(p)
	return c, "tweak-" + field
}

// repairOverlap (excluding mode for F19a) gives competing regular expressions identical parameters.
func (g *gen) repairOverlap(c *cfgSpec) {
	if c.Auto || g.s.Allow[fF19a] {
		return
	}
	// entries that compete for an interface (transitively) form a group; the group takes the parameters of its first entry
	rep := make([]int, len(c.Entries))
	for i := range rep {
		rep[i] = i
	}
	for changed := true; changed; {
		changed = false
		for _, n := range universe {
			if c.hasKey(n) {
				continue
			}
			lo := -1
			var m []int
			for i, e := range c.Entries {
				if isRegexpKey(e.Key) && regexp.MustCompile(e.Key[1:len(e.Key)-1]).MatchString(n) {
					m = append(m, i)
					if lo < 0 || rep[i] < lo {
						lo = rep[i]
					}
				}
			}
			for _, i := range m {
				if rep[i] != lo {
					rep[i], changed = lo, true
				}
			}
		}
	}
	for i := range c.Entries {
		if c.Entries[i].P != c.Entries[rep[i]].P {
			c.Entries[i].P = c.Entries[rep[i]].P
			g.excluded(fF19a)
		}
	}
}

func gapClass(d int64) string {
	switch {
	case d == 0:
		return "0s"
	case d < second:
		return "<1s"
	case d == second:
		return "1s"
	case d < 2*second:
		return "<2s"
	case d < interval:
		return ">=2s"
	}
	return ">=300s"
}

// offBoundary moves an instant that coincides with a scheduled write-out just past it (the driver never acts in the
// same instant as the scheduler: the order of the two would not be owned).
func offBoundary(at int64) int64 {
	if at > 0 && at%interval == 0 {
		return at + 1000
	}
	return at
}

// drawSeq draws a whole case.
func drawSeq(t *rapid.T, allow map[string]bool) *seq {
	s := &seq{Allow: allow, NExcl: map[string]int{}}
	g := &gen{t: t, s: s, nExcl: s.NExcl}
	s.Encoder = rapid.SampledFrom([]string{"lz4", "null"}).Draw(t, "encoder")
	// the host's enumeration order (netlink: by interface index) is no function of the names
	s.Links = universe
	if rapid.IntRange(0, 2).Draw(t, "linkorder") != 0 {
		s.Links = rapid.Permutation(universe).Draw(t, "links")
	}
	for p := 0; p < 2; p++ {
		for r := 0; r < 3; r++ {
			if p == 0 && r == 0 {
				continue // the default configuration (auto-detection) keeps its defaults
			}
			g.vlan[p][r] = rapid.Bool().Draw(t, fmt.Sprintf("table.vlan%d%d", p, r))
			g.bpf[p][r] = rapid.IntRange(0, 2).Draw(t, fmt.Sprintf("table.bpf%d%d", p, r))
		}
	}

	// the packets: a capharness script (decisive conversations only) is used as the pool
	script := capharness.DrawScript(t, capharness.Options{})
	s.Convs = script.Convs
	for _, a := range script.Actions {
		if a.Kind == capharness.ActPkt {
			s.Pool = append(s.Pool, a.P)
		}
	}

	n := rapid.IntRange(2, 7).Draw(t, "nsteps")
	now := rapid.SampledFrom([]int64{0, 0, 1e6, 100 * second, 298 * second, 299*second + 5e8}).Draw(t, "start")
	lastTs := int64(-1) // timestamp of the latest reconfiguration write-out (excluding mode for F19d)
	var prev *cfgSpec
	// admissible moves the instant of a reconfiguration so that its write-out timestamp (now + 1 s, whole seconds) is
	// fresh: later than the previous reconfiguration's and not the instant of a scheduled write-out
	admissible := func(at int64) int64 {
		if s.Allow[fF19d] {
			return at
		}
		orig := at
		for {
			ts := at/second + 1
			if ts <= lastTs {
				at = lastTs * second
				continue
			}
			if (ts*second)%interval == 0 {
				at = ts*second + 1000
				continue
			}
			break
		}
		if at != orig {
			g.excluded(fF19d)
		}
		return at
	}
	drawPkts := func(l string) []pktAct {
		var targets []string
		if prev != nil {
			for n := range reference(prev) {
				targets = append(targets, n)
			}
			sort.Strings(targets)
		}
		if len(targets) == 0 || rapid.IntRange(0, 7).Draw(t, l+"anyiface") == 0 {
			targets = universe
		}
		var out []pktAct
		k := rapid.SampledFrom([]int{0, 1, 1, 2, 3, 5}).Draw(t, l+"npkts")
		for i := 0; i < k && len(s.Pool) > 0; i++ {
			out = append(out, pktAct{
				Iface: rapid.SampledFrom(targets).Draw(t, fmt.Sprintf("%sp%d.iface", l, i)),
				Pkt:   rapid.IntRange(0, len(s.Pool)-1).Draw(t, fmt.Sprintf("%sp%d.pkt", l, i)),
			})
		}
		return out
	}
	// the two sleeps before an action: a coarse one (may cross scheduled write-outs or stop just short of one), then
	// the packets, then a fine one
	drawTimes := func(l string, from int64) (pktAt, at int64) {
		pktAt = from
		switch rapid.SampledFrom([]string{"0", "0", "short", "cross", "near-boundary"}).Draw(t, l+"sleep1") {
		case "short":
			pktAt += rapid.SampledFrom([]int64{1e6, 5 * second, 30 * second, 120 * second}).Draw(t, l+"sleep1.d")
		case "cross":
			pktAt += rapid.SampledFrom([]int64{300 * second, 301 * second, 450 * second, 900 * second}).Draw(t, l+"sleep1.d")
		case "near-boundary":
			d := rapid.SampledFrom([]int64{2 * second, 15e8, second, 5e8, 1e6}).Draw(t, l+"sleep1.before")
			b := (pktAt/interval + 1) * interval
			if b-d < pktAt {
				b += interval
			}
			pktAt = b - d
		}
		pktAt = offBoundary(pktAt)
		at = pktAt + rapid.SampledFrom([]int64{0, 0, 1e6, 4e8, 999e6, second, 15e8, 2 * second, 7 * second}).Draw(t, l+"sleep2")
		return pktAt, offBoundary(at)
	}
	for i := 0; i < n; i++ {
		l := fmt.Sprintf("s%d.", i)
		st := step{}
		if i == 0 {
			st.PktAt, st.At = now, now
			st.Cfg, st.Kind = g.fresh(l)
			st.GapCls = "start"
		} else {
			st.Pkts = drawPkts(l)
			st.PktAt, st.At = drawTimes(l, now)
			switch rapid.SampledFrom([]string{"derive", "derive", "derive", "fresh", "fresh", "same"}).Draw(t, l+"how") {
			case "derive":
				st.Cfg, st.Kind = g.derive(l, prev)
			case "fresh":
				st.Cfg, st.Kind = g.fresh(l)
			default:
				st.Cfg, st.Kind = prev.clone(), "same"
			}
		}
		g.repairOverlap(st.Cfg)
		if i > 0 {
			// an Update that can stop a capture writes out: a changed configuration, or one whose competing regular
			// expressions may be resolved differently this time
			if _, diff := st.Cfg.overlapping(); diff || st.Cfg.String() != prev.String() {
				st.At = admissible(st.At)
				lastTs = st.At/second + 1
				st.Stamped = (st.At/second+1)*second%interval == 0
			}
			if st.PktAt > st.At {
				st.PktAt = st.At
			}
			st.GapCls = gapClass(st.At - now)
		}
		st.Reapply = rapid.IntRange(0, 2).Draw(t, l+"reapply") > 0
		if s.Allow[fF26] {
			st.Late = rapid.Bool().Draw(t, l+"late")
		} else if i > 0 {
			g.excluded(fF26)
		}
		s.Steps = append(s.Steps, st)
		now, prev = st.At, st.Cfg
	}
	s.Final.Pkts = drawPkts("final.")
	s.Final.PktAt, s.Final.At = drawTimes("final.", now)
	s.Final.At = admissible(s.Final.At)
	s.Final.GapCls = gapClass(s.Final.At - now)
	s.Final.Kind = "close"

	s.Repeat = 2
	for _, st := range s.Steps {
		if same, diff := st.Cfg.overlapping(); same || diff {
			s.Repeat = 3
		}
	}
	return s
}
