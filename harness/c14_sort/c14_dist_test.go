// C14 (distributed path) — the limit and the order as the distributed (global-query) runner applies them to the
// merged rows of several hosts, for a final result and for a streamed one.
package c14

import (
	"context"
	"fmt"
	"net/netip"
	"testing"

	"github.com/danielgtaylor/huma/v2/sse"
	gqdist "github.com/els0r/goProbe/v4/cmd/global-query/pkg/distributed"
	"github.com/els0r/goProbe/v4/pkg/distributed/hosts"
	"github.com/els0r/goProbe/v4/pkg/query"
	"github.com/els0r/goProbe/v4/pkg/results"
	"github.com/els0r/goProbe/v4/pkg/types"
	"pgregory.net/rapid"

	"verifharness/internal/evid"
)

type distResolver struct{ out hosts.Hosts }

func (s distResolver) Resolve(_ context.Context, _ string) (hosts.Hosts, error) { return s.out, nil }

type distQuerier struct{ deliver []*results.Result }

func (s *distQuerier) Query(_ context.Context, _ hosts.Hosts, _ *query.Args) (<-chan *results.Result, <-chan struct{}) {
	kc := make(chan struct{})
	close(kc)
	rc := make(chan *results.Result, len(s.deliver))
	for _, r := range s.deliver {
		rc <- r
	}
	close(rc)
	return rc, kc
}

// TestC14DistributedLimit: rows spread over 1–3 hosts (distinct keys, so that merging adds nothing), a statement
// with sort key, direction and limit; the final result of Run and of RunStreaming must be exactly the first
// `limit` rows of the statement's order over all rows. Wide cases have more rows than the cap of 100 that the
// runner applies to streamed partial results.
func TestC14DistributedLimit(t *testing.T) {
	rapid.Check(t, func(t *rapid.T) {
		var rows results.Rows
		wide := rapid.IntRange(0, 3).Draw(t, "wide") == 0
		if wide {
			n := rapid.IntRange(101, 300).Draw(t, "nrows")
			mul := rapid.Uint64Range(1, 997).Draw(t, "mul")
			for i := 0; i < n; i++ {
				v := (uint64(i)*7919 + mul) % 211 // ties are frequent
				rows = append(rows, results.Row{
					Attributes: results.Attributes{SrcIP: netip.AddrFrom4([4]byte{10, 7, byte(i / 250), byte(1 + i%250)}), DstIP: netip.MustParseAddr("192.168.1.1"), IPProto: 6, DstPort: uint16(80 + i%3)},
					Counters:   types.Counters{BytesRcvd: 40 * v, PacketsRcvd: v, BytesSent: 60 * ((v * mul) % 13), PacketsSent: (v * mul) % 13},
				})
			}
		} else {
			// rows with distinct keys only: the runner merges rows with equal labels and attributes (C15's subject)
			seen := map[semKey]bool{}
			for _, r := range genRows(t, including, 0, 16).rows {
				if k := semOf(r); !seen[k] {
					seen[k] = true
					rows = append(rows, r)
				}
			}
		}
		n := len(rows)
		var k uint64
		if wide {
			k = rapid.SampledFrom([]uint64{1, 50, 99, 100, 101, 150, uint64(n - 1), uint64(n), uint64(n + 1), 1000}).Draw(t, "limit")
		} else {
			k = uint64(rapid.IntRange(1, n+1).Draw(t, "limit"))
		}
		a := query.Args{Query: "sip,dip,dport,proto", Ifaces: "eth0,eth1", QueryHosts: "hostA,hostB,hostC", Format: "json", First: "1700000000", Last: "1700003600", MaxMemPct: 60, NumResults: k}
		a.SortBy = rapid.SampledFrom([]string{"bytes", "packets"}).Draw(t, "sort_by")
		switch rapid.IntRange(0, 3).Draw(t, "dirflags") {
		case 0:
			a.Sum = true
		case 1:
			a.In = true
		case 2:
			a.Out = true
		default:
			a.In, a.Out = true, true
		}
		a.SortAscending = rapid.Bool().Draw(t, "sort_ascending")
		stmt := mustPrepare(t, a)
		o := order{by: stmt.SortBy, dir: stmt.Direction, asc: stmt.SortAscending}

		nh := rapid.IntRange(1, 3).Draw(t, "nhosts")
		names := []string{"hostA", "hostB", "hostC"}[:nh]
		perm := permuted(t, rows, "perm")
		deliver := make([]*results.Result, nh)
		for h := range deliver {
			r := results.New()
			r.Start()
			r.Hostname = names[h]
			r.Status = results.Status{Code: types.StatusOK}
			r.HostsStatuses = results.HostsStatuses{names[h]: r.Status}
			r.Query = results.Query{Attributes: []string{"sip", "dip", "dport", "proto"}}
			deliver[h] = r
		}
		for i, row := range perm {
			r := deliver[i%nh]
			r.Rows = append(r.Rows, row)
			r.Summary.Totals.Add(row.Counters)
		}
		for _, r := range deliver {
			r.Summary.Hits = results.Hits{Total: len(r.Rows), Displayed: len(r.Rows)}
			r.Summary.DataAvailable = len(r.Rows) > 0
		}
		nt := o.hasTie(rows) || (wide && k > 100)
		cl := []string{"route:distributed", limitClass(k, n), "sort:" + o.by.String(), "dir:" + o.dir.String(), fmt.Sprintf("hosts:%d", nh)}
		if wide {
			cl = append(cl, "distributed:more-than-100-rows")
			if k > 100 {
				cl = append(cl, "distributed:limit-above-streaming-cap")
			}
		}
		evid.Case(fmt.Sprintf("dist|limit=%d|%v|hosts=%d|%s", k, o, nh, canonSet(rows)), nt, cl...)
		if evid.WantSample(nt) && !wide {
			evid.Sample(map[string]any{"kind": "distributed runner", "limit": k, "order": o.String(), "hosts": nh, "rows": rowsStr(rows)}, nt)
		}
		full := o.sorted(cloneRows(rows))
		want := full
		if k < uint64(len(full)) {
			want = full[:k]
		}
		for _, streaming := range []bool{false, true} {
			// every run gets copies: the runner may keep and modify what it receives
			cp := make([]*results.Result, nh)
			for h, r := range deliver {
				c := *r
				c.Rows = cloneRows(r.Rows)
				c.HostsStatuses = results.HostsStatuses{names[h]: r.Status}
				cp[h] = &c
			}
			rm := hosts.NewResolverMap()
			rm.Set("string", distResolver{out: hosts.Hosts(names)})
			qr := gqdist.NewQueryRunner(rm, &distQuerier{deliver: cp})
			args := a
			var (
				res *results.Result
				err error
			)
			mode := "Run"
			if streaming {
				mode = "RunStreaming"
				res, err = qr.RunStreaming(context.Background(), &args, sse.Sender(func(sse.Message) error { return nil }))
			} else {
				res, err = qr.Run(context.Background(), &args)
			}
			if err != nil || res == nil {
				t.Fatalf("%s", evid.Sig("C14:distributed-error", "%s failed: %v", mode, err))
			}
			w := fmt.Sprintf("%s, limit %d (%v), %d rows over %d hosts", mode, k, o, n, nh)
			if len(res.Rows) != len(want) {
				t.Fatalf("%s", evid.Sig("C14:distributed-limit-count", "%s: %d rows returned, want %d", w, len(res.Rows), len(want)))
			}
			if res.Summary.Hits.Displayed != len(res.Rows) {
				t.Fatalf("%s", evid.Sig("C14:distributed-limit-hits", "%s: hits %+v with %d rows", w, res.Summary.Hits, len(res.Rows)))
			}
			if mm := o.diffSeq(res.Rows, want, full); len(mm) > 0 {
				ws := w
				if !wide {
					ws += fmt.Sprintf("\nfull order:\n%sreturned:\n%s", rowsStr(full), rowsStr(res.Rows))
				}
				settle(t, "C14:distributed-limit-prefix", mm, ws)
			}
		}
	})
}
