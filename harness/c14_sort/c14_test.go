// C14 — sorted results are in the order selected by sort key, direction and
// ascending flag, ties are broken by a fixed order over labels and attributes (so
// the same multiset of rows always comes out in the same sequence, whatever the
// input order), and a row limit keeps exactly the first rows of that order.
package c14

import (
	"context"
	"fmt"
	"io"
	"log/slog"
	"net/netip"
	"sort"
	"strings"
	"testing"
	"time"

	gqdist "github.com/els0r/goProbe/v4/cmd/global-query/pkg/distributed"
	"github.com/els0r/goProbe/v4/pkg/distributed/hosts"
	"github.com/els0r/goProbe/v4/pkg/query"
	"github.com/els0r/goProbe/v4/pkg/results"
	"github.com/els0r/goProbe/v4/pkg/types"
	"pgregory.net/rapid"

	"verifharness/internal/evid"
)

// Open findings this check knows how to attribute (see the report / known_findings.json).
const (
	f14a = "C14-F14a" // Labels.Less compares time.Time with != : equal instants in different *time.Location are unordered and hide the host/iface tie-breaks
	f14b = "C14-F14b" // Labels.Less never looks at HostID: rows that differ only in the host ID are unordered
)

func TestMain(m *testing.M) {
	slog.SetDefault(slog.New(slog.NewTextHandler(io.Discard, nil))) // the distributed runner logs every query
	evid.Rule("distributed-limit: rows with distinct keys (0-16 from the generator below, or 101-300 derived rows with frequent ties) spread over 1-3 stub hosts of the real distributed.QueryRunner, sort by bytes/packets in every direction, limits around the row count and around the cap of 100 on streamed partial results; the final rows of Run and RunStreaming must be the first `limit` rows of the reference order. " +
		"row multisets of 0-24 rows: fresh rows over small alphabets (3 interfaces, 3 host names, 3 host ids, 9 addresses incl. IPv4/IPv6/IPv4-mapped/unspecified/invalid, 4 instants incl. 'no time label', counters from a small set so that primary keys tie) " +
		"and rows derived from an earlier row by changing exactly one thing (location of the instant, host id only, host name, interface, instant, one attribute, or nothing = duplicate) or the location together with host name / interface; rows with equal labels and attributes carry equal counters (as in an aggregated result). " +
		"Mode 'including': instants in Local/UTC/shared fixed zones/freshly allocated fixed zones (what JSON decoding produces) and free host ids; mode 'excluding': one *time.Location per case and the host id a function of the host name. " +
		"All SortOrder in {packets, bytes, time} x Direction in {sum, in, out, both} x ascending; limits 0..n+1; statements are made by Args.Prepare. " +
		"Non-trivial = two distinguishable rows tie on the primary key; distinct by sort parameters + the sorted canonical text of the multiset")
	evid.Assume("rows are compared with time.Equal for the instant and == for everything else; rows equal under that comparison are indistinguishable and may swap",
		"only Direction in {sum, in, out, both} and SortOrder in {packets, bytes, time} are generated (what Args.Prepare can produce); 'both' orders by the sum of both directions, as the goQuery help text documents",
		"counters stay below 2^62 so that the sum of both directions does not wrap",
		"two rows with equal labels and attributes but different counters are not generated: results are aggregated by (labels, attributes), and the property only fixes the tie order over labels and attributes",
		"a limit of 0 means 'no limit' (PostProcess: 'prune results if the statement has NumResults set')",
		"the unexported finalizeResult of the distributed runner is reached through QueryRunner.Run with an in-memory Querier; each generated row is handed to it once (merging of overlapping host results belongs to C15)")
	evid.Main(m)
}

type genMode int

const (
	including genMode = iota // everything the property quantifies over
	excluding                // open findings F14a / F14b excluded by construction
)

func (m genMode) String() string {
	if m == including {
		return "mode:including"
	}
	return "mode:excluding"
}

// ---- alphabets

var (
	ifaceNames = []string{"", "eth0", "eth1"}
	hostNames  = []string{"", "hostA", "hostB"}
	hostIDs    = []string{"", "1", "2"}
	addrs      = []netip.Addr{{}, netip.MustParseAddr("0.0.0.0"), netip.MustParseAddr("10.0.0.1"), netip.MustParseAddr("10.0.0.2"), netip.MustParseAddr("255.255.255.255"),
		netip.MustParseAddr("::"), netip.MustParseAddr("::1"), netip.MustParseAddr("2001:db8::1"), netip.MustParseAddr("::ffff:10.0.0.1")}
	protos   = []uint8{0, 6, 17}
	ports    = []uint16{0, 53, 443}
	counters = []uint64{0, 1, 2, 3, 1000, 1 << 40, 1<<62 - 1}
	zoneA    = time.FixedZone("", 2*3600)
	zoneB    = time.FixedZone("EST", -5*3600)
)

const nLocs = 5

// inLocation re-expresses ts in location class c; class 4 allocates a new *time.Location
// with the offset of zoneA, which is what decoding a JSON timestamp "…+02:00" does.
func inLocation(ts time.Time, c int) time.Time {
	if ts.IsZero() {
		return time.Time{} // rows without time label carry the literal zero value
	}
	switch c {
	case 0:
		return time.Unix(ts.Unix(), 0) // Local, as the query engine produces it
	case 1:
		return ts.UTC()
	case 2:
		return ts.In(zoneA)
	case 3:
		return ts.In(zoneB)
	default:
		return ts.In(time.FixedZone("", 2*3600))
	}
}

func locTag(ts time.Time) string {
	switch {
	case ts.IsZero():
		return "-"
	case ts.Location() == time.Local:
		return "L"
	case ts.Location() == time.UTC:
		return "U"
	case ts.Location() == zoneA:
		return "A"
	case ts.Location() == zoneB:
		return "B"
	}
	return "F"
}

// ---- row identity

type semKey struct {
	zero bool
	unix int64
	nsec int
	results.Attributes
	iface, host, hid string
}

func semOf(r results.Row) semKey {
	k := semKey{Attributes: r.Attributes, iface: r.Labels.Iface, host: r.Labels.Hostname, hid: r.Labels.HostID}
	if r.Labels.Timestamp.IsZero() {
		k.zero = true
	} else {
		k.unix, k.nsec = r.Labels.Timestamp.Unix(), r.Labels.Timestamp.Nanosecond()
	}
	return k
}

// same: indistinguishable rows (instants compared with time.Equal)
func same(a, b results.Row) bool { return semOf(a) == semOf(b) && a.Counters == b.Counters }

func rowStr(r results.Row) string {
	ts := "no-time"
	if !r.Labels.Timestamp.IsZero() {
		ts = fmt.Sprintf("%d@%s", r.Labels.Timestamp.Unix(), locTag(r.Labels.Timestamp))
	}
	return fmt.Sprintf("%s|if=%s|host=%s|hid=%s|%v>%v|p%d|d%d|br=%d bs=%d pr=%d ps=%d", ts, r.Labels.Iface, r.Labels.Hostname, r.Labels.HostID,
		r.Attributes.SrcIP, r.Attributes.DstIP, r.Attributes.IPProto, r.Attributes.DstPort,
		r.Counters.BytesRcvd, r.Counters.BytesSent, r.Counters.PacketsRcvd, r.Counters.PacketsSent)
}

func rowsStr(rows results.Rows) string {
	var sb strings.Builder
	for i, r := range rows {
		fmt.Fprintf(&sb, "  %2d %s\n", i, rowStr(r))
	}
	return sb.String()
}

func canonSet(rows results.Rows) string {
	s := make([]string, len(rows))
	for i, r := range rows {
		s[i] = rowStr(r)
	}
	sort.Strings(s)
	return strings.Join(s, ";")
}

func cloneRows(r results.Rows) results.Rows { return append(results.Rows(nil), r...) }

func permuted(t *rapid.T, rows results.Rows, label string) results.Rows {
	if len(rows) < 2 {
		return cloneRows(rows)
	}
	return results.Rows(rapid.Permutation([]results.Row(rows)).Draw(t, label))
}

// ---- generator

type rowCase struct {
	rows    results.Rows
	classes map[string]bool
}

func genRows(t *rapid.T, mode genMode, minRows, maxRows int) rowCase {
	rc := rowCase{classes: map[string]bool{}}
	base := rapid.Int64Range(1, 6_000_000).Draw(t, "base") * 300
	instants := []time.Time{{}, time.Unix(base, 0), time.Unix(base+300, 0), time.Unix(base+600, 0)}
	caseLoc := 0
	idOf := map[string]string{}
	if mode == excluding {
		caseLoc = rapid.IntRange(0, 3).Draw(t, "caseloc") // one shared *time.Location for the whole case
		for _, h := range hostNames {
			idOf[h] = rapid.SampledFrom(hostIDs).Draw(t, "id("+h+")")
		}
		evid.Excluded(f14a)
		evid.Excluded(f14b)
	}
	genCounters := func(l string) types.Counters {
		return types.Counters{BytesRcvd: rapid.SampledFrom(counters).Draw(t, l+".br"), BytesSent: rapid.SampledFrom(counters).Draw(t, l+".bs"),
			PacketsRcvd: rapid.SampledFrom(counters).Draw(t, l+".pr"), PacketsSent: rapid.SampledFrom(counters).Draw(t, l+".ps")}
	}
	fresh := func(l string) results.Row {
		r := results.Row{
			Labels: results.Labels{Iface: rapid.SampledFrom(ifaceNames).Draw(t, l+".iface"), Hostname: rapid.SampledFrom(hostNames).Draw(t, l+".host"), HostID: rapid.SampledFrom(hostIDs).Draw(t, l+".hid")},
			Attributes: results.Attributes{SrcIP: rapid.SampledFrom(addrs).Draw(t, l+".sip"), DstIP: rapid.SampledFrom(addrs).Draw(t, l+".dip"),
				IPProto: rapid.SampledFrom(protos).Draw(t, l+".proto"), DstPort: rapid.SampledFrom(ports).Draw(t, l+".dport")},
			Counters: genCounters(l),
		}
		r.Labels.Timestamp = inLocation(rapid.SampledFrom(instants).Draw(t, l+".ts"), rapid.IntRange(0, nLocs-1).Draw(t, l+".loc"))
		return r
	}
	// pick a different member of an alphabet
	other := func(l string, n, cur int) int { return (cur + 1 + rapid.IntRange(0, n-2).Draw(t, l)) % n }
	idx := func(n int, eq func(i int) bool) int {
		for i := 0; i < n; i++ {
			if eq(i) {
				return i
			}
		}
		return 0
	}

	bySem := map[semKey]types.Counters{}
	n := minRows
	if maxRows > minRows {
		n = rapid.OneOf(rapid.IntRange(minRows, maxRows), rapid.IntRange(min(max(minRows, 3), maxRows), maxRows)).Draw(t, "nrows")
	}
	for i := 0; i < n; i++ {
		l := fmt.Sprintf("row%d", i)
		var r results.Row
		if i == 0 || rapid.IntRange(0, 2).Draw(t, l+".fresh") == 0 {
			r = fresh(l)
		} else {
			r = rc.rows[rapid.IntRange(0, i-1).Draw(t, l+".from")]
			keepCounters := rapid.IntRange(0, 3).Draw(t, l+".tie") != 0 // mostly keep the counters: a tie on every primary key
			change := rapid.IntRange(0, 11).Draw(t, l+".change")
			if change >= 10 {
				// the same instant in another location *and* another host name / interface: the
				// pair whose order the location must not influence
				r.Labels.Timestamp = inLocation(r.Labels.Timestamp, rapid.IntRange(0, nLocs-1).Draw(t, l+".loc2"))
				if mode == including {
					rc.classes["derive:location+label"] = true
				}
				change -= 7 // continue with 3 (host name) or 4 (interface)
			}
			switch change {
			case 0: // nothing: an identical duplicate
				rc.classes["derive:duplicate"] = true
			case 1: // the same instant carried in another location
				cur := idx(nLocs, func(c int) bool { return locTag(inLocation(r.Labels.Timestamp, c)) == locTag(r.Labels.Timestamp) })
				if locTag(r.Labels.Timestamp) == "F" || rapid.IntRange(0, 3).Draw(t, l+".freshzone") == 0 {
					r.Labels.Timestamp = inLocation(r.Labels.Timestamp, 4) // another pointer, same offset
				} else {
					r.Labels.Timestamp = inLocation(r.Labels.Timestamp, other(l+".loc", nLocs, cur))
				}
				if mode == including {
					rc.classes["derive:location-only"] = true
				}
			case 2: // host id only
				r.Labels.HostID = hostIDs[other(l+".hid", len(hostIDs), idx(len(hostIDs), func(i int) bool { return hostIDs[i] == r.Labels.HostID }))]
				if mode == including {
					rc.classes["derive:hostid-only"] = true
				}
			case 3:
				r.Labels.Hostname = hostNames[other(l+".host", len(hostNames), idx(len(hostNames), func(i int) bool { return hostNames[i] == r.Labels.Hostname }))]
				rc.classes["derive:hostname"] = true
			case 4:
				r.Labels.Iface = ifaceNames[other(l+".iface", len(ifaceNames), idx(len(ifaceNames), func(i int) bool { return ifaceNames[i] == r.Labels.Iface }))]
				rc.classes["derive:iface"] = true
			case 5:
				cur := idx(len(instants), func(i int) bool { return instants[i].Equal(r.Labels.Timestamp) })
				r.Labels.Timestamp = inLocation(instants[other(l+".ts", len(instants), cur)], rapid.IntRange(0, nLocs-1).Draw(t, l+".loc"))
				rc.classes["derive:instant"] = true
			case 6:
				r.Attributes.SrcIP = addrs[other(l+".sip", len(addrs), idx(len(addrs), func(i int) bool { return addrs[i] == r.Attributes.SrcIP }))]
				rc.classes["derive:sip"] = true
			case 7:
				r.Attributes.DstIP = addrs[other(l+".dip", len(addrs), idx(len(addrs), func(i int) bool { return addrs[i] == r.Attributes.DstIP }))]
				rc.classes["derive:dip"] = true
			case 8:
				r.Attributes.IPProto = protos[other(l+".proto", len(protos), idx(len(protos), func(i int) bool { return protos[i] == r.Attributes.IPProto }))]
				rc.classes["derive:proto"] = true
			default:
				r.Attributes.DstPort = ports[other(l+".dport", len(ports), idx(len(ports), func(i int) bool { return ports[i] == r.Attributes.DstPort }))]
				rc.classes["derive:dport"] = true
			}
			if !keepCounters {
				r.Counters = genCounters(l)
			}
		}
		if mode == excluding {
			r.Labels.Timestamp = inLocation(r.Labels.Timestamp, caseLoc)
			r.Labels.HostID = idOf[r.Labels.Hostname]
		}
		// one counter set per (labels, attributes), as in an aggregated result
		if c, ok := bySem[semOf(r)]; ok {
			r.Counters = c
		} else {
			bySem[semOf(r)] = r.Counters
		}
		rc.rows = append(rc.rows, r)
	}
	rc.classify()
	return rc
}

func (rc *rowCase) classify() {
	fam := map[string]bool{}
	locs := map[string]bool{}
	for i, r := range rc.rows {
		for _, a := range []netip.Addr{r.Attributes.SrcIP, r.Attributes.DstIP} {
			switch {
			case !a.IsValid():
				fam["invalid"] = true
			case a.Is4():
				fam["v4"] = true
			default:
				fam["v6"] = true
			}
		}
		if !r.Labels.Timestamp.IsZero() {
			locs[locTag(r.Labels.Timestamp)] = true
		}
		for _, s := range rc.rows[:i] {
			if same(r, s) {
				continue
			}
			if r.Labels.Timestamp.Equal(s.Labels.Timestamp) && r.Labels.Timestamp != s.Labels.Timestamp {
				rc.classes["pair:equal-instant-different-location"] = true
			}
			a, b := semOf(r), semOf(s)
			a.hid, b.hid = "", ""
			if a == b {
				rc.classes["pair:differ-in-hostid-only"] = true
			}
		}
	}
	if fam["v4"] && fam["v6"] {
		rc.classes["addr:v4+v6"] = true
	}
	if fam["invalid"] {
		rc.classes["addr:invalid-present"] = true
	}
	if len(locs) > 1 {
		rc.classes["locations:mixed"] = true
	} else {
		rc.classes["locations:single"] = true
	}
	switch n := len(rc.rows); {
	case n < 2:
		rc.classes["rows:0-1"] = true
	case n == 2:
		rc.classes["rows:2"] = true
	case n <= 8:
		rc.classes["rows:3-8"] = true
	default:
		rc.classes["rows:9+"] = true
	}
}

func (rc *rowCase) classList(extra ...string) []string {
	out := append([]string(nil), extra...)
	for c := range rc.classes {
		out = append(out, c)
	}
	sort.Strings(out)
	return out
}

// ---- the selected order

type order struct {
	by  results.SortOrder
	dir types.Direction
	asc bool
}

func (o order) String() string { return fmt.Sprintf("sort=%s dir=%s asc=%v", o.by, o.dir, o.asc) }

func genOrder(t *rapid.T) order {
	return order{
		by:  rapid.SampledFrom([]results.SortOrder{results.SortPackets, results.SortTraffic, results.SortTime}).Draw(t, "sortby"),
		dir: rapid.SampledFrom([]types.Direction{types.DirectionSum, types.DirectionIn, types.DirectionOut, types.DirectionBoth}).Draw(t, "direction"),
		asc: rapid.Bool().Draw(t, "ascending"),
	}
}

// cmpPrimary compares the primary sort key of two rows (-1, 0, +1).
func (o order) cmpPrimary(a, b results.Row) int {
	if o.by == results.SortTime {
		return a.Labels.Timestamp.Compare(b.Labels.Timestamp)
	}
	val := func(r results.Row) uint64 {
		in, out := r.Counters.PacketsRcvd, r.Counters.PacketsSent
		if o.by == results.SortTraffic {
			in, out = r.Counters.BytesRcvd, r.Counters.BytesSent
		}
		switch o.dir {
		case types.DirectionIn:
			return in
		case types.DirectionOut:
			return out
		}
		return in + out
	}
	switch x, y := val(a), val(b); {
	case x < y:
		return -1
	case x > y:
		return 1
	}
	return 0
}

func (o order) sorted(rows results.Rows) results.Rows {
	out := cloneRows(rows)
	results.By(o.by, o.dir, o.asc).Sort(out)
	return out
}

// hasTie: two distinguishable rows share the primary key
func (o order) hasTie(rows results.Rows) bool {
	for i, r := range rows {
		for _, s := range rows[:i] {
			if o.cmpPrimary(r, s) == 0 && !same(r, s) {
				return true
			}
		}
	}
	return false
}

// checkOrdered: the sequence follows the primary key in the selected direction.
func (o order) checkOrdered(seq results.Rows) string {
	for i := 0; i+1 < len(seq); i++ {
		c := o.cmpPrimary(seq[i], seq[i+1])
		if (o.asc && c > 0) || (!o.asc && c < 0) {
			return fmt.Sprintf("rows %d and %d are out of order for %v", i, i+1, o)
		}
	}
	return ""
}

// checkPermutation: nothing dropped, nothing invented.
func checkPermutation(in, out results.Rows) string {
	cnt := map[string]int{}
	for _, r := range in {
		cnt[rowStr(r)]++
	}
	for _, r := range out {
		cnt[rowStr(r)]--
	}
	for k, v := range cnt {
		if v != 0 {
			return fmt.Sprintf("row %q: %+d occurrence(s) lost(+)/invented(-)", k, v)
		}
	}
	return ""
}

// mismatch describes one position at which two sequences differ, with the known findings
// whose root cause is present in the tie group of the two rows (none = unexplained).
type mismatch struct {
	pos      int
	x, y     results.Row
	triggers []string
}

// diffSeq compares two sequences that the property requires to be equal (up to
// indistinguishable rows) and returns the mismatching positions. A position can be
// explained by a finding if both rows lie in the same tie group — equal primary key and
// equal attributes, the only place where Labels.Less decides — and that group (taken
// from universe) contains a pair of rows that triggers the finding's root cause:
//
//	F14a: two rows with equal instants whose time.Time values differ under == (location);
//	F14b: two rows with equal instant, host name and interface but different host ids.
func (o order) diffSeq(a, b, universe results.Rows) (mm []mismatch) {
	for i := range a {
		if same(a[i], b[i]) {
			continue
		}
		m := mismatch{pos: i, x: a[i], y: b[i]}
		if o.cmpPrimary(m.x, m.y) == 0 && m.x.Attributes == m.y.Attributes {
			var group results.Rows
			for _, r := range universe {
				if o.cmpPrimary(r, m.x) == 0 && r.Attributes == m.x.Attributes {
					group = append(group, r)
				}
			}
			trig := map[string]bool{}
			for j, r := range group {
				for _, s := range group[:j] {
					if !r.Labels.Timestamp.Equal(s.Labels.Timestamp) {
						continue
					}
					if r.Labels.Timestamp != s.Labels.Timestamp {
						trig[f14a] = true
					}
					if r.Labels.Hostname == s.Labels.Hostname && r.Labels.Iface == s.Labels.Iface && r.Labels.HostID != s.Labels.HostID {
						trig[f14b] = true
					}
				}
			}
			for _, f := range []string{f14a, f14b} {
				if trig[f] {
					m.triggers = append(m.triggers, f)
				}
			}
		}
		mm = append(mm, m)
	}
	return mm
}

// settle turns mismatches into: all explained by open findings (returns), or a failure.
func settle(t *rapid.T, clause string, mm []mismatch, witness string) {
	if len(mm) == 0 {
		return
	}
	used := map[string]bool{}
	for _, m := range mm {
		explained := false
		for _, f := range m.triggers {
			if evid.IsOpen(f) {
				used[f], explained = true, true
				break
			}
		}
		if explained {
			continue
		}
		sig, note := clause, "no known finding explains it"
		if len(m.triggers) > 0 {
			sig = clause + ":" + strings.ReplaceAll(strings.Join(m.triggers, "+"), "C14-", "")
			note = fmt.Sprintf("matches the root cause of %s, not listed as an open finding", strings.Join(m.triggers, " / "))
		}
		t.Fatalf("%s", evid.Sig(sig, "position %d: %s vs %s [%s]\n%s", m.pos, rowStr(m.x), rowStr(m.y), note, witness))
	}
	for _, f := range []string{f14a, f14b} {
		if used[f] {
			evid.Known(f, witness)
		}
	}
}

// ---- (a) permutation invariance, (b) order validity, nothing dropped or invented

func propSort(mode genMode, minRows, maxRows int) func(*rapid.T) {
	return func(t *rapid.T) {
		o := genOrder(t)
		rc := genRows(t, mode, minRows, maxRows)
		p1, p2 := permuted(t, rc.rows, "perm1"), permuted(t, rc.rows, "perm2")
		s1, s2 := o.sorted(p1), o.sorted(p2)

		nt := o.hasTie(rc.rows)
		evid.Case(o.String()+";"+canonSet(rc.rows), nt, rc.classList(mode.String(), "route:by", "sort:"+o.by.String(), "dir:"+o.dir.String(), fmt.Sprintf("asc:%v", o.asc))...)
		if evid.WantSample(nt) {
			evid.Sample(map[string]any{"order": o.String(), "mode": mode.String(), "rows": strings.Split(canonSet(rc.rows), ";")}, nt)
		}
		for _, s := range []results.Rows{s1, s2} {
			if d := checkPermutation(rc.rows, s); d != "" {
				t.Fatalf("%s", evid.Sig("C14:rows-preserved", "%v: %s\ninput:\n%soutput:\n%s", o, d, rowsStr(rc.rows), rowsStr(s)))
			}
			if d := o.checkOrdered(s); d != "" {
				t.Fatalf("%s", evid.Sig("C14:primary-order", "%s\n%s", d, rowsStr(s)))
			}
		}
		if mm := o.diffSeq(s1, s2, rc.rows); len(mm) > 0 {
			w := fmt.Sprintf("%v; the same %d rows, sorted from two input orders:\nfrom order 1:\n%sfrom order 2:\n%s", o, len(rc.rows), rowsStr(s1), rowsStr(s2))
			settle(t, "C14:permutation-invariance", mm, w)
		}
	}
}

func TestC14SortIncluding(t *testing.T) { rapid.Check(t, propSort(including, 0, 24)) }
func TestC14SortExcluding(t *testing.T) { rapid.Check(t, propSort(excluding, 0, 24)) }

// Two rows only: [A B] and [B A] must come out alike, i.e. the comparator has to order every
// distinguishable pair. Failures shrink to a minimal witness.
func TestC14PairsIncluding(t *testing.T) { rapid.Check(t, propSort(including, 2, 2)) }
func TestC14PairsExcluding(t *testing.T) { rapid.Check(t, propSort(excluding, 2, 2)) }

// ---- (c) the limit keeps the first rows: Statement.PostProcess

type stmtCase struct {
	args    query.Args
	stmt    *query.Statement
	o       order
	binning bool
}

var (
	plainQueries = []string{"sip,dip", "sip,dip,dport,proto", "iface,sip", "hostname,hostid,dip", "talk_conv"}
	timeQueries  = []string{"time", "time,sip", "time,iface,hostname,dip"}
)

// genStatement draws query arguments and lets Args.Prepare make the statement, so that
// only reachable statements are used.
func genStatement(t *rapid.T, limit uint64, allowRaw bool) stmtCase {
	var sc stmtCase
	a := query.Args{Ifaces: "eth0,eth1", Format: "json", First: "0", Last: "2000000000"}
	a.SortBy = rapid.SampledFrom([]string{"bytes", "packets", "time"}).Draw(t, "sort_by")
	switch rapid.IntRange(0, 3).Draw(t, "dirflags") {
	case 0:
		a.Sum = true
	case 1:
		a.In = true
	case 2:
		a.Out = true
	default:
		a.In, a.Out = true, true
	}
	a.SortAscending = rapid.Bool().Draw(t, "sort_ascending")
	a.NumResults = limit
	switch k := rapid.IntRange(0, 3).Draw(t, "querykind"); {
	case k <= 1:
		a.Query = rapid.SampledFrom(plainQueries).Draw(t, "query")
	default:
		qs := timeQueries
		if allowRaw {
			qs = append(append([]string(nil), timeQueries...), "raw")
		}
		a.Query = rapid.SampledFrom(qs).Draw(t, "query")
		if k == 3 {
			a.TimeResolution = fmt.Sprintf("%ds", rapid.SampledFrom([]int{600, 900, 3600}).Draw(t, "resolution"))
			sc.binning = true
		}
	}
	sc.args = a
	sc.stmt = mustPrepare(t, a)
	sc.o = order{by: sc.stmt.SortBy, dir: sc.stmt.Direction, asc: sc.stmt.SortAscending}
	return sc
}

func mustPrepare(t *rapid.T, a query.Args) *query.Statement {
	a.SetDefaults()
	stmt, err := a.Prepare()
	if err != nil {
		t.Fatalf("%s", evid.Sig("C14:prepare", "Args.Prepare rejected %s: %v", a.ToJSONString(), err))
	}
	return stmt
}

func limitClass(k uint64, n int) string {
	switch {
	case k == 0:
		return "limit:0(unset)"
	case k < uint64(n):
		return "limit:<n"
	case k == uint64(n):
		return "limit:=n"
	}
	return "limit:>n"
}

func postProcess(t *rapid.T, stmt *query.Statement, rows results.Rows) *results.Result {
	res := &results.Result{Rows: cloneRows(rows)}
	res.Summary.Hits = results.Hits{Total: len(rows), Displayed: len(rows)}
	if err := stmt.PostProcess(context.Background(), res); err != nil {
		t.Fatalf("%s", evid.Sig("C14:error", "PostProcess: %v", err))
	}
	if res.Summary.Hits.Displayed != len(res.Rows) {
		t.Fatalf("%s", evid.Sig("C14:limit-hits", "PostProcess left hits %+v with %d rows", res.Summary.Hits, len(res.Rows)))
	}
	return res
}

func propLimit(mode genMode) func(*rapid.T) {
	return func(t *rapid.T) {
		rc := genRows(t, mode, 0, 16)
		n := len(rc.rows)
		k := uint64(rapid.IntRange(0, n+1).Draw(t, "limit"))
		sc := genStatement(t, max(k, 1), true) // Prepare refuses 0; see below
		if k == 0 {
			sc.stmt.NumResults = 0 // reachable: the engine lowers the limit to the row count, which may be 0
		}
		o := sc.o
		binCls := "bin:none"
		if sc.binning {
			binCls = "bin:coarser"
		}
		nt := o.hasTie(rc.rows)
		evid.Case(fmt.Sprintf("limit=%d;q=%s;res=%s;%v;%s", k, sc.args.Query, sc.args.TimeResolution, o, canonSet(rc.rows)), nt,
			rc.classList(mode.String(), "route:postprocess", binCls, limitClass(k, n), "sort:"+o.by.String(), "dir:"+o.dir.String())...)

		want := func(full results.Rows) int {
			if k == 0 || k > uint64(len(full)) {
				return len(full)
			}
			return int(k)
		}
		if !sc.binning || !sc.stmt.LabelSelector.Timestamp {
			// the statement's order as the engine / the distributed runner establish it, then the limit
			full := o.sorted(permuted(t, rc.rows, "perm"))
			got := postProcess(t, sc.stmt, full).Rows
			if len(got) != want(full) {
				t.Fatalf("%s", evid.Sig("C14:limit-count", "limit %d on %d rows left %d rows", k, n, len(got)))
			}
			for i := range got {
				if !same(got[i], full[i]) || got[i].Labels.Timestamp != full[i].Labels.Timestamp {
					t.Fatalf("%s", evid.Sig("C14:limit-prefix", "limit %d: row %d is %s, the full order has %s\nfull order (%v):\n%s", k, i, rowStr(got[i]), rowStr(full[i]), o, rowsStr(full)))
				}
			}
			return
		}
		// coarser time resolution: PostProcess re-aggregates and re-orders (time, ascending) before it cuts
		unlimited := *sc.stmt
		unlimited.NumResults = query.MaxResults
		full := postProcess(t, &unlimited, permuted(t, rc.rows, "perm1")).Rows
		got := postProcess(t, sc.stmt, permuted(t, rc.rows, "perm2")).Rows
		if d := o.checkOrdered(full); d != "" {
			t.Fatalf("%s", evid.Sig("C14:primary-order", "after re-binning (%s): %s\n%s", sc.args.TimeResolution, d, rowsStr(full)))
		}
		if len(got) != want(full) {
			t.Fatalf("%s", evid.Sig("C14:limit-count", "limit %d on %d re-binned rows left %d rows", k, len(full), len(got)))
		}
		if mm := o.diffSeq(got, full[:len(got)], full); len(mm) > 0 {
			w := fmt.Sprintf("query %q resolution %s limit %d (%v)\nwithout limit:\n%swith limit:\n%s", sc.args.Query, sc.args.TimeResolution, k, o, rowsStr(full), rowsStr(got))
			settle(t, "C14:limit-prefix", mm, w)
		}
	}
}

func TestC14LimitIncluding(t *testing.T) { rapid.Check(t, propLimit(including)) }
func TestC14LimitExcluding(t *testing.T) { rapid.Check(t, propLimit(excluding)) }

// ---- (c) through finalizeResult of the distributed runner

type listResolver struct{}

func (listResolver) Resolve(_ context.Context, q string) (hosts.Hosts, error) {
	return hosts.Hosts(strings.Split(q, ",")), nil
}

// memQuerier answers with prepared per-host results.
type memQuerier struct{ perHost map[string]results.Rows }

func (m memQuerier) Query(_ context.Context, hs hosts.Hosts, _ *query.Args) (<-chan *results.Result, <-chan struct{}) {
	out := make(chan *results.Result, len(hs))
	for _, h := range hs {
		r := results.New()
		r.Hostname = h
		r.HostsStatuses[h] = results.Status{Code: types.StatusOK}
		r.Rows = cloneRows(m.perHost[h])
		r.Summary.Hits = results.Hits{Total: len(r.Rows), Displayed: len(r.Rows)}
		r.Summary.DataAvailable = true
		out <- r
	}
	close(out)
	ka := make(chan struct{})
	close(ka)
	return out, ka
}

func runDistributed(t *rapid.T, a query.Args, perHost map[string]results.Rows, hostList []string) results.Rows {
	rm := hosts.NewResolverMap()
	rm.Set("string", listResolver{})
	a.QueryHosts = strings.Join(hostList, ",")
	a.SetDefaults()
	res, err := gqdist.NewQueryRunner(rm, memQuerier{perHost}).Run(context.Background(), &a)
	if err != nil {
		t.Fatalf("%s", evid.Sig("C14:error", "distributed run of %s: %v", a.ToJSONString(), err))
	}
	return res.Rows
}

func propDistributed(mode genMode) func(*rapid.T) {
	return func(t *rapid.T) {
		rc := genRows(t, mode, 0, 16)
		// the runner aggregates by (labels, attributes) with ==; hand every such key over once
		seen := map[results.MergeableAttributes]bool{}
		var rows results.Rows
		for _, r := range rc.rows {
			k := results.MergeableAttributes{Labels: r.Labels, Attributes: r.Attributes}
			if !seen[k] {
				seen[k] = true
				rows = append(rows, r)
			}
		}
		n := len(rows)
		k := uint64(rapid.IntRange(1, n+1).Draw(t, "limit"))
		sc := genStatement(t, k, false)
		o := sc.o
		hostList := []string{"h1", "h2", "h3"}[:rapid.IntRange(1, 3).Draw(t, "nhosts")]
		split := func(rs results.Rows, label string) map[string]results.Rows {
			m := map[string]results.Rows{}
			for i, r := range rs {
				h := hostList[rapid.IntRange(0, len(hostList)-1).Draw(t, fmt.Sprintf("%s%d", label, i))]
				m[h] = append(m[h], r)
			}
			return m
		}
		binCls := "bin:none"
		if sc.binning {
			binCls = "bin:coarser"
		}
		nt := o.hasTie(rows)
		evid.Case(fmt.Sprintf("dist;limit=%d;q=%s;res=%s;%v;%s", k, sc.args.Query, sc.args.TimeResolution, o, canonSet(rows)), nt,
			rc.classList(mode.String(), "route:distributed", binCls, limitClass(k, n), "sort:"+o.by.String(), "dir:"+o.dir.String())...)

		got := runDistributed(t, sc.args, split(permuted(t, rows, "perm1"), "host"), hostList)
		var full results.Rows
		if sc.binning {
			ua := sc.args
			ua.NumResults = query.MaxResults
			full = runDistributed(t, ua, split(permuted(t, rows, "perm2"), "uhost"), hostList)
		} else {
			full = o.sorted(permuted(t, rows, "perm2"))
			if d := checkPermutation(rows, runDistributed(t, withLimit(sc.args, query.MaxResults), split(rows, "ahost"), hostList)); d != "" {
				t.Fatalf("%s", evid.Sig("C14:rows-preserved", "distributed run without limit: %s", d))
			}
		}
		if d := o.checkOrdered(got); d != "" {
			t.Fatalf("%s", evid.Sig("C14:primary-order", "distributed result: %s\n%s", d, rowsStr(got)))
		}
		want := min(int(k), len(full))
		if len(got) != want {
			t.Fatalf("%s", evid.Sig("C14:limit-count", "distributed: limit %d on %d rows left %d rows", k, len(full), len(got)))
		}
		if mm := o.diffSeq(got, full[:len(got)], full); len(mm) > 0 {
			w := fmt.Sprintf("distributed query %q resolution %q limit %d (%v)\nfull order:\n%sreturned:\n%s", sc.args.Query, sc.args.TimeResolution, k, o, rowsStr(full), rowsStr(got))
			settle(t, "C14:limit-prefix", mm, w)
		}
	}
}

func withLimit(a query.Args, n uint64) query.Args { a.NumResults = n; return a }

func TestC14DistributedIncluding(t *testing.T) { rapid.Check(t, propDistributed(including)) }
func TestC14DistributedExcluding(t *testing.T) { rapid.Check(t, propDistributed(excluding)) }
