// C20 — captured traffic is fully accounted for across write-outs.
//
// A real capture.Manager (capture.InitManager: real GoDB write-out handler, temporary database, the
// scheduler that writes out every 300 s) runs inside a testing/synctest bubble on in-memory packet sources
// (capharness). The whole case — conversations, packet script with fake-clock instants, status calls and
// live queries, idle intervals — is drawn outside the bubble; the bubble returns its observations as a
// value and the verdict is formed outside.
//
// Oracle (capharness.CheckConservation), independent of goProbe's aggregation code:
//   - per interface and direction: sum over all blocks written by scheduled write-outs + flows still in
//     memory (GetFlowMaps) = sum over the delivered packets that parse successfully,
//   - per interval: the block with timestamp k*300 holds exactly the packets delivered in ((k-1)*300, k*300],
//     one record per stored key, both directions of a conversation in the same record, no record without
//     packets (a missing block counts as an empty one), keys are (sip, dip, dport, proto) — a source port
//     leaking into the stored data shows up as a missing / unexpected record,
//   - the flows in memory after the last scheduled write-out, every live query in between, and the
//     write-out performed by Close hold exactly the packets delivered since the preceding write-out.
package c20

import (
	"fmt"
	"strings"
	"testing"

	"pgregory.net/rapid"

	"verifharness/c20_capture/capharness"
	"verifharness/internal/evid"
)

func TestMain(m *testing.M) {
	evid.Rule("rapid draws a script outside the bubble: 1-2 interfaces, lz4/null encoder, start of the manager 0..299 s after a write-out boundary, 1-6 conversations " +
		"(IPv4/IPv6; TCP/UDP with a common, registered, high or low server port and a client port that makes the port heuristics decisive; ICMP/ICMPv6 echo and error replies; UDP to multicast/broadcast; " +
		"other protocols one-way; plus conversations that collapse onto another one after source-port aggregation, and non-decisive ones: other protocols two-way, identical ports, both ports common, unknown ICMP types), " +
		"1-4 scheduled write-outs with per-interval packet scripts (direction, TCP flags / ICMP types consistent with the role, packet type from {host, broadcast, multicast, otherhost, outgoing, unknown, undefined values}, " +
		"sizes 0..2^32-1, fake-clock instants incl. 1 µs after and 1 ns before a boundary), idle intervals, truncated / runt / non-first-fragment / non-IP packets, status calls and live queries in between, a tail after the last write-out; " +
		"a second run (paused) additionally scripts packets inside the pause windows of write-outs, status calls and live queries (before the lock is confirmed, while it is held, after the unlock request; both IP families) and checks the same law; " +
		"non-trivial = some conversation has packets in both directions within one interval, has traffic in >= 2 intervals and is idle in an interval that follows one of its active intervals (paused run: and at least one packet was taken inside a pause window); distinct by the script text")
	evid.Assume("the stored key of a packet is computed with the exported ParsePacketV4/V6 and ClassifyPacketDirectionV4/V6 (stored = Reverse(hash) iff classified 'reverts'); these are verified by C19 and C22. "+
		"For decisive conversations the generator checks that every packet of either direction yields the same stored key",
		"for non-decisive conversations (private address pair each) the record may be stored under the key of either orientation; exactly one of the two records must exist per interval and hold all packets of both directions",
		"conversations of protocols without ports (ICMP, other protocols) get a private address pair as well: their flow key is the address pair, so two of them on one host pair are a single conversation for the flow log",
		"a packet type equal to PacketOutgoing counts as sent, every other value as received (slimcap's documented meaning, Packet.IsInbound)",
		"a missing block for an interval is treated like an empty block; block timestamps are the scheduled instants (multiples of 300 s of the bubble clock) and now+1 s for Close",
		"schedule ownership: packet delivery, status calls, live queries and the instants of write-outs are owned (synctest); inside a write-out the order of the manager's own goroutines is left to the Go scheduler",
		"parse failures (truncated, runt, fragment, non-IP) are expected to contribute nothing; their classification is C19's subject")
	evid.Main(m)
}

func protoClass(c *capharness.Conv) string {
	switch c.Proto {
	case capharness.ProtoTCP:
		return "tcp"
	case capharness.ProtoUDP:
		return "udp"
	case capharness.ProtoICMP, capharness.ProtoICMPv6:
		if len(c.FwdTypes) > 0 {
			return "icmp"
		}
	}
	return "other"
}

func classes(s *capharness.Script, acc *capharness.Accounting) []string {
	set := map[string]bool{}
	used := map[int]bool{}
	nPkt, nMal, nEv, idle := 0, 0, 0, 0
	ivPkts := 0
	for _, a := range s.Actions {
		switch a.Kind {
		case capharness.ActPkt:
			nPkt++
			ivPkts++
			used[a.P.Conv] = true
			if a.P.Mal != "" {
				nMal++
				set["mal:"+a.P.Mal] = true
			}
			if a.P.Outgoing() {
				set["pkttype:outgoing"] = true
			} else {
				set["pkttype:incoming"] = true
			}
		case capharness.ActRotate:
			if ivPkts == 0 {
				idle++
			}
			ivPkts = 0
		default:
			nEv++
			set["event:"+a.Kind.String()] = true
		}
	}
	fam := map[bool]bool{}
	for _, c := range s.Convs {
		if !used[c.ID] {
			continue
		}
		fam[c.V6] = true
		set["proto:"+protoClass(c)] = true
		set["kind:"+strings.TrimSuffix(c.Kind, "+collapse")] = true
		if strings.HasSuffix(c.Kind, "+collapse") {
			set["collapse-after-sport-aggregation"] = true
		}
		if c.Ambiguous {
			set["non-decisive-conversation"] = true
		}
	}
	if fam[false] && fam[true] {
		set["families:both"] = true
	} else if fam[true] {
		set["families:v6"] = true
	} else {
		set["families:v4"] = true
	}
	set[fmt.Sprintf("ifaces:%d", len(s.Ifaces))] = true
	set[fmt.Sprintf("writeouts:%d", len(acc.Rotations))] = true
	if idle > 0 {
		set["idle-interval"] = true
	}
	if s.StartOffset > 0 {
		set["partial-first-interval"] = true
	}
	for _, convs := range acc.Activity {
		for _, act := range convs {
			n := 0
			for _, v := range act {
				if v == 3 {
					set["both-directions-in-one-interval"] = true
				}
				if v != 0 {
					n++
				}
			}
			if n >= 2 {
				set["conversation-spans-intervals"] = true
			}
		}
	}
	var out []string
	for k := range set {
		out = append(out, k)
	}
	evid.ClassN("packets", int64(nPkt))
	evid.ClassN("packets-unparseable", int64(nMal))
	evid.ClassN("events", int64(nEv))
	return out
}

func TestC20Conservation(t *testing.T) {
	rapid.Check(t, func(rt *rapid.T) {
		s := capharness.DrawScript(rt, capharness.Options{Ambiguous: true})
		acc := capharness.Account(s)
		nt := acc.NonTrivial()
		cl := classes(s, acc)
		if nt {
			cl = append(cl, "nontrivial")
		}
		evid.Case(s.Canon(), nt, cl...)
		if evid.WantSample(nt) {
			c := s.Canon()
			if len(c) > 1500 {
				c = c[:1500] + "…"
			}
			evid.Sample(map[string]any{"script": strings.Split(c, "\n"), "write_outs": len(acc.Rotations), "parsed_packets": acc.NParsed}, nt)
		}

		res := capharness.Run(t, s) // the bubble; returns observations only
		if f := capharness.CheckConservation(s, res, acc); f != nil {
			rt.Fatalf("%s", evid.Sig("C20:"+f.Clause, "%s\nscript:\n%s", f.Text, s.Canon()))
		}
		for k, n := range res.Notes {
			evid.ClassN("note:"+k, int64(n))
		}
		if len(res.UnblockBad) > 0 {
			evid.Class("note:unexpected-unblock-count")
		}
	})
}

// TestC20ConservationWithPauses: the same conservation law when packets arrive while the capture is paused
// for the write-out, a status call or a live query ("any schedule of write-outs" includes arrivals during one).
// The exact placement of such packets is C21's subject (twin runs); here only the accounting of the paused
// run itself is checked against the script in which every window packet is placed on the side of the event
// where the capture took it.
func TestC20ConservationWithPauses(t *testing.T) {
	rapid.Check(t, func(rt *rapid.T) {
		s := capharness.DrawScript(rt, capharness.Options{Windows: true, V6InWindows: true, Ambiguous: true})
		res := capharness.Run(t, s)
		if f := capharness.RunFailure(res); f != nil {
			evid.Case(s.Canon(), false, "paused:run-failed")
			rt.Fatalf("%s", evid.Sig("C20:paused-"+f.Clause, "%s\nscript:\n%s", f.Text, s.Canon()))
		}
		reports := 0
		for _, n := range res.Overflows {
			reports += n
		}
		if reports > 0 || len(res.Lost) > 0 {
			// a reported buffer overflow permits a loss (C21); not generated here (default buffer size)
			evid.Case(s.Canon(), false, "paused:overflow-reported-outside-domain")
			return
		}
		late := map[int]bool{}
		for _, d := range res.Deferred {
			if w := s.Actions[d.Event].Win[d.Iface]; w != nil && w.Pre == d.P {
				late[d.P.ID] = true
			}
		}
		flat := s.Flat(nil, late)
		acc := capharness.Account(flat)
		v4, v6 := 0, 0
		for _, c := range res.InWindow {
			if c.P.V6 {
				v6++
			} else {
				v4++
			}
		}
		nt := acc.NonTrivial() && v4+v6 > 0
		cl := []string{"paused"}
		if v4 > 0 {
			cl = append(cl, "paused:in-window-v4")
		}
		if v6 > 0 {
			cl = append(cl, "paused:in-window-v6")
		}
		if nt {
			cl = append(cl, "paused:nontrivial")
		}
		evid.Case("paused|"+s.Canon(), nt, cl...)
		evid.ClassN("paused:packets-in-window", int64(v4+v6))
		if evid.WantSample(nt) {
			c := s.Canon()
			if len(c) > 1500 {
				c = c[:1500] + "…"
			}
			evid.Sample(map[string]any{"kind": "packets inside pause windows", "script": strings.Split(c, "\n"), "in_window_v4": v4, "in_window_v6": v6, "write_outs": len(acc.Rotations)}, nt)
		}
		// the accounting of the flat script indexes events by their position in the flat script
		resF := *res
		resF.Events = nil
		for _, ev := range res.Events {
			e := ev
			e.Action = flat.EventIndex[ev.Action]
			resF.Events = append(resF.Events, e)
		}
		if f := capharness.CheckConservation(flat, &resF, acc); f != nil {
			rt.Fatalf("%s", evid.Sig("C20:paused-"+f.Clause, "%s\nscript (packets in pause windows):\n%s", f.Text, s.Canon()))
		}
	})
}
