package capharness

import (
	"errors"
	"fmt"
	"sync"
	"testing/synctest"
	"time"

	slimcap "github.com/fako1024/slimcap/capture"

	"github.com/fako1024/gotools/link"
)

// deliverTimeout is the fake-clock bound on handing a packet to a capture: nobody consuming becomes a reported failure.
const deliverTimeout = 5 * time.Second

type delivery struct {
	layer   []byte
	pktType byte
	size    uint32
}

// Consumed records that a packet was taken by the capture inside a pause window.
type Consumed struct {
	P     *Packet
	Where string // pre | in | post
	Event int    // index of the action
	Iface int
}

// Source is an in-memory slimcap SourceZeroCopy: packet delivery is an unbuffered channel hand-off,
// Unblock a buffered signal, Stats/Unblock call back into the harness (the pause window).
type Source struct {
	name  string
	idx   int
	run   *runState
	pkts  chan delivery
	unblk chan struct{}
	stop  chan struct{}
	once  sync.Once

	mu           sync.Mutex
	parked       bool // the capture is blocked in NextIPPacketZeroCopy
	polls        int
	last         []byte // the slice handed out by the previous call (poisoned on the next call: zero-copy contract)
	recv         uint64
	unblockCalls int
	statsCalls   int

	// pause window of the current event (set by the driver before the event, cleared after); the pointer is
	// read under mu, the state behind it is only touched by the goroutine that currently runs a call-back
	ws *winState
}

type winState struct {
	win          *Window
	kind         ActKind
	event        int
	inDone       bool
	nextIn       int
	preDone      bool
	postDone     bool
	armOverflows int // overflow reports seen when the window was armed
}

func (s *Source) window() *winState { s.mu.Lock(); defer s.mu.Unlock(); return s.ws }

func newSource(run *runState, name string, idx int) *Source {
	return &Source{name: name, idx: idx, run: run, pkts: make(chan delivery), unblk: make(chan struct{}, 64), stop: make(chan struct{})}
}

func (s *Source) isParked() bool { s.mu.Lock(); defer s.mu.Unlock(); return s.parked }

// NextIPPacketZeroCopy blocks until a packet, an unblock signal or Close arrives. A pending stop / unblock
// signal wins over a packet (deterministic).
func (s *Source) NextIPPacketZeroCopy() (slimcap.IPLayer, slimcap.PacketType, uint32, error) {
	s.mu.Lock()
	s.polls++
	s.parked = true
	for i := range s.last { // the previous packet's memory is gone (ring buffer slot released)
		s.last[i] = 0xee
	}
	s.last = nil
	s.mu.Unlock()
	unpark := func() { s.mu.Lock(); s.parked = false; s.mu.Unlock() }
	select {
	case <-s.stop:
		unpark()
		return nil, 0, 0, slimcap.ErrCaptureStopped
	default:
	}
	select {
	case <-s.unblk:
		unpark()
		return nil, 0, 0, slimcap.ErrCaptureUnblocked
	default:
	}
	select {
	case <-s.stop:
		unpark()
		return nil, 0, 0, slimcap.ErrCaptureStopped
	case <-s.unblk:
		unpark()
		return nil, 0, 0, slimcap.ErrCaptureUnblocked
	case d := <-s.pkts:
		s.mu.Lock()
		s.parked = false
		s.last = d.layer
		s.recv++
		s.mu.Unlock()
		return d.layer, d.pktType, d.size, nil
	}
}

// deliver hands one packet to the capture (a copy of the layer: the capture may not keep it).
func (s *Source) deliver(p *Packet) error {
	d := delivery{layer: append([]byte(nil), p.Layer...), pktType: p.PktType, size: p.Size}
	tm := time.NewTimer(deliverTimeout)
	defer tm.Stop()
	select {
	case s.pkts <- d:
		return nil
	case <-tm.C:
		return fmt.Errorf("capture on %s did not take packet %v within %v of the fake clock (it is not polling its source)", s.name, p, deliverTimeout)
	}
}

// Unblock is called by the three-point lock: first for the lock request, then for the unlock request.
func (s *Source) Unblock() error {
	s.mu.Lock()
	s.unblockCalls++
	n := s.unblockCalls
	ws := s.ws
	s.mu.Unlock()
	if ws != nil {
		w := ws.win
		switch {
		case n == 1 && w.Pre != nil && !ws.preDone:
			ws.preDone = true
			// the lock request is placed, the capture has not been woken yet: the packet is taken by the normal path
			synctest.Wait()
			if s.isParked() {
				if err := s.deliver(w.Pre); err != nil {
					s.run.fail(err)
				} else {
					s.run.consumed(s, ws, w.Pre, "pre")
				}
			} else {
				s.run.deferPkt(s, ws, w.Pre)
			}
		case n == 2:
			// the unlock request is placed, the capture still waits for packets inside bufferPackets
			if ws.kind == ActQuery && !ws.inDone && len(w.In) > 0 {
				s.run.note("query-hook-missed")
			}
			deferred := ws.nextIn < len(w.In) || s.run.overflows(s.name) > ws.armOverflows
			s.flushIn(ws) // whatever was not delivered inside the window is deferred
			if w.Post != nil && !ws.postDone {
				ws.postDone = true
				// after an overflow report the capture has left bufferPackets already; to keep the order of the window
				// packets (In before Post) the Post packet is deferred together with the rest of the window
				if deferred || (!s.deliverInWindow(ws, w.Post, "post") && !s.run.wasConsumed(w.Post)) {
					s.run.deferPkt(s, ws, w.Post)
				}
			}
		}
	}
	select {
	case s.unblk <- struct{}{}:
	default: // signals coalesce like an eventfd counter
	}
	return nil
}

// Stats is called by status() while the caller holds the three-point lock.
func (s *Source) Stats() (slimcap.Stats, error) {
	s.mu.Lock()
	st := slimcap.Stats{PacketsReceived: s.recv}
	s.recv = 0
	s.statsCalls++
	ws := s.ws
	s.mu.Unlock()
	if ws != nil && ws.kind != ActQuery {
		s.runIn(ws)
	}
	return st, nil
}

// queryHook is called from the logger hook inside Capture.flowMap (live query, lock held).
func (s *Source) queryHook() {
	s.mu.Lock()
	ws := s.ws
	ok := ws != nil && ws.kind == ActQuery && s.unblockCalls == 1
	s.mu.Unlock()
	if ok {
		s.runIn(ws)
	}
}

func (s *Source) runIn(ws *winState) {
	if ws.inDone {
		return
	}
	ws.inDone = true
	if !ws.win.Empty() {
		// the caller holds the lock; let the capture goroutine reach its wait for packets inside bufferPackets
		// before the caller goes on to unlock. Without this point the caller can place the unlock request before
		// the capture goroutine has looked for it once, and a Post packet would be taken by the normal loop
		// (a legitimate schedule, but not an owned one)
		synctest.Wait()
	}
	for ws.nextIn < len(ws.win.In) {
		p := ws.win.In[ws.nextIn]
		ws.nextIn++
		if !s.deliverInWindow(ws, p, "in") {
			if !s.run.wasConsumed(p) {
				ws.nextIn--
			}
			break
		}
	}
}

// flushIn defers the window packets that were not delivered inside the window.
func (s *Source) flushIn(ws *winState) {
	for ; ws.nextIn < len(ws.win.In); ws.nextIn++ {
		s.run.deferPkt(s, ws, ws.win.In[ws.nextIn])
	}
}

// deliverInWindow delivers p if the capture is polling, lets everything settle and reports whether the
// capture is polling again afterwards.
func (s *Source) deliverInWindow(ws *winState, p *Packet, where string) bool {
	synctest.Wait()
	if !s.isParked() {
		return false
	}
	before := s.run.overflows(s.name)
	if err := s.deliver(p); err != nil {
		s.run.fail(err)
		return false
	}
	s.run.consumed(s, ws, p, where)
	synctest.Wait()
	if s.run.overflows(s.name) > before {
		s.run.lost(s, ws, p)
	}
	return s.isParked()
}

func (s *Source) arm(w *Window, kind ActKind, event int) {
	ws := &winState{win: w, kind: kind, event: event, armOverflows: s.run.overflows(s.name)}
	s.mu.Lock()
	s.ws = ws
	s.unblockCalls = 0
	s.mu.Unlock()
}

func (s *Source) disarm() (unblockCalls int) {
	s.mu.Lock()
	defer s.mu.Unlock()
	s.ws = nil
	return s.unblockCalls
}

func (s *Source) Close() error {
	s.once.Do(func() { close(s.stop) })
	return nil
}

func (s *Source) Link() *link.Link { return nil }

// The capture uses NextIPPacketZeroCopy, Unblock, Stats, Close and Link only.
var errUnused = errors.New("capharness: method not used by goProbe")

func (s *Source) NextPayloadZeroCopy() ([]byte, slimcap.PacketType, uint32, error) {
	panic(errUnused)
}
func (s *Source) NewPacket() slimcap.Packet                         { panic(errUnused) }
func (s *Source) NextPacket(slimcap.Packet) (slimcap.Packet, error) { panic(errUnused) }
func (s *Source) NextPayload([]byte) ([]byte, byte, uint32, error)  { panic(errUnused) }
func (s *Source) NextIPPacket(slimcap.IPLayer) (slimcap.IPLayer, slimcap.PacketType, uint32, error) {
	panic(errUnused)
}
func (s *Source) NextPacketFn(func([]byte, uint32, slimcap.PacketType, byte) error) error {
	panic(errUnused)
}
