package capharness

import (
	"fmt"
	"sort"
	"strings"

	"pgregory.net/rapid"
)

// Interval is the write-out interval of the capture manager (goDB.DBWriteInterval seconds).
const Interval = int64(300e9)

type ActKind int

const (
	ActPkt    ActKind = iota // deliver one packet and let the capture settle
	ActStatus                // Manager.Status
	ActQuery                 // Manager.GetFlowMaps (live query)
	ActRotate                // the scheduled write-out at the next multiple of 300 s of the fake clock
)

func (k ActKind) String() string { return [...]string{"pkt", "status", "query", "rotate"}[k] }

// Window holds the packets scripted inside the pause window of one interface during one pause event.
type Window struct {
	Pre  *Packet   // arrives after the lock request was placed and before the source is unblocked: taken by the normal path while the request is pending
	In   []*Packet // arrive while the caller holds the lock (Stats() callback; for live queries the logger hook inside flowMap)
	Post *Packet   // arrives after the unlock request was placed and before the source is unblocked again: buffered, then drained at once
}

func (w *Window) Empty() bool { return w == nil || (w.Pre == nil && len(w.In) == 0 && w.Post == nil) }

// Action is one step of the driver.
type Action struct {
	Kind   ActKind
	At     int64 // ns since the start of the bubble clock at which the driver acts (ActRotate: the boundary itself)
	Iface  int   // ActPkt
	P      *Packet
	Ifaces []int     // ActStatus / ActQuery: interfaces named in the call; nil = call without names (all)
	Win    []*Window // ActStatus / ActQuery / ActRotate: per interface index (nil entries = no packets)
}

// Script is a complete case; it contains plain data only and is drawn outside the bubble.
type Script struct {
	Ifaces      []string
	Encoder     string
	NBuffers    int
	BufLimit    int
	HoldDrain   bool // every capture pauses for 100 ns of bubble time before it drains the packets it buffered during a pause (step hook): whoever may run meanwhile does
	StartOffset int64 // ns after the start of the bubble clock at which the manager is started
	Convs       []*Conv
	Actions     []*Action
	NPackets    int
	// EventIndex is set by Flat: index of an event action in the original script -> its index in the flat script
	EventIndex map[int]int
}

// Options select the domain of DrawScript.
type Options struct {
	Windows       bool // C21: script packets inside pause windows
	HoldDrain     bool // C21: allow the held-drain schedule (see Script.HoldDrain)
	V6InWindows   bool // allow IPv6 packets inside pause windows
	OverflowClass bool // allow the tiny-buffer / long-window class
	Ambiguous     bool // allow conversations whose orientation is not decisive
	OnExcluded    func()
}

var ifaceNames = []string{"eth0", "wan1"}

func drawOffsets(t *rapid.T, l string, n int, lo, hi int64) []int64 {
	if n == 0 {
		return nil
	}
	g := rapid.OneOf(
		rapid.SampledFrom([]int64{lo, lo + 1, lo + 1e6, (lo + hi) / 2, hi - 1e9, hi - 1e6, hi - 1, hi}),
		rapid.Int64Range(lo, hi), rapid.Int64Range(lo, hi))
	out := make([]int64, n)
	for i := range out {
		out[i] = g.Draw(t, fmt.Sprintf("%sat%d", l, i))
		if out[i] < lo {
			out[i] = lo
		}
		if out[i] > hi {
			out[i] = hi
		}
	}
	sort.Slice(out, func(i, j int) bool { return out[i] < out[j] })
	return out
}

// DrawScript draws a whole case.
func DrawScript(t *rapid.T, o Options) *Script {
	s := &Script{}
	nIf := rapid.SampledFrom([]int{1, 1, 2}).Draw(t, "nifaces")
	s.Ifaces = ifaceNames[:nIf]
	s.Encoder = rapid.SampledFrom([]string{"lz4", "null"}).Draw(t, "encoder")
	s.NBuffers = rapid.SampledFrom([]int{1, 1, 2}).Draw(t, "nbuffers")
	s.BufLimit = 64 * 1024 * 1024
	overflow := false
	if o.Windows && o.OverflowClass && rapid.IntRange(0, 5).Draw(t, "overflowclass") == 0 {
		overflow = true
		// limits below the page size are ineffective by construction (effective limit = one page)
		s.BufLimit = rapid.SampledFrom([]int{1, 64, 4096, 4100, 5000, 8192}).Draw(t, "buflimit")
	}
	s.StartOffset = rapid.SampledFrom([]int64{0, 0, 1e6, 100e9, 299e9}).Draw(t, "startoffset")
	if o.HoldDrain && !overflow {
		s.HoldDrain = rapid.IntRange(0, 2).Draw(t, "holddrain") == 0
	}

	nConv := rapid.IntRange(1, 5).Draw(t, "nconvs")
	for i := 0; i < nConv; i++ {
		c := drawConv(t, i, o.Ambiguous)
		finishConv(c)
		s.Convs = append(s.Convs, c)
	}
	// a conversation that collapses onto an existing one after source-port aggregation (same endpoints and server port, other client port)
	if c0 := s.Convs[rapid.IntRange(0, len(s.Convs)-1).Draw(t, "collapse.of")]; (c0.Proto == ProtoTCP || c0.Proto == ProtoUDP) && !c0.Ambiguous && !c0.OneWay &&
		rapid.IntRange(0, 1).Draw(t, "collapse") == 0 {
		var cands []*Conv
		for _, cp := range append(append([]uint16{c0.Cport + 1, c0.Cport - 1}, highClient...), lowClient...) {
			c := *c0
			c.ID, c.Cport, c.Kind = len(s.Convs), cp, c0.Kind+"+collapse"
			if cp != 0 && cp != c0.Cport && tryFinish(&c) && !c.Ambiguous && c.KeyFwd == c0.KeyFwd {
				cands = append(cands, &c)
			}
		}
		if len(cands) > 0 {
			s.Convs = append(s.Convs, cands[rapid.IntRange(0, len(cands)-1).Draw(t, "collapse.cport")])
		}
	}

	nextID := 0
	pkt := func(l string, inWindow bool) *Packet {
		c := s.Convs[rapid.IntRange(0, len(s.Convs)-1).Draw(t, l+"conv")]
		if inWindow && !o.V6InWindows && c.V6 {
			// excluding mode: look for an IPv4 conversation instead
			if o.OnExcluded != nil {
				o.OnExcluded()
			}
			var v4 []*Conv
			for _, x := range s.Convs {
				if !x.V6 {
					v4 = append(v4, x)
				}
			}
			if len(v4) == 0 {
				return nil
			}
			c = v4[rapid.IntRange(0, len(v4)-1).Draw(t, l+"conv4")]
		}
		p := drawPacket(t, l, c, nextID, true, !inWindow)
		nextID++
		return p
	}
	window := func(l string, kind ActKind) *Window {
		if !o.Windows || rapid.IntRange(0, 3).Draw(t, l+"has") == 0 {
			return nil
		}
		w := &Window{}
		if rapid.IntRange(0, 2).Draw(t, l+"pre") == 0 {
			w.Pre = pkt(l+"pre.", true)
		}
		n := rapid.SampledFrom([]int{0, 1, 1, 2, 3, 5}).Draw(t, l+"nin")
		if overflow && rapid.Bool().Draw(t, l+"long") {
			n = rapid.SampledFrom([]int{90, 120, 200, 260, 420}).Draw(t, l+"ninlong")
		}
		if n > 5 {
			// a long window repeats a few drawn packets (keeps the number of draws small)
			var base []*Packet
			for i := 0; i < 4; i++ {
				if p := pkt(fmt.Sprintf("%sbase%d.", l, i), true); p != nil {
					base = append(base, p)
				}
			}
			for i := 0; len(base) > 0 && i < n; i++ {
				q := *base[i%len(base)]
				q.ID = nextID
				nextID++
				w.In = append(w.In, &q)
			}
		} else {
			for i := 0; i < n; i++ {
				if p := pkt(fmt.Sprintf("%sin%d.", l, i), true); p != nil {
					w.In = append(w.In, p)
				}
			}
		}
		if rapid.IntRange(0, 2).Draw(t, l+"post") == 0 {
			w.Post = pkt(l+"post.", true)
		}
		if w.Empty() {
			return nil
		}
		return w
	}

	nRot := rapid.SampledFrom([]int{1, 2, 2, 3, 3, 4}).Draw(t, "nrotations")
	// interval i covers (i*300s, (i+1)*300s); interval nRot is the tail whose flows stay in memory
	for iv := 0; iv <= nRot; iv++ {
		l := fmt.Sprintf("iv%d.", iv)
		lo, hi := int64(iv)*Interval+1000, int64(iv+1)*Interval-1
		if iv == 0 {
			lo += s.StartOffset
		}
		idle := iv > 0 && rapid.IntRange(0, 3).Draw(t, l+"idle") == 0
		var acts []*Action
		if !idle {
			n := rapid.IntRange(1, 8).Draw(t, l+"npkts")
			for i := 0; i < n; i++ {
				pl := fmt.Sprintf("%sp%d.", l, i)
				a := &Action{Kind: ActPkt, Iface: rapid.IntRange(0, nIf-1).Draw(t, pl+"iface"), P: pkt(pl, false)}
				acts = append(acts, a)
				// the same conversation again (both directions within the interval become likely)
				for k, m := 0, rapid.SampledFrom([]int{0, 0, 1, 2, 4}).Draw(t, pl+"more"); k < m; k++ {
					ml := fmt.Sprintf("%sm%d.", pl, k)
					q := drawPacket(t, ml, s.Convs[a.P.Conv], nextID, true, true)
					nextID++
					acts = append(acts, &Action{Kind: ActPkt, Iface: a.Iface, P: q})
				}
			}
		}
		nEv := rapid.SampledFrom([]int{0, 0, 1, 2}).Draw(t, l+"nevents")
		if o.Windows {
			nEv = rapid.SampledFrom([]int{0, 1, 1, 2, 3}).Draw(t, l+"nevents21")
		}
		for e := 0; e < nEv; e++ {
			el := fmt.Sprintf("%sev%d.", l, e)
			a := &Action{Kind: rapid.SampledFrom([]ActKind{ActStatus, ActQuery}).Draw(t, el+"kind"), Win: make([]*Window, nIf)}
			switch rapid.IntRange(0, 2).Draw(t, el+"which") {
			case 0: // all, unnamed
			case 1: // all, named
				for i := 0; i < nIf; i++ {
					a.Ifaces = append(a.Ifaces, i)
				}
			default:
				a.Ifaces = []int{rapid.IntRange(0, nIf-1).Draw(t, el+"iface")}
			}
			for i := 0; i < nIf; i++ {
				if a.touches(i) {
					a.Win[i] = window(fmt.Sprintf("%sw%d.", el, i), a.Kind)
				}
			}
			// insert at a drawn position
			pos := rapid.IntRange(0, len(acts)).Draw(t, el+"pos")
			acts = append(acts[:pos], append([]*Action{a}, acts[pos:]...)...)
		}
		offs := drawOffsets(t, l, len(acts), lo, hi)
		for i, a := range acts {
			a.At = offs[i]
		}
		s.Actions = append(s.Actions, acts...)
		if iv < nRot {
			r := &Action{Kind: ActRotate, At: int64(iv+1) * Interval, Win: make([]*Window, nIf)}
			for i := 0; i < nIf; i++ {
				r.Win[i] = window(fmt.Sprintf("%srot.w%d.", l, i), ActRotate)
			}
			s.Actions = append(s.Actions, r)
		}
	}
	s.NPackets = nextID
	if s.HoldDrain {
		// a held drain lets 100 ns of bubble time pass inside an event; the driver's model needs the events of an
		// interval to end before its write-out: nothing is scheduled in the last 2 µs before a boundary
		for _, a := range s.Actions {
			if a.Kind != ActRotate && a.At%Interval > Interval-2000 {
				a.At -= a.At%Interval - (Interval - 2000)
			}
		}
	}
	return s
}

func (a *Action) touches(iface int) bool {
	if a.Kind == ActRotate || a.Ifaces == nil {
		return true
	}
	for _, i := range a.Ifaces {
		if i == iface {
			return true
		}
	}
	return false
}

// Flat returns the twin of the script: the same packets, none of them inside a pause window. A packet
// scripted before the unblock of the lock request (Pre) is delivered just before the event, packets scripted
// inside the window (In, Post) just after it, in order. Packets whose IDs are in drop are left out; Pre packets
// whose IDs are in late could not be delivered before the lock in the paused run (the driver delivered them right
// after the event) and are placed after the event here as well.
func (s *Script) Flat(drop, late map[int]bool) *Script {
	f := *s
	f.Actions = nil
	f.EventIndex = map[int]int{}
	add := func(at int64, iface int, p *Packet) {
		if p != nil && !drop[p.ID] {
			f.Actions = append(f.Actions, &Action{Kind: ActPkt, At: at, Iface: iface, P: p})
		}
	}
	for oi, a := range s.Actions {
		if a.Kind == ActPkt {
			add(a.At, a.Iface, a.P)
			continue
		}
		before, after := a.At, a.At
		if a.Kind == ActRotate {
			before, after = a.At-1, a.At+1000
		}
		for i, w := range a.Win {
			if w != nil && w.Pre != nil && !late[w.Pre.ID] {
				add(before, i, w.Pre)
			}
		}
		b := *a
		b.Win = make([]*Window, len(s.Ifaces))
		f.Actions = append(f.Actions, &b)
		f.EventIndex[oi] = len(f.Actions) - 1
		// the driver delivers deferred packets in the order in which the call-backs gave up on them: per interface
		// Pre (if late), then In, then Post; interfaces in the order the manager visited them, which does not matter
		// because flows are kept per interface
		for i, w := range a.Win {
			if w == nil {
				continue
			}
			if w.Pre != nil && late[w.Pre.ID] {
				add(after, i, w.Pre)
			}
			for _, p := range w.In {
				add(after, i, p)
			}
			add(after, i, w.Post)
		}
	}
	return &f
}

// HasWindows reports whether any packet is scripted inside a pause window.
func (s *Script) HasWindows() bool {
	for _, a := range s.Actions {
		for _, w := range a.Win {
			if !w.Empty() {
				return true
			}
		}
	}
	return false
}

// Canon is a canonical encoding of the case (distinct counting, failure messages).
func (s *Script) Canon() string {
	var b strings.Builder
	fmt.Fprintf(&b, "ifaces=%v enc=%s bufs=%d/%d start=%d\n", s.Ifaces, s.Encoder, s.NBuffers, s.BufLimit, s.StartOffset)
	if s.HoldDrain {
		fmt.Fprintf(&b, "  schedule: every drain of a local buffer is held until nothing else can run\n")
	}
	for _, c := range s.Convs {
		fmt.Fprintf(&b, "  %v amb=%v oneway=%v key=%v/%v\n", c, c.Ambiguous, c.OneWay, c.KeyFwd, c.KeyRev)
	}
	pk := func(p *Packet) string { return fmt.Sprintf("%v{%x}", p, p.Layer) }
	for _, a := range s.Actions {
		switch a.Kind {
		case ActPkt:
			fmt.Fprintf(&b, "  @%d %s %s\n", a.At, s.Ifaces[a.Iface], pk(a.P))
		default:
			fmt.Fprintf(&b, "  @%d %s ifaces=%v", a.At, a.Kind, a.Ifaces)
			for i, w := range a.Win {
				if w.Empty() {
					continue
				}
				fmt.Fprintf(&b, " [%s:", s.Ifaces[i])
				if w.Pre != nil {
					fmt.Fprintf(&b, " pre=%s", pk(w.Pre))
				}
				if n := len(w.In); n > 8 {
					fmt.Fprintf(&b, " in=%d packets: %s %s %s %s ...", n, pk(w.In[0]), pk(w.In[1]), pk(w.In[2]), pk(w.In[3]))
				} else if n > 0 {
					b.WriteString(" in=")
					for _, p := range w.In {
						b.WriteString(pk(p) + ",")
					}
				}
				if w.Post != nil {
					fmt.Fprintf(&b, " post=%s", pk(w.Post))
				}
				b.WriteString("]")
			}
			b.WriteString("\n")
		}
	}
	return b.String()
}
