// Package capharness is the shared harness of the capture checks C20 and C21:
// logical conversations and packets (encoded as IP-layer bytes), a packet source
// whose every method is a channel operation owned by the test, a driver that runs a
// real capture.Manager on such sources inside a testing/synctest bubble, read-back of
// the written database, and an accounting model that is independent of goProbe's
// aggregation code.
package capharness

import (
	"encoding/binary"
	"fmt"
	"net/netip"
	"sort"
	"strings"

	"github.com/els0r/goProbe/v4/pkg/capture"
	"github.com/els0r/goProbe/v4/pkg/capture/capturetypes"
	"pgregory.net/rapid"
)

const (
	ProtoICMP   = 1
	ProtoTCP    = 6
	ProtoUDP    = 17
	ProtoICMPv6 = 58

	PktOutgoing = 4 // slimcap capture.PacketOutgoing; every other packet type is inbound
)

// Key is a stored flow key: (sip, dip, dport, proto) of one IP family. Sip/Dip hold the raw address bytes.
type Key struct {
	V6       bool
	Sip, Dip string
	Dport    uint16
	Proto    byte
}

func addrStr(raw string) string {
	if a, ok := netip.AddrFromSlice([]byte(raw)); ok {
		return a.String()
	}
	return fmt.Sprintf("%x", raw)
}

func (k Key) String() string {
	return fmt.Sprintf("%s>%s:%d/%d", addrStr(k.Sip), addrStr(k.Dip), k.Dport, k.Proto)
}

// Counters are the four stored counters of a flow record.
type Counters struct{ BR, BS, PR, PS uint64 }

func (c Counters) String() string {
	return fmt.Sprintf("[rcvd %dB/%dp sent %dB/%dp]", c.BR, c.PR, c.BS, c.PS)
}

func (c *Counters) Add(d Counters) { c.BR += d.BR; c.BS += d.BS; c.PR += d.PR; c.PS += d.PS }

// FlowSet is a set of flow records.
type FlowSet map[Key]Counters

func (f FlowSet) String() string {
	var s []string
	for k, c := range f {
		s = append(s, k.String()+c.String())
	}
	sort.Strings(s)
	return "{" + strings.Join(s, " ") + "}"
}

// Totals sums all records.
func (f FlowSet) Totals() (c Counters) {
	for _, v := range f {
		c.Add(v)
	}
	return
}

// ---------------------------------------------------------------- conversations

// Conv is a logical conversation between a client and a server endpoint.
type Conv struct {
	ID         int
	Kind       string // see convKinds
	V6         bool
	Cip, Sip   []byte
	Proto      byte
	Cport      uint16 // client port (TCP/UDP)
	Sport      uint16 // server port (TCP/UDP)
	OneWay     bool   // only client->server packets exist
	Ambiguous  bool   // the orientation heuristics are not decisive: the stored orientation is that of the first packet after (re)creation of the flow
	FwdTypes   []byte // ICMP types the client may send
	RevTypes   []byte // ICMP types the server may send
	FwdPktType byte   // usual packet type of client->server packets on the interface
	RevPktType byte
	// derived
	KeyFwd, KeyRev Key // stored key if a client (server) packet creates the flow; equal for decisive conversations
}

func (c *Conv) String() string {
	return fmt.Sprintf("conv%d[%s %s:%d<->%s:%d/%d]", c.ID, c.Kind, addrStr(string(c.Cip)), c.Cport, addrStr(string(c.Sip)), c.Sport, c.Proto)
}

// Packet is one scripted packet: what the source hands to the capture.
type Packet struct {
	ID      int
	Conv    int
	Rev     bool   // server -> client
	Mal     string // "" or the kind of malformation (truncated, fragment, runt, badversion)
	V6      bool
	Layer   []byte // IP layer as delivered
	PktType byte
	Size    uint32
	// derived with the exported parser (verified by C19) and classifier (verified by C22)
	Errno int8 // capturetypes.ParsingErrno; ErrnoOK = -1; 127 = neither IPv4 nor IPv6
	Key   Key  // stored key if this packet creates the flow (valid if Errno == ErrnoOK)
	Hash  []byte
	Aux   byte
}

const ErrnoBadVersion = 127

func (p *Packet) OK() bool { return p.Errno == int8(capturetypes.ErrnoOK) }

func (p *Packet) String() string {
	dir := "c>s"
	if p.Rev {
		dir = "s>c"
	}
	m := ""
	if p.Mal != "" {
		m = " " + p.Mal
	}
	fam := "v4"
	if p.V6 {
		fam = "v6"
	}
	return fmt.Sprintf("#%d(conv%d %s %s type%d %dB%s)", p.ID, p.Conv, dir, fam, p.PktType, p.Size, m)
}

// Outgoing reports the documented meaning of the packet type: PacketOutgoing is sent, everything else received.
func (p *Packet) Outgoing() bool { return p.PktType == PktOutgoing }

// Counters returns the contribution of the packet to its flow record.
func (p *Packet) Counters() Counters {
	if p.Outgoing() {
		return Counters{BS: uint64(p.Size), PS: 1}
	}
	return Counters{BR: uint64(p.Size), PR: 1}
}

// encodeLayer writes RFC 791 / RFC 8200 fixed headers and the start of the transport header.
func encodeLayer(v6 bool, sip, dip []byte, proto byte, sport, dport uint16, tcpFlags, icmpType byte, fragOff uint16, l4len int) []byte {
	h := 20
	if v6 {
		h = 40
	}
	b := make([]byte, h+20)
	if v6 {
		b[0] = 0x60
		binary.BigEndian.PutUint16(b[4:6], 20)
		b[6] = proto
		b[7] = 64
		copy(b[8:24], sip)
		copy(b[24:40], dip)
	} else {
		b[0] = 0x45
		binary.BigEndian.PutUint16(b[2:4], 40)
		binary.BigEndian.PutUint16(b[6:8], fragOff&0x1fff)
		b[8] = 64
		b[9] = proto
		copy(b[12:16], sip)
		copy(b[16:20], dip)
	}
	l4 := b[h:]
	switch {
	case proto == ProtoTCP:
		binary.BigEndian.PutUint16(l4[0:2], sport)
		binary.BigEndian.PutUint16(l4[2:4], dport)
		l4[12] = 0x50
		l4[13] = tcpFlags
	case proto == ProtoUDP:
		binary.BigEndian.PutUint16(l4[0:2], sport)
		binary.BigEndian.PutUint16(l4[2:4], dport)
		binary.BigEndian.PutUint16(l4[4:6], 8)
	case (!v6 && proto == ProtoICMP) || (v6 && proto == ProtoICMPv6):
		l4[0] = icmpType
	default:
		l4[0], l4[1], l4[2], l4[3] = 0xde, 0xad, 0xbe, 0xef
	}
	return b[:h+l4len]
}

// parseStored derives (errno, hash, aux, stored key) of an IP layer with goProbe's exported parser and
// direction classifier: stored = Reverse(hash) if the classifier says "reverts", else hash.
func parseStored(layer []byte) (errno int8, hash []byte, aux byte, key Key) {
	switch layer[0] >> 4 {
	case 4:
		h, a, e := capture.ParsePacketV4(layer)
		if e != capturetypes.ErrnoOK {
			return int8(e), nil, 0, Key{}
		}
		st := h
		if capturetypes.ClassifyPacketDirectionV4(h, a) == capturetypes.DirectionReverts {
			st = h.Reverse()
		}
		return int8(e), h[:], a, Key{Sip: string(st[0:4]), Dip: string(st[6:10]), Dport: binary.BigEndian.Uint16(st[10:12]), Proto: st[12]}
	case 6:
		h, a, e := capture.ParsePacketV6(layer)
		if e != capturetypes.ErrnoOK {
			return int8(e), nil, 0, Key{}
		}
		st := h
		if capturetypes.ClassifyPacketDirectionV6(h, a) == capturetypes.DirectionReverts {
			st = h.Reverse()
		}
		return int8(e), h[:], a, Key{V6: true, Sip: string(st[0:16]), Dip: string(st[18:34]), Dport: binary.BigEndian.Uint16(st[34:36]), Proto: st[36]}
	}
	return ErrnoBadVersion, nil, 0, Key{}
}

// ---------------------------------------------------------------- generators

var (
	hosts4 = [][]byte{{10, 0, 0, 1}, {10, 0, 0, 2}, {192, 168, 1, 10}, {172, 16, 0, 53}}
	hosts6 = [][]byte{ip6("2001:db8::1"), ip6("2001:db8::2"), ip6("fd00:0:0:1::50"), ip6("fe80::1")}
	mcast4 = [][]byte{{224, 0, 0, 251}, {255, 255, 255, 255}, {224, 0, 1, 1}}
	mcast6 = [][]byte{ip6("ff02::fb"), ip6("ff02::1")}

	commonTCP     = []uint16{53, 80, 443, 445, 8080}
	commonUDP     = []uint16{53, 443}
	registeredSrv = []uint16{22, 25, 123, 3306, 8443, 1024, 32767}
	highSrv       = []uint16{32768, 33000, 40000}
	highClient    = []uint16{40001, 49152, 51000, 60999, 65535}
	lowClient     = []uint16{5000, 9000, 20000, 32767}
	otherProtos   = []byte{47, 50, 89, 132, 0, 255, 2}
)

func ip6(s string) []byte { a := netip.MustParseAddr(s).As16(); return a[:] }

var decisiveKinds = []string{"tcp-common", "tcp-common", "tcp-registered", "tcp-high", "tcp-low", "udp-common", "udp-registered", "udp-high",
	"icmp-echo", "udp-mcast", "other-oneway", "icmp-oneway"}
var ambiguousKinds = []string{"other-twoway", "same-ports", "tcp-both-common", "icmp-unknown-twoway"}

// drawConv draws one conversation. idx makes the address pair of ambiguous conversations unique.
func drawConv(t *rapid.T, idx int, allowAmbiguous bool) *Conv {
	l := fmt.Sprintf("conv%d.", idx)
	c := &Conv{ID: idx, V6: rapid.Bool().Draw(t, l+"v6")}
	kinds := decisiveKinds
	if allowAmbiguous && rapid.IntRange(0, 4).Draw(t, l+"amb") == 0 {
		kinds = ambiguousKinds
		c.Ambiguous = true
	}
	c.Kind = rapid.SampledFrom(kinds).Draw(t, l+"kind")
	pool := hosts4
	if c.V6 {
		pool = hosts6
	}
	portless := c.Kind == "icmp-echo" || c.Kind == "icmp-oneway" || c.Kind == "other-oneway"
	if c.Ambiguous || portless {
		// a private address pair, so that the candidate keys of this conversation cannot coincide with any other record.
		// Conversations without ports need one as well: the flow key of a portless protocol consists of the address pair
		// only, so two of them on one host pair (e.g. an echo exchange and an unsolicited ICMP message the other way)
		// are one conversation as far as the flow log can tell
		if c.V6 {
			c.Cip, c.Sip = ip6(fmt.Sprintf("2001:db8:99:%x::1", idx)), ip6(fmt.Sprintf("2001:db8:99:%x::2", idx))
		} else {
			c.Cip, c.Sip = []byte{10, 99, byte(idx), 1}, []byte{10, 99, byte(idx), 2}
		}
		if rapid.Bool().Draw(t, l+"swap") {
			c.Cip, c.Sip = c.Sip, c.Cip
		}
	} else {
		ci := rapid.IntRange(0, len(pool)-1).Draw(t, l+"chost")
		si := rapid.IntRange(0, len(pool)-1).Draw(t, l+"shost")
		if si == ci && rapid.IntRange(0, 7).Draw(t, l+"self") != 0 {
			si = (ci + 1) % len(pool)
		}
		c.Cip, c.Sip = pool[ci], pool[si]
	}
	pick := func(name string, v []uint16) uint16 { return rapid.SampledFrom(v).Draw(t, l+name) }
	switch c.Kind {
	case "tcp-common":
		c.Proto, c.Sport = ProtoTCP, pick("sport", commonTCP)
		c.Cport = pick("cport", append(append([]uint16{}, highClient...), lowClient...))
	case "tcp-registered":
		c.Proto, c.Sport, c.Cport = ProtoTCP, pick("sport", registeredSrv), pick("cport", highClient)
	case "tcp-high":
		c.Proto, c.Sport, c.Cport = ProtoTCP, pick("sport", highSrv), pick("cport", highClient)
	case "tcp-low":
		c.Proto, c.Sport, c.Cport = ProtoTCP, pick("sport", []uint16{22, 25, 3306}), pick("cport", lowClient)
	case "udp-common":
		c.Proto, c.Sport = ProtoUDP, pick("sport", commonUDP)
		c.Cport = pick("cport", append(append([]uint16{}, highClient...), lowClient...))
	case "udp-registered":
		c.Proto, c.Sport, c.Cport = ProtoUDP, pick("sport", registeredSrv), pick("cport", highClient)
	case "udp-high":
		c.Proto, c.Sport, c.Cport = ProtoUDP, pick("sport", highSrv), pick("cport", highClient)
	case "icmp-echo":
		if c.V6 {
			c.Proto, c.FwdTypes, c.RevTypes = ProtoICMPv6, []byte{128}, []byte{129, 1, 3, 4}
		} else {
			c.Proto, c.FwdTypes, c.RevTypes = ProtoICMP, []byte{8, 13}, []byte{0, 14, 3, 11, 12}
		}
	case "udp-mcast":
		c.Proto, c.OneWay = ProtoUDP, true
		if c.V6 {
			c.Sip = rapid.SampledFrom(mcast6).Draw(t, l+"mcast")
		} else {
			c.Sip = rapid.SampledFrom(mcast4).Draw(t, l+"mcast")
		}
		c.Sport = pick("sport", []uint16{5353, 67, 1900, 53, 443, 40000})
		c.Cport = pick("cport", []uint16{5353, 68, 53, 443, 40001, 1024})
	case "other-oneway":
		c.Proto, c.OneWay = rapid.SampledFrom(otherProtos).Draw(t, l+"proto"), true
		if rapid.IntRange(0, 3).Draw(t, l+"foreign-icmp") == 0 {
			// the ICMP of the other family is an ordinary protocol
			c.Proto = ProtoICMPv6
			if c.V6 {
				c.Proto = ProtoICMP
			}
		}
	case "icmp-oneway":
		c.OneWay = true
		if c.V6 {
			c.Proto, c.FwdTypes = ProtoICMPv6, []byte{133, 135, 136, 2, 200}
			if rapid.Bool().Draw(t, l+"mc") {
				c.Sip = rapid.SampledFrom(mcast6).Draw(t, l+"mcast")
			}
		} else {
			c.Proto, c.FwdTypes = ProtoICMP, []byte{5, 9, 10, 40}
		}
	// ---- ambiguous
	case "other-twoway":
		c.Proto = rapid.SampledFrom(otherProtos).Draw(t, l+"proto")
	case "same-ports":
		c.Proto = rapid.SampledFrom([]byte{ProtoTCP, ProtoUDP}).Draw(t, l+"proto")
		c.Sport = pick("port", []uint16{123, 5353, 40000, 500, 53})
		c.Cport = c.Sport
	case "tcp-both-common":
		c.Proto, c.Sport, c.Cport = ProtoTCP, pick("sport", commonTCP), pick("cport", commonTCP)
	case "icmp-unknown-twoway":
		if c.V6 {
			c.Proto, c.FwdTypes, c.RevTypes = ProtoICMPv6, []byte{135, 200}, []byte{136, 201}
		} else {
			c.Proto, c.FwdTypes, c.RevTypes = ProtoICMP, []byte{5, 40}, []byte{9, 41}
		}
	default:
		panic("unknown conversation kind " + c.Kind)
	}
	// packet types: usually one direction arrives and the other leaves; sometimes anything
	in := []byte{0, 0, 1, 2, 3, 255}
	c.FwdPktType = rapid.SampledFrom(in).Draw(t, l+"fwdtype")
	c.RevPktType = PktOutgoing
	if rapid.Bool().Draw(t, l+"outbound-client") {
		c.FwdPktType, c.RevPktType = PktOutgoing, rapid.SampledFrom(in).Draw(t, l+"revtype")
	}
	return c
}

var (
	clientFlags = []byte{0x02, 0x10, 0x18, 0x11, 0x04, 0x00, 0xc2}
	serverFlags = []byte{0x12, 0x10, 0x18, 0x11, 0x14, 0x00, 0x52}
	plainFlags  = []byte{0x10, 0x18, 0x11, 0x00}
)

var sizeGen = rapid.OneOf(rapid.Uint32Range(40, 1500), rapid.Uint32Range(40, 1500),
	rapid.SampledFrom([]uint32{0, 1, 60, 1500, 9000, 65535, 65536, 1<<24 - 1, 1 << 24, 1<<31 - 1, 1 << 31, 1<<32 - 1}))

// drawPacket draws one packet of conversation c. mal: whether malformed packets may be drawn; badVersion:
// whether a layer that is neither IPv4 nor IPv6 may be drawn.
func drawPacket(t *rapid.T, l string, c *Conv, id int, mal, badVersion bool) *Packet {
	p := &Packet{ID: id, Conv: c.ID, V6: c.V6}
	p.Rev = !c.OneWay && rapid.Bool().Draw(t, l+"rev")
	sip, dip, sport, dport := c.Cip, c.Sip, c.Cport, c.Sport
	types, flags := c.FwdTypes, clientFlags
	p.PktType = c.FwdPktType
	if p.Rev {
		sip, dip, sport, dport = c.Sip, c.Cip, c.Sport, c.Cport
		types, flags = c.RevTypes, serverFlags
		p.PktType = c.RevPktType
	}
	if c.Ambiguous {
		flags = plainFlags
	}
	if rapid.IntRange(0, 9).Draw(t, l+"anytype") == 0 {
		p.PktType = rapid.SampledFrom([]byte{0, 1, 2, 3, 4, 255, 5, 7}).Draw(t, l+"pkttype")
	}
	var tcpFlags, icmpType byte
	if c.Proto == ProtoTCP {
		tcpFlags = rapid.SampledFrom(flags).Draw(t, l+"flags")
	}
	if len(types) > 0 {
		icmpType = rapid.SampledFrom(types).Draw(t, l+"icmptype")
	}
	p.Size = sizeGen.Draw(t, l+"size")
	l4len, fragOff := 20, uint16(0)
	if mal && rapid.IntRange(0, 11).Draw(t, l+"mal") == 0 {
		kinds := []string{"truncated", "runt"}
		if !c.V6 && c.Proto != 50 {
			kinds = append(kinds, "fragment")
		}
		if badVersion {
			kinds = append(kinds, "badversion")
		}
		p.Mal = rapid.SampledFrom(kinds).Draw(t, l+"malkind")
		switch p.Mal {
		case "truncated":
			switch {
			case c.Proto == ProtoTCP:
				l4len = rapid.SampledFrom([]int{0, 4, 13}).Draw(t, l+"l4len")
			case c.Proto == ProtoUDP:
				l4len = rapid.SampledFrom([]int{0, 3}).Draw(t, l+"l4len")
			case len(types) > 0:
				l4len = 0
			default:
				p.Mal = "" // protocols without a transport header the parser reads cannot be truncated beyond the IP header
			}
		case "fragment":
			fragOff = uint16(rapid.IntRange(1, 0x1fff).Draw(t, l+"fragoff"))
		}
	}
	p.Layer = encodeLayer(c.V6, sip, dip, c.Proto, sport, dport, tcpFlags, icmpType, fragOff, l4len)
	switch p.Mal {
	case "runt":
		h := 20
		if c.V6 {
			h = 40
		}
		p.Layer = p.Layer[:rapid.IntRange(1, h-1).Draw(t, l+"runtlen")]
	case "badversion":
		p.Layer[0] = rapid.SampledFrom([]byte{0x05, 0x55, 0x75, 0xf0, 0x00}).Draw(t, l+"version")
	}
	p.derive()
	return p
}

func (p *Packet) derive() {
	p.Errno, p.Hash, p.Aux, p.Key = parseStored(p.Layer)
}

// finishConv computes the candidate stored keys of a conversation from representative packets and checks
// the construction: a decisive conversation must yield one stored key from every packet of either direction.
func finishConv(c *Conv) {
	var fwd, rev []Key
	tf, tr := c.FwdTypes, c.RevTypes
	if len(tf) == 0 {
		tf = []byte{0}
	}
	if len(tr) == 0 {
		tr = []byte{0}
	}
	cf, sf := clientFlags, serverFlags
	if c.Ambiguous {
		cf, sf = plainFlags, plainFlags
	}
	if c.Proto != ProtoTCP {
		cf, sf = []byte{0}, []byte{0}
	}
	for _, ty := range tf {
		for _, fl := range cf {
			_, _, _, k := parseStored(encodeLayer(c.V6, c.Cip, c.Sip, c.Proto, c.Cport, c.Sport, fl, ty, 0, 20))
			fwd = append(fwd, k)
		}
	}
	if !c.OneWay {
		for _, ty := range tr {
			for _, fl := range sf {
				_, _, _, k := parseStored(encodeLayer(c.V6, c.Sip, c.Cip, c.Proto, c.Sport, c.Cport, fl, ty, 0, 20))
				rev = append(rev, k)
			}
		}
	}
	c.KeyFwd = fwd[0]
	c.KeyRev = fwd[0]
	if len(rev) > 0 {
		c.KeyRev = rev[0]
	}
	for _, k := range fwd {
		if k != c.KeyFwd {
			panic(fmt.Sprintf("harness: %v: client packets yield different stored keys %v / %v", c, k, c.KeyFwd))
		}
	}
	for _, k := range rev {
		if k != c.KeyRev {
			panic(fmt.Sprintf("harness: %v: server packets yield different stored keys %v / %v", c, k, c.KeyRev))
		}
	}
	if !c.Ambiguous && c.KeyFwd != c.KeyRev {
		panic(fmt.Sprintf("harness: %v was constructed as decisive but the two directions yield %v and %v", c, c.KeyFwd, c.KeyRev))
	}
	if c.Ambiguous && c.KeyFwd == c.KeyRev {
		// fine: the heuristics happen to be decisive here; treat it as such
		c.Ambiguous = false
	}
}

// tryFinish runs finishConv and reports whether the construction checks passed.
func tryFinish(c *Conv) (ok bool) {
	defer func() {
		if recover() != nil {
			ok = false
		}
	}()
	finishConv(c)
	return true
}
