package capharness

import (
	"fmt"
	"sort"
	"strings"
)

// Expect is what one interface must hold for one interval (or at one instant): exact records for decisive
// conversations, and for every ambiguous conversation one record under either of its two candidate keys.
type Expect struct {
	Exact FlowSet
	Amb   map[int]*AmbExpect // by conversation
}

type AmbExpect struct {
	Conv   *Conv
	Sum    Counters
	PerDir [2]Counters // client->server, server->client
}

func newExpect() *Expect { return &Expect{Exact: FlowSet{}, Amb: map[int]*AmbExpect{}} }

func (e *Expect) clone() *Expect {
	c := newExpect()
	for k, v := range e.Exact {
		c.Exact[k] = v
	}
	for k, v := range e.Amb {
		x := *v
		c.Amb[k] = &x
	}
	return c
}

func (e *Expect) add(c *Conv, p *Packet) {
	if c.Ambiguous {
		a := e.Amb[c.ID]
		if a == nil {
			a = &AmbExpect{Conv: c}
			e.Amb[c.ID] = a
		}
		a.Sum.Add(p.Counters())
		d := 0
		if p.Rev {
			d = 1
		}
		a.PerDir[d].Add(p.Counters())
		return
	}
	if p.Key != c.KeyFwd {
		panic(fmt.Sprintf("harness: packet %v of decisive %v has stored key %v, conversation key %v", p, c, p.Key, c.KeyFwd))
	}
	v := e.Exact[p.Key]
	v.Add(p.Counters())
	e.Exact[p.Key] = v
}

// Totals sums the expectation.
func (e *Expect) Totals() (c Counters) {
	c = e.Exact.Totals()
	for _, a := range e.Amb {
		c.Add(a.Sum)
	}
	return
}

func (e *Expect) Empty() bool { return len(e.Exact) == 0 && len(e.Amb) == 0 }

func (e *Expect) String() string {
	var s []string
	for _, a := range e.Amb {
		s = append(s, fmt.Sprintf("(%v|%v)%v", a.Conv.KeyFwd, a.Conv.KeyRev, a.Sum))
	}
	sort.Strings(s)
	return e.Exact.String() + " ambiguous{" + strings.Join(s, " ") + "}"
}

// Mismatch describes the first difference between observed records and the expectation.
type Mismatch struct {
	Clause string // conservation | one-record-per-conversation | zero-packet-record | missing-record | unexpected-record | counters
	Text   string
}

// Compare checks observed records against the expectation (both directions: nothing dropped, nothing invented).
func (e *Expect) Compare(got FlowSet) *Mismatch {
	rest := FlowSet{}
	for k, v := range got {
		rest[k] = v
	}
	for k, v := range got {
		if v.PR == 0 && v.PS == 0 {
			return &Mismatch{"zero-packet-record", fmt.Sprintf("record %v%v has no packets", k, v)}
		}
	}
	for _, a := range e.Amb {
		f, fok := rest[a.Conv.KeyFwd]
		r, rok := rest[a.Conv.KeyRev]
		switch {
		case fok && rok:
			return &Mismatch{"one-record-per-conversation", fmt.Sprintf("%v is stored in two records: %v%v and %v%v (expected one record %v)", a.Conv, a.Conv.KeyFwd, f, a.Conv.KeyRev, r, a.Sum)}
		case !fok && !rok:
			return &Mismatch{"missing-record", fmt.Sprintf("no record for %v (expected %v under %v or %v)", a.Conv, a.Sum, a.Conv.KeyFwd, a.Conv.KeyRev)}
		case fok:
			if f != a.Sum {
				return &Mismatch{"counters", fmt.Sprintf("record %v holds %v, the packets of %v sum to %v", a.Conv.KeyFwd, f, a.Conv, a.Sum)}
			}
			delete(rest, a.Conv.KeyFwd)
		default:
			if r != a.Sum {
				return &Mismatch{"counters", fmt.Sprintf("record %v holds %v, the packets of %v sum to %v", a.Conv.KeyRev, r, a.Conv, a.Sum)}
			}
			delete(rest, a.Conv.KeyRev)
		}
	}
	var keys []Key
	for k := range e.Exact {
		keys = append(keys, k)
	}
	sort.Slice(keys, func(i, j int) bool { return keys[i].String() < keys[j].String() })
	for _, k := range keys {
		want := e.Exact[k]
		g, ok := rest[k]
		if !ok {
			return &Mismatch{"missing-record", fmt.Sprintf("no record %v (expected %v)", k, want)}
		}
		if g != want {
			return &Mismatch{"counters", fmt.Sprintf("record %v holds %v, the delivered packets sum to %v", k, g, want)}
		}
		delete(rest, k)
	}
	for k, v := range rest {
		return &Mismatch{"unexpected-record", fmt.Sprintf("record %v%v matches no delivered packet", k, v)}
	}
	return nil
}

// Accounting is the reference model of a script without window packets (see Script.Flat): per interface,
// what each write-out and each live query has to contain.
type Accounting struct {
	Rotations []int64              // timestamps (unix) of the scheduled write-outs
	Blocks    map[string][]*Expect // per interface, per rotation
	Tail      map[string]*Expect   // per interface: delivered after the last rotation (still in memory at the end)
	Queries   map[int]map[string]*Expect
	Totals    map[string]Counters // per interface: all successfully parsed packets
	// per-conversation activity: [iface][conv] -> per interval (rotations+1 entries) bit 1 = client->server seen, bit 2 = server->client seen
	Activity map[string]map[int][]int
	NParsed  int
	NFailed  int
	Where    map[int]int // packet ID -> interval index in which it is accounted (len(Rotations) = tail)
}

// Account walks a flat script.
func Account(s *Script) *Accounting {
	a := &Accounting{Blocks: map[string][]*Expect{}, Tail: map[string]*Expect{}, Queries: map[int]map[string]*Expect{}, Totals: map[string]Counters{}, Activity: map[string]map[int][]int{}, Where: map[int]int{}}
	nRot := 0
	for _, x := range s.Actions {
		if x.Kind == ActRotate {
			nRot++
			a.Rotations = append(a.Rotations, T0.Unix()+x.At/1e9)
		}
		for _, w := range x.Win {
			if !w.Empty() {
				panic("harness: Account needs a flat script")
			}
		}
	}
	cur := map[string]*Expect{}
	for _, n := range s.Ifaces {
		cur[n] = newExpect()
		a.Activity[n] = map[int][]int{}
	}
	iv := 0
	for i, x := range s.Actions {
		switch x.Kind {
		case ActPkt:
			n := s.Ifaces[x.Iface]
			if !x.P.OK() {
				a.NFailed++
				continue
			}
			a.NParsed++
			a.Where[x.P.ID] = iv
			c := s.Convs[x.P.Conv]
			cur[n].add(c, x.P)
			t := a.Totals[n]
			t.Add(x.P.Counters())
			a.Totals[n] = t
			act := a.Activity[n][c.ID]
			if act == nil {
				act = make([]int, nRot+1)
				a.Activity[n][c.ID] = act
			}
			if x.P.Rev {
				act[iv] |= 2
			} else {
				act[iv] |= 1
			}
		case ActQuery:
			q := map[string]*Expect{}
			for j, n := range s.Ifaces {
				if x.touches(j) {
					q[n] = cur[n].clone()
				}
			}
			a.Queries[i] = q
		case ActRotate:
			for _, n := range s.Ifaces {
				a.Blocks[n] = append(a.Blocks[n], cur[n])
				cur[n] = newExpect()
			}
			iv++
		}
	}
	for _, n := range s.Ifaces {
		a.Tail[n] = cur[n]
	}
	return a
}

// NonTrivial implements the C20 rule: some conversation has packets in both directions within one interval,
// has traffic in at least two intervals, and is idle in an interval that follows one of its active intervals
// (its flow is still in memory during the idle interval and must not be written for it).
func (a *Accounting) NonTrivial() bool {
	for _, convs := range a.Activity {
		for _, act := range convs {
			both, active, idleAfter := false, 0, false
			seen := false
			for _, v := range act {
				if v == 3 {
					both = true
				}
				if v != 0 {
					active++
					seen = true
				} else if seen {
					idleAfter = true
				}
			}
			if both && active >= 2 && idleAfter {
				return true
			}
		}
	}
	return false
}
