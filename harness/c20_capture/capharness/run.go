package capharness

import (
	"context"
	"errors"
	"fmt"
	"log/slog"
	"os"
	"path/filepath"
	"runtime/debug"
	"sort"
	"strings"
	"sync"
	"sync/atomic"
	"testing"
	"testing/synctest"
	"time"

	"github.com/els0r/goProbe/v4/cmd/goProbe/config"
	"github.com/els0r/goProbe/v4/pkg/capture"
	"github.com/els0r/goProbe/v4/pkg/goDB/storage/gpfile"
	"github.com/els0r/goProbe/v4/pkg/types"
	"github.com/els0r/goProbe/v4/pkg/types/hashmap"
	"github.com/els0r/goProbe/v4/pkg/verifhook"
	"github.com/els0r/telemetry/logging"
	"github.com/fako1024/gotools/bitpack"
)

// T0 is the start of every bubble clock (a multiple of the write-out interval).
var T0 = time.Date(2000, 1, 1, 0, 0, 0, 0, time.UTC)

// Block is one written block read back from the database.
type Block struct {
	Ts    int64
	Flows FlowSet
	Rows  int // number of rows in the block (== len(Flows) unless a key occurs twice)
	Dup   []Key
	NV4   uint64
	NV6   uint64
	Drops uint64
}

// StatusResult is what Manager.Status returned for one interface (the capture's own counters; "received" and
// "dropped" are the source's numbers and not part of it).
type StatusResult struct {
	Processed, ProcessedTotal uint64
	ParsingErrors             [3]int
}

// EventResult is the observable result of a status or live-query action.
type EventResult struct {
	Action  int
	Kind    ActKind
	Status  map[string]StatusResult // ActStatus
	Live    map[string]FlowSet      // ActQuery (interfaces without flows are absent)
	LiveDup []string
}

// Result is everything observable about one run.
type Result struct {
	Err        error  // harness / driver level failure (capture not polling, start-up failure, deadlock ...)
	Panic      string // panic inside the bubble
	Events     []EventResult
	FinalLive  map[string]FlowSet // GetFlowMaps just before Close
	FinalStat  map[string]StatusResult
	CloseTs    int64              // timestamp of the write-out performed by Close
	Blocks     map[string][]Block // per interface, ordered by timestamp
	ReadErr    error
	Overflows  map[string]int // ErrLocalBufferOverflow reports per interface
	ErrorLogs  []string       // every error-level log line
	InWindow   []Consumed     // packets the capture took inside a pause window
	Lost       []Consumed     // in-window packets upon whose consumption an overflow was reported
	Deferred   []Consumed     // window packets that could not be delivered inside the window (delivered right after the event)
	Notes      map[string]int
	UnblockBad []string
}

type runState struct {
	mu        sync.Mutex
	script    *Script
	srcs      map[string]*Source
	res       *Result
	err       error
	consumedM map[int]bool
}

func (r *runState) fail(err error) {
	r.mu.Lock()
	if r.err == nil {
		r.err = err
	}
	r.mu.Unlock()
}
func (r *runState) failed() error { r.mu.Lock(); defer r.mu.Unlock(); return r.err }
func (r *runState) note(k string) { r.mu.Lock(); r.res.Notes[k]++; r.mu.Unlock() }
func (r *runState) overflows(iface string) int {
	r.mu.Lock()
	defer r.mu.Unlock()
	return r.res.Overflows[iface]
}
func (r *runState) consumed(s *Source, ws *winState, p *Packet, where string) {
	r.mu.Lock()
	r.consumedM[p.ID] = true
	r.res.InWindow = append(r.res.InWindow, Consumed{P: p, Where: where, Event: ws.event, Iface: s.idx})
	r.mu.Unlock()
}
func (r *runState) wasConsumed(p *Packet) bool {
	r.mu.Lock()
	defer r.mu.Unlock()
	return r.consumedM[p.ID]
}
func (r *runState) lost(s *Source, ws *winState, p *Packet) {
	r.mu.Lock()
	r.res.Lost = append(r.res.Lost, Consumed{P: p, Event: ws.event, Iface: s.idx})
	r.mu.Unlock()
}
func (r *runState) deferPkt(s *Source, ws *winState, p *Packet) {
	r.mu.Lock()
	r.res.Deferred = append(r.res.Deferred, Consumed{P: p, Event: ws.event, Iface: s.idx})
	r.mu.Unlock()
}

// ---------------------------------------------------------------- logging hook

var current atomic.Pointer[runState]

type logHandler struct {
	attrs []slog.Attr
}

func (h *logHandler) Enabled(_ context.Context, l slog.Level) bool { return l >= slog.LevelError }

func (h *logHandler) Handle(_ context.Context, rec slog.Record) error {
	r := current.Load()
	if r == nil {
		return nil
	}
	iface := ""
	var sb strings.Builder
	sb.WriteString(rec.Message)
	overflow := false
	each := func(a slog.Attr) bool {
		if a.Key == "iface" {
			iface = a.Value.String()
		}
		if err, ok := a.Value.Any().(error); ok && errors.Is(err, capture.ErrLocalBufferOverflow) {
			overflow = true
		}
		fmt.Fprintf(&sb, " %s=%v", a.Key, a.Value)
		return true
	}
	for _, a := range h.attrs {
		each(a)
	}
	rec.Attrs(each)
	r.mu.Lock()
	if overflow {
		r.res.Overflows[iface]++
	}
	r.res.ErrorLogs = append(r.res.ErrorLogs, sb.String())
	r.mu.Unlock()
	return nil
}

func (h *logHandler) WithAttrs(attrs []slog.Attr) slog.Handler {
	n := &logHandler{attrs: append(append([]slog.Attr(nil), h.attrs...), attrs...)}
	if r := current.Load(); r != nil {
		for _, a := range attrs {
			if a.Key == "iface" {
				if s := r.srcs[a.Value.String()]; s != nil {
					s.queryHook()
				}
			}
		}
	}
	return n
}

func (h *logHandler) WithGroup(string) slog.Handler { return h }

var logOnce sync.Once

// installLogger routes goProbe's global logger (a wrapper around slog.Default) to the harness: error
// records are collected per run, and the derivation of an interface-scoped logger is a hook point.
func installLogger() {
	logOnce.Do(func() {
		// Init resets the cached global logger of the telemetry package; the default is replaced right after
		_, _ = logging.Init(logging.LevelError, logging.EncodingLogfmt, logging.WithOutput(devNull{}))
		slog.SetDefault(slog.New(&logHandler{}))
	})
}

type devNull struct{}

func (devNull) Write(p []byte) (int, error) { return len(p), nil }

// ---------------------------------------------------------------- driver

// Run executes the script against a real capture.Manager (real GoDB write-out handler, temporary database)
// inside a synctest bubble and reads the database back.
func Run(t *testing.T, s *Script) *Result {
	installLogger()
	res := &Result{Overflows: map[string]int{}, Notes: map[string]int{}, Blocks: map[string][]Block{}}
	dir, err := os.MkdirTemp(os.Getenv("VERIF_WORK"), "cap-")
	if err != nil {
		res.Err = fmt.Errorf("tempdir: %w", err)
		return res
	}
	defer os.RemoveAll(dir)
	func() {
		defer func() {
			if p := recover(); p != nil {
				res.Panic = fmt.Sprintf("%v\n%s", p, debug.Stack())
			}
		}()
		synctest.Test(t, func(*testing.T) {
			defer func() {
				// a panic must not leave the bubble goroutine (rapid could not recover it)
				if p := recover(); p != nil {
					res.Panic = fmt.Sprintf("%v\n%s", p, debug.Stack())
				}
			}()
			bubble(s, dir, res)
		})
	}()
	current.Store(nil)
	if res.Err == nil && res.Panic == "" {
		for _, iface := range s.Ifaces {
			b, err := ReadBlocks(filepath.Join(dir, iface))
			if err != nil {
				res.ReadErr = fmt.Errorf("%s: %w", iface, err)
				break
			}
			res.Blocks[iface] = b
		}
	}
	return res
}

func bubble(s *Script, dir string, res *Result) {
	run := &runState{script: s, srcs: map[string]*Source{}, res: res, consumedM: map[int]bool{}}
	for i, n := range s.Ifaces {
		run.srcs[n] = newSource(run, n, i)
	}
	current.Store(run)
	start := time.Now()
	if !start.Equal(T0) {
		res.Err = fmt.Errorf("bubble clock starts at %v", start)
		return
	}
	sleepUntil := func(off int64) {
		if d := time.Until(T0.Add(time.Duration(off))); d > 0 {
			time.Sleep(d)
		}
	}
	sleepUntil(s.StartOffset)
	if s.HoldDrain {
		// owned schedule: a capture that is about to drain its local buffer yields for 100 ns of bubble time, so that
		// every other goroutine (the manager pausing the next interface, its source delivering window packets) runs
		// first as far as it can
		verifhook.SetStepFn(func(point string) {
			if strings.HasPrefix(point, "capture.drain ") {
				run.note("drain-held")
				time.Sleep(100 * time.Nanosecond)
			}
		})
		defer verifhook.SetStepFn(nil)
	}

	ctx, cancel := context.WithCancel(context.Background())
	cfg := &config.Config{DB: config.DBConfig{Path: dir, EncoderType: s.Encoder}, Interfaces: config.Ifaces{}}
	for _, n := range s.Ifaces {
		cfg.Interfaces[n] = config.DefaultCaptureConfig()
	}
	mgr, err := capture.InitManager(ctx, cfg,
		capture.WithSourceInitFn(func(c *capture.Capture) (capture.Source, error) {
			src := run.srcs[c.Iface()]
			if src == nil {
				return nil, fmt.Errorf("no source for %s", c.Iface())
			}
			return src, nil
		}),
		capture.WithLocalBuffers(s.NBuffers, s.BufLimit))
	if err != nil {
		cancel()
		res.Err = fmt.Errorf("InitManager: %w", err)
		return
	}

	// leaving the bubble: every goroutine of the manager has to end
	abort := func() {
		cancel()
		for _, src := range run.srcs {
			src.Close()
		}
		time.Sleep(time.Duration(Interval) + time.Second)
	}
	settle := func(what string) bool {
		synctest.Wait()
		if err := run.failed(); err != nil {
			return false
		}
		for k := 0; s.HoldDrain && k < 4; k++ {
			// a capture may still be inside its held drain
			busy := false
			for _, n := range s.Ifaces {
				busy = busy || !run.srcs[n].isParked()
			}
			if !busy {
				break
			}
			time.Sleep(150 * time.Nanosecond)
			synctest.Wait()
		}
		for _, n := range s.Ifaces {
			if !run.srcs[n].isParked() {
				run.fail(fmt.Errorf("%s: the capture on %s is not waiting for packets", what, n))
				return false
			}
		}
		return true
	}
	deliver := func(what string, iface int, p *Packet) bool {
		if err := run.srcs[s.Ifaces[iface]].deliver(p); err != nil {
			run.fail(err)
			return false
		}
		return settle(what)
	}
	names := func(a *Action) []string {
		var out []string
		for _, i := range a.Ifaces {
			out = append(out, s.Ifaces[i])
		}
		return out
	}
	status := func(ifaces ...string) map[string]StatusResult {
		out := map[string]StatusResult{}
		for n, st := range mgr.Status(ctx, ifaces...) {
			r := StatusResult{Processed: st.Processed, ProcessedTotal: st.ProcessedTotal}
			for i := range r.ParsingErrors {
				r.ParsingErrors[i] = st.ParsingErrors[i]
			}
			out[n] = r
		}
		return out
	}
	query := func(ifaces ...string) (map[string]FlowSet, []string) {
		ch := make(chan hashmap.AggFlowMapWithMetadata, len(s.Ifaces)+1)
		mgr.GetFlowMaps(ctx, nil, ch, ifaces...)
		close(ch)
		out := map[string]FlowSet{}
		var dup []string
		for m := range ch {
			fs, d := flowSetOf(m.AggFlowMap)
			if _, twice := out[m.Interface]; twice {
				dup = append(dup, "interface "+m.Interface+" reported twice")
			}
			for _, k := range d {
				dup = append(dup, m.Interface+": "+k.String())
			}
			out[m.Interface] = fs
		}
		return out, dup
	}
	arm := func(i int, a *Action) {
		for j, n := range s.Ifaces {
			var w *Window
			if a.Win != nil {
				w = a.Win[j]
			}
			if w == nil {
				w = &Window{}
			}
			run.srcs[n].arm(w, a.Kind, i)
		}
	}
	disarm := func(i int, a *Action) {
		for j, n := range s.Ifaces {
			calls := run.srcs[n].disarm()
			want := 0
			if a.touches(j) {
				want = 2
			}
			if calls != want {
				res.UnblockBad = append(res.UnblockBad, fmt.Sprintf("action %d (%s): %d Unblock calls on %s, expected %d", i, a.Kind, calls, n, want))
			}
		}
	}
	// packets that could not be delivered inside their window follow right after the event
	nDeferred := 0
	deliverDeferred := func(what string) bool {
		for nDeferred < len(res.Deferred) {
			run.mu.Lock()
			d := res.Deferred[nDeferred]
			run.mu.Unlock()
			nDeferred++
			if !deliver(what+" (deferred window packet)", d.Iface, d.P) {
				return false
			}
		}
		return true
	}

	ok := settle("after start-up")
	for i, a := range s.Actions {
		if !ok {
			break
		}
		what := fmt.Sprintf("action %d (%s at +%v)", i, a.Kind, time.Duration(a.At))
		switch a.Kind {
		case ActPkt:
			sleepUntil(a.At)
			ok = deliver(what, a.Iface, a.P)
		case ActStatus:
			sleepUntil(a.At)
			arm(i, a)
			st := status(names(a)...)
			disarm(i, a)
			res.Events = append(res.Events, EventResult{Action: i, Kind: a.Kind, Status: st})
			ok = settle(what) && deliverDeferred(what)
		case ActQuery:
			sleepUntil(a.At)
			arm(i, a)
			live, dup := query(names(a)...)
			disarm(i, a)
			res.Events = append(res.Events, EventResult{Action: i, Kind: a.Kind, Live: live, LiveDup: dup})
			ok = settle(what) && deliverDeferred(what)
		case ActRotate:
			arm(i, a)
			// the scheduler goroutine performs the write-out at the boundary; the clock can only pass it once
			// every goroutine (including the write-out) is durably blocked again
			sleepUntil(a.At + 500)
			disarm(i, a)
			ok = settle(what) && deliverDeferred(what)
		}
	}
	if err := run.failed(); err != nil || !ok {
		res.Err = err
		if res.Err == nil {
			res.Err = errors.New("driver stopped")
		}
		abort()
		return
	}
	// what is still in memory, then the final write-out performed by Close
	res.FinalStat = status()
	var dup []string
	res.FinalLive, dup = query()
	if len(dup) > 0 {
		res.Events = append(res.Events, EventResult{Action: len(s.Actions), Kind: ActQuery, LiveDup: dup})
	}
	if !settle("final status/query") {
		res.Err = run.failed()
		abort()
		return
	}
	res.CloseTs = time.Now().Add(time.Second).Unix()
	mgr.Close(ctx)
	synctest.Wait()
	cancel()
	// the ScheduleWriteouts goroutine notices the cancellation at its next tick only
	time.Sleep(time.Duration(Interval) + time.Second)
	synctest.Wait()
}

func flowSetOf(m *hashmap.AggFlowMap) (FlowSet, []Key) {
	out := FlowSet{}
	var dup []Key
	if m == nil {
		return out, nil
	}
	for it := m.Iter(); it.Next(); {
		k := it.Key()
		key := Key{V6: !types.Key(k).IsIPv4(), Sip: string(types.Key(k).GetSIP()), Dip: string(types.Key(k).GetDIP()),
			Dport: uint16(types.Key(k).GetDport()[0])<<8 | uint16(types.Key(k).GetDport()[1]), Proto: types.Key(k).GetProto()}
		v := it.Val()
		if _, twice := out[key]; twice {
			dup = append(dup, key)
		}
		c := out[key]
		c.Add(Counters{BR: v.BytesRcvd, BS: v.BytesSent, PR: v.PacketsRcvd, PS: v.PacketsSent})
		out[key] = c
	}
	return out, dup
}

// ---------------------------------------------------------------- database read-back

// ReadBlocks reads every block of every day directory below ifaceDir (the layout documented for goDB:
// <iface>/<year>/<month>/<day timestamp>[_summary]/ with one file per column plus .blockmeta) and decodes
// the rows: IPv4 rows first, then IPv6 rows; sip/dip 4 or 16 bytes, dport 2 bytes big endian, proto 1 byte,
// counters bit-packed.
func ReadBlocks(ifaceDir string) ([]Block, error) {
	var out []Block
	years, err := os.ReadDir(ifaceDir)
	if err != nil {
		if os.IsNotExist(err) {
			return nil, nil
		}
		return nil, err
	}
	for _, y := range years {
		months, err := os.ReadDir(filepath.Join(ifaceDir, y.Name()))
		if err != nil {
			return nil, err
		}
		for _, m := range months {
			days, err := os.ReadDir(filepath.Join(ifaceDir, y.Name(), m.Name()))
			if err != nil {
				return nil, err
			}
			for _, d := range days {
				ts, suffix, err := gpfile.ExtractTimestampMetadataSuffix(d.Name())
				if err != nil {
					return nil, fmt.Errorf("directory %s: %w", d.Name(), err)
				}
				b, err := readDay(ifaceDir, ts, suffix)
				if err != nil {
					return nil, fmt.Errorf("day %s: %w", d.Name(), err)
				}
				out = append(out, b...)
			}
		}
	}
	sort.SliceStable(out, func(i, j int) bool { return out[i].Ts < out[j].Ts })
	return out, nil
}

func readDay(ifaceDir string, dayTs int64, suffix string) ([]Block, error) {
	dir := gpfile.NewDirReader(ifaceDir, dayTs, suffix)
	if err := dir.Open(); err != nil {
		return nil, err
	}
	defer dir.Close()
	var out []Block
	for i := 0; i < dir.NBlocks(); i++ {
		tr := dir.BlockTraffic[i]
		b := Block{Ts: dir.BlockMetadata[0].BlockList[i].Timestamp, Flows: FlowSet{}, NV4: tr.NumV4Entries, NV6: tr.NumV6Entries, Drops: tr.NumDrops}
		var cols [types.ColIdxCount][]byte
		for c := types.ColumnIndex(0); c < types.ColIdxCount; c++ {
			data, err := dir.ReadBlockAtIndex(c, i)
			if err != nil {
				return nil, fmt.Errorf("block %d (ts %d) column %s: %w", i, b.Ts, types.ColumnFileNames[c], err)
			}
			cols[c] = append([]byte(nil), data...)
		}
		n4, n6 := int(tr.NumV4Entries), int(tr.NumV6Entries)
		n := n4 + n6
		if len(cols[types.SIPColIdx]) != 4*n4+16*n6 || len(cols[types.DIPColIdx]) != 4*n4+16*n6 || len(cols[types.DportColIdx]) != 2*n || len(cols[types.ProtoColIdx]) != n {
			return nil, fmt.Errorf("block %d (ts %d): column lengths sip=%d dip=%d dport=%d proto=%d do not fit %d IPv4 + %d IPv6 rows", i, b.Ts,
				len(cols[types.SIPColIdx]), len(cols[types.DIPColIdx]), len(cols[types.DportColIdx]), len(cols[types.ProtoColIdx]), n4, n6)
		}
		var cnt [4][]uint64
		for k, c := range []types.ColumnIndex{types.BytesRcvdColIdx, types.BytesSentColIdx, types.PacketsRcvdColIdx, types.PacketsSentColIdx} {
			if n > 0 {
				cnt[k] = bitpack.Unpack(cols[c])
			}
			if len(cnt[k]) != n {
				return nil, fmt.Errorf("block %d (ts %d): counter column %s holds %d values for %d rows", i, b.Ts, types.ColumnFileNames[c], len(cnt[k]), n)
			}
		}
		ipOff := 0
		for r := 0; r < n; r++ {
			w := 4
			if r >= n4 {
				w = 16
			}
			k := Key{V6: r >= n4, Sip: string(cols[types.SIPColIdx][ipOff : ipOff+w]), Dip: string(cols[types.DIPColIdx][ipOff : ipOff+w]),
				Dport: uint16(cols[types.DportColIdx][2*r])<<8 | uint16(cols[types.DportColIdx][2*r+1]), Proto: cols[types.ProtoColIdx][r]}
			ipOff += w
			if _, twice := b.Flows[k]; twice {
				b.Dup = append(b.Dup, k)
			}
			c := b.Flows[k]
			c.Add(Counters{BR: cnt[0][r], BS: cnt[1][r], PR: cnt[2][r], PS: cnt[3][r]})
			b.Flows[k] = c
			b.Rows++
		}
		out = append(out, b)
	}
	return out, nil
}
