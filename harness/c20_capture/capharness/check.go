package capharness

import (
	"fmt"
	"sort"
	"strings"
)

// Failure is an oracle verdict carried out of the bubble as a value.
type Failure struct {
	Clause string // becomes the failure signature "<property>:<clause>"
	Text   string
}

func failf(clause, format string, args ...any) *Failure {
	return &Failure{Clause: clause, Text: fmt.Sprintf(format, args...)}
}

// RunFailure reports failures of the run itself (the capture stopped taking packets, panics, unreadable database).
func RunFailure(res *Result) *Failure {
	switch {
	case res.Panic != "":
		return failf("panic", "panic inside the bubble: %s", res.Panic)
	case res.Err != nil:
		return failf("capture-stalled", "%v\nerror log: %s", res.Err, strings.Join(res.ErrorLogs, " | "))
	case res.ReadErr != nil:
		return failf("database-unreadable", "reading the written database back: %v\nerror log: %s", res.ReadErr, strings.Join(res.ErrorLogs, " | "))
	}
	return nil
}

func sumBlocks(bs []Block, skipTs int64) (c Counters) {
	for _, b := range bs {
		if b.Ts != skipTs {
			c.Add(b.Flows.Totals())
		}
	}
	return
}

// CheckConservation is the C20 oracle for a flat script (no packets inside pause windows) and its run.
func CheckConservation(s *Script, res *Result, acc *Accounting) *Failure {
	if f := RunFailure(res); f != nil {
		return f
	}
	logs := func() string {
		if len(res.ErrorLogs) == 0 {
			return ""
		}
		return "\nerror log: " + strings.Join(res.ErrorLogs, " | ")
	}
	for _, iface := range s.Ifaces {
		blocks := res.Blocks[iface]
		// (1) conservation per interface and direction: all scheduled write-outs + what is still in memory = parsed packets
		got := sumBlocks(blocks, res.CloseTs)
		got.Add(res.FinalLive[iface].Totals())
		if want := acc.Totals[iface]; got != want {
			return failf("conservation", "%s: written blocks + flows in memory hold %v, the successfully parsed packets sum to %v (blocks %v, in memory %v)%s",
				iface, got, want, describeBlocks(blocks), res.FinalLive[iface], logs())
		}
		// (2) per interval
		byTs := map[int64]*Block{}
		for i := range blocks {
			b := &blocks[i]
			if _, twice := byTs[b.Ts]; twice {
				return failf("interval", "%s: two blocks carry the timestamp %d", iface, b.Ts)
			}
			byTs[b.Ts] = b
			if len(b.Dup) > 0 {
				return failf("one-record-per-key", "%s: block %d stores the key %v in more than one row", iface, b.Ts, b.Dup[0])
			}
			if uint64(b.Rows) != b.NV4+b.NV6 {
				return failf("interval", "%s: block %d has %d rows, its metadata announces %d+%d", iface, b.Ts, b.Rows, b.NV4, b.NV6)
			}
		}
		for k, ts := range acc.Rotations {
			exp := acc.Blocks[iface][k]
			b := byTs[ts]
			delete(byTs, ts)
			var flows FlowSet
			if b != nil {
				flows = b.Flows
			}
			if m := exp.Compare(flows); m != nil {
				return failf("interval-"+m.Clause, "%s: write-out %d (block %d, interval (%d,%d]): %s\n  block:    %v\n  expected: %v%s", iface, k, ts, ts-300, ts, m.Text, flows, exp, logs())
			}
		}
		// (3) flows still in memory, and the write-out performed by Close
		if m := acc.Tail[iface].Compare(res.FinalLive[iface]); m != nil {
			return failf("in-memory-"+m.Clause, "%s: flows in memory after the last write-out: %s\n  reported: %v\n  expected: %v%s", iface, m.Text, res.FinalLive[iface], acc.Tail[iface], logs())
		}
		var closeFlows FlowSet
		if b := byTs[res.CloseTs]; b != nil {
			closeFlows = b.Flows
			delete(byTs, res.CloseTs)
		}
		if m := acc.Tail[iface].Compare(closeFlows); m != nil {
			return failf("close-"+m.Clause, "%s: write-out performed by Close (block %d): %s\n  block:    %v\n  expected: %v%s", iface, res.CloseTs, m.Text, closeFlows, acc.Tail[iface], logs())
		}
		for ts, b := range byTs {
			return failf("interval", "%s: block %d (%v) belongs to no write-out of the schedule %v / close %d", iface, ts, b.Flows, acc.Rotations, res.CloseTs)
		}
	}
	// (4) live queries between write-outs
	for _, ev := range res.Events {
		if len(ev.LiveDup) > 0 {
			return failf("one-record-per-key", "live query (action %d): %s", ev.Action, strings.Join(ev.LiveDup, "; "))
		}
		if ev.Kind != ActQuery {
			continue
		}
		for iface, exp := range acc.Queries[ev.Action] {
			if m := exp.Compare(ev.Live[iface]); m != nil {
				return failf("live-"+m.Clause, "%s: live query (action %d): %s\n  reported: %v\n  expected: %v%s", iface, ev.Action, m.Text, ev.Live[iface], exp, logs())
			}
		}
		for iface := range ev.Live {
			if _, asked := acc.Queries[ev.Action][iface]; !asked {
				return failf("live-unexpected-record", "live query (action %d) reports interface %s which was not requested", ev.Action, iface)
			}
		}
	}
	return nil
}

func describeBlocks(bs []Block) string {
	var s []string
	for _, b := range bs {
		s = append(s, fmt.Sprintf("%d:%v", b.Ts, b.Flows))
	}
	return "[" + strings.Join(s, " ") + "]"
}

// DiffRuns returns the first difference between the observables of two runs of twin scripts (a = the run with
// packets inside pause windows). Clauses: traffic-missing (records of a hold less than those of b: a packet was
// dropped), traffic-surplus (more: counted twice or invented), traffic-altered (moved between records / directions /
// sizes), counters-differ (processed / parsing-error counters), blocks-differ (different write-outs).
func DiffRuns(ifaces []string, a, b *Result, na, nb string) *Failure {
	if len(a.Events) != len(b.Events) {
		return failf("twin-events", "%s run has %d status/query results, %s run %d", na, len(a.Events), nb, len(b.Events))
	}
	for i := range a.Events {
		ea, eb := a.Events[i], b.Events[i]
		if len(ea.LiveDup) > 0 {
			return failf("one-record-per-key", "%s run, live query: %s", na, strings.Join(ea.LiveDup, "; "))
		}
		for _, iface := range ifaces {
			if ea.Kind == ActStatus {
				sa, oka := ea.Status[iface]
				sb, okb := eb.Status[iface]
				if oka != okb || sa != sb {
					return failf("counters-differ", "%s: status call %d reports %+v (present %v) in the %s run and %+v (present %v) in the %s run", iface, i, sa, oka, na, sb, okb, nb)
				}
			} else if d, kind := diffFlows(ea.Live[iface], eb.Live[iface]); d != "" {
				return failf("traffic-"+kind, "%s: live query %d: %s\n  %s: %v\n  %s: %v", iface, i, d, na, ea.Live[iface], nb, eb.Live[iface])
			}
		}
	}
	for _, iface := range ifaces {
		ba, bb := a.Blocks[iface], b.Blocks[iface]
		if len(ba) != len(bb) {
			return failf("blocks-differ", "%s: %d blocks in the %s run, %d in the %s run", iface, len(ba), na, len(bb), nb)
		}
		for i := range ba {
			if len(ba[i].Dup) > 0 {
				return failf("one-record-per-key", "%s: block %d of the %s run stores %v in more than one row", iface, ba[i].Ts, na, ba[i].Dup[0])
			}
			if ba[i].Ts != bb[i].Ts {
				return failf("blocks-differ", "%s: block %d has timestamp %d in the %s run and %d in the %s run", iface, i, ba[i].Ts, na, bb[i].Ts, nb)
			}
			if d, kind := diffFlows(ba[i].Flows, bb[i].Flows); d != "" {
				return failf("traffic-"+kind, "%s: block %d: %s\n  %s: %v\n  %s: %v", iface, ba[i].Ts, d, na, ba[i].Flows, nb, bb[i].Flows)
			}
		}
		if d, kind := diffFlows(a.FinalLive[iface], b.FinalLive[iface]); d != "" {
			return failf("traffic-"+kind, "%s: flows in memory at the end: %s\n  %s: %v\n  %s: %v", iface, d, na, a.FinalLive[iface], nb, b.FinalLive[iface])
		}
		if a.FinalStat[iface] != b.FinalStat[iface] {
			return failf("counters-differ", "%s: final status reports %+v in the %s run and %+v in the %s run", iface, a.FinalStat[iface], na, b.FinalStat[iface], nb)
		}
	}
	return nil
}

// diffFlows describes the first difference between two flow sets and classifies the whole difference from the
// point of view of the first set: missing (every counter <= the second set's), surplus (>=) or altered.
func diffFlows(a, b FlowSet) (text, kind string) {
	less, more := false, false
	cmp := func(x, y uint64) {
		if x < y {
			less = true
		} else if x > y {
			more = true
		}
	}
	keys := map[Key]bool{}
	for k := range a {
		keys[k] = true
	}
	for k := range b {
		keys[k] = true
	}
	var ks []Key
	for k := range keys {
		ks = append(ks, k)
	}
	sort.Slice(ks, func(i, j int) bool { return ks[i].String() < ks[j].String() })
	for _, k := range ks {
		v, inA := a[k]
		w, inB := b[k]
		cmp(v.BR, w.BR)
		cmp(v.BS, w.BS)
		cmp(v.PR, w.PR)
		cmp(v.PS, w.PS)
		if text != "" || (inA == inB && v == w) {
			continue
		}
		switch {
		case !inB:
			text = fmt.Sprintf("record %v%v exists in the first run only", k, v)
		case !inA:
			text = fmt.Sprintf("record %v%v exists in the second run only", k, w)
		default:
			text = fmt.Sprintf("record %v holds %v in the first run and %v in the second", k, v, w)
		}
	}
	switch {
	case text == "":
		return "", ""
	case less && !more:
		return text, "missing"
	case more && !less:
		return text, "surplus"
	}
	return text, "altered"
}
