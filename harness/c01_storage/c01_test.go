// C01 — stored blocks read back byte-for-byte as written, whatever their size,
// compressibility, encoder/level and however the writes are spread over sessions.
package c01

import (
	"bytes"
	"fmt"
	"os"
	"path/filepath"
	"sort"
	"strings"
	"testing"

	"github.com/els0r/goProbe/v4/pkg/goDB/encoder/encoders"
	"github.com/els0r/goProbe/v4/pkg/goDB/storage/gpfile"
	"github.com/els0r/goProbe/v4/pkg/types"
	"github.com/fako1024/gotools/concurrency"
	"pgregory.net/rapid"

	"verifharness/internal/evid"
	"verifharness/internal/gen"
)

func TestMain(m *testing.M) {
	evid.Rule("a history is a rapid-generated list of write sessions (open GPDir writer for a day with encoder ∈ {null,lz4,zstd} and level, 1–4 WriteBlocks with strictly increasing timestamps, Close) interleaved over 1–3 days; " +
		"each of the 8 columns of each block is drawn independently from length classes {0,1-64,…,4095-4097,8192-8193,…,200 KiB} × compressibility classes {zeros, period, random, mixed, alphabet}; " +
		"after every session every day is reopened four ways (directory-name suffix / empty suffix → recovery path) × (low-memory / read-all) and compared with the model; " +
		"non-trivial = the history contains a block column whose encoder output is larger than its raw size and larger than the 4096-byte write buffer (the null fallback after a flush), or ≥ 2 write sessions on one day; distinct by history hash")
	evid.Assume("timestamps within a day are strictly increasing (C03 covers everything else)", "local file system (tmpfs/ext4) without injected faults (C04/C05 cover those)")
	evid.Main(m)
}

type block struct {
	ts       int64
	cols     [types.ColIdxCount][]byte
	traffic  gpfile.TrafficMetadata
	counters types.Counters
}

type session struct {
	day    int // index
	enc    encoders.Type
	level  int
	blocks []block
	desc   []string
}

const day0 = int64(1700006400) // 2023-11-15 00:00:00 UTC (a UTC day boundary)

func drawSession(t *rapid.T, i int, nextSlot []int, maxLen int) session {
	s := session{day: rapid.IntRange(0, len(nextSlot)-1).Draw(t, fmt.Sprintf("s%d.day", i))}
	s.enc = rapid.SampledFrom([]encoders.Type{encoders.EncoderTypeNull, encoders.EncoderTypeLZ4, encoders.EncoderTypeLZ4, encoders.EncoderTypeZSTD, encoders.EncoderTypeZSTD}).Draw(t, fmt.Sprintf("s%d.enc", i))
	switch s.enc {
	case encoders.EncoderTypeLZ4:
		s.level = rapid.IntRange(0, 12).Draw(t, fmt.Sprintf("s%d.level", i))
	case encoders.EncoderTypeZSTD:
		s.level = rapid.IntRange(0, 19).Draw(t, fmt.Sprintf("s%d.level", i))
	}
	nb := rapid.IntRange(1, 4).Draw(t, fmt.Sprintf("s%d.nblocks", i))
	for b := 0; b < nb && nextSlot[s.day] < 287; b++ {
		gap := rapid.IntRange(1, 3).Draw(t, fmt.Sprintf("s%d.b%d.gap", i, b))
		nextSlot[s.day] += gap
		if nextSlot[s.day] > 287 {
			nextSlot[s.day] = 287
		}
		bl := block{ts: day0 + int64(s.day)*86400 + int64(nextSlot[s.day])*300}
		var d []string
		for c := 0; c < int(types.ColIdxCount); c++ {
			p := gen.DrawPayload(t, fmt.Sprintf("s%d.b%d.c%d", i, b, c), maxLen)
			bl.cols[c] = p.Data
			d = append(d, p.Describe())
			evid.Class("col:" + p.LenCls + "/" + p.CompCls)
		}
		u32 := rapid.OneOf(rapid.SampledFrom([]uint64{0, 1, 1000, 1<<32 - 1}), rapid.Uint64Range(0, 1<<32-1))
		bl.traffic = gpfile.TrafficMetadata{NumV4Entries: u32.Draw(t, "v4"), NumV6Entries: u32.Draw(t, "v6"), NumDrops: u32.Draw(t, "drops")}
		u64 := rapid.OneOf(rapid.SampledFrom([]uint64{0, 1, 1 << 40}), rapid.Uint64Range(0, 1<<60))
		bl.counters = types.Counters{BytesRcvd: u64.Draw(t, "br"), BytesSent: u64.Draw(t, "bs"), PacketsRcvd: u64.Draw(t, "pr"), PacketsSent: u64.Draw(t, "ps")}
		s.blocks = append(s.blocks, bl)
		s.desc = append(s.desc, fmt.Sprintf("ts=%d cols=[%s]", bl.ts, strings.Join(d, "; ")))
	}
	return s
}

func findDayDir(base string, dayTs int64) (name string, err error) {
	// the way walkDB finds it: <base>/<year>/<month>/<dayTs>[_suffix]
	var found []string
	err = filepath.WalkDir(base, func(p string, d os.DirEntry, e error) error {
		if e != nil {
			return e
		}
		if d.IsDir() && strings.HasPrefix(d.Name(), fmt.Sprintf("%d", dayTs)) {
			found = append(found, d.Name())
		}
		return nil
	})
	if err != nil {
		return "", err
	}
	if len(found) != 1 {
		return "", fmt.Errorf("expected exactly one directory for day %d, found %v", dayTs, found)
	}
	return found[0], nil
}

func verifyDay(base string, dayTs int64, model []block, ctx string) error {
	name, err := findDayDir(base, dayTs)
	if err != nil {
		return fmt.Errorf("%s", evid.Sig("C01:day-directory", "%s: %v", ctx, err))
	}
	_, suffix, err := gpfile.ExtractTimestampMetadataSuffix(name)
	if err != nil {
		return fmt.Errorf("%s", evid.Sig("C01:day-directory", "%s: directory name %q: %v", ctx, name, err))
	}
	var wantStats gpfile.Stats
	for _, b := range model {
		wantStats.Traffic = wantStats.Traffic.Add(b.traffic)
		wantStats.Counts.Add(b.counters)
	}
	// totals decoded from the directory name (what listings use without opening the day)
	meta := new(gpfile.Metadata)
	if err := meta.UnmarshalString(suffix); err != nil {
		return fmt.Errorf("%s", evid.Sig("C01:dirname-summary", "%s: suffix %q of %q does not decode: %v", ctx, suffix, name, err))
	}
	if meta.Stats != wantStats {
		return fmt.Errorf("%s", evid.Sig("C01:dirname-summary", "%s: directory name %q decodes to %+v, written totals are %+v", ctx, name, meta.Stats, wantStats))
	}
	for _, useSuffix := range []bool{true, false} {
		for _, readAll := range []bool{false, true} {
			mode := fmt.Sprintf("%s [suffix=%v readAll=%v]", ctx, useSuffix, readAll)
			var opts []gpfile.Option
			var pool *concurrency.MemPoolLimit
			if readAll {
				pool = concurrency.NewMemPool(int(types.ColIdxCount))
				opts = append(opts, gpfile.WithReadAll(pool))
			}
			sfx := ""
			if useSuffix {
				sfx = suffix
			}
			dir := gpfile.NewDirReader(base, dayTs, sfx, opts...)
			if err := dir.Open(); err != nil {
				return fmt.Errorf("%s", evid.Sig("C01:open", "%s: Open: %v", mode, err))
			}
			err := compareDir(dir, model, wantStats, mode)
			cerr := dir.Close()
			if pool != nil {
				pool.Clear()
			}
			if err != nil {
				return err
			}
			if cerr != nil {
				return fmt.Errorf("%s", evid.Sig("C01:close", "%s: Close: %v", mode, cerr))
			}
		}
	}
	return nil
}

func compareDir(dir *gpfile.GPDir, model []block, wantStats gpfile.Stats, mode string) error {
	if dir.NBlocks() != len(model) {
		return fmt.Errorf("%s", evid.Sig("C01:block-count", "%s: %d blocks read back, %d written", mode, dir.NBlocks(), len(model)))
	}
	if dir.Stats != wantStats {
		return fmt.Errorf("%s", evid.Sig("C01:day-summary", "%s: day summary %+v, written %+v", mode, dir.Stats, wantStats))
	}
	if len(dir.BlockTraffic) != len(model) {
		return fmt.Errorf("%s", evid.Sig("C01:block-count", "%s: %d traffic entries, %d blocks written", mode, len(dir.BlockTraffic), len(model)))
	}
	for i, b := range model {
		for c := types.ColumnIndex(0); c < types.ColIdxCount; c++ {
			if got := dir.BlockMetadata[c].BlockList[i].Timestamp; got != b.ts {
				return fmt.Errorf("%s", evid.Sig("C01:timestamp", "%s: block %d column %s has timestamp %d, written for %d", mode, i, types.ColumnFileNames[c], got, b.ts))
			}
			data, err := dir.ReadBlockAtIndex(c, i)
			if err != nil {
				return fmt.Errorf("%s", evid.Sig("C01:read-error", "%s: block %d (ts %d) column %s (raw %d bytes, stored as %+v): %v", mode, i, b.ts, types.ColumnFileNames[c], len(b.cols[c]), dir.BlockMetadata[c].BlockList[i].Block, err))
			}
			if !bytes.Equal(data, b.cols[c]) {
				k := 0
				for k < len(data) && k < len(b.cols[c]) && data[k] == b.cols[c][k] {
					k++
				}
				return fmt.Errorf("%s", evid.Sig("C01:bytes-differ", "%s: block %d (ts %d) column %s: read %d bytes, wrote %d, first difference at offset %d (stored as %+v)", mode, i, b.ts, types.ColumnFileNames[c], len(data), len(b.cols[c]), k, dir.BlockMetadata[c].BlockList[i].Block))
			}
		}
		if dir.BlockTraffic[i] != b.traffic {
			return fmt.Errorf("%s", evid.Sig("C01:block-summary", "%s: block %d traffic summary %+v, written %+v", mode, i, dir.BlockTraffic[i], b.traffic))
		}
	}
	// random access in reverse order must give the same bytes (offsets, not just sequential reads)
	for i := len(model) - 1; i >= 0; i-- {
		c := types.ColumnIndex(i % int(types.ColIdxCount))
		data, err := dir.ReadBlockAtIndex(c, i)
		if err != nil || !bytes.Equal(data, model[i].cols[c]) {
			return fmt.Errorf("%s", evid.Sig("C01:bytes-differ", "%s: reverse-order read of block %d column %s: err=%v, equal=%v", mode, i, types.ColumnFileNames[c], err, err == nil && bytes.Equal(data, model[i].cols[c])))
		}
	}
	return nil
}

func TestC01Storage(t *testing.T) {
	maxLen := evid.Pick(40000, 200000)
	rapid.Check(t, func(t *rapid.T) {
		base, err := os.MkdirTemp(os.Getenv("VERIF_WORK"), "c01-")
		if err != nil {
			t.Fatalf("tempdir: %v", err)
		}
		defer os.RemoveAll(base)
		ndays := rapid.IntRange(1, 3).Draw(t, "ndays")
		nextSlot := make([]int, ndays)
		nsess := rapid.IntRange(1, 5).Draw(t, "nsessions")
		model := make([][]block, ndays)
		sessPerDay := make([]int, ndays)
		var hist []string
		fallback, multi := false, false
		for i := 0; i < nsess; i++ {
			s := drawSession(t, i, nextSlot, maxLen)
			if len(s.blocks) == 0 {
				continue
			}
			dayTs := day0 + int64(s.day)*86400
			ctx := fmt.Sprintf("session %d (day %d, %s level %d, %d blocks)", i, s.day, s.enc, s.level, len(s.blocks))
			hist = append(hist, ctx+": "+strings.Join(s.desc, " | "))
			w := gpfile.NewDirWriter(base, s.blocks[0].ts, gpfile.WithEncoderTypeLevel(s.enc, s.level))
			if err := w.Open(); err != nil {
				t.Fatalf("%s", evid.Sig("C01:write-error", "%s: Open for write: %v", ctx, err))
			}
			for _, b := range s.blocks {
				if err := w.WriteBlocks(b.ts, b.traffic, b.counters, b.cols); err != nil {
					t.Fatalf("%s", evid.Sig("C01:write-error", "%s: WriteBlocks(%d): %v", ctx, b.ts, err))
				}
				model[s.day] = append(model[s.day], b)
			}
			// classify the null fallback from the writer's own header before closing
			for c := types.ColumnIndex(0); c < types.ColIdxCount; c++ {
				bl := w.BlockMetadata[c].BlockList
				for k := len(bl) - len(s.blocks); k < len(bl); k++ {
					if s.enc != encoders.EncoderTypeNull && bl[k].EncoderType == encoders.EncoderTypeNull && bl[k].RawLen > 4096 {
						fallback = true
					}
				}
			}
			if err := w.Close(); err != nil {
				t.Fatalf("%s", evid.Sig("C01:write-error", "%s: Close: %v", ctx, err))
			}
			sessPerDay[s.day]++
			if sessPerDay[s.day] >= 2 {
				multi = true
			}
			for d := 0; d < ndays; d++ {
				if len(model[d]) == 0 {
					continue
				}
				if err := verifyDay(base, day0+int64(d)*86400, model[d], fmt.Sprintf("after %s, day %d", ctx, d)); err != nil {
					t.Fatalf("%v\nhistory:\n  %s", err, strings.Join(hist, "\n  "))
				}
			}
			_ = dayTs
		}
		nt := fallback || multi
		var cls []string
		if fallback {
			cls = append(cls, "null-fallback-after-flush")
		}
		if multi {
			cls = append(cls, "multi-session-day")
		}
		sort.Strings(cls)
		evid.Case(strings.Join(hist, "\n"), nt, cls...)
		if evid.WantSample(nt) && len(hist) > 0 {
			evid.Sample(map[string]any{"history": hist, "classes": cls}, nt)
		}
	})
}
