// C24 — merging databases follows the documented per-day plan.
package c24

import (
	"bytes"
	"context"
	"crypto/sha256"
	"encoding/hex"
	"fmt"
	"io/fs"
	"net/netip"
	"os"
	"os/exec"
	"path/filepath"
	"regexp"
	"sort"
	"strconv"
	"strings"
	"sync"
	"testing"
	"time"
	_ "time/tzdata"

	"github.com/els0r/goProbe/v4/pkg/goDB"
	"github.com/els0r/goProbe/v4/pkg/goDB/encoder/encoders"
	"github.com/els0r/goProbe/v4/pkg/goDB/storage/gpfile"
	"github.com/els0r/goProbe/v4/pkg/query"
	"github.com/els0r/goProbe/v4/pkg/types"
	"github.com/fako1024/gotools/bitpack"
	"pgregory.net/rapid"

	"verifharness/internal/evid"
	"verifharness/internal/execpool"
	"verifharness/internal/gen"
	"verifharness/internal/model"
	"verifharness/internal/qgen"
)

func TestMain(m *testing.M) {
	evid.Rule("a source and a destination database over 2–3 interfaces × 3 days (around a year/month boundary and a leap day) are written through goProbe's DBWriter (encoder per side); each (interface, day) per side is absent, clearly partial (starts ≥ 2·tolerance+10 min late and/or ends that early, 1–6 blocks) or clearly complete " +
		"(first block ≤ day start + tolerance/2, last block + 5 min ≥ day end − tolerance/2 with a regular 5-minute tail, 0–4 blocks in between); block timestamps come from a small alphabet of 5-minute slots plus off-grid values and are deliberately shared between the two sides (always with different contents); " +
		"one pair in six may also hold partial days that start on time, end early and whose last block follows a long gap (00:00, 00:05, …, 13:00); empty sources/destinations and a missing destination directory are forced now and then; " +
		"options: interface selection (all / subset / with a name that is not in the source), overwrite, tolerance ∈ {unset (0 or negative: the library default of 300 s applies), 150 s, 300 s, 1 h, 6 h}, an optional dry run before the real merge, process time zone ∈ {UTC, New York, Kolkata}; " +
		"MergeDatabases runs in-process (it starts no goroutines); source and destination trees are hashed file by file around every run; after the merge the destination tree is read back through GPDir and decoded independently (timestamps, flows, drops, day summaries in .blockmeta and in the directory name), " +
		"queried once through the engine in an executor child (all interfaces, time label, all attributes), then the same merge is run a second time; " +
		"non-trivial = the real merge rebuilds at least one day that has at least one timestamp present on both sides; distinct by (source, destination, options, zone)")
	evid.Assume("both databases are written by goProbe's own DBWriter (C01/C03) in the time zone the merge runs in",
		"days whose completeness classification depends on undocumented detail are not generated: 'complete' and 'partial' are generated only where the first block is within half the tolerance of the day start / more than twice the tolerance (+10 min) away from it, and likewise at the day end, "+
			"under the reading that a block covers 5 minutes as well as under the reading that it covers the distance of the last two blocks",
		"the one exception are the gap-before-last-block days: they end more than twice the tolerance early and show a 5-minute rhythm at their start, so the documentation makes them partial; the implementation's complete (inferred interval = the gap) is attributed to finding C24-F1 when everything observed equals the plan in which exactly these days count as complete",
		"when the merged day's own class is not clear in that sense (second merge only) the per-action counts of the second merge are not compared, only their total and the unchanged content",
		"a block timestamp present on both sides counts as one conflict; the conflict counters of a dry run are not compared (nothing is resolved in a dry run)",
		"a requested interface that the source does not have may be answered with an error (then nothing may have changed) or be ignored; it is never required to be an error",
		"a dry run (or a failing merge) may create the destination directory itself if it did not exist; nothing else may differ")
	evid.Main(m)
}

const (
	daySec   = int64(86400)
	blockSec = int64(300)
)

// ---------------------------------------------------------------------------------------------
// classification ("clearly complete" / "clearly partial" / unclear)

type tolerances struct {
	opt     int64 // the option value in seconds (0 = unset)
	c, pm   int64 // complete margin base (tolerance for the complete side), partial margin
	display string
}

func tolOf(sec int64) tolerances {
	tl := tolerances{opt: sec, c: sec, display: fmt.Sprintf("%ds", sec)}
	p := sec
	if sec <= 0 { // unset / zero / negative: the library falls back to its default of 300 s (defaultCompleteTolerance), for both sides
		p = 300
		tl.c = 300
	}
	tl.pm = 2*p + 600
	return tl
}

// How the coverage at the end of a day is read: a block covers the 5 minutes before its timestamp
// (goProbe's fixed write-out interval; the reading of the documentation, which knows no other interval)
// or the interval between the last two blocks of the day (what the implementation infers).
const (
	readFixed = iota
	readInferred
)

func classifyAs(day int64, ts []int64, tl tolerances, reading int) string {
	if len(ts) == 0 {
		return "partial"
	}
	first, last := ts[0], ts[len(ts)-1]
	gap := blockSec
	if reading == readInferred && len(ts) > 1 {
		gap = last - ts[len(ts)-2]
	}
	dayEnd := day + daySec - 1
	if first <= day+tl.c/2 && last+gap >= dayEnd-tl.c/2 {
		return "complete"
	}
	if first >= day+tl.pm || last+gap <= dayEnd-tl.pm {
		return "partial"
	}
	// a day whose first block lies more than the whole tolerance after midnight is not covered from its start,
	// whether the tolerance is read per side or as the total slack of the day
	if tl.c > 0 && first > day+tl.c {
		return "partial"
	}
	return "unclear"
}

// classify: "complete", "partial" or "unclear" for the blocks (increasing timestamps) of one day.
// A class is clear when both readings agree on it. One disagreement is not a matter of detail near the
// threshold: a day that starts on time, ends early by more than twice the tolerance, but whose last block
// follows a long gap ("gap-before-last-block": 00:00, 00:05, 13:00). It covers nothing after 13:00 and is
// partial by the documentation; the inferred interval (13 h) makes it complete. gapDay reports that case;
// the class returned for it is the documented one unless asImplemented is set.
func classify(day int64, ts []int64, tl tolerances, asImplemented bool) (cls string, gapDay bool) {
	f, i := classifyAs(day, ts, tl, readFixed), classifyAs(day, ts, tl, readInferred)
	switch {
	case f == i:
		return f, false
	case f == "partial" && i == "complete":
		if asImplemented {
			return "complete", true
		}
		return "partial", true
	}
	return "unclear", false
}

func dayOf(ts int64) int64 { return ts / daySec * daySec }

// byDay groups the blocks of an interface by UTC day (the unit of a day directory).
func byDay(blocks []model.Block) map[int64][]model.Block {
	out := map[int64][]model.Block{}
	for _, b := range blocks {
		out[dayOf(b.Ts)] = append(out[dayOf(b.Ts)], b)
	}
	return out
}

func tsOf(blocks []model.Block) []int64 {
	out := make([]int64, len(blocks))
	for i, b := range blocks {
		out[i] = b.Ts
	}
	return out
}

func sortedDays(m map[int64][]model.Block) []int64 {
	var out []int64
	for d := range m {
		out = append(out, d)
	}
	sort.Slice(out, func(i, j int) bool { return out[i] < out[j] })
	return out
}

// ---------------------------------------------------------------------------------------------
// reference plan (written from the help text of `gpdb merge` and cmd/gpdb/README.md)

type summary struct {
	Ifaces, Copied, Rebuilt, Skipped int
	ByDst, BySrc                     int
}

type planResult struct {
	DB      *model.DB // expected destination
	Sum     summary
	Actions []string // "eth0/1703894400: rebuilt (partial vs complete) conflicts=2"
	Unclear bool     // a class that decides an action was not clear
	NT      bool     // >= 1 day rebuilt with >= 1 conflicting timestamp
	Hist    map[string]int
	GapDays []string // days whose class hinges on the gap-before-last-block reading and decides an action
}

// refMerge applies the documented rule:
//   - complete source days are copied when the destination lacks the day or overwriting is requested,
//   - complete-versus-complete days are kept without overwrite,
//   - otherwise the day is rebuilt block by block, the destination winning conflicts (the source with overwrite).
//
// asImplemented selects the implementation's reading for gap-before-last-block days (used only to attribute
// a mismatch to finding C24-F1, never as the expectation).
func refMerge(src, dst *model.DB, selected []string, overwrite bool, tl tolerances, asImplemented bool) planResult {
	res := planResult{DB: &model.DB{Ifaces: map[string][]model.Block{}}, Hist: map[string]int{}}
	sel := map[string]bool{}
	for _, s := range selected {
		sel[s] = true
	}
	names := map[string]bool{}
	for k := range src.Ifaces {
		names[k] = true
	}
	for k := range dst.Ifaces {
		names[k] = true
	}
	var all []string
	for k := range names {
		all = append(all, k)
	}
	sort.Strings(all)
	for _, ifc := range all {
		dstDays := byDay(dst.Ifaces[ifc])
		srcDays := byDay(src.Ifaces[ifc])
		if !sel[ifc] || len(srcDays) == 0 {
			if len(dst.Ifaces[ifc]) > 0 {
				res.DB.Ifaces[ifc] = append([]model.Block(nil), dst.Ifaces[ifc]...)
				if len(srcDays) > 0 {
					res.Hist["iface:not-selected-untouched"]++
				} else {
					res.Hist["iface:destination-only-untouched"]++
				}
			}
			continue
		}
		res.Sum.Ifaces++
		outDays := map[int64][]model.Block{}
		for d, b := range dstDays {
			outDays[d] = b
			if _, ok := srcDays[d]; !ok {
				res.Hist["day:destination-only-untouched"]++
			}
		}
		for _, d := range sortedDays(srcDays) {
			sb := srcDays[d]
			sc, sgap := classify(d, tsOf(sb), tl, asImplemented)
			db, has := dstDays[d]
			if sc == "unclear" {
				res.Unclear = true
			}
			if sgap {
				res.GapDays = append(res.GapDays, fmt.Sprintf("source %s/%d %v", ifc, d, rel(tsOf(sb), d)))
			}
			switch {
			case !has && sc == "complete":
				outDays[d] = sb
				res.Sum.Copied++
				res.Hist["day:copied(destination-lacks-day)"]++
				res.Actions = append(res.Actions, fmt.Sprintf("%s/%d: copied (complete, destination lacks the day)", ifc, d))
				continue
			case !has:
				outDays[d] = sb
				res.Sum.Rebuilt++
				res.Hist["day:rebuilt(source-only,partial)"]++
				res.Actions = append(res.Actions, fmt.Sprintf("%s/%d: rebuilt (partial, destination lacks the day)", ifc, d))
				continue
			}
			dc, dgap := classify(d, tsOf(db), tl, asImplemented)
			if sc == "complete" && !overwrite { // the destination class decides between keep and rebuild
				if dc == "unclear" {
					res.Unclear = true
				}
				if dgap {
					res.GapDays = append(res.GapDays, fmt.Sprintf("destination %s/%d %v", ifc, d, rel(tsOf(db), d)))
				}
			}
			switch {
			case sc == "complete" && overwrite:
				outDays[d] = sb
				res.Sum.Copied++
				res.Hist["day:copied(overwrite,"+dc+"-destination)"]++
				res.Actions = append(res.Actions, fmt.Sprintf("%s/%d: copied (complete source replaces %s destination, overwrite)", ifc, d, dc))
			case sc == "complete" && dc == "complete":
				res.Sum.Skipped++
				res.Hist["day:kept(complete-vs-complete)"]++
				res.Actions = append(res.Actions, fmt.Sprintf("%s/%d: kept (complete vs complete)", ifc, d))
			default:
				m := map[int64]model.Block{}
				for _, b := range db {
					m[b.Ts] = b
				}
				conflicts := 0
				for _, b := range sb {
					if _, both := m[b.Ts]; both {
						conflicts++
						if !overwrite {
							continue
						}
					}
					m[b.Ts] = b
				}
				var merged []model.Block
				for _, b := range m {
					merged = append(merged, b)
				}
				sort.Slice(merged, func(i, j int) bool { return merged[i].Ts < merged[j].Ts })
				outDays[d] = merged
				res.Sum.Rebuilt++
				if overwrite {
					res.Sum.BySrc += conflicts
				} else {
					res.Sum.ByDst += conflicts
				}
				res.Hist[fmt.Sprintf("day:rebuilt(%s-vs-%s)", sc, dc)]++
				if conflicts > 0 {
					res.NT = true
					res.Hist["day:rebuilt-with-conflicts"]++
					if overwrite {
						res.Hist["conflicts:source-wins"] += conflicts
					} else {
						res.Hist["conflicts:destination-wins"] += conflicts
					}
				}
				if len(merged) > len(db) && len(merged) > len(sb) {
					res.Hist["day:rebuilt-true-union"]++
				}
				res.Actions = append(res.Actions, fmt.Sprintf("%s/%d: rebuilt (%s vs %s) conflicts=%d", ifc, d, sc, dc, conflicts))
			}
		}
		var blocks []model.Block
		for _, d := range sortedDays(outDays) {
			blocks = append(blocks, outDays[d]...)
		}
		if len(blocks) > 0 {
			res.DB.Ifaces[ifc] = blocks
		}
	}
	return res
}

// ---------------------------------------------------------------------------------------------
// generator

var popularSlots = []int64{0, 1, 2, 12, 100, 143, 144, 150, 200, 276, 285, 286, 287}

func drawTsIn(t *rapid.T, label string, day, lo, hi int64, other []int64) int64 {
	// lo <= hi, both inside the day
	var cands []int64
	for _, s := range popularSlots {
		for _, off := range []int64{0, 1, 150} {
			v := day + s*blockSec + off
			if v >= lo && v <= hi {
				cands = append(cands, v)
			}
		}
	}
	var shared []int64
	for _, v := range other {
		if v >= lo && v <= hi {
			shared = append(shared, v)
		}
	}
	k := rapid.IntRange(0, 9).Draw(t, label+".kind")
	switch {
	case k <= 4 && len(shared) > 0:
		return rapid.SampledFrom(shared).Draw(t, label+".shared")
	case k <= 7 && len(cands) > 0:
		return rapid.SampledFrom(cands).Draw(t, label+".popular")
	case k == 8:
		// some 5-minute slot in range
		slo, shi := (lo-day+blockSec-1)/blockSec, (hi-day)/blockSec
		if slo <= shi {
			return day + blockSec*rapid.Int64Range(slo, shi).Draw(t, label+".slot")
		}
	}
	return rapid.Int64Range(lo, hi).Draw(t, label+".any")
}

// drawDayTs draws the block timestamps of one day of the given class; other = the timestamps the other side
// has on this day (to share some of them).
func drawDayTs(t *rapid.T, label string, day int64, cls string, tl tolerances, other []int64, gapTail bool) (ts []int64, shape string) {
	dayEnd := day + daySec - 1
	set := map[int64]bool{}
	if cls == "partial" && gapTail {
		// starts on time with a regular 5-minute rhythm, ends early, and the last block follows a gap so long
		// that "last block + (distance of the last two blocks)" reaches the end of the day
		head := day
		if tl.c/2 > 0 && rapid.IntRange(0, 2).Draw(t, label+".headoff") == 0 {
			head = drawTsIn(t, label+".head", day, day, day+tl.c/2, other)
		}
		last := drawTsIn(t, label+".last", day, day+50000, dayEnd-tl.pm-blockSec, other)
		set[head], set[head+blockSec], set[last] = true, true, true
		prevMax := 2*last - dayEnd
		n := rapid.IntRange(0, 2).Draw(t, label+".nmid")
		for i := 0; i < n; i++ {
			set[drawTsIn(t, fmt.Sprintf("%s.mid%d", label, i), day, head+blockSec+1, prevMax, other)] = true
		}
		return sortedSet(set), "gap-before-last-block"
	}
	switch cls {
	case "complete":
		head := day
		if tl.c/2 > 0 && rapid.IntRange(0, 2).Draw(t, label+".headoff") == 0 {
			head = drawTsIn(t, label+".head", day, day, day+tl.c/2, other)
		}
		endLo := dayEnd - tl.c/2 - blockSec
		var last int64
		switch rapid.IntRange(0, 3).Draw(t, label+".lastkind") {
		case 0, 1:
			last = day + 287*blockSec // 23:55:00
		case 2:
			last = drawTsIn(t, label+".last", day, endLo, dayEnd, other)
		default:
			last = dayEnd
		}
		set[head], set[last] = true, true
		upper := last
		if last < dayEnd-tl.c/2 || rapid.Bool().Draw(t, label+".regular-tail") {
			set[last-blockSec] = true
			upper = last - blockSec
		}
		shape = "complete"
		if head+1 <= upper-1 {
			n := rapid.IntRange(0, 4).Draw(t, label+".nmid")
			for i := 0; i < n; i++ {
				set[drawTsIn(t, fmt.Sprintf("%s.mid%d", label, i), day, head+1, upper-1, other)] = true
			}
		}
	case "partial":
		shapes := []string{"late-start", "early-end"}
		if day+tl.pm <= dayEnd-tl.pm-blockSec {
			shapes = append(shapes, "middle-only")
		}
		if tl.c > 0 && 2*tl.c < tl.pm {
			shapes = append(shapes, "barely-late-start")
		}
		shape = rapid.SampledFrom(shapes).Draw(t, label+".shape")
		lo, hi := day, dayEnd
		if shape != "early-end" {
			lo = day + tl.pm
		}
		if shape == "barely-late-start" {
			// the first block lies between one and two tolerances after midnight, the day is covered to its end
			lo = drawTsIn(t, label+".first", day, day+tl.c+1, day+2*tl.c, other)
			set[lo], set[day+287*blockSec], set[day+286*blockSec] = true, true, true
		}
		if shape != "late-start" && shape != "barely-late-start" {
			hi = dayEnd - tl.pm - blockSec
		}
		n := rapid.IntRange(1, 5).Draw(t, label+".nblocks")
		for i := 0; i < n; i++ {
			set[drawTsIn(t, fmt.Sprintf("%s.b%d", label, i), day, lo, hi, other)] = true
		}
		if shape != "late-start" && shape != "barely-late-start" {
			// keep the tail regular enough that "ends early" holds for every reading of the block interval
			l := sortedSet(set)
			if len(l) > 1 {
				last, prev := l[len(l)-1], l[len(l)-2]
				if last+(last-prev) > dayEnd-tl.pm {
					set[last-blockSec] = true
				}
			}
		}
	}
	return sortedSet(set), shape
}

func sortedSet(set map[int64]bool) []int64 {
	var out []int64
	for v := range set {
		out = append(out, v)
	}
	sort.Slice(out, func(i, j int) bool { return out[i] < out[j] })
	return out
}

func drawBlock(t *rapid.T, label string, ts int64) model.Block {
	bl := model.Block{Ts: ts, Drops: rapid.SampledFrom([]uint64{0, 0, 1, 7, 1000}).Draw(t, label+".drops")}
	nf := rapid.IntRange(0, 3).Draw(t, label+".nflows")
	seen := map[string]bool{}
	for f := 0; f < nf; f++ {
		l := fmt.Sprintf("%s.f%d", label, f)
		fl := gen.DrawFlowKey(t, l, 0)
		k := fmt.Sprintf("%s|%s|%d|%d", fl.Sip, fl.Dip, fl.Dport, fl.Proto)
		if seen[k] {
			continue
		}
		seen[k] = true
		pk := rapid.OneOf(rapid.SampledFrom([]uint64{1, 2, 1500, 1 << 32}), rapid.Uint64Range(1, 1<<20))
		by := func(l string, p uint64) uint64 { return p * rapid.SampledFrom([]uint64{1, 40, 64, 1500}).Draw(t, l) }
		switch rapid.IntRange(0, 3).Draw(t, l+".dir") {
		case 0:
			fl.PR = pk.Draw(t, l+".pr")
			fl.BR = by(l+".br", fl.PR)
		case 1:
			fl.PS = pk.Draw(t, l+".ps")
			fl.BS = by(l+".bs", fl.PS)
		default:
			fl.PR, fl.PS = pk.Draw(t, l+".pr"), pk.Draw(t, l+".ps")
			fl.BR, fl.BS = by(l+".br", fl.PR), by(l+".bs", fl.PS)
		}
		bl.Flows = append(bl.Flows, fl)
	}
	return bl
}

func blockKey(b model.Block) string {
	var fl []string
	for _, f := range b.Flows {
		fl = append(fl, f.String())
	}
	sort.Strings(fl)
	return fmt.Sprintf("ts=%d drops=%d %s", b.Ts, b.Drops, strings.Join(fl, " "))
}

type mergeCase struct {
	TZ        string
	Days      []int64
	Src, Dst  *model.DB
	SrcCls    map[string]string // "eth0/day" -> class(shape)
	DstCls    map[string]string
	Tol       tolerances
	Overwrite bool
	DryFirst  bool
	GapTail   bool // the pair may contain gap-before-last-block days (finding C24-F1)
	SelKind   string
	Request   []string // nil = all
	Unknown   bool     // the request names an interface the source does not have
	DstExists bool     // an empty destination: does the directory exist?
	SrcEnc    encoders.Type
	DstEnc    encoders.Type
	CLI       bool // the merges are run through the gpdb command (cmd/gpdb/cmd/merge.go) instead of the library call
	NoTolFlag bool // command route with the documented default tolerance of 150 s: --complete-tolerance is not given
}

var clsGen = rapid.SampledFrom([]string{"absent", "partial", "partial", "complete", "complete"})

func drawCase(t *rapid.T, zones []string) *mergeCase {
	c := &mergeCase{Src: &model.DB{Ifaces: map[string][]model.Block{}}, Dst: &model.DB{Ifaces: map[string][]model.Block{}},
		SrcCls: map[string]string{}, DstCls: map[string]string{}}
	c.TZ = rapid.SampledFrom(zones).Draw(t, "tz")
	c.Tol = tolOf(rapid.SampledFrom([]int64{0, 0, -60, 150, 150, 300, 3600, 21600}).Draw(t, "tolerance"))
	c.Overwrite = rapid.Bool().Draw(t, "overwrite")
	c.CLI = rapid.IntRange(0, 3).Draw(t, "via-command") == 0
	if c.CLI && rapid.IntRange(0, 2).Draw(t, "command-default-tolerance") == 0 {
		// the command's documented default (150 s) by not giving the flag at all
		c.Tol, c.NoTolFlag = tolOf(150), true
	}
	c.DryFirst = rapid.IntRange(0, 2).Draw(t, "dry-run-first") == 0
	d0 := rapid.IntRange(0, len(gen.DefaultDays)-3).Draw(t, "day0")
	c.Days = gen.DefaultDays[d0 : d0+3]
	// days whose last block follows a long gap: documented partial, implemented complete (C24-F1); they need
	// room between "ends early" and "half of the day", which a tolerance of 6 h does not leave
	c.GapTail = rapid.IntRange(0, 5).Draw(t, "gap-before-last-block-days") == 0 && c.Tol.opt <= 3600
	emptySrc := rapid.IntRange(0, 29).Draw(t, "empty-source") == 17
	emptyDst := rapid.IntRange(0, 9).Draw(t, "empty-destination") == 0
	nif := rapid.IntRange(2, 3).Draw(t, "nifaces")
	names := gen.IfaceAlphabet[:nif]
	for _, ifc := range names {
		for di, day := range c.Days {
			l := fmt.Sprintf("%s.d%d", ifc, di)
			sc := clsGen.Draw(t, l+".src.class")
			dc := clsGen.Draw(t, l+".dst.class")
			if emptySrc {
				sc = "absent"
			}
			if emptyDst {
				dc = "absent"
			}
			var sts, dts []int64
			if sc != "absent" {
				gap := c.GapTail && sc == "partial" && rapid.Bool().Draw(t, l+".src.gap")
				var shape string
				sts, shape = drawDayTs(t, l+".src", day, sc, c.Tol, nil, gap)
				if got, isGap := classify(day, sts, c.Tol, false); got != sc || isGap != gap {
					t.Fatalf("harness: generated %s source day (gap day: %v) classifies as %s (gap day: %v): %v", sc, gap, got, isGap, sts)
				}
				c.SrcCls[fmt.Sprintf("%s/%d", ifc, day)] = shape
				for i, ts := range sts {
					c.Src.Ifaces[ifc] = append(c.Src.Ifaces[ifc], drawBlock(t, fmt.Sprintf("%s.src.b%d", l, i), ts))
				}
			}
			if dc != "absent" {
				gap := c.GapTail && dc == "partial" && rapid.Bool().Draw(t, l+".dst.gap")
				var shape string
				dts, shape = drawDayTs(t, l+".dst", day, dc, c.Tol, sts, gap)
				if got, isGap := classify(day, dts, c.Tol, false); got != dc || isGap != gap {
					t.Fatalf("harness: generated %s destination day (gap day: %v) classifies as %s (gap day: %v): %v", dc, gap, got, isGap, dts)
				}
				c.DstCls[fmt.Sprintf("%s/%d", ifc, day)] = shape
				srcAt := map[int64]model.Block{}
				for _, b := range byDay(c.Src.Ifaces[ifc])[day] {
					srcAt[b.Ts] = b
				}
				for i, ts := range dts {
					b := drawBlock(t, fmt.Sprintf("%s.dst.b%d", l, i), ts)
					if s, both := srcAt[ts]; both && blockKey(s) == blockKey(b) {
						b.Drops++ // a shared timestamp always carries different contents on the two sides
					}
					c.Dst.Ifaces[ifc] = append(c.Dst.Ifaces[ifc], b)
				}
			}
		}
	}
	srcNames := c.Src.IfaceNames()
	c.SelKind = "all"
	if len(srcNames) > 0 {
		switch k := rapid.IntRange(0, 9).Draw(t, "selkind"); {
		case k <= 3:
		case k <= 7:
			c.SelKind = "subset"
			perm := rapid.Permutation(srcNames).Draw(t, "selperm")
			c.Request = append([]string(nil), perm[:rapid.IntRange(1, len(perm)).Draw(t, "nsel")]...)
		default:
			c.SelKind = "with-name-not-in-source"
			perm := rapid.Permutation(srcNames).Draw(t, "selperm")
			c.Request = append([]string(nil), perm[:rapid.IntRange(0, len(perm)).Draw(t, "nsel")]...)
			unknown := []string{"nosuch9"}
			for _, n := range c.Dst.IfaceNames() {
				if _, inSrc := c.Src.Ifaces[n]; !inSrc {
					unknown = append(unknown, n) // exists in the destination only
				}
			}
			u := rapid.SampledFrom(unknown).Draw(t, "unknown")
			pos := rapid.IntRange(0, len(c.Request)).Draw(t, "unknownpos")
			c.Request = append(c.Request[:pos:pos], append([]string{u}, c.Request[pos:]...)...)
			c.Unknown = true
		}
	}
	c.DstExists = len(c.Dst.Ifaces) > 0 || rapid.Bool().Draw(t, "empty-destination-exists")
	encs := []encoders.Type{encoders.EncoderTypeLZ4, encoders.EncoderTypeLZ4, encoders.EncoderTypeNull, encoders.EncoderTypeZSTD}
	c.SrcEnc = rapid.SampledFrom(encs).Draw(t, "src.encoder")
	c.DstEnc = rapid.SampledFrom(encs).Draw(t, "dst.encoder")
	return c
}

func describeSide(db *model.DB, cls map[string]string) []string {
	var out []string
	for _, ifc := range db.IfaceNames() {
		days := byDay(db.Ifaces[ifc])
		for _, d := range sortedDays(days) {
			var bl []string
			for _, b := range days[d] {
				var fl []string
				for _, f := range b.Flows {
					fl = append(fl, f.String())
				}
				bl = append(bl, fmt.Sprintf("+%d(drops=%d %s)", b.Ts-d, b.Drops, strings.Join(fl, " ")))
			}
			out = append(out, fmt.Sprintf("%s day %d [%s]: %s", ifc, d, cls[fmt.Sprintf("%s/%d", ifc, d)], strings.Join(bl, " ")))
		}
	}
	return out
}

func (c *mergeCase) optionText() string {
	req := "all"
	if c.Request != nil {
		req = strings.Join(c.Request, ",")
	}
	return fmt.Sprintf("TZ=%s ifaces=%s overwrite=%v tolerance=%s dry-run-first=%v destination-exists=%v encoders=%v/%v via-command=%v tolerance-flag-omitted=%v", c.TZ, req, c.Overwrite, c.Tol.display, c.DryFirst, c.DstExists, c.SrcEnc, c.DstEnc, c.CLI, c.NoTolFlag)
}

func (c *mergeCase) describe() string {
	return c.optionText() + "\n  source:\n    " + strings.Join(describeSide(c.Src, c.SrcCls), "\n    ") + "\n  destination:\n    " + strings.Join(describeSide(c.Dst, c.DstCls), "\n    ")
}

// ---------------------------------------------------------------------------------------------
// observation: file trees and decoded day directories

// hashTree maps every path below root to a digest of its content ("dir" for directories).
func hashTree(root string) (map[string]string, error) {
	out := map[string]string{}
	err := filepath.WalkDir(root, func(p string, d fs.DirEntry, err error) error {
		if err != nil {
			if os.IsNotExist(err) && p == root {
				return filepath.SkipDir
			}
			return err
		}
		rel, _ := filepath.Rel(root, p)
		if d.IsDir() {
			out[rel] = "dir"
			return nil
		}
		b, rerr := os.ReadFile(p)
		if rerr != nil {
			return rerr
		}
		s := sha256.Sum256(b)
		out[rel] = hex.EncodeToString(s[:8])
		return nil
	})
	return out, err
}

func diffTrees(before, after map[string]string, ignoreRoot bool) string {
	var d []string
	for p, h := range before {
		if a, ok := after[p]; !ok {
			d = append(d, "removed "+p)
		} else if a != h {
			d = append(d, "changed "+p)
		}
	}
	for p := range after {
		if _, ok := before[p]; !ok {
			if p == "." && ignoreRoot {
				continue
			}
			d = append(d, "added "+p)
		}
	}
	sort.Strings(d)
	if len(d) > 6 {
		d = append(d[:6], fmt.Sprintf("… (%d)", len(d)))
	}
	return strings.Join(d, "; ")
}

type obsDay struct {
	Dir        string
	FileStats  gpfile.Stats // summary in .blockmeta
	NameStats  gpfile.Stats // summary in the directory-name suffix
	HasSuffix  bool
	Blocks     []model.Block
	BlockTraff []gpfile.TrafficMetadata
}

// readDB reads every day directory below root through GPDir and decodes the columns independently.
func readDB(root string) (map[string]map[int64]*obsDay, error) {
	out := map[string]map[int64]*obsDay{}
	ents, err := os.ReadDir(root)
	if err != nil {
		if os.IsNotExist(err) {
			return out, nil
		}
		return nil, err
	}
	for _, e := range ents {
		if strings.Contains(e.Name(), ".gpdb-merge") {
			return nil, fmt.Errorf("leftover %s in the destination", e.Name())
		}
		if !e.IsDir() {
			return nil, fmt.Errorf("unexpected file %s in the database root", e.Name())
		}
		ifc := e.Name()
		ifaceDir := filepath.Join(root, ifc)
		var dayDirs []string
		werr := filepath.WalkDir(ifaceDir, func(p string, d fs.DirEntry, err error) error {
			if err != nil {
				return err
			}
			if strings.Contains(d.Name(), ".gpdb-merge") {
				return fmt.Errorf("leftover %s in the destination", p)
			}
			rel, _ := filepath.Rel(ifaceDir, p)
			if d.IsDir() && strings.Count(rel, string(filepath.Separator)) == 2 {
				dayDirs = append(dayDirs, p)
				return filepath.SkipDir
			}
			return nil
		})
		if werr != nil {
			return nil, werr
		}
		sort.Strings(dayDirs)
		for _, p := range dayDirs {
			name := filepath.Base(p)
			ts, suffix, perr := gpfile.ExtractTimestampMetadataSuffix(name)
			if perr != nil {
				return nil, fmt.Errorf("day directory %s: %v", p, perr)
			}
			od := &obsDay{Dir: name}
			dir := gpfile.NewDirReader(ifaceDir, ts, suffix)
			if oerr := dir.Open(); oerr != nil {
				return nil, fmt.Errorf("open %s: %v", p, oerr)
			}
			if dir.Path() != p {
				dir.Close()
				return nil, fmt.Errorf("day directory %s is not where a reader looks for day %d (%s)", p, ts, dir.Path())
			}
			od.FileStats = dir.Stats
			if suffix != "" {
				m := new(gpfile.Metadata)
				if uerr := m.UnmarshalString(suffix); uerr != nil {
					dir.Close()
					return nil, fmt.Errorf("day directory %s: suffix: %v", p, uerr)
				}
				od.NameStats, od.HasSuffix = m.Stats, true
			}
			for i := 0; i < dir.NBlocks(); i++ {
				var cols [types.ColIdxCount][]byte
				for ci := types.ColumnIndex(0); ci < types.ColIdxCount; ci++ {
					data, rerr := dir.ReadBlockAtIndex(ci, i)
					if rerr != nil {
						dir.Close()
						return nil, fmt.Errorf("%s block %d column %d: %v", p, i, ci, rerr)
					}
					cols[ci] = append([]byte(nil), data...)
				}
				bts := dir.BlockMetadata[0].BlockList[i].Timestamp
				for ci := 1; ci < int(types.ColIdxCount); ci++ {
					if dir.BlockMetadata[ci].BlockList[i].Timestamp != bts {
						dir.Close()
						return nil, fmt.Errorf("%s block %d: column %d has timestamp %d, column 0 has %d", p, i, ci, dir.BlockMetadata[ci].BlockList[i].Timestamp, bts)
					}
				}
				tr := dir.BlockTraffic[i]
				b, derr := decodeBlock(bts, tr, cols)
				if derr != nil {
					dir.Close()
					return nil, fmt.Errorf("%s block %d (ts %d): %v", p, i, bts, derr)
				}
				od.Blocks = append(od.Blocks, b)
				od.BlockTraff = append(od.BlockTraff, tr)
			}
			dir.Close()
			if out[ifc] == nil {
				out[ifc] = map[int64]*obsDay{}
			}
			if prev, dup := out[ifc][ts]; dup {
				return nil, fmt.Errorf("two directories for day %d of %s: %s and %s", ts, ifc, prev.Dir, name)
			}
			out[ifc][ts] = od
		}
	}
	return out, nil
}

func decodeBlock(ts int64, tr gpfile.TrafficMetadata, cols [types.ColIdxCount][]byte) (model.Block, error) {
	b := model.Block{Ts: ts, Drops: tr.NumDrops}
	n4, n6 := int(tr.NumV4Entries), int(tr.NumV6Entries)
	n := n4 + n6
	if len(cols[types.SIPColIdx]) != 4*n4+16*n6 || len(cols[types.DIPColIdx]) != 4*n4+16*n6 || len(cols[types.ProtoColIdx]) != n || len(cols[types.DportColIdx]) != 2*n {
		return b, fmt.Errorf("attribute columns (%d,%d,%d,%d bytes) do not fit %d IPv4 + %d IPv6 entries",
			len(cols[types.SIPColIdx]), len(cols[types.DIPColIdx]), len(cols[types.ProtoColIdx]), len(cols[types.DportColIdx]), n4, n6)
	}
	var cnt [4][]uint64
	for i := 0; i < 4; i++ {
		cnt[i] = bitpack.UnpackInto(cols[int(types.BytesRcvdColIdx)+i], nil)
		if len(cnt[i]) != n {
			return b, fmt.Errorf("counter column %d holds %d values for %d entries", i, len(cnt[i]), n)
		}
	}
	off := 0
	for i := 0; i < n; i++ {
		var f model.Flow
		if i < n4 {
			f.Sip, _ = netip.AddrFromSlice(cols[types.SIPColIdx][off : off+4])
			f.Dip, _ = netip.AddrFromSlice(cols[types.DIPColIdx][off : off+4])
			off += 4
		} else {
			f.Sip, _ = netip.AddrFromSlice(cols[types.SIPColIdx][off : off+16])
			f.Dip, _ = netip.AddrFromSlice(cols[types.DIPColIdx][off : off+16])
			off += 16
		}
		f.Proto = cols[types.ProtoColIdx][i]
		f.Dport = uint16(cols[types.DportColIdx][2*i])<<8 | uint16(cols[types.DportColIdx][2*i+1])
		f.BR, f.BS, f.PR, f.PS = cnt[0][i], cnt[1][i], cnt[2][i], cnt[3][i]
		b.Flows = append(b.Flows, f)
	}
	return b, nil
}

func statsOf(blocks []model.Block) gpfile.Stats {
	var s gpfile.Stats
	for _, b := range blocks {
		s.Traffic.NumDrops += b.Drops
		for _, f := range b.Flows {
			if f.IsV4() {
				s.Traffic.NumV4Entries++
			} else {
				s.Traffic.NumV6Entries++
			}
			s.Counts.BytesRcvd += f.BR
			s.Counts.BytesSent += f.BS
			s.Counts.PacketsRcvd += f.PR
			s.Counts.PacketsSent += f.PS
		}
	}
	return s
}

// compareDB compares the observed destination with the expected model, day by day and block by block.
// It returns (signature suffix, detail) of the first difference.
func compareDB(obs map[string]map[int64]*obsDay, want *model.DB) (string, string) {
	for ifc := range obs {
		if len(want.Ifaces[ifc]) == 0 {
			return "interface-invented", fmt.Sprintf("the destination holds interface %s (%d days), none expected", ifc, len(obs[ifc]))
		}
	}
	for _, ifc := range want.IfaceNames() {
		od := obs[ifc]
		wd := byDay(want.Ifaces[ifc])
		if od == nil {
			return "interface-missing", fmt.Sprintf("interface %s is missing in the destination", ifc)
		}
		for d, o := range od {
			if _, ok := wd[d]; !ok {
				return "day-invented", fmt.Sprintf("%s: day %d (%s, %d blocks) exists, not expected", ifc, d, o.Dir, len(o.Blocks))
			}
		}
		for _, d := range sortedDays(wd) {
			o, ok := od[d]
			if !ok {
				return "day-missing", fmt.Sprintf("%s: day %d is missing (%d blocks expected)", ifc, d, len(wd[d]))
			}
			wb := wd[d]
			gts, wts := tsOf(o.Blocks), tsOf(wb)
			if fmt.Sprint(gts) != fmt.Sprint(wts) {
				kind := "block-timestamps"
				if len(gts) < len(wts) {
					kind = "blocks-missing"
				} else if len(gts) > len(wts) {
					kind = "blocks-invented"
				}
				return kind, fmt.Sprintf("%s day %d: block timestamps %v, expected %v", ifc, d, rel(gts, d), rel(wts, d))
			}
			for i := range wb {
				if blockKey(o.Blocks[i]) != blockKey(wb[i]) {
					return "block-content", fmt.Sprintf("%s day %d block +%d: stored %s, expected %s", ifc, d, wb[i].Ts-d, blockKey(o.Blocks[i]), blockKey(wb[i]))
				}
			}
			ws := statsOf(wb)
			if o.FileStats != ws {
				return "day-summary", fmt.Sprintf("%s day %d: summary in the metadata file %+v, sum of the blocks %+v", ifc, d, o.FileStats, ws)
			}
			if !o.HasSuffix || o.NameStats != ws {
				return "day-summary-dirname", fmt.Sprintf("%s day %d: directory %s carries summary %+v (suffix present: %v), sum of the blocks %+v", ifc, d, o.Dir, o.NameStats, o.HasSuffix, ws)
			}
		}
	}
	return "", ""
}

func rel(ts []int64, day int64) []string {
	out := make([]string, len(ts))
	for i, v := range ts {
		out[i] = fmt.Sprintf("+%d", v-day)
	}
	return out
}

// ---------------------------------------------------------------------------------------------
// the engine's view

var (
	poolMu   sync.Mutex
	children = map[string]*execpool.Child{}
)

func child(tz string) *execpool.Child {
	poolMu.Lock()
	defer poolMu.Unlock()
	c, ok := children[tz]
	if !ok {
		c = execpool.New(execpool.Bin("gpexec"), "TZ="+tz)
		children[tz] = c
	}
	return c
}

// queryAll asks the engine for every stored flow of the given interfaces (time label, all attributes).
func queryAll(tz, dbPath string, ifaces []string, first, last int64) (model.QuerySpec, *qgen.Response, error) {
	q := &qgen.Query{
		Spec: model.QuerySpec{Ifaces: ifaces, First: first, Last: last, Attrs: []string{"sip", "dip", "dport", "proto"}, Time: true},
		Args: query.Args{Query: "time,iface,sip,dip,dport,proto", Ifaces: strings.Join(ifaces, ","), First: fmt.Sprintf("%d", first), Last: fmt.Sprintf("%d", last),
			Format: "json", MaxMemPct: 100, NumResults: 1 << 40, SortBy: "bytes", DNSResolution: query.DNSResolution{Timeout: time.Second, MaxRows: 25}},
	}
	// two workers per interface are plenty for a handful of day directories (the default, one per CPU, costs ~50 ms per query)
	resp, err := qgen.Run(child(tz), dbPath, q, 2)
	return q.Spec, resp, err
}

// ---------------------------------------------------------------------------------------------
// the property

func zones() []string { return []string{"UTC", "America/New_York", "Asia/Kolkata"} }

var summaryLine = regexp.MustCompile(`(?m)^(Interfaces processed|Days copied|Days rebuilt|Days skipped|Conflicts resolved by destination|Conflicts resolved by source): (\d+)$`)

// runMergeCLI runs `gpdb merge SRC DST` (the built command) with the flags the case translates to and reads
// the summary it prints.
func runMergeCLI(src, dst string, c *mergeCase, dry bool) (sum goDB.MergeSummary, err error) {
	args := []string{"merge", src, dst}
	if !c.NoTolFlag {
		args = append(args, fmt.Sprintf("--complete-tolerance=%ds", c.Tol.opt))
	}
	if len(c.Request) > 0 {
		args = append(args, "--iface="+strings.Join(c.Request, ","))
	}
	if c.Overwrite {
		args = append(args, "--overwrite")
	}
	if dry {
		args = append(args, "--dry-run")
	}
	cmd := exec.Command(execpool.Bin("gpdb"), args...)
	cmd.Env = append(os.Environ(), "TZ="+c.TZ)
	var stdout, stderr bytes.Buffer
	cmd.Stdout, cmd.Stderr = &stdout, &stderr
	if rerr := cmd.Run(); rerr != nil {
		msg := strings.TrimSpace(stderr.String())
		if msg == "" {
			msg = strings.TrimSpace(stdout.String())
		}
		return sum, fmt.Errorf("gpdb %s: %v: %s", strings.Join(args, " "), rerr, msg)
	}
	out := stdout.String()
	seen := 0
	for _, m := range summaryLine.FindAllStringSubmatch(out, -1) {
		n, _ := strconv.Atoi(m[2])
		seen++
		switch m[1] {
		case "Interfaces processed":
			sum.InterfacesProcessed = n
		case "Days copied":
			sum.DaysCopied = n
		case "Days rebuilt":
			sum.DaysRebuilt = n
		case "Days skipped":
			sum.DaysSkipped = n
		case "Conflicts resolved by destination":
			sum.ConflictsResolvedByDestination = n
		case "Conflicts resolved by source":
			sum.ConflictsResolvedBySource = n
		}
	}
	if seen != 6 || !strings.Contains(out, fmt.Sprintf("Merge completed (dry-run=%t)", dry)) {
		return sum, fmt.Errorf("gpdb %s: unexpected output %q", strings.Join(args, " "), out)
	}
	sum.DryRun = dry
	return sum, nil
}

func runMerge(src, dst string, c *mergeCase, dry bool) (goDB.MergeSummary, error) {
	if c.CLI {
		return runMergeCLI(src, dst, c, dry)
	}
	return goDB.MergeDatabases(context.Background(), goDB.MergeOptions{
		SourcePath: src, DestinationPath: dst, Interfaces: c.Request,
		Overwrite: c.Overwrite, DryRun: dry, CompleteTolerance: time.Duration(c.Tol.opt) * time.Second,
	})
}

func sumText(s goDB.MergeSummary) string {
	return fmt.Sprintf("interfaces=%d copied=%d rebuilt=%d skipped=%d conflicts-by-destination=%d conflicts-by-source=%d dry-run=%v",
		s.InterfacesProcessed, s.DaysCopied, s.DaysRebuilt, s.DaysSkipped, s.ConflictsResolvedByDestination, s.ConflictsResolvedBySource, s.DryRun)
}

func wantText(s summary) string {
	return fmt.Sprintf("interfaces=%d copied=%d rebuilt=%d skipped=%d conflicts-by-destination=%d conflicts-by-source=%d", s.Ifaces, s.Copied, s.Rebuilt, s.Skipped, s.ByDst, s.BySrc)
}

// observation is everything the merge runs of one case showed that has to be judged against a plan.
type observation struct {
	DryRan    bool // a dry run was made and succeeded
	Dry       goDB.MergeSummary
	Merge     goDB.MergeSummary
	Dst       map[string]map[int64]*obsDay // destination after the merge
	Queried   []string                     // interfaces the engine was asked for (those holding day directories)
	QuerySpec model.QuerySpec
	QueryErr  string
	QueryRows map[model.RowKey]model.Counters
	QueryBad  string
	Merge2    goDB.MergeSummary
	Dst2      map[string]map[int64]*obsDay // destination after the second merge
}

func sameDays(got goDB.MergeSummary, w summary) bool {
	return got.InterfacesProcessed == w.Ifaces && got.DaysCopied == w.Copied && got.DaysRebuilt == w.Rebuilt && got.DaysSkipped == w.Skipped
}

func sameConflicts(got goDB.MergeSummary, w summary) bool {
	return got.ConflictsResolvedByDestination == w.ByDst && got.ConflictsResolvedBySource == w.BySrc
}

// judge compares an observation with a plan (first merge) and the plan of the second merge.
func judge(o *observation, want, again planResult) (sig, msg string) {
	plan := "\n  reference plan:\n    " + strings.Join(want.Actions, "\n    ")
	if o.DryRan && !sameDays(o.Dry, want.Sum) {
		return "C24:dry-run-summary", fmt.Sprintf("the dry run reports %s; the documented plan gives %s%s", sumText(o.Dry), wantText(want.Sum), plan)
	}
	if kind, detail := compareDB(o.Dst, want.DB); kind != "" {
		return "C24:" + kind, fmt.Sprintf("%s\n  merge reported %s%s", detail, sumText(o.Merge), plan)
	}
	if !sameDays(o.Merge, want.Sum) || !sameConflicts(o.Merge, want.Sum) {
		return "C24:summary", fmt.Sprintf("the merge reports %s; the documented plan gives %s%s", sumText(o.Merge), wantText(want.Sum), plan)
	}
	if len(o.Queried) > 0 {
		if o.QueryErr != "" {
			return "C24:query-error", fmt.Sprintf("the engine's query over %v of the merged destination failed: %s%s", o.Queried, o.QueryErr, plan)
		}
		if o.QueryBad != "" {
			return "C24:query-row-shape", o.QueryBad + plan
		}
		wantRows, _ := want.DB.Aggregate(o.QuerySpec)
		if kind, detail := qgen.Diff(o.QueryRows, wantRows); kind != "" {
			return "C24:query-" + kind, fmt.Sprintf("engine query over %v of the merged destination: %s%s", o.Queried, detail, plan)
		}
	}
	if k, d := compareModels(again.DB, want.DB); k != "" {
		return "harness", fmt.Sprintf("the reference plan is not idempotent (%s: %s)%s", k, d, plan)
	}
	plan += "\n  reference plan of the second merge:\n    " + strings.Join(again.Actions, "\n    ")
	if kind, detail := compareDB(o.Dst2, want.DB); kind != "" {
		return "C24:second-merge-changed:" + kind, fmt.Sprintf("merging the same source again changed the destination: %s\n  second merge reported %s%s", detail, sumText(o.Merge2), plan)
	}
	if again.Unclear {
		if n, w := o.Merge2.DaysCopied+o.Merge2.DaysRebuilt+o.Merge2.DaysSkipped, again.Sum.Copied+again.Sum.Rebuilt+again.Sum.Skipped; n != w || o.Merge2.InterfacesProcessed != again.Sum.Ifaces {
			return "C24:second-merge-summary", fmt.Sprintf("the second merge reports %s; %d days of %d interfaces were due%s", sumText(o.Merge2), w, again.Sum.Ifaces, plan)
		}
	} else if !sameDays(o.Merge2, again.Sum) || !sameConflicts(o.Merge2, again.Sum) {
		return "C24:second-merge-summary", fmt.Sprintf("the second merge reports %s; the documented plan gives %s%s", sumText(o.Merge2), wantText(again.Sum), plan)
	}
	return "", ""
}

func TestC24Merge(t *testing.T) {
	zs := zones()
	rapid.Check(t, func(t *rapid.T) {
		c := drawCase(t, zs)
		loc, err := time.LoadLocation(c.TZ)
		if err != nil {
			t.Fatalf("harness: zone %s: %v", c.TZ, err)
		}
		base, err := os.MkdirTemp(os.Getenv("VERIF_WORK"), "c24-")
		if err != nil {
			t.Fatalf("harness: tempdir: %v", err)
		}
		defer os.RemoveAll(base)
		srcPath, dstPath := filepath.Join(base, "src"), filepath.Join(base, "dst")
		// year/month directories are named in local time by writer, merge and readers alike
		old := time.Local
		time.Local = loc
		defer func() { time.Local = old }()
		if err := os.MkdirAll(srcPath, 0o755); err != nil {
			t.Fatalf("harness: %v", err)
		}
		if c.DstExists {
			if err := os.MkdirAll(dstPath, 0o755); err != nil {
				t.Fatalf("harness: %v", err)
			}
		}
		if err := gen.WriteDB(c.Src, srcPath, c.SrcEnc); err != nil {
			t.Fatalf("harness: writing the source failed: %v", err)
		}
		if err := gen.WriteDB(c.Dst, dstPath, c.DstEnc); err != nil {
			t.Fatalf("harness: writing the destination failed: %v", err)
		}

		// the selection: requested names that the source has (all of the source's if nothing is requested)
		var selected []string
		if c.Request == nil {
			selected = c.Src.IfaceNames()
		} else {
			for _, r := range c.Request {
				if _, ok := c.Src.Ifaces[r]; ok {
					selected = append(selected, r)
				}
			}
		}
		want := refMerge(c.Src, c.Dst, selected, c.Overwrite, c.Tol, false)
		if want.Unclear || (len(want.GapDays) > 0 && !c.GapTail) {
			t.Fatalf("harness: the generated pair contains a day of unclear class\n  %s", c.describe())
		}
		again := refMerge(c.Src, want.DB, selected, c.Overwrite, c.Tol, false)

		cls := []string{"tz:" + c.TZ, "tolerance:" + c.Tol.display, "select:" + c.SelKind, fmt.Sprintf("overwrite:%v", c.Overwrite)}
		if c.CLI {
			cls = append(cls, "route:gpdb-merge-command")
		}
		if c.NoTolFlag {
			cls = append(cls, "route:gpdb-merge-command:default-tolerance")
		}
		if c.DryFirst {
			cls = append(cls, "dry-run-first")
		}
		if !c.DstExists {
			cls = append(cls, "destination-directory-absent")
		}
		if len(c.Src.Ifaces) == 0 {
			cls = append(cls, "empty-source")
		}
		if len(c.Dst.Ifaces) == 0 {
			cls = append(cls, "empty-destination")
		}
		if len(want.GapDays) > 0 {
			cls = append(cls, "with-gap-before-last-block-day")
		}
		evid.Case(c.describe(), want.NT, cls...)
		for k, n := range want.Hist {
			evid.ClassN(k, int64(n))
		}
		if evid.WantSample(want.NT) {
			evid.Sample(map[string]any{"options": c.optionText(), "source": describeSide(c.Src, c.SrcCls), "destination": describeSide(c.Dst, c.DstCls), "plan": want.Actions, "expected_summary": wantText(want.Sum)}, want.NT)
		}
		ctx := c.describe()

		srcBefore, err := hashTree(srcPath)
		if err != nil {
			t.Fatalf("harness: %v", err)
		}
		dstBefore, err := hashTree(dstPath)
		if err != nil {
			t.Fatalf("harness: %v", err)
		}
		checkSource := func(when string) {
			after, herr := hashTree(srcPath)
			if herr != nil {
				t.Fatalf("harness: %v", herr)
			}
			if d := diffTrees(srcBefore, after, false); d != "" {
				t.Fatalf("%s", evid.Sig("C24:source-modified", "the source tree changed during %s: %s\n  %s", when, d, ctx))
			}
		}
		checkDstUntouched := func(sig, when string) {
			after, herr := hashTree(dstPath)
			if herr != nil {
				t.Fatalf("harness: %v", herr)
			}
			// a destination directory that did not exist may be created (empty); nothing else may differ
			if d := diffTrees(dstBefore, after, !c.DstExists); d != "" {
				t.Fatalf("%s", evid.Sig(sig, "the destination tree changed during %s: %s\n  %s", when, d, ctx))
			}
		}

		// ---- run everything; what does not depend on the plan is decided on the spot
		o := &observation{}
		if c.DryFirst {
			got, merr := runMerge(srcPath, dstPath, c, true)
			if merr != nil {
				if !c.Unknown {
					t.Fatalf("%s", evid.Sig("C24:merge-error", "the dry run failed: %v\n  %s", merr, ctx))
				}
				evid.Class("unknown-interface:error")
			} else {
				if !got.DryRun {
					t.Fatalf("%s", evid.Sig("C24:summary-dry-run-flag", "the summary of a dry run says dry-run=false\n  %s", ctx))
				}
				o.DryRan, o.Dry = true, got
			}
			checkDstUntouched("C24:dry-run-modified-destination", "the dry run")
			checkSource("the dry run")
		}
		got, merr := runMerge(srcPath, dstPath, c, false)
		if merr != nil {
			if !c.Unknown {
				t.Fatalf("%s", evid.Sig("C24:merge-error", "the merge failed: %v\n  %s", merr, ctx))
			}
			// a name the source does not have was answered with an error: nothing may have happened
			evid.Class("unknown-interface:error")
			checkDstUntouched("C24:error-modified-destination", "a merge that failed with `"+merr.Error()+"`")
			checkSource("the failed merge")
			return
		}
		if c.Unknown {
			evid.Class("unknown-interface:ignored")
		}
		if got.DryRun {
			t.Fatalf("%s", evid.Sig("C24:summary-dry-run-flag", "the summary of a real merge says dry-run=true\n  %s", ctx))
		}
		o.Merge = got
		checkSource("the merge")
		var rerr error
		if o.Dst, rerr = readDB(dstPath); rerr != nil {
			t.Fatalf("%s", evid.Sig("C24:destination-unreadable", "%v\n  merge reported %s\n  %s", rerr, sumText(got), ctx))
		}
		// the engine's view of the destination (one query, all interfaces, rows labelled by interface and block time)
		for ifc := range o.Dst {
			o.Queried = append(o.Queried, ifc)
		}
		sort.Strings(o.Queried)
		if len(o.Queried) > 0 {
			spec, resp, qerr := queryAll(c.TZ, dstPath, o.Queried, c.Days[0]-daySec, c.Days[2]+2*daySec)
			if qerr != nil {
				if ce, ok := execpool.IsCrash(qerr); ok {
					if ce.Kind == "hang" && !ce.Deadlock {
						t.Fatalf("INCONCLUSIVE[%s] %s", ce.Signature, ctx)
					}
					t.Fatalf("%s\n%s", evid.Sig("C24:query-crash:"+ce.Signature, "querying the merged destination killed the query process: %s\n  %s", ce.Signature, ctx), ce.Stderr)
				}
				t.Fatalf("harness: %v", qerr)
			}
			o.QuerySpec, o.QueryErr = spec, resp.Err
			if resp.Err == "" {
				o.QueryRows, o.QueryBad = qgen.RowsOf(resp.Result, spec)
			}
		}
		// merging the same source again
		got2, merr2 := runMerge(srcPath, dstPath, c, false)
		if merr2 != nil {
			t.Fatalf("%s", evid.Sig("C24:second-merge-error", "merging the same source again failed: %v\n  %s", merr2, ctx))
		}
		o.Merge2 = got2
		checkSource("the second merge")
		if o.Dst2, rerr = readDB(dstPath); rerr != nil {
			t.Fatalf("%s", evid.Sig("C24:second-merge-destination-unreadable", "%v\n  %s", rerr, ctx))
		}

		// ---- judge against the documented plan
		sig, msg := judge(o, want, again)
		if sig == "" {
			if again.Unclear {
				evid.Class("again:merged-day-of-unclear-class(counts-not-compared)")
			} else {
				evid.ClassN("again:copied", int64(again.Sum.Copied))
				evid.ClassN("again:rebuilt(no effect)", int64(again.Sum.Rebuilt))
				evid.ClassN("again:kept", int64(again.Sum.Skipped))
			}
			return
		}
		if sig == "harness" {
			t.Fatalf("harness: %s\n  %s", msg, ctx)
		}
		if len(want.GapDays) > 0 {
			// C24-F1: does everything agree with the plan in which exactly the gap-before-last-block days count as complete?
			alt := refMerge(c.Src, c.Dst, selected, c.Overwrite, c.Tol, true)
			altAgain := refMerge(c.Src, alt.DB, selected, c.Overwrite, c.Tol, true)
			if s2, _ := judge(o, alt, altAgain); s2 == "" {
				witness := fmt.Sprintf("%s: %s; %s [%s]", strings.Join(want.GapDays, "; "), c.optionText(), msg, sig)
				if evid.Known("C24-F1", witness) {
					return
				}
				t.Fatalf("%s", evid.Sig("C24:gap-before-last-block-classified-complete",
					"a day that ends early but whose last block follows a long gap was treated as a complete day (%s)\n  first difference to the documented plan [%s]: %s\n  %s",
					strings.Join(want.GapDays, "; "), sig, msg, ctx))
			}
		}
		t.Fatalf("%s", evid.Sig(sig, "%s\n  %s", msg, ctx))
	})
}

// compareModels compares two reference databases (used for the idempotence self-check of the oracle).
func compareModels(a, b *model.DB) (string, string) {
	an, bn := a.IfaceNames(), b.IfaceNames()
	if fmt.Sprint(an) != fmt.Sprint(bn) {
		return "interfaces", fmt.Sprintf("%v vs %v", an, bn)
	}
	for _, ifc := range an {
		x, y := a.Ifaces[ifc], b.Ifaces[ifc]
		if len(x) != len(y) {
			return "blocks", fmt.Sprintf("%s: %d vs %d blocks", ifc, len(x), len(y))
		}
		for i := range x {
			if blockKey(x[i]) != blockKey(y[i]) {
				return "block", fmt.Sprintf("%s: %s vs %s", ifc, blockKey(x[i]), blockKey(y[i]))
			}
		}
	}
	return "", ""
}
