// C08 — query results equal a direct aggregation of the stored flows.
package c08

import (
	"fmt"
	"os"
	"sort"
	"strings"
	"sync"
	"testing"
	"time"
	_ "time/tzdata"

	"github.com/els0r/goProbe/v4/pkg/goDB/encoder/encoders"
	"pgregory.net/rapid"

	"verifharness/internal/evid"
	"verifharness/internal/execpool"
	"verifharness/internal/gen"
	"verifharness/internal/model"
	"verifharness/internal/qgen"
)

func TestMain(m *testing.M) {
	evid.Rule("a reference database (1–3 interfaces, days around a year/month boundary and a leap day, 1–3 blocks per day incl. blocks at 00:00:00 and 23:55:00, IPv4 and IPv6 flows from an alphabet with the hard addresses, zero and large counters, one-directional flows) is written through goProbe's DBWriter; " +
		"a generated query (attribute subset/order/aliases incl. raw and time, interface / list / any, condition from the whole grammar, optional direction filter at its documented positions, range bounds from the set {block ts, ±1, ±300, day start ±1/±300, outside}, sort/direction flags, low-memory on/off) runs in an executor child whose TZ is a generated configuration; " +
		"rows, totals, hit count and interface list are compared with the reference aggregation; non-trivial = the database holds both IP families and the condition contains '|', '!'/'!=' or a network comparison, or a range bound falls strictly inside the data; distinct by (database, query, zone)")
	evid.Assume("the database is written by goProbe's own DBWriter (verified by C01/C03) in the same time zone as the reader",
		"block time in range means first <= block end timestamp <= last (the engine's documented filter; C12 requires listings to agree with it)",
		"interface selections are single names, lists of distinct existing names or any (C16 covers the rest); hostname/host-id labels are ignored")
	evid.Main(m)
}

var (
	poolMu   sync.Mutex
	children = map[string]*execpool.Child{}
)

func child(tz string) *execpool.Child {
	poolMu.Lock()
	defer poolMu.Unlock()
	c, ok := children[tz]
	if !ok {
		c = execpool.New(execpool.Bin("gpexec"), "TZ="+tz)
		children[tz] = c
	}
	return c
}

func zones() []string {
	if evid.Thorough() {
		return []string{"UTC", "America/New_York", "Asia/Kolkata", "Europe/Zurich", "Pacific/Auckland"}
	}
	return []string{"UTC", "America/New_York", "Asia/Kolkata"}
}

func nonTrivial(db *model.DB, q *qgen.Query) (bool, []string) {
	v4, v6 := false, false
	var tss []int64
	for _, ifc := range q.Spec.Ifaces {
		for _, b := range db.Ifaces[ifc] {
			tss = append(tss, b.Ts)
			for _, f := range b.Flows {
				if f.IsV4() {
					v4 = true
				} else {
					v6 = true
				}
			}
		}
	}
	var cls []string
	interesting := false
	if q.Spec.Cond != nil {
		s := q.Spec.Cond.String()
		if strings.Contains(s, "|") || strings.Contains(s, "!") || strings.Contains(s, "net ") {
			interesting = true
		}
	}
	a := v4 && v6 && interesting
	if a {
		cls = append(cls, "both-families+compound-condition")
	}
	b := false
	if len(tss) > 0 {
		sort.Slice(tss, func(i, j int) bool { return tss[i] < tss[j] })
		lo, hi := tss[0], tss[len(tss)-1]
		if (q.Spec.First > lo && q.Spec.First <= hi) || (q.Spec.Last >= lo && q.Spec.Last < hi) {
			b = true
			cls = append(cls, "bound-inside-data")
		}
	}
	return a || b, cls
}

func TestC08Query(t *testing.T) {
	zs := zones()
	rapid.Check(t, func(t *rapid.T) {
		tz := rapid.SampledFrom(zs).Draw(t, "tz")
		loc, err := time.LoadLocation(tz)
		if err != nil {
			t.Fatalf("zone %s: %v", tz, err)
		}
		db := gen.DrawDB(t, gen.DBOpts{})
		if len(db.Ifaces) == 0 {
			t.Skip("empty database")
		}
		dir, err := os.MkdirTemp(os.Getenv("VERIF_WORK"), "c08-")
		if err != nil {
			t.Fatalf("tempdir: %v", err)
		}
		defer os.RemoveAll(dir)
		// the writer names year/month directories in local time: write in the zone of the reader
		old := time.Local
		time.Local = loc
		werr := gen.WriteDB(db, dir, rapid.SampledFrom([]encoders.Type{encoders.EncoderTypeLZ4, encoders.EncoderTypeNull, encoders.EncoderTypeZSTD}).Draw(t, "enc"))
		time.Local = old
		if werr != nil {
			t.Fatalf("harness: writing the reference database failed: %v", werr)
		}
		nq := rapid.IntRange(1, 3).Draw(t, "nqueries")
		for qi := 0; qi < nq; qi++ {
			q := qgen.Draw(t, db, qgen.Opts{})
			nt, cls := nonTrivial(db, q)
			cls = append(cls, "tz:"+tz)
			if q.Spec.Cond != nil {
				cls = append(cls, "with-condition")
			}
			if q.Spec.DirFilter != "" {
				cls = append(cls, "with-direction-filter")
			}
			if q.Spec.Time {
				cls = append(cls, "time-label")
			}
			want, merr := db.Aggregate(q.Spec)
			if merr != nil {
				t.Fatalf("reference: %v", merr)
			}
			if len(want) == 0 {
				cls = append(cls, "empty-expected")
			}
			canon := fmt.Sprintf("%s|%s|%v", tz, q.Desc, gen.DescribeDB(db))
			evid.Case(canon, nt, cls...)
			if evid.WantSample(nt) {
				evid.Sample(map[string]any{"tz": tz, "query": q.Desc, "db": gen.DescribeDB(db), "expected_rows": len(want)}, nt)
			}
			ctx := fmt.Sprintf("TZ=%s %s\n  db:\n    %s", tz, q.Desc, strings.Join(gen.DescribeDB(db), "\n    "))
			resp, cerr := qgen.Run(child(tz), dir, q, 0)
			if cerr != nil {
				if ce, ok := execpool.IsCrash(cerr); ok {
					if ce.Kind == "hang" && !ce.Deadlock {
						evid.Class("inconclusive:no-answer-within-bound")
						t.Logf("inconclusive (no structural deadlock witness): %s %s", ce.Signature, ctx)
						return
					}
					t.Fatalf("%s\n%s", evid.Sig("C08:crash:"+ce.Signature, "the query process died: %s\n  %s", ce.Signature, ctx), ce.Stderr)
				}
				t.Fatalf("harness: %v", cerr)
			}
			if resp.Err != "" {
				t.Fatalf("%s", evid.Sig("C08:query-error", "the query failed: %s\n  %s", resp.Err, ctx))
			}
			res := resp.Result
			got, bad := qgen.RowsOf(res, q.Spec)
			if bad != "" {
				t.Fatalf("%s", evid.Sig("C08:row-shape", "%s\n  %s", bad, ctx))
			}
			if kind, detail := qgen.Diff(got, want); kind != "" {
				t.Fatalf("%s", evid.Sig("C08:"+kind, "%s\n  %s", detail, ctx))
			}
			var tot model.Counters
			for _, c := range want {
				tot.AddC(c)
			}
			gt := res.Summary.Totals
			if (model.Counters{BR: gt.BytesRcvd, BS: gt.BytesSent, PR: gt.PacketsRcvd, PS: gt.PacketsSent}) != tot {
				t.Fatalf("%s", evid.Sig("C08:totals", "totals %+v, sum of the rows %+v\n  %s", gt, tot, ctx))
			}
			if res.Summary.Hits.Total != len(want) {
				t.Fatalf("%s", evid.Sig("C08:hits", "hit count %d, rows %d\n  %s", res.Summary.Hits.Total, len(want), ctx))
			}
			if strings.Join(res.Summary.Interfaces, ",") != strings.Join(q.Spec.Ifaces, ",") {
				t.Fatalf("%s", evid.Sig("C08:interfaces", "interfaces %v, selected %v\n  %s", res.Summary.Interfaces, q.Spec.Ifaces, ctx))
			}
		}
	})
}
