// C17 — query arguments, prepared statements and results survive JSON round
// trips; every enumeration value maps to its name and back to itself.
package c17

import (
	"encoding/json"
	"fmt"
	"net/netip"
	"reflect"
	"testing"
	"time"

	"github.com/els0r/goProbe/v4/pkg/goDB/encoder/encoders"
	"github.com/els0r/goProbe/v4/pkg/query"
	"github.com/els0r/goProbe/v4/pkg/results"
	"github.com/els0r/goProbe/v4/pkg/types"
	"github.com/els0r/goProbe/v4/pkg/types/workload"
	jsoniter "github.com/json-iterator/go"
	"pgregory.net/rapid"

	"verifharness/internal/evid"
)

func TestMain(m *testing.M) {
	evid.Rule("enumerations: every member (exhaustive), name->value->name and through MarshalJSON/UnmarshalJSON with encoding/json and jsoniter; " +
		"values: rapid-generated query.Args, prepared query.Statement (from Args.Prepare) and results.Result, encoded through a pointer (as the code base does) with encoding/json and jsoniter and decoded again; " +
		"non-trivial = the value carries a non-default enumeration member (direction in/out/both, sort order time/packets) or a valid IPv4/IPv6 address; distinct by canonical JSON")
	evid.Assume("equivalence: instants compared with time.Equal; nil and empty collections that encode identically are generated as nil",
		"values are encoded through pointers, as every call site in goProbe does (the enumerations' MarshalJSON have pointer receivers)")
	evid.Main(m)
}

type codec struct {
	name string
	enc  func(any) ([]byte, error)
	dec  func([]byte, any) error
}

var codecs = []codec{
	{"encoding/json", json.Marshal, json.Unmarshal},
	{"jsoniter", jsoniter.Marshal, jsoniter.Unmarshal},
}

// ---- enumerations (exhaustive)

func TestC17Enums(t *testing.T) {
	n := 0
	for _, d := range []types.Direction{types.DirectionUnknown, types.DirectionSum, types.DirectionIn, types.DirectionOut, types.DirectionBoth} {
		if got := types.DirectionFromString(d.String()); got != d {
			t.Errorf("%s", evid.Sig("C17:enum-direction", "DirectionFromString(%q) = %v (%d), want %v (%d)", d.String(), got, got, d, d))
		}
		for _, c := range codecs {
			d2 := d
			b, err := c.enc(&d2)
			if err != nil {
				t.Fatalf("%s", evid.Sig("C17:enum-direction", "%s: encode %v: %v", c.name, d, err))
			}
			var back types.Direction
			if err := c.dec(b, &back); err != nil || back != d {
				t.Errorf("%s", evid.Sig("C17:enum-direction", "%s: direction %v encoded as %s decodes to %v (err %v)", c.name, d, b, back, err))
			}
			// embedded in a struct, the way Statement carries it
			type wrap struct {
				D types.Direction `json:"direction"`
			}
			w := &wrap{D: d}
			b, _ = c.enc(w)
			var wb wrap
			if err := c.dec(b, &wb); err != nil || wb.D != d {
				t.Errorf("%s", evid.Sig("C17:enum-direction", "%s: struct field direction %v encoded as %s decodes to %v (err %v)", c.name, d, b, wb.D, err))
			}
			n++
		}
		evid.Case(fmt.Sprintf("direction:%d", d), d != types.DirectionUnknown, "enum:direction")
		evid.Sample(map[string]any{"enum": "types.Direction", "value": int(d), "name": d.String()}, d == types.DirectionBoth)
	}
	for _, s := range []results.SortOrder{results.SortUnknown, results.SortPackets, results.SortTraffic, results.SortTime} {
		if got := results.SortOrderFromString(s.String()); got != s {
			t.Errorf("%s", evid.Sig("C17:enum-sortorder", "SortOrderFromString(%q) = %v, want %v", s.String(), got, s))
		}
		for _, c := range codecs {
			s2 := s
			b, err := c.enc(&s2)
			if err != nil {
				t.Fatalf("%s", evid.Sig("C17:enum-sortorder", "%s: encode %v: %v", c.name, s, err))
			}
			var back results.SortOrder
			if err := c.dec(b, &back); err != nil || back != s {
				t.Errorf("%s", evid.Sig("C17:enum-sortorder", "%s: sort order %v encoded as %s decodes to %v (err %v)", c.name, s, b, back, err))
			}
		}
		evid.Case(fmt.Sprintf("sort:%d", s), s != results.SortUnknown, "enum:sortorder")
	}
	for e := encoders.Type(0); e <= encoders.MaxEncoderType; e++ {
		got, err := encoders.GetTypeByString(e.String())
		if err != nil || got != e {
			t.Errorf("%s", evid.Sig("C17:enum-encoder", "GetTypeByString(%q) = %v, %v; want %v", e.String(), got, err, e))
		}
		evid.Case(fmt.Sprintf("enc:%d", e), true, "enum:encoder")
	}
	for _, s := range []types.Status{types.StatusError, types.StatusEmpty, types.StatusMissingData, types.StatusTooManyRequests, types.StatusOK} {
		for _, c := range codecs {
			st := &results.Status{Code: s, Message: "m"}
			b, _ := c.enc(st)
			var back results.Status
			if err := c.dec(b, &back); err != nil || back != *st {
				t.Errorf("%s", evid.Sig("C17:enum-status", "%s: status %q decodes to %+v (err %v)", c.name, s, back, err))
			}
		}
		evid.Case("status:"+string(s), true, "enum:status")
	}
	evid.Exhaustive(true)
}

// ---- generators

var addrAlphabet = []string{"10.0.0.1", "192.168.1.255", "0.0.0.0", "255.255.255.255", "::", "::1", "2001:db8::", "2001:db8::1",
	"fe80::1", "::ffff:10.0.0.1", "ff02::fb", "2a00:1450:4001:81b::200e"}

func genAddr(t *rapid.T, label string) netip.Addr {
	k := rapid.IntRange(0, len(addrAlphabet)+2).Draw(t, label)
	switch {
	case k < len(addrAlphabet):
		return netip.MustParseAddr(addrAlphabet[k])
	case k == len(addrAlphabet):
		return netip.Addr{}
	case k == len(addrAlphabet)+1:
		var b [4]byte
		copy(b[:], rapid.SliceOfN(rapid.Byte(), 4, 4).Draw(t, label+"4"))
		return netip.AddrFrom4(b)
	default:
		var b [16]byte
		copy(b[:], rapid.SliceOfN(rapid.Byte(), 16, 16).Draw(t, label+"6"))
		return netip.AddrFrom16(b)
	}
}

var zones = []*time.Location{time.UTC, time.FixedZone("", 3600), time.FixedZone("", -5*3600), time.FixedZone("", 5*3600+1800)}

func genTime(t *rapid.T, label string, allowZero bool) time.Time {
	if allowZero && rapid.IntRange(0, 4).Draw(t, label+"z") == 0 {
		return time.Time{}
	}
	sec := rapid.Int64Range(1, 3100000000).Draw(t, label)
	ns := rapid.SampledFrom([]int64{0, 0, 1, 500000000, 999999999}).Draw(t, label+"ns")
	return time.Unix(sec, ns).In(rapid.SampledFrom(zones).Draw(t, label+"loc"))
}

func genU64(t *rapid.T, label string) uint64 {
	return rapid.OneOf(rapid.SampledFrom([]uint64{0, 1, 2, 1500, 1 << 32, 1<<53 + 1, 1<<63 - 1, 1<<64 - 1}), rapid.Uint64()).Draw(t, label)
}

func genCounters(t *rapid.T, label string) types.Counters {
	return types.Counters{BytesRcvd: genU64(t, label+"br"), BytesSent: genU64(t, label+"bs"), PacketsRcvd: genU64(t, label+"pr"), PacketsSent: genU64(t, label+"ps")}
}

var names = []string{"", "eth0", "eth1", "hostA", "host-b.example.com", "ünï", "a\"b\\c", "<&>", "t0"}

func genName(t *rapid.T, label string) string { return rapid.SampledFrom(names).Draw(t, label) }

func genRow(t *rapid.T, i int) results.Row {
	l := fmt.Sprintf("row%d.", i)
	return results.Row{
		Labels:     results.Labels{Timestamp: genTime(t, l+"ts", true), Iface: genName(t, l+"iface"), Hostname: genName(t, l+"host"), HostID: genName(t, l+"hid")},
		Attributes: results.Attributes{SrcIP: genAddr(t, l+"sip"), DstIP: genAddr(t, l+"dip"), IPProto: rapid.Uint8().Draw(t, l+"proto"), DstPort: rapid.Uint16().Draw(t, l+"dport")},
		Counters:   genCounters(t, l),
	}
}

var statusCodes = []types.Status{types.StatusError, types.StatusEmpty, types.StatusMissingData, types.StatusTooManyRequests, types.StatusOK}

func genResult(t *rapid.T) *results.Result {
	r := &results.Result{Hostname: genName(t, "hostname"), HostsStatuses: results.HostsStatuses{}}
	r.Status = results.Status{Code: rapid.SampledFrom(statusCodes).Draw(t, "code"), Message: genName(t, "msg")}
	for i, n := 0, rapid.IntRange(0, 3).Draw(t, "nhosts"); i < n; i++ {
		r.HostsStatuses[fmt.Sprintf("h%d%s", i, genName(t, "hs"))] = results.Status{Code: rapid.SampledFrom(statusCodes).Draw(t, "hcode"), Message: genName(t, "hmsg")}
	}
	for i, n := 0, rapid.IntRange(0, 3).Draw(t, "nif"); i < n; i++ {
		r.Summary.Interfaces = append(r.Summary.Interfaces, genName(t, "if"))
	}
	r.Summary.First, r.Summary.Last = genTime(t, "first", true), genTime(t, "last", true)
	r.Summary.Totals = genCounters(t, "tot")
	r.Summary.Timings = results.Timings{QueryStart: genTime(t, "qs", true), QueryDuration: time.Duration(rapid.Int64().Draw(t, "qd")), ResolutionDuration: time.Duration(rapid.Int64Range(0, 1<<40).Draw(t, "rd"))}
	r.Summary.Hits = results.Hits{Displayed: rapid.IntRange(0, 1<<30).Draw(t, "disp"), Total: rapid.IntRange(0, 1<<40).Draw(t, "total")}
	r.Summary.DataAvailable = rapid.Bool().Draw(t, "avail")
	if rapid.Bool().Draw(t, "stats") {
		r.Summary.Stats = &workload.Stats{BytesLoaded: genU64(t, "s1"), BytesDecompressed: genU64(t, "s2"), BlocksProcessed: genU64(t, "s3"),
			BlocksCorrupted: genU64(t, "s4"), DirectoriesProcessed: genU64(t, "s5"), Workloads: genU64(t, "s6")}
	}
	for i, n := 0, rapid.IntRange(0, 3).Draw(t, "nattr"); i < n; i++ {
		r.Query.Attributes = append(r.Query.Attributes, rapid.SampledFrom([]string{"sip", "dip", "dport", "proto", "time", "iface"}).Draw(t, "attr"))
	}
	r.Query.Condition = rapid.SampledFrom([]string{"", "dport = 80", "sip = 10.0.0.1 | proto != 6"}).Draw(t, "cond")
	for i, n := 0, rapid.IntRange(0, 5).Draw(t, "nrows"); i < n; i++ {
		r.Rows = append(r.Rows, genRow(t, i))
	}
	return r
}

func eqTime(a, b time.Time) bool { return a.Equal(b) }

func cmpResult(a, b *results.Result) string {
	if a.Hostname != b.Hostname || a.Status != b.Status {
		return fmt.Sprintf("hostname/status: %q %+v vs %q %+v", a.Hostname, a.Status, b.Hostname, b.Status)
	}
	if len(a.HostsStatuses) != len(b.HostsStatuses) {
		return fmt.Sprintf("hosts statuses: %v vs %v", a.HostsStatuses, b.HostsStatuses)
	}
	for k, v := range a.HostsStatuses {
		if b.HostsStatuses[k] != v {
			return fmt.Sprintf("hosts status %q: %+v vs %+v", k, v, b.HostsStatuses[k])
		}
	}
	sa, sb := a.Summary, b.Summary
	if !reflect.DeepEqual([]string(sa.Interfaces), []string(sb.Interfaces)) {
		return fmt.Sprintf("interfaces %q vs %q", sa.Interfaces, sb.Interfaces)
	}
	if !eqTime(sa.First, sb.First) || !eqTime(sa.Last, sb.Last) {
		return fmt.Sprintf("time range %v-%v vs %v-%v", sa.First, sa.Last, sb.First, sb.Last)
	}
	if sa.Totals != sb.Totals || sa.Hits != sb.Hits || sa.DataAvailable != sb.DataAvailable {
		return fmt.Sprintf("totals/hits/avail %+v %+v %v vs %+v %+v %v", sa.Totals, sa.Hits, sa.DataAvailable, sb.Totals, sb.Hits, sb.DataAvailable)
	}
	if !eqTime(sa.Timings.QueryStart, sb.Timings.QueryStart) || sa.Timings.QueryDuration != sb.Timings.QueryDuration || sa.Timings.ResolutionDuration != sb.Timings.ResolutionDuration {
		return fmt.Sprintf("timings %+v vs %+v", sa.Timings, sb.Timings)
	}
	if (sa.Stats == nil) != (sb.Stats == nil) {
		return fmt.Sprintf("stats presence %v vs %v", sa.Stats, sb.Stats)
	}
	if sa.Stats != nil {
		x, y := sa.Stats, sb.Stats
		if x.BytesLoaded != y.BytesLoaded || x.BytesDecompressed != y.BytesDecompressed || x.BlocksProcessed != y.BlocksProcessed ||
			x.BlocksCorrupted != y.BlocksCorrupted || x.DirectoriesProcessed != y.DirectoriesProcessed || x.Workloads != y.Workloads {
			return "stats differ"
		}
	}
	if !reflect.DeepEqual(a.Query, b.Query) {
		return fmt.Sprintf("query %+v vs %+v", a.Query, b.Query)
	}
	if len(a.Rows) != len(b.Rows) {
		return fmt.Sprintf("row count %d vs %d", len(a.Rows), len(b.Rows))
	}
	for i := range a.Rows {
		x, y := a.Rows[i], b.Rows[i]
		if !eqTime(x.Labels.Timestamp, y.Labels.Timestamp) || x.Labels.Iface != y.Labels.Iface || x.Labels.Hostname != y.Labels.Hostname || x.Labels.HostID != y.Labels.HostID {
			return fmt.Sprintf("row %d labels %+v vs %+v", i, x.Labels, y.Labels)
		}
		if x.Attributes != y.Attributes {
			return fmt.Sprintf("row %d attributes %+v vs %+v", i, x.Attributes, y.Attributes)
		}
		if x.Counters != y.Counters {
			return fmt.Sprintf("row %d counters %+v vs %+v", i, x.Counters, y.Counters)
		}
	}
	return ""
}

func TestC17Result(t *testing.T) {
	rapid.Check(t, func(t *rapid.T) {
		r := genResult(t)
		nt := false
		for _, row := range r.Rows {
			if row.Attributes.SrcIP.IsValid() || row.Attributes.DstIP.IsValid() {
				nt = true
			}
		}
		canon, _ := json.Marshal(r)
		evid.Case("result:"+string(canon), nt, "value:result")
		if evid.WantSample(nt) {
			evid.Sample(map[string]any{"kind": "results.Result", "json": json.RawMessage(canon)}, nt)
		}
		for _, c := range codecs {
			b, err := c.enc(r)
			if err != nil {
				t.Fatalf("%s", evid.Sig("C17:result-roundtrip", "%s: encode: %v", c.name, err))
			}
			back := new(results.Result)
			if err := c.dec(b, back); err != nil {
				t.Fatalf("%s", evid.Sig("C17:result-roundtrip", "%s: decode of %s: %v", c.name, b, err))
			}
			if d := cmpResult(r, back); d != "" {
				t.Fatalf("%s", evid.Sig("C17:result-roundtrip", "%s: %s\njson: %s", c.name, d, b))
			}
		}
	})
}

func genArgs(t *rapid.T) *query.Args {
	a := &query.Args{
		Query:      rapid.SampledFrom([]string{"sip,dip", "talk_conv", "raw", "time,sip", "dport,proto,iface", "sip"}).Draw(t, "query"),
		Ifaces:     rapid.SampledFrom([]string{"eth0", "eth0,eth1", "any", "/eth[0-9]/", "eth0,!eth1"}).Draw(t, "ifaces"),
		QueryHosts: rapid.SampledFrom([]string{"", "hostA,hostB"}).Draw(t, "qh"),
		Hostname:   genName(t, "hn"), HostID: uint(rapid.Uint32().Draw(t, "hid")),
		Condition: rapid.SampledFrom([]string{"", "dport = 80", "sip = 10.0.0.1 | proto != 6", "(dport=443&proto=tcp)"}).Draw(t, "cond"),
		In:        rapid.Bool().Draw(t, "in"), Out: rapid.Bool().Draw(t, "out"), Sum: rapid.Bool().Draw(t, "sum"),
		First:          rapid.SampledFrom([]string{"", "1700000000", "-7d", "2024-01-01T00:00:00+01:00"}).Draw(t, "first"),
		Last:           rapid.SampledFrom([]string{"", "1700086400", "-1h"}).Draw(t, "last"),
		TimeResolution: rapid.SampledFrom([]string{"", "auto", "5m", "1h"}).Draw(t, "tr"),
		Format:         rapid.SampledFrom([]string{"json", "txt", "csv"}).Draw(t, "fmt"),
		SortBy:         rapid.SampledFrom([]string{"", "bytes", "packets"}).Draw(t, "sortby"),
		NumResults:     rapid.Uint64Range(0, 1<<40).Draw(t, "n"), SortAscending: rapid.Bool().Draw(t, "asc"),
		List: rapid.Bool().Draw(t, "list"), Version: rapid.Bool().Draw(t, "ver"),
		DNSResolution: query.DNSResolution{Enabled: false, Timeout: time.Duration(rapid.Int64Range(0, 1<<40).Draw(t, "dt")), MaxRows: rapid.IntRange(0, 1000).Draw(t, "mr")},
		MaxMemPct:     rapid.IntRange(0, 100).Draw(t, "mem"), LowMem: rapid.Bool().Draw(t, "lowmem"),
		KeepAlive: time.Duration(rapid.Int64Range(0, 1<<40).Draw(t, "ka")), Caller: genName(t, "caller"), Live: rapid.Bool().Draw(t, "live"),
	}
	return a
}

func TestC17ArgsAndStatement(t *testing.T) {
	rapid.Check(t, func(t *rapid.T) {
		a := genArgs(t)
		for _, c := range codecs {
			b, err := c.enc(a)
			if err != nil {
				t.Fatalf("%s", evid.Sig("C17:args-roundtrip", "%s: encode: %v", c.name, err))
			}
			back := new(query.Args)
			if err := c.dec(b, back); err != nil {
				t.Fatalf("%s", evid.Sig("C17:args-roundtrip", "%s: decode of %s: %v", c.name, b, err))
			}
			if !reflect.DeepEqual(a, back) {
				t.Fatalf("%s", evid.Sig("C17:args-roundtrip", "%s: args differ after round trip:\n%+v\n%+v\njson %s", c.name, a, back, b))
			}
		}
		// prepared statement: take what Prepare produces (so that only reachable statements are generated)
		a2 := *a
		a2.SetDefaults()
		if a2.MaxMemPct == 0 {
			a2.MaxMemPct = 60
		}
		stmt, err := a2.Prepare()
		canonA, _ := json.Marshal(a)
		if err != nil || stmt == nil {
			evid.Case("args:"+string(canonA), false, "value:args-only")
			return
		}
		nt := stmt.Direction != types.DirectionUnknown && stmt.SortBy != results.SortUnknown
		evid.Case("stmt:"+string(canonA), nt, "value:statement", "direction:"+stmt.Direction.String(), "sortby:"+stmt.SortBy.String())
		for _, c := range codecs {
			b, err := c.enc(stmt)
			if err != nil {
				t.Fatalf("%s", evid.Sig("C17:statement-roundtrip", "%s: encode: %v", c.name, err))
			}
			back := new(query.Statement)
			if err := c.dec(b, back); err != nil {
				t.Fatalf("%s", evid.Sig("C17:statement-roundtrip", "%s: decode of %s: %v", c.name, b, err))
			}
			if d := cmpStmt(stmt, back); d != "" {
				sig := "C17:statement-roundtrip"
				t.Fatalf("%s", evid.Sig(sig, "%s: %s\njson %s", c.name, d, b))
			}
			if evid.WantSample(nt) {
				evid.Sample(map[string]any{"kind": "query.Statement", "json": json.RawMessage(b)}, nt)
			}
		}
	})
}

func cmpStmt(a, b *query.Statement) string {
	if !reflect.DeepEqual(a.Ifaces, b.Ifaces) && !(len(a.Ifaces) == 0 && len(b.Ifaces) == 0) {
		return fmt.Sprintf("ifaces %q vs %q", a.Ifaces, b.Ifaces)
	}
	type flat struct {
		LS                   types.LabelSelector
		QT, Cond             string
		Dir                  types.Direction
		First, Last          int64
		Bin                  time.Duration
		Format               string
		N                    uint64
		Sort                 results.SortOrder
		Asc                  bool
		Caller               string
		DNS                  query.DNSResolution
		Mem                  int
		LowMem               bool
		KA                   time.Duration
		Live                 bool
	}
	f := func(s *query.Statement) flat {
		return flat{s.LabelSelector, s.QueryType, s.Condition, s.Direction, s.First, s.Last, s.TimeBinSize, s.Format, s.NumResults, s.SortBy, s.SortAscending, s.Caller, s.DNSResolution, s.MaxMemPct, s.LowMem, s.KeepAliveDuration, s.Live}
	}
	if f(a) != f(b) {
		return fmt.Sprintf("statement fields differ:\n%+v\n%+v", f(a), f(b))
	}
	return ""
}
