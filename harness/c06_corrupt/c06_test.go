// C06 — corrupted or foreign files never crash a reader and stay contained.
package c06

import (
	"encoding/binary"
	"fmt"
	"net/netip"
	"os"
	"path/filepath"
	"sort"
	"strings"
	"testing"
	"time"

	"github.com/els0r/goProbe/v4/pkg/goDB/encoder/encoders"
	"github.com/els0r/goProbe/v4/pkg/query"
	"pgregory.net/rapid"

	"verifharness/internal/evid"
	"verifharness/internal/execpool"
	"verifharness/internal/gen"
	"verifharness/internal/model"
	"verifharness/internal/qgen"
)

func TestMain(m *testing.M) {
	evid.Rule("a valid reference database (2 interfaces × 2–3 days × 1–4 blocks, every block ≥ 1 flow and every block with its own source addresses so that each row can be attributed to its block) is written, then 1–3 mutations are applied to the files of one day (two days for swaps): " +
		"truncate / extend with garbage / bit flip / overwrite a range / empty / delete a column file or the .blockmeta, swap two column files, swap a column or the .blockmeta with another day, and structure-aware metadata edits that keep the size check satisfied (block count, Len, RawLen, encoder byte, timestamp delta, entry counts); " +
		"an engine query (time label, attributes incl. sip, optional condition, low-memory on/off) and an interface listing run in an executor child; " +
		"oracle: the child neither dies nor hangs; every block of every undamaged day contributes exactly its model rows; for column-only damage #blocks seen + BlocksCorrupted <= #blocks of the day; " +
		"non-trivial = the mutated metadata still passes the decoder's size check, or a column file of an in-range block is damaged; distinct by (database, mutations, query)")
	evid.Assume("mutations of directory names are outside the stated domain; values inside a damaged block are never compared (bit flips in payloads are undetectable without checksums)",
		"rows are attributed to blocks through per-block source addresses; rows with any other source address are attributed to the damaged day")
	evid.Main(m)
}

var child = execpool.New(execpool.Bin("gpexec"), "TZ=UTC")

const day0 = int64(1700006400)

var colFiles = []string{"sip.gpf", "dip.gpf", "proto.gpf", "dport.gpf", "bytes_rcvd.gpf", "bytes_sent.gpf", "pkts_rcvd.gpf", "pkts_sent.gpf"}

type dayRef struct {
	iface string
	day   int
}

func (d dayRef) String() string { return fmt.Sprintf("%s/day%d", d.iface, d.day) }

// db with attributable blocks: sip of a flow = 10.<iface idx>.<day*8+block>.<flow> or 2001:db8:<iface>:<day*8+block>::<flow>
func drawDB(t *rapid.T) (*model.DB, map[string]dayRef) {
	db := &model.DB{Ifaces: map[string][]model.Block{}}
	owner := map[string]dayRef{}
	for ii, ifc := range []string{"eth0", "eth1"} {
		ndays := rapid.IntRange(2, 3).Draw(t, ifc+".ndays")
		var blocks []model.Block
		for d := 0; d < ndays; d++ {
			nb := rapid.IntRange(1, 4).Draw(t, fmt.Sprintf("%s.d%d.nb", ifc, d))
			for b := 0; b < nb; b++ {
				bl := model.Block{Ts: day0 + int64(d)*86400 + int64(1+b*3)*300, Drops: uint64(b)}
				nf := rapid.IntRange(1, 4).Draw(t, fmt.Sprintf("%s.d%d.b%d.nf", ifc, d, b))
				for f := 0; f < nf; f++ {
					var fl model.Flow
					if rapid.Bool().Draw(t, fmt.Sprintf("%s.d%d.b%d.f%d.v6", ifc, d, b, f)) {
						fl.Sip = netip.MustParseAddr(fmt.Sprintf("2001:db8:%x:%x::%x", ii+1, d*8+b+1, f+1))
						fl.Dip = netip.MustParseAddr("2001:db8::99")
					} else {
						fl.Sip = netip.AddrFrom4([4]byte{10, byte(ii + 1), byte(d*8 + b + 1), byte(f + 1)})
						fl.Dip = netip.MustParseAddr("192.168.1.34")
					}
					fl.Dport = rapid.SampledFrom(gen.Ports).Draw(t, "dport")
					fl.Proto = rapid.SampledFrom([]uint8{6, 17}).Draw(t, "proto")
					fl.PR, fl.BR, fl.PS, fl.BS = uint64(1+f), uint64(100*(1+f)), uint64(d+1), uint64(60*(d+1))
					bl.Flows = append(bl.Flows, fl)
					owner[fl.Sip.String()] = dayRef{ifc, d}
				}
				blocks = append(blocks, bl)
			}
		}
		db.Ifaces[ifc] = blocks
	}
	return db, owner
}

func dayDir(base, iface string, day int) (string, error) {
	ts := day0 + int64(day)*86400
	matches, err := filepath.Glob(filepath.Join(base, iface, "*", "*", fmt.Sprintf("%d*", ts)))
	if err != nil || len(matches) != 1 {
		return "", fmt.Errorf("day directory of %s day %d: %v %v", iface, day, matches, err)
	}
	return matches[0], nil
}

type mutation struct {
	desc     string
	metaOnly bool
	touches  []dayRef
}

func mutate(t *rapid.T, base string, db *model.DB, idx int) (mutation, error) {
	l := fmt.Sprintf("m%d", idx)
	ifc := rapid.SampledFrom([]string{"eth0", "eth1"}).Draw(t, l+".iface")
	ndays := 0
	for _, b := range db.Ifaces[ifc] {
		if d := int((b.Ts - day0) / 86400); d+1 > ndays {
			ndays = d + 1
		}
	}
	day := rapid.IntRange(0, ndays-1).Draw(t, l+".day")
	dir, err := dayDir(base, ifc, day)
	if err != nil {
		return mutation{}, err
	}
	target := rapid.SampledFrom(append([]string{".blockmeta", ".blockmeta", ".blockmeta"}, colFiles...)).Draw(t, l+".file")
	path := filepath.Join(dir, target)
	data, rerr := os.ReadFile(path)
	if rerr != nil {
		data = nil // deleted by an earlier mutation
	}
	m := mutation{touches: []dayRef{{ifc, day}}, metaOnly: target == ".blockmeta"}
	kinds := []string{"truncate", "extend", "bitflip", "overwrite", "empty", "delete", "swap-other-day"}
	if target == ".blockmeta" {
		kinds = append(kinds, "meta-nblocks", "meta-len", "meta-rawlen", "meta-encoder", "meta-tsdelta", "meta-entries", "meta-nblocks", "meta-len", "meta-rawlen", "meta-entries")
	} else {
		kinds = append(kinds, "swap-column")
	}
	kind := rapid.SampledFrom(kinds).Draw(t, l+".kind")
	m.desc = fmt.Sprintf("%s/day%d/%s: %s", ifc, day, target, kind)
	write := func(b []byte) error { return os.WriteFile(path, b, 0o644) }
	pos := func(n int) int {
		if n <= 0 {
			return 0
		}
		return rapid.IntRange(0, n-1).Draw(t, l+".pos")
	}
	nBlocks := 0
	if len(data) >= 16 && target == ".blockmeta" {
		// (the file may already carry an implausible count from an earlier mutation)
		if nb := binary.BigEndian.Uint64(data[8:16]); nb <= 1000 {
			nBlocks = int(nb)
		}
	}
	switch kind {
	case "truncate":
		n := pos(len(data) + 1)
		m.desc += fmt.Sprintf(" to %d of %d bytes", n, len(data))
		return m, write(data[:min(n, len(data))])
	case "extend":
		g := rapid.SliceOfN(rapid.Byte(), 1, 100).Draw(t, l+".garbage")
		return m, write(append(append([]byte(nil), data...), g...))
	case "bitflip":
		if len(data) == 0 {
			return m, nil
		}
		p := pos(len(data))
		bit := rapid.IntRange(0, 7).Draw(t, l+".bit")
		m.desc += fmt.Sprintf(" byte %d bit %d", p, bit)
		data[p] ^= 1 << bit
		return m, write(data)
	case "overwrite":
		if len(data) == 0 {
			return m, nil
		}
		p := pos(len(data))
		n := rapid.IntRange(1, 16).Draw(t, l+".n")
		fill := rapid.SampledFrom([]byte{0x00, 0xff, 0x7f, 0x80}).Draw(t, l+".fill")
		for i := p; i < len(data) && i < p+n; i++ {
			data[i] = fill
		}
		m.desc += fmt.Sprintf(" %d bytes at %d with %#x", n, p, fill)
		return m, write(data)
	case "empty":
		return m, write(nil)
	case "delete":
		os.Remove(path)
		return m, nil
	case "swap-column":
		other := rapid.SampledFrom(colFiles).Draw(t, l+".other")
		op := filepath.Join(dir, other)
		od, _ := os.ReadFile(op)
		m.desc += " with " + other
		if err := os.WriteFile(op, data, 0o644); err != nil {
			return m, err
		}
		return m, write(od)
	case "swap-other-day":
		oday := (day + 1) % ndays
		odir, err := dayDir(base, ifc, oday)
		if err != nil || oday == day {
			return m, nil
		}
		op := filepath.Join(odir, target)
		od, _ := os.ReadFile(op)
		m.desc += fmt.Sprintf(" with day%d", oday)
		m.touches = append(m.touches, dayRef{ifc, oday})
		if err := os.WriteFile(op, data, 0o644); err != nil {
			return m, err
		}
		return m, write(od)
	}
	// structure-aware metadata edits (layout: 72-byte header, 8 × (8 + n·9), 8-byte first timestamp, n × 16)
	if len(data) < 144 || nBlocks == 0 || len(data) < 144+nBlocks*88 {
		return m, nil
	}
	col := rapid.IntRange(0, 7).Draw(t, l+".col")
	blk := rapid.IntRange(0, nBlocks-1).Draw(t, l+".blk")
	desc := 72 + col*(8+nBlocks*9) + 8 + blk*9
	traffic := 72 + 8*(8+nBlocks*9) + 8 + blk*16
	// implausibly large lengths make the reader allocate gigabytes (lazily, but zeroed): draw them rarely
	u32 := rapid.SampledFrom([]uint32{0, 1, 2, 3, 255, 4096, 65536, 1 << 20, 1 << 24}).Draw(t, l+".u32")
	if rapid.IntRange(0, 24).Draw(t, l+".huge?") == 0 {
		u32 = rapid.SampledFrom([]uint32{0x7fffffff, 0x80000000, 0xffffffff, 1 << 28}).Draw(t, l+".u32huge")
	}
	switch kind {
	case "meta-nblocks":
		v := rapid.SampledFrom([]uint64{0, 1, uint64(nBlocks - 1), uint64(nBlocks + 1), 1 << 32, 1<<64 - 1}).Draw(t, l+".nb")
		binary.BigEndian.PutUint64(data[8:], v)
		m.desc += fmt.Sprintf(" %d -> %d", nBlocks, v)
	case "meta-len":
		binary.BigEndian.PutUint32(data[desc:], u32)
		m.desc += fmt.Sprintf(" col %d block %d = %d", col, blk, u32)
	case "meta-rawlen":
		binary.BigEndian.PutUint32(data[desc+4:], u32)
		m.desc += fmt.Sprintf(" col %d block %d = %d", col, blk, u32)
	case "meta-encoder":
		data[desc+8] = rapid.SampledFrom([]byte{0, 1, 2, 3, 4, 255}).Draw(t, l+".enc")
		m.desc += fmt.Sprintf(" col %d block %d = %d", col, blk, data[desc+8])
	case "meta-tsdelta":
		binary.BigEndian.PutUint32(data[traffic+12:], u32)
		m.desc += fmt.Sprintf(" block %d = %d", blk, u32)
	case "meta-entries":
		which := rapid.IntRange(0, 1).Draw(t, l+".v46")
		binary.BigEndian.PutUint32(data[traffic+4*which:], u32)
		m.desc += fmt.Sprintf(" block %d v%d = %d", blk, 4+2*which, u32)
	}
	return m, write(data)
}

func metaPassesSizeCheck(base string, d dayRef) bool {
	dir, err := dayDir(base, d.iface, d.day)
	if err != nil {
		return false
	}
	b, err := os.ReadFile(filepath.Join(dir, ".blockmeta"))
	if err != nil || len(b) < 144 {
		return false
	}
	return binary.BigEndian.Uint64(b[8:16]) <= uint64(len(b)-144)/88
}

func TestC06Corruption(t *testing.T) {
	rapid.Check(t, func(t *rapid.T) {
		db, owner := drawDB(t)
		base, err := os.MkdirTemp(os.Getenv("VERIF_WORK"), "c06-")
		if err != nil {
			t.Fatalf("tempdir: %v", err)
		}
		defer os.RemoveAll(base)
		if err := gen.WriteDB(db, base, rapid.SampledFrom([]encoders.Type{encoders.EncoderTypeLZ4, encoders.EncoderTypeNull}).Draw(t, "enc")); err != nil {
			t.Fatalf("harness: %v", err)
		}
		damaged := map[dayRef]bool{}
		var descs []string
		metaOnly := true
		nmut := rapid.IntRange(1, 3).Draw(t, "nmut")
		for i := 0; i < nmut; i++ {
			m, merr := mutate(t, base, db, i)
			if merr != nil {
				t.Fatalf("harness: %v", merr)
			}
			descs = append(descs, m.desc)
			for _, d := range m.touches {
				damaged[d] = true
			}
			if !m.metaOnly {
				metaOnly = false
			}
		}
		columnOnly := true
		for _, d := range descs {
			if strings.Contains(d, ".blockmeta") {
				columnOnly = false
			}
		}
		nt := !metaOnly
		for d := range damaged {
			if metaPassesSizeCheck(base, d) && !columnOnly {
				nt = true
			}
		}
		// query: attributes always include sip and the time label
		extra := rapid.SampledFrom([]string{"", ",dip", ",dport,proto", ",dip,dport,proto"}).Draw(t, "attrs")
		var cond *model.Cond
		condText := ""
		if rapid.IntRange(0, 2).Draw(t, "cond?") == 0 {
			cond = gen.DrawCond(t, "c", gen.CondOpts{MaxDepth: 2, NoAddr: true})
			condText = cond.String()
		}
		ifArg := rapid.SampledFrom([]string{"any", "eth0", "eth1", "eth0,eth1"}).Draw(t, "ifaces")
		sel := []string{"eth0", "eth1"}
		if ifArg == "eth0" || ifArg == "eth1" {
			sel = []string{ifArg}
		}
		args := query.Args{Query: "time,sip" + extra, Ifaces: ifArg, Condition: condText, First: fmt.Sprintf("%d", day0-1000), Last: fmt.Sprintf("%d", day0+10*86400),
			Format: "json", MaxMemPct: 100, NumResults: 1 << 40, LowMem: rapid.Bool().Draw(t, "lowmem"), DNSResolution: query.DNSResolution{Timeout: time.Second, MaxRows: 25}}
		attrs := []string{"sip"}
		for _, a := range []string{"dip", "dport", "proto"} {
			if strings.Contains(extra, a) {
				attrs = append(attrs, a)
			}
		}
		spec := model.QuerySpec{Ifaces: sel, First: day0 - 1000, Last: day0 + 10*86400, Attrs: attrs, Time: true, Cond: cond}
		all, _ := db.Aggregate(spec)
		want := map[model.RowKey]model.Counters{}
		for k, c := range all {
			if !damaged[owner[k.Sip.String()]] {
				want[k] = c
			}
		}
		var dl []string
		for d := range damaged {
			dl = append(dl, d.String())
		}
		sort.Strings(dl)
		var cls []string
		for _, d := range descs {
			cls = append(cls, "mutation:"+d[strings.LastIndex(d, ": ")+2:][:min(12, len(d[strings.LastIndex(d, ": ")+2:]))])
		}
		canon := fmt.Sprintf("%v|%v|%s|%s|%v", gen.DescribeDB(db), descs, args.Query, condText, args.LowMem)
		evid.Case(canon, nt, cls...)
		if evid.WantSample(nt) {
			evid.Sample(map[string]any{"mutations": descs, "damaged_days": dl, "query": args.Query, "condition": condText, "ifaces": ifArg, "lowmem": args.LowMem}, nt)
		}
		ctx := fmt.Sprintf("mutations %q (damaged: %v); query=%q cond=%q ifaces=%q lowmem=%v", descs, dl, args.Query, condText, ifArg, args.LowMem)

		var resp qgen.Response
		cerr := child.Call(qgen.Request{Op: "query", DB: base, Args: &args}, &resp, 20*time.Second)
		if cerr != nil {
			if ce, ok := execpool.IsCrash(cerr); ok {
				if ce.Kind == "hang" && !ce.Deadlock {
					evid.Class("inconclusive:no-answer-within-bound")
					t.Logf("inconclusive (no structural deadlock witness): %s %s", ce.Signature, ctx)
					return
				}
				t.Fatalf("%s\n%s", evid.Sig("C06:crash:"+ce.Signature, "the query process died: %s\n  %s", ce.Signature, ctx), ce.Stderr)
			}
			t.Fatalf("harness: %v", cerr)
		}
		if resp.Err != "" {
			if len(want) == 0 {
				evid.Class("query-error-without-undamaged-rows")
			} else {
				w := fmt.Sprintf("%s -> %s", descs, resp.Err)
				// only failures to open / decode the metadata of a day belong to the open finding
				metaErr := strings.Contains(resp.Err, "metadata") || strings.Contains(resp.Err, "ascertain query block timing") || strings.Contains(resp.Err, "internal error during query processing")
				touchesMeta := false
				for _, d := range descs {
					if strings.Contains(d, ".blockmeta") {
						touchesMeta = true
					}
				}
				if metaErr && touchesMeta && evid.Known("C06-F5c", w) {
					evid.Class("known:query-aborted")
				} else {
					t.Fatalf("%s", evid.Sig("C06:query-aborted", "damage in %v makes the whole query fail (%s) although %d rows belong to undamaged days\n  %s", dl, resp.Err, len(want), ctx))
				}
			}
		} else {
			got, bad := qgen.RowsOf(resp.Result, spec)
			if bad != "" && !strings.Contains(bad, "two rows") {
				t.Fatalf("%s", evid.Sig("C06:row-shape", "%s\n  %s", bad, ctx))
			}
			if got != nil {
				// only rows attributable to undamaged days are compared
				filtered := map[model.RowKey]model.Counters{}
				for k, c := range got {
					if o, ok := owner[k.Sip.String()]; ok && !damaged[o] {
						filtered[k] = c
					}
				}
				if kind, detail := qgen.Diff(filtered, want); kind != "" {
					t.Fatalf("%s", evid.Sig("C06:undamaged-day-"+kind, "rows of undamaged days differ: %s\n  %s", detail, ctx))
				}
			}
			if s := resp.Result.Summary.Stats; s != nil && columnOnly && cond == nil {
				// for column-only damage: blocks seen + blocks counted as corrupted never exceed the blocks of the damaged days
				total, seen := 0, map[string]bool{}
				for d := range damaged {
					for _, ifc := range sel {
						if ifc != d.iface {
							continue
						}
						for _, b := range db.Ifaces[ifc] {
							if int((b.Ts-day0)/86400) == d.day {
								total++
							}
						}
					}
				}
				for k := range got {
					if o, ok := owner[k.Sip.String()]; ok && damaged[o] {
						seen[fmt.Sprintf("%s/%d", k.Iface, k.Ts)] = true
					}
				}
				if int(s.BlocksCorrupted) > total {
					t.Fatalf("%s", evid.Sig("C06:corrupted-count", "%d blocks reported corrupted, the damaged days hold %d blocks\n  %s", s.BlocksCorrupted, total, ctx))
				}
				if s.BlocksCorrupted > 0 {
					evid.Class("blocks-counted-corrupted")
				}
			}
		}
		// the interface listing must survive too
		for _, ifc := range sel {
			var lr qgen.Response
			lerr := child.Call(qgen.Request{Op: "list", DB: base, Iface: ifc, First: day0 - 1000, Last: day0 + 10*86400}, &lr, 60*time.Second)
			if lerr != nil {
				if ce, ok := execpool.IsCrash(lerr); ok {
					if ce.Kind == "hang" {
						evid.Class("inconclusive:no-answer-within-bound")
						t.Logf("inconclusive (no structural deadlock witness): %s %s", ce.Signature, ctx)
						return
					}
					t.Fatalf("%s\n%s", evid.Sig("C06:crash-listing:"+ce.Signature, "the listing process died: %s\n  %s", ce.Signature, ctx), ce.Stderr)
				}
				t.Fatalf("harness: %v", lerr)
			}
		}
	})
}
