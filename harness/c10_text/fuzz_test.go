package c10

import (
	"testing"
	"time"

	"github.com/els0r/goProbe/v4/pkg/goDB/conditions/node"
)

// FuzzC10Prepare is the coverage-guided companion of TestC10NoCrash (thorough tier): any text either is
// rejected or is accepted, and then its canonical form is accepted again, reproduces itself and can be
// evaluated without crashing.
func FuzzC10Prepare(f *testing.F) {
	for _, s := range []string{"", "dport = 80", "sip = 10.0.0.1 | dip = 2001:db8::1", "snet = 10.0.0.0/9 & !(proto = tcp)", "dport eq 80 and not proto neq UDP",
		"not{dport g 80}", "dir = in & host != 10.0.0.1", "net = ::ffff:1.2.3.4/24", "snet = 10.0.0.0/-9", "dnet=2001:db8::/129", "(((", "dport < =", "sip = a.b",
		"[ proto  =  TCP   * snet  != 1.2.0.0/16 ] * [ dport   <= 1024  + dport   >= 443 ]", "direction = bidirectional", "port=0&&port=0 or  not (port=0)"} {
		f.Add(s)
	}
	f.Fuzz(func(t *testing.T, s string) {
		if len(s) > 300 {
			return
		}
		stmt, err, p := prep(s)
		if p != nil {
			t.Fatalf("SIG[C10:prepare-panic] Prepare panics on condition %q: %v", s, p)
		}
		if err != nil || stmt == nil || stmt.Condition == "" {
			return
		}
		c1 := stmt.Condition
		s2, err2, p2 := prep(c1)
		if p2 != nil || err2 != nil {
			t.Fatalf("SIG[C10:canonical-rejected] canonical form %q of accepted text %q is not accepted: %v %v", c1, s, err2, p2)
		}
		if s2.Condition != c1 {
			t.Fatalf("SIG[C10:canonical-not-idempotent] canonicalising %q (from %q) again gives %q", c1, s, s2.Condition)
		}
		n, _, perr := node.ParseAndInstrument(c1, time.Millisecond)
		if perr != nil {
			t.Fatalf("SIG[C10:canonical-rejected] canonical form %q does not parse: %v", c1, perr)
		}
		if n != nil {
			for _, k := range sampleKeys {
				if _, ep := evalSafe(n, k); ep != nil {
					t.Fatalf("SIG[C10:evaluate-panic] accepted text %q (canonical %q) panics when evaluated: %v", s, c1, ep)
				}
			}
		}
	})
}
