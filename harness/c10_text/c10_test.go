// C10 — condition text is parsed robustly and its canonical form keeps its meaning.
package c10

import (
	"encoding/json"
	"fmt"
	"strings"
	"testing"
	"time"

	"github.com/els0r/goProbe/v4/pkg/goDB/conditions/node"
	"github.com/els0r/goProbe/v4/pkg/query"
	"github.com/els0r/goProbe/v4/pkg/types"
	"pgregory.net/rapid"

	"verifharness/internal/evid"
	"verifharness/internal/gen"
	"verifharness/internal/model"
)

func TestMain(m *testing.M) {
	evid.Rule("(a) arbitrary condition strings assembled from a hostile token alphabet (attributes, every operator spelling of the help text, all bracket kinds, IPs, CIDRs incl. negative and IPv4-mapped netmasks, numbers, whitespace kinds, upper case, stray bytes) through Args.Prepare: must return, never panic; " +
		"(b) grammar-generated condition trees (generator of C09, plus a direction filter at its documented positions) rendered with a random documented spelling per operator, random bracket kind and random legal whitespace: must be accepted, the canonical Statement.Condition must be accepted again and reproduce itself, must evaluate like the reference semantics of the tree on generated keys, keep the direction filter, and be the same on repeated preparation; " +
		"non-trivial (b) = the rendering uses ≥ 1 word-form operator or ≥ 1 non-() bracket; distinct by rendered text")
	evid.Assume("spellings are taken from the help text table only; word forms are rendered with enclosing whitespace as the help text requires, symbols may be glued",
		"host names are not generated in (b) (no resolver offline); in (a) host-name-like tokens only have to return within the 1 ms resolve timeout",
		"protocol names may be upper case (the help text writes TCP); keywords are rendered lower case")
	evid.Main(m)
}

func prep(cond string) (stmt *query.Statement, err error, panicked any) {
	defer func() {
		if r := recover(); r != nil {
			panicked = r
		}
	}()
	a := query.NewArgs("sip,dip,dport,proto", "eth0")
	a.Condition = cond
	a.Format = "json"
	a.First, a.Last = "1700000000", "1700003600"
	a.DNSResolution.Timeout = time.Millisecond
	stmt, err = a.Prepare()
	return
}

// ---- (a) hostile strings

var tokens = []string{"sip", "dip", "snet", "dnet", "dport", "proto", "src", "dst", "host", "net", "port", "protocol", "ipproto", "dir", "direction",
	"=", "!=", "<", ">", "<=", ">=", "==", "===", " eq ", " -eq ", " equals ", " neq ", " -neq ", " ne ", " -ne ", " le ", " -le ", " leq ", " -leq ", " ge ", " -ge ", " geq ", " -geq ",
	" less ", " l ", " -l ", " lt ", " -lt ", " greater ", " g ", " -g ", " gt ", " -gt ",
	"!", "not ", " not ", "not(", "not{", "not[", "&", "&&", " and ", "*", "|", "||", " or ", "+",
	"(", ")", "[", "]", "{", "}", " ", "\t", "\n", "\r",
	"10.0.0.1", "10.0.0.0/8", "10.0.0.0/9", "10.0.0.0/33", "10.0.0.0/-9", "10.0.0.0/", "/8", "1.2.3.4/24/7", "::ffff:1.2.3.4", "::ffff:1.2.3.4/24", "::ffff:1.2.3.4/100", "2001:db8::1", "2001:db8::/32", "2001:db8::/129", "2001:db8::/127", "::/0", "0.0.0.0/0", ":::", "1.2.3", "300.1.1.1",
	"80", "0", "65535", "65536", "-1", "99999999999999999999", "tcp", "TCP", "Udp", "icmp", "ipv6-icmp", "256", "in", "out", "uni", "bi", "inbound", "bidirectional", "sideways",
	"a", "x.y", "é", "\x00", "\xff", "=!", "!!", "<>", "=<", "DPORT", "SIP", "Not ", " AND ", " OR "}

func TestC10NoCrash(t *testing.T) {
	rapid.Check(t, func(t *rapid.T) {
		var sb strings.Builder
		n := rapid.IntRange(0, 14).Draw(t, "ntok")
		for i := 0; i < n; i++ {
			if rapid.IntRange(0, 11).Draw(t, "raw?") == 0 {
				sb.WriteString(rapid.StringN(0, 6, 12).Draw(t, "raw"))
			} else {
				sb.WriteString(rapid.SampledFrom(tokens).Draw(t, "tok"))
			}
			if rapid.Bool().Draw(t, "sp") {
				sb.WriteByte(' ')
			}
		}
		s := sb.String()
		stmt, err, p := prep(s)
		cls := "rejected"
		if err == nil {
			cls = "accepted"
		}
		evid.Case("a:"+s, false, "string:"+cls)
		if evid.WantSample(false) {
			evid.Sample(map[string]any{"kind": "hostile-string", "text": s, "result": cls}, false)
		}
		if p != nil {
			t.Fatalf("%s", evid.Sig("C10:prepare-panic", "Prepare panics on condition %q: %v", s, p))
		}
		if err == nil && stmt != nil && stmt.Condition != "" {
			// an accepted text must also be evaluable without crashing
			n, _, perr := node.ParseAndInstrument(stmt.Condition, time.Millisecond)
			if perr != nil {
				t.Fatalf("%s", evid.Sig("C10:canonical-rejected", "accepted text %q has canonical form %q which is rejected: %v", s, stmt.Condition, perr))
			}
			if n != nil {
				for _, k := range sampleKeys {
					if _, ep := evalSafe(n, k); ep != nil {
						t.Fatalf("%s", evid.Sig("C10:evaluate-panic", "accepted text %q (canonical %q) panics when evaluated: %v", s, stmt.Condition, ep))
					}
				}
			}
		}
	})
}

var sampleKeys = func() []types.Key {
	v6 := make([]byte, 16)
	v6[0], v6[1], v6[15] = 0x20, 0x01, 1
	return []types.Key{
		types.NewV4Key([]byte{10, 0, 0, 1}, []byte{10, 0, 0, 2}, []byte{0, 80}, 6),
		types.NewV4Key([]byte{255, 255, 255, 255}, []byte{0, 0, 0, 0}, []byte{255, 255}, 17),
		types.NewV6Key(v6, v6, []byte{1, 187}, 58),
		types.NewV6Key(make([]byte, 16), make([]byte, 16), []byte{0, 0}, 0),
	}
}()

func evalSafe(n node.Node, k types.Key) (res bool, panicked any) {
	defer func() {
		if r := recover(); r != nil {
			panicked = r
		}
	}()
	return n.Evaluate(k.Clone()), nil
}

// ---- (b) documented spellings

var spell = map[string][]string{
	"=":  {"=", "=", " eq ", " -eq ", " equals ", "==", "==="},
	"!=": {"!=", "!=", " neq ", " -neq ", " ne ", " -ne "},
	"<=": {"<=", " le ", " -le ", " leq ", " -leq "},
	">=": {">=", " ge ", " -ge ", " geq ", " -geq "},
	"<":  {"<", " less ", " l ", " -l ", " lt ", " -lt "},
	">":  {">", " greater ", " g ", " -g ", " gt ", " -gt "},
	"&":  {"&", "&", " and ", "&&", "*"},
	"|":  {"|", "|", " or ", "||", "+"},
	"!":  {"!", "!", " not "},
}

type renderer struct {
	t       *rapid.T
	words   int
	bracket int
	n       int
}

func (r *renderer) op(sym string) string {
	r.n++
	s := rapid.SampledFrom(spell[sym]).Draw(r.t, fmt.Sprintf("sp%d", r.n))
	if strings.HasPrefix(s, " ") {
		r.words++
		// word forms need enclosing whitespace; make its amount and kind vary
		ws := rapid.SampledFrom([]string{" ", "  ", "\t", " \t "}).Draw(r.t, fmt.Sprintf("ws%d", r.n))
		return ws + strings.TrimSpace(s) + ws
	}
	pad := rapid.SampledFrom([]string{"", "", " ", "  "}).Draw(r.t, fmt.Sprintf("pad%d", r.n))
	return pad + s + pad
}

func (r *renderer) brackets() (string, string) {
	r.n++
	k := rapid.IntRange(0, 3).Draw(r.t, fmt.Sprintf("br%d", r.n))
	switch k {
	case 2:
		r.bracket++
		return "[", "]"
	case 3:
		r.bracket++
		return "{", "}"
	}
	return "(", ")"
}

func (r *renderer) render(c *model.Cond) string {
	switch c.Kind {
	case "leaf":
		v := c.Val
		if _, ok := model.ProtoNames[v]; ok && rapid.Bool().Draw(r.t, fmt.Sprintf("uc%d", r.n)) {
			v = strings.ToUpper(v)
		}
		return c.Attr + r.op(c.Cmp) + v
	case "not":
		o, cl := r.brackets()
		return r.op("!") + o + r.render(c.L) + cl
	case "and", "or":
		sym := map[string]string{"and": "&", "or": "|"}[c.Kind]
		o, cl := r.brackets()
		return o + r.render(c.L) + r.op(sym) + r.render(c.R) + cl
	}
	return ""
}

var dirVals = []string{"in", "out", "uni", "bi", "inbound", "outbound", "unidirectional", "bidirectional"}

func counterSamples() []types.Counters {
	return []types.Counters{{}, {BytesRcvd: 1, PacketsRcvd: 1}, {BytesSent: 1, PacketsSent: 1}, {BytesRcvd: 1, PacketsRcvd: 1, BytesSent: 2, PacketsSent: 2}}
}

func TestC10Spellings(t *testing.T) {
	rapid.Check(t, func(t *rapid.T) {
		c := gen.DrawCond(t, "c", gen.CondOpts{MaxDepth: 3})
		r := &renderer{t: t}
		text := r.render(c)
		// optional direction filter at a documented position: top-level AND (either side)
		dir, dirVal := "", ""
		if rapid.IntRange(0, 2).Draw(t, "dir?") == 0 {
			dirVal = rapid.SampledFrom(dirVals).Draw(t, "dirval")
			dir = rapid.SampledFrom([]string{"dir", "direction"}).Draw(t, "dirattr") + r.op("=") + dirVal
			o, cl := r.brackets()
			if rapid.Bool().Draw(t, "dirleft") {
				text = dir + r.op("&") + o + text + cl
			} else {
				text = o + text + cl + r.op("&") + dir
			}
		}
		nt := r.words > 0 || r.bracket > 0
		var cls []string
		if r.words > 0 {
			cls = append(cls, "word-operator")
		}
		if r.bracket > 0 {
			cls = append(cls, "non-paren-bracket")
		}
		if dir != "" {
			cls = append(cls, "with-direction-filter")
		}
		if strings.Contains(text, "not") && (strings.Contains(text, "and") || strings.Contains(text, "or")) {
			cls = append(cls, "word-not-with-word-binary")
		}
		evid.Case("b:"+text, nt, cls...)
		if evid.WantSample(nt) {
			js, _ := json.Marshal(c)
			evid.Sample(map[string]any{"kind": "documented-spelling", "text": text, "ast": json.RawMessage(js)}, nt)
		}

		stmt, err, p := prep(text)
		if p != nil {
			t.Fatalf("%s", evid.Sig("C10:prepare-panic", "Prepare panics on %q: %v", text, p))
		}
		if err != nil {
			t.Fatalf("%s", evid.Sig("C10:documented-spelling-rejected", "condition %q (tree %s, documented spellings) is rejected: %v", text, c, err))
		}
		c1 := stmt.Condition
		// determinism of the canonical form
		for i := 0; i < 4; i++ {
			s2, err2, _ := prep(text)
			if err2 != nil || s2.Condition != c1 {
				t.Fatalf("%s", evid.Sig("C10:canonical-nondeterministic", "preparing %q again gives %q / %v, first time %q", text, s2.Condition, err2, c1))
			}
		}
		// idempotence
		s3, err3, p3 := prep(c1)
		if p3 != nil || err3 != nil {
			t.Fatalf("%s", evid.Sig("C10:canonical-rejected", "canonical form %q of %q is not accepted: %v %v", c1, text, err3, p3))
		}
		if s3.Condition != c1 {
			t.Fatalf("%s", evid.Sig("C10:canonical-not-idempotent", "canonicalising %q again gives %q", c1, s3.Condition))
		}
		// meaning
		n, vf, perr := node.ParseAndInstrument(c1, time.Millisecond)
		if perr != nil {
			t.Fatalf("%s", evid.Sig("C10:canonical-rejected", "canonical form %q does not parse: %v", c1, perr))
		}
		for i := 0; i < 6; i++ {
			f := gen.DrawFlowKey(t, fmt.Sprintf("f%d", i), 0)
			want, _ := c.Eval(f)
			got, ep := evalSafe(n, keyOf(f))
			if ep != nil {
				t.Fatalf("%s", evid.Sig("C10:evaluate-panic", "canonical form %q of %q panics on %s: %v", c1, text, f, ep))
			}
			if got != want {
				t.Fatalf("%s", evid.Sig("C10:meaning-changed", "text %q (tree %s), canonical %q: flow %s evaluates to %v, the tree means %v", text, c, c1, f, got, want))
			}
		}
		// direction filter preserved
		if dir == "" {
			if vf != nil && vf.FilterType != types.FilterKeywordNone {
				t.Fatalf("%s", evid.Sig("C10:direction-filter", "text %q without direction filter yields filter %q", text, vf.FilterType))
			}
		} else {
			if vf == nil || vf.ValFilter == nil {
				t.Fatalf("%s", evid.Sig("C10:direction-filter", "text %q lost its direction filter (canonical %q)", text, c1))
			}
			val := dirVal
			for _, cs := range counterSamples() {
				var want bool
				in, out := cs.PacketsRcvd > 0, cs.PacketsSent > 0
				switch val[:2] {
				case "in":
					want = in && !out
				case "ou":
					want = out && !in
				case "un":
					want = in != out
				case "bi":
					want = in && out
				}
				if got := vf.ValFilter(cs); got != want {
					t.Fatalf("%s", evid.Sig("C10:direction-filter", "text %q: direction filter %q on counters %+v gives %v, want %v", text, val, cs, got, want))
				}
			}
		}
	})
}

func keyOf(f model.Flow) types.Key {
	dport := []byte{byte(f.Dport >> 8), byte(f.Dport)}
	if f.IsV4() {
		s, d := f.Sip.As4(), f.Dip.As4()
		return types.NewV4Key(s[:], d[:], dport, f.Proto)
	}
	s, d := f.Sip.As16(), f.Dip.As16()
	return types.NewV6Key(s[:], d[:], dport, f.Proto)
}
