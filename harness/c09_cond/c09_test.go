// C09 — conditions follow Boolean logic over per-flow comparisons; evaluation
// never changes the flow key and never crashes.
package c09

import (
	"bytes"
	"encoding/json"
	"fmt"
	"strings"
	"testing"
	"time"

	"github.com/els0r/goProbe/v4/pkg/goDB"
	"github.com/els0r/goProbe/v4/pkg/goDB/conditions/node"
	"github.com/els0r/goProbe/v4/pkg/types"
	"github.com/els0r/goProbe/v4/pkg/types/hashmap"
	"pgregory.net/rapid"

	"verifharness/internal/evid"
	"verifharness/internal/gen"
	"verifharness/internal/model"
)

func TestMain(m *testing.M) {
	evid.Rule("condition ASTs of depth ≤ 4 over all attributes and sugar (sip dip snet dnet dport proto; src dst host net port protocol ipproto), comparators (=,!= for addresses/networks; all six for dport/proto), " +
		"values from the flow alphabet and near misses, networks of every prefix length 0–32 / 0–128 with host bits set or not; each AST is rendered, parsed and instrumented by node.ParseAndInstrument and evaluated on 8 generated IPv4/IPv6 keys built the way both callers build them, and the 8 flows are put through the live-query filter (goDB.QueryFilter, all four attributes) whose result must be exactly the selected flows " +
		"(query worker: only the fields the condition references are populated; live filter: full flow key) and compared with the reference evaluator; key bytes must be unchanged afterwards; " +
		"non-trivial = ≥ 2 leaves inspect the same field, or a network leaf is evaluated on a key of the other family, or a prefix length is not a multiple of 8; distinct by (rendered condition, keys)")
	evid.Assume("reference semantics: '|' union, '&' intersection, '!' complement, a != v is the complement of a = v, an address/network comparison is true only for the same family and (for networks) when the masked prefix contains the address; sugar as in the help text",
		"host names and IPv4-mapped IPv6 literals are not generated (DNS is not available; the documentation does not define them)")
	evid.Main(m)
}

func keyOf(f model.Flow) types.Key {
	dport := []byte{byte(f.Dport >> 8), byte(f.Dport)}
	if f.IsV4() {
		s, d := f.Sip.As4(), f.Dip.As4()
		return types.NewV4Key(s[:], d[:], dport, f.Proto)
	}
	s, d := f.Sip.As16(), f.Dip.As16()
	return types.NewV6Key(s[:], d[:], dport, f.Proto)
}

// workerKey builds the comparison value the way DBWorkManager.readBlocksAndEvaluate does:
// an empty (extended) key of the entry's family with only the columns the condition uses.
func workerKey(f model.Flow, attrs map[string]types.IPVersion) types.Key {
	var e types.ExtendedKey
	if f.IsV4() {
		e = types.NewEmptyV4Key().ExtendEmpty()
	} else {
		e = types.NewEmptyV6Key().ExtendEmpty()
	}
	full := keyOf(f)
	for a := range attrs {
		switch a {
		case "sip", "snet":
			e.PutSIP(full.GetSIP())
		case "dip", "dnet":
			e.PutDIPV(full.GetDIP(), f.IsV4())
		case "proto":
			e.PutProtoV(f.Proto, f.IsV4())
		case "dport":
			e.PutDportV(full.GetDport(), f.IsV4())
		}
	}
	return e.Key()
}

func evalSafe(n node.Node, k types.Key) (res bool, panicked any) {
	defer func() {
		if r := recover(); r != nil {
			panicked = r
		}
	}()
	return n.Evaluate(k), nil
}

func field(attr string) string {
	switch attr {
	case "sip", "src", "snet":
		return "sip"
	case "dip", "dst", "dnet":
		return "dip"
	case "host", "net":
		return "sip+dip"
	case "dport", "port":
		return "dport"
	}
	return "proto"
}

func isNet(c *model.Cond) bool { return c.Attr == "snet" || c.Attr == "dnet" || c.Attr == "net" }

func TestC09Evaluate(t *testing.T) {
	rapid.Check(t, func(t *rapid.T) {
		c := gen.DrawCond(t, "c", gen.CondOpts{MaxDepth: 4})
		text := c.String()
		nflows := 8
		var flows []model.Flow
		for i := 0; i < nflows; i++ {
			flows = append(flows, gen.DrawFlowKey(t, fmt.Sprintf("f%d", i), 0))
		}
		// classification
		leaves := c.Leaves()
		seen := map[string]int{}
		sameField, oddPrefix, crossNet := false, false, false
		for _, l := range leaves {
			for _, f := range strings.Split(field(l.Attr), "+") {
				seen[f]++
				if seen[f] >= 2 {
					sameField = true
				}
			}
			if isNet(l) {
				var bits int
				fmt.Sscanf(l.Val[strings.IndexByte(l.Val, '/')+1:], "%d", &bits)
				if bits%8 != 0 {
					oddPrefix = true
				}
				v6 := strings.Contains(l.Val, ":")
				for _, f := range flows {
					if f.IsV4() == v6 {
						crossNet = true
					}
				}
			}
		}
		nt := sameField || oddPrefix || crossNet
		var cls []string
		if sameField {
			cls = append(cls, "same-field-twice")
		}
		if oddPrefix {
			cls = append(cls, "prefix-not-multiple-of-8")
		}
		if crossNet {
			cls = append(cls, "net-leaf-on-other-family")
		}
		evid.Case(text+fmt.Sprint(flows), nt, cls...)
		if evid.WantSample(nt) {
			js, _ := json.Marshal(c)
			evid.Sample(map[string]any{"condition": text, "ast": json.RawMessage(js), "flows": fmt.Sprint(flows)}, nt)
		}

		n, _, err := node.ParseAndInstrument(text, time.Millisecond)
		if err != nil {
			t.Fatalf("%s", evid.Sig("C09:rejected", "condition %q (generated from the documented grammar) is rejected: %v", text, err))
		}
		if n == nil {
			t.Fatalf("%s", evid.Sig("C09:rejected", "condition %q parses to a nil node", text))
		}
		attrs := n.Attributes()
		for _, f := range flows {
			want, rerr := c.Eval(f)
			if rerr != nil {
				t.Fatalf("reference evaluator: %v", rerr)
			}
			for _, mode := range []string{"worker", "filter"} {
				var k types.Key
				if mode == "worker" {
					k = workerKey(f, attrs)
				} else {
					k = keyOf(f)
				}
				before := k.Clone()
				got, p := evalSafe(n, k)
				ctx := fmt.Sprintf("condition %q on flow %s (%s key)", text, f, mode)
				if p != nil {
					t.Fatalf("%s", evid.Sig("C09:panic", "%s: Evaluate panics: %v", ctx, p))
				}
				mutated := !bytes.Equal(before, k)
				if got != want {
					// attribute: does a single leaf alone already disagree?
					for _, l := range leaves {
						ln, _, lerr := node.ParseAndInstrument(l.String(), time.Millisecond)
						if lerr != nil || ln == nil {
							continue
						}
						lk := keyOf(f)
						lgot, lp := evalSafe(ln, lk)
						lwant, _ := l.Eval(f)
						if lp != nil || lgot != lwant {
							t.Fatalf("%s", evid.Sig("C09:leaf-semantics", "%s: got %v, want %v; already the single comparison %q gives %v (panic %v), want %v", ctx, got, want, l.String(), lgot, lp, lwant))
						}
					}
					t.Fatalf("%s", evid.Sig("C09:compound-semantics", "%s: got %v, want %v although every single comparison alone is right (key changed during evaluation: %v)", ctx, got, want, mutated))
				}
				if mutated {
					t.Fatalf("%s", evid.Sig("C09:key-mutated", "%s: key bytes changed by the evaluation: %x -> %x", ctx, []byte(before), []byte(k)))
				}
			}
		}
		// the live-query filter itself (pkg/goDB/filter.go): the flows of the case as an in-memory flow map, all four
		// attributes requested, so that the result is exactly the selected flows
		attrList, sel, aerr := types.ParseQueryType("sip,dip,dport,proto")
		if aerr != nil {
			t.Fatalf("harness: %v", aerr)
		}
		in := hashmap.NewAggFlowMap()
		want := map[string]bool{}
		for _, f := range flows {
			in.SetOrUpdate(keyOf(f), f.IsV4(), 1, 0, 1, 0)
			if ok, _ := c.Eval(f); ok {
				want[string(keyOf(f))] = true
			}
		}
		var out *hashmap.AggFlowMap
		func() {
			defer func() {
				if r := recover(); r != nil {
					t.Fatalf("%s", evid.Sig("C09:panic", "condition %q: the live-query filter panics: %v", text, r))
				}
			}()
			out = goDB.QueryFilter(goDB.NewQuery(attrList, n, sel))(in)
		}()
		got := map[string]bool{}
		for it := out.PrimaryMap.Iter(); it.Next(); {
			got[string(it.Key())] = true
		}
		for it := out.SecondaryMap.Iter(); it.Next(); {
			got[string(it.Key())] = true
		}
		for _, f := range flows {
			k := string(keyOf(f))
			if got[k] != want[k] {
				t.Fatalf("%s", evid.Sig("C09:filter-selection", "condition %q: the live-query filter (goDB.QueryFilter) selects flow %s = %v, want %v", text, f, got[k], want[k]))
			}
		}
		if len(got) > len(want) {
			t.Fatalf("%s", evid.Sig("C09:filter-selection", "condition %q: the live-query filter returns %d flows, %d of the %d flows of the case are selected", text, len(got), len(want), len(flows)))
		}
	})
}
