// C05 — failed I/O during a write-out never damages committed data.
package c05

import (
	"fmt"
	"os"
	"path/filepath"
	"strings"
	"testing"

	"pgregory.net/rapid"

	"verifharness/internal/crashlab"
	"verifharness/internal/evid"
	"verifharness/internal/execpool"
	"verifharness/internal/strace"
)

func TestMain(m *testing.M) {
	evid.Rule("a history of 2–5 write-outs (generator of C04) is executed by the scripted writer under strace; for selected (thorough: all) file-system call positions of a chosen write-out exactly that call is made to fail with an errno from {ENOSPC, EIO, EACCES} (strace --inject error=), optionally with a second fault in the following write-out or a repeating fault; " +
		"the writer keeps running; after the faulty write-out(s) the database is examined through the executor child (block listing, query per interface and any, interface listing), then the remaining write-outs run without faults and the final database is examined again; " +
		"oracle: a write-out that reported an error leaves the day as before, or — only if the failing call lies after the metadata rename — as before plus the complete correct block; a write-out that reported success is present and correct; all later write-outs succeed; " +
		"non-trivial = the fault hits a write-out to a day that already holds >= 1 block and that write-out reports an error; distinct by (history, position, errno)")
	evid.Assume("single-call faults at the system call boundary; the faulty call itself is not executed (strace error injection)", "faults on calls whose failure the code may legitimately ignore are accepted when the result is the fully written state")
	evid.Main(m)
}

var (
	child  = execpool.New(execpool.Bin("gpexec"), "TZ=UTC")
	writer = execpool.Bin("gpwriter")
)

func work() string {
	if w := os.Getenv("VERIF_WORK"); w != "" {
		return w
	}
	return os.TempDir()
}

func TestC05FailedIO(t *testing.T) {
	full := evid.Thorough()
	rapid.Check(t, func(t *rapid.T) {
		h := crashlab.DrawHistory(t, 2, 5)
		root, err := os.MkdirTemp(work(), "c05-")
		if err != nil {
			t.Fatalf("tempdir: %v", err)
		}
		defer os.RemoveAll(root)
		db := filepath.Join(root, "db")
		sc := h.Script(db)
		scriptPath := filepath.Join(root, "script.json")
		if err := sc.Save(scriptPath); err != nil {
			t.Fatalf("harness: %v", err)
		}
		dry, err := strace.Exec(writer, scriptPath, root, "")
		if err != nil {
			t.Fatalf("INCONCLUSIVE[strace dry run failed: %v]", err)
		}
		os.RemoveAll(db)
		dry2, err := strace.Exec(writer, scriptPath, root, "")
		if err != nil || !strace.SameShape(dry, dry2) {
			t.Fatalf("INCONCLUSIVE[two dry runs differ in shape: %v]", err)
		}
		type stepInfo struct{ metaRename, dirRename int }
		info := map[int]*stepInfo{}
		for _, c := range dry.Calls {
			if c.Step < 0 {
				continue
			}
			if info[c.Step] == nil {
				info[c.Step] = &stepInfo{-1, -1}
			}
			if strings.HasPrefix(c.Name, "rename") {
				if strings.Contains(c.Args, ".tmp-metadata") {
					info[c.Step].metaRename = c.Index
				} else {
					info[c.Step].dirRename = c.Index
				}
			}
		}
		var cands []strace.Call
		for _, c := range dry.Calls {
			if c.Step >= 0 && c.Marker == "" {
				cands = append(cands, c)
			}
		}
		var positions []strace.Call
		if full {
			positions = cands
		} else {
			perm := rapid.Permutation(cands).Draw(t, "sample")
			positions = perm[:min(len(perm), 24)]
			// always include the commit calls of one step
			for _, c := range cands {
				if strings.HasPrefix(c.Name, "rename") && c.Step == positions[0].Step {
					positions = append(positions, c)
				}
			}
		}
		for pi, p := range positions {
			errno := rapid.SampledFrom([]string{"ENOSPC", "EIO", "EACCES"}).Draw(t, fmt.Sprintf("p%d.errno", pi))
			I := p.Step
			firstOfDay, dayHasBlocks := true, false
			for i := 0; i < I; i++ {
				if h.Outs[i].Iface == h.Outs[I].Iface && crashlab.DayOf(h.Outs[i].Block.Ts) == crashlab.DayOf(h.Outs[I].Block.Ts) {
					firstOfDay, dayHasBlocks = false, true
				}
			}
			inject := strace.FailAt(p, errno)
			mode := "single"
			// second fault: the same kind of call in the next write-out / a repeating fault
			if I+1 < len(h.Outs) && rapid.IntRange(0, 3).Draw(t, fmt.Sprintf("p%d.second", pi)) == 0 {
				mode = "repeating"
				inject = fmt.Sprintf("%s:error=%s:when=%d+%d", p.Name, errno, p.K, rapid.IntRange(1, 9).Draw(t, fmt.Sprintf("p%d.step", pi)))
			}
			os.RemoveAll(db)
			// run steps 0..end under the fault (all steps up to and including I, or I+1 for repeating faults)
			end := I + 1
			if mode == "repeating" {
				end = min(len(h.Outs), I+2)
			}
			sc.From, sc.To = 0, end
			partPath := filepath.Join(root, "part.json")
			if err := sc.Save(partPath); err != nil {
				t.Fatalf("harness: %v", err)
			}
			run, err := strace.Exec(writer, partPath, root, inject)
			if err != nil {
				t.Fatalf("INCONCLUSIVE[strace run failed: %v]", err)
			}
			ctx := fmt.Sprintf("fault %s=%s (%s) at %s\nhistory:\n  %s", p.Name, errno, mode, p, strings.Join(h.Describe(), "\n  "))
			if run.Killed || run.ExitCode != 0 {
				// a panic or crash of the writer because of a failed call
				t.Fatalf("%s", evid.Sig("C05:writer-died", "the writer died (exit %d) instead of reporting an error\n%s\n%s", run.ExitCode, ctx, run.Stdout))
			}
			// per-step results from the markers (stdout itself may be hit by a repeating write fault)
			res := make([]string, len(h.Outs))
			seenEnd := false
			for _, mk := range run.Markers {
				var i int
				var st string
				if n, _ := fmt.Sscanf(strings.ReplaceAll(mk, "-", " "), "done %d %s", &i, &st); n == 2 && i < len(res) {
					res[i] = st
				}
				if mk == "end" {
					seenEnd = true
				}
			}
			if !seenEnd {
				t.Fatalf("%s", evid.Sig("C05:writer-died", "the writer did not reach its end marker\n%s\n%s", ctx, run.Stdout))
			}
			// which write-outs are expected to be present: all reported ok; a failed one may be present only
			// if its failing call lies after its metadata rename
			present := map[int]bool{}
			reportedErr := false
			for i := 0; i < end; i++ {
				if res[i] == "ok" {
					present[i] = true
				} else {
					reportedErr = true
				}
			}
			// visibility of failed write-outs is decided by looking (all or nothing is checked by the examination)
			afterCommit := false
			for i := 0; i < end; i++ {
				if res[i] == "ok" {
					continue
				}
				days, derr := crashlab.Dump(child, db, h.Outs[i].Iface)
				if derr != nil {
					if ce, ok := execpool.IsCrash(derr); ok {
						t.Fatalf("%s", evid.Sig("C05:reader-crash:"+ce.Signature, "reading after the failed write-out kills the reader: %s\n%s", ce.Signature, ctx))
					}
					t.Fatalf("%s", evid.Sig("C05:dump-error", "%v\n%s", derr, ctx))
				}
				visible := false
				for _, d := range days {
					for _, b := range d.Blocks {
						if b.Ts == h.Outs[i].Block.Ts {
							visible = true
						}
					}
				}
				if visible {
					// allowed only if a call after the metadata rename failed
					mr := info[i].metaRename
					lastFaultAfterCommit := mr >= 0 && ((i == I && p.Index > mr) || mode == "repeating")
					if !lastFaultAfterCommit {
						t.Fatalf("%s", evid.Sig("C05:failed-write-visible", "write-out #%d reported %q but its block is visible although the failing call precedes the metadata commit\n%s", i, res[i], ctx))
					}
					present[i] = true
					afterCommit = true
				}
			}
			nt := dayHasBlocks && res[I] != "ok"
			cls := []string{"call:" + p.Name, "errno:" + errno, "mode:" + mode}
			if res[I] != "ok" {
				cls = append(cls, "write-out-reported-error")
			} else {
				cls = append(cls, "fault-tolerated")
			}
			if afterCommit {
				cls = append(cls, "error-after-commit")
			}
			evid.Case(fmt.Sprintf("%v|%d|%s|%s", h.Describe(), p.Index, errno, mode), nt, cls...)
			if evid.WantSample(nt) {
				evid.Sample(map[string]any{"history": h.Describe(), "fault": fmt.Sprintf("%s -> %s (%s)", p, errno, mode), "results": res[:end]}, nt)
			}
			_ = reportedErr
			want := h.DBOf(func(i int) bool { return present[i] })
			si := info[I]
			dirPending := present[I] && res[I] != "ok" && si.metaRename >= 0 && p.Index > si.metaRename && (si.dirRename < 0 || p.Index <= si.dirRename)
			if v := crashlab.Examine(child, h, db, want, crashlab.ExamOpts{Prefix: "C05", KnownStale: "C05-F4b", Inflight: I, Committed: present[I], FirstOfDay: firstOfDay, Pos: p, DirRenamePending: dirPending}); v != nil {
				t.Fatalf("%s", evid.Sig(v.Sig, "after the faulty write-out(s) (results %v): %s\n%s", res[:end], v.Msg, ctx))
			}
			// fault cleared: the remaining write-outs must succeed
			if end < len(h.Outs) {
				sc.From, sc.To = end, 0
				contPath := filepath.Join(root, "cont.json")
				if err := sc.Save(contPath); err != nil {
					t.Fatalf("harness: %v", err)
				}
				cres, err := crashlab.RunPlain(writer, contPath)
				if err != nil {
					t.Fatalf("%s", evid.Sig("C05:continued-writer-died", "the writer died after the fault cleared: %v\n%s", err, ctx))
				}
				for i := end; i < len(cres); i++ {
					if cres[i] != "ok" {
						t.Fatalf("%s", evid.Sig("C05:write-after-fault-failed", "write-out #%d after the fault cleared fails: %s\n%s", i, cres[i], ctx))
					}
					present[i] = true
				}
				healed := false
				for i := end; i < len(h.Outs); i++ {
					if h.Outs[i].Iface == h.Outs[I].Iface && crashlab.DayOf(h.Outs[i].Block.Ts) == crashlab.DayOf(h.Outs[I].Block.Ts) {
						healed = true
					}
				}
				stale := -1
				if dirPending && !healed {
					stale = I
				}
				want = h.DBOf(func(i int) bool { return present[i] })
				if v := crashlab.Examine(child, h, db, want, crashlab.ExamOpts{Prefix: "C05", KnownStale: "C05-F4b", Inflight: stale, Committed: stale >= 0, Pos: p, DirRenamePending: stale >= 0}); v != nil {
					t.Fatalf("%s", evid.Sig(v.Sig+":after-fault-cleared", "after the remaining write-outs: %s\n%s", v.Msg, ctx))
				}
			}
			sc.From, sc.To = 0, 0
		}
	})
}
