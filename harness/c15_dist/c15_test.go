// C15 — the merged result of a distributed query is the same for every order
// in which the per-host results arrive: rows are the union of the hosts' rows,
// totals and statistics are the sums, the hit count accounts for merged rows,
// and every failed host is reported with its error. The final result of a
// streaming query equals the result of the same query run without streaming.
//
// A stub distributed.Querier delivers generated per-host results in a chosen
// order to the real distributed.QueryRunner (Run and RunStreaming with a
// recording sse.Sender). Every order (all permutations for <= 5 hosts, drawn
// ones above) must produce the same result, and that result must equal an
// independently written reference merge.
package c15

import (
	"context"
	"encoding/json"
	"errors"
	"fmt"
	"io"
	"net/netip"
	"sort"
	"strings"
	"sync"
	"testing"
	"time"

	"github.com/danielgtaylor/huma/v2/sse"
	gqdist "github.com/els0r/goProbe/v4/cmd/global-query/pkg/distributed"
	"github.com/els0r/goProbe/v4/pkg/api"
	"github.com/els0r/goProbe/v4/pkg/distributed/hosts"
	"github.com/els0r/goProbe/v4/pkg/query"
	"github.com/els0r/goProbe/v4/pkg/results"
	"github.com/els0r/goProbe/v4/pkg/types"
	"github.com/els0r/goProbe/v4/pkg/types/workload"
	"github.com/els0r/telemetry/logging"
	"pgregory.net/rapid"

	"verifharness/internal/evid"
)

const (
	findingStats     = "C15-F12" // workload.Stats.Add: BlocksProcessed added twice, BytesLoaded never
	findingStreaming = "C15-F15" // streaming: an empty first reply leaves Status at "missing data"
)

func TestMain(m *testing.M) {
	evid.Rule("1-6 per-host results (rows over a shared pool of 8 keys so that keys overlap across hosts, totals, stats or none, hits >= rows, interfaces, host status; kinds rows/empty/failed with plain or wrapped errors) and a query (attribute set with or without time/iface, sort by bytes/packets, direction, ascending, limit 1..1000); " +
		"a stub Querier delivers them in every permutation (<= 5 hosts: all H!; 6 hosts: 24 drawn, thorough 120) over a pre-filled or an unbuffered channel, each order both through Run and RunStreaming; " +
		"non-trivial = >= 2 hosts sharing >= 1 row key, or >= 1 failed host together with >= 1 successful one; distinct by canonical JSON of the generated case")
	evid.Assume("Summary.First/Last, Summary.Timings, Query and Hostname of the merged result are not compared (last-writer-wins / time dependent; the property does not name them)",
		"Status is only compared between orders and between Run and RunStreaming, not against the reference",
		"hosts have distinct names, a host's rows have distinct keys, timestamps are UTC instants or zero and the host ID label is a function of the host name label (otherwise the documented row order has ties, which is C14's subject)",
		"a failed host must be reported with code 'error' and the message of its error or of an error it wraps (the code documents the unwrapping)",
		"time binning (time_resolution) and keepalive forwarding are not exercised; the sse.Sender always succeeds",
		"reference row order: by the sort column of the statement (bytes/packets of the selected direction, or time), ties by attributes (sip, dip, proto, dport) then labels (time, host, iface), reversed for descending; then the limit")
	_, _ = logging.Init(logging.LevelError, logging.EncodingLogfmt, logging.WithOutput(io.Discard), logging.WithErrorOutput(io.Discard))
	evid.Main(m)
}

// ---- case description (JSON-encodable; the canonical form of a case)

type ctr struct {
	BR, BS, PR, PS uint64
}

func (c ctr) counters() types.Counters {
	return types.Counters{BytesRcvd: c.BR, BytesSent: c.BS, PacketsRcvd: c.PR, PacketsSent: c.PS}
}

type keySpec struct {
	TS    int64  `json:"ts,omitempty"` // 0 = no timestamp label
	Iface string `json:"iface,omitempty"`
	Host  string `json:"host,omitempty"`
	SIP   string `json:"sip,omitempty"`
	DIP   string `json:"dip,omitempty"`
	Proto uint8  `json:"proto,omitempty"`
	Dport uint16 `json:"dport,omitempty"`
}

type rowSpec struct {
	Key int `json:"k"` // index into the key pool
	C   ctr `json:"c"`
}

type statsSpec struct {
	BytesLoaded, BytesDecompressed, BlocksProcessed, BlocksCorrupted, DirectoriesProcessed, Workloads uint64
}

const (
	kindRows = iota
	kindEmpty
	kindFailed
)

type hostSpec struct {
	Name       string     `json:"name"`
	Kind       int        `json:"kind"`
	Rows       []rowSpec  `json:"rows,omitempty"`
	Totals     ctr        `json:"totals"`
	Stats      *statsSpec `json:"stats,omitempty"`
	HitsExtra  int        `json:"hits_extra,omitempty"`
	Ifaces     []string   `json:"ifaces,omitempty"`
	StatusCode string     `json:"status,omitempty"`
	StatusMsg  string     `json:"status_msg,omitempty"`
	NoStatuses bool       `json:"no_statuses,omitempty"` // the reply carries no hosts_statuses map
	DataAvail  bool       `json:"data_available,omitempty"`
	First      int64      `json:"first,omitempty"`
	Last       int64      `json:"last,omitempty"`
	ErrMsg     string     `json:"err,omitempty"`
	ErrWrap    string     `json:"err_wrap,omitempty"` // non-empty: the error is fmt.Errorf(ErrWrap+": %w", errors.New(ErrMsg))
}

type caseSpec struct {
	Query     string     `json:"query"`
	SortBy    string     `json:"sort_by"`
	In        bool       `json:"in,omitempty"`
	Out       bool       `json:"out,omitempty"`
	Sum       bool       `json:"sum,omitempty"`
	Ascending bool       `json:"asc,omitempty"`
	Limit     uint64     `json:"limit"`
	Keys      []keySpec  `json:"keys"`
	Hosts     []hostSpec `json:"hosts"`
	Async     bool       `json:"async,omitempty"`      // results are sent by a goroutine over an unbuffered channel
	StatsZero bool       `json:"stats_zero,omitempty"` // excluding mode for C15-F12
	NoEmpty1  bool       `json:"no_empty_first,omitempty"`
}

var hostNames = []string{"hostA", "hostB", "hostC", "hostD", "hostE", "hostF"}

func hostID(name string) string {
	if name == "" {
		return ""
	}
	return "id-" + name
}

// ---- generator

var (
	smallU  = []uint64{0, 0, 1, 1, 2, 3, 5, 10, 1000, 1 << 33}
	sips    = []string{"10.0.0.1", "10.0.0.2", "2001:db8::1"}
	dips    = []string{"10.0.1.1", "192.168.0.9"}
	tsPool  = []int64{1700000100, 1700000400, 1700000700}
	ifPool  = []string{"eth0", "eth1", "eth2"}
	queries = []struct {
		q                        string
		time, iface, dport, host bool
	}{
		{q: "sip,dip"},
		{q: "sip,dip,dport,proto", dport: true},
		{q: "time,sip", time: true},
		{q: "iface,sip,dip", iface: true},
		{q: "time,iface,sip,dip,dport,proto", time: true, iface: true, dport: true},
		{q: "sip", host: true},
	}
)

func genCtr(t *rapid.T, label string) ctr {
	g := rapid.SampledFrom(smallU)
	return ctr{g.Draw(t, label+".br"), g.Draw(t, label+".bs"), g.Draw(t, label+".pr"), g.Draw(t, label+".ps")}
}

func genCase(t *rapid.T) caseSpec {
	var c caseSpec
	q := rapid.SampledFrom(queries).Draw(t, "query")
	c.Query = q.q
	c.SortBy = rapid.SampledFrom([]string{"bytes", "packets"}).Draw(t, "sortby")
	switch rapid.IntRange(0, 3).Draw(t, "direction") {
	case 1:
		c.In = true
	case 2:
		c.Out = true
	case 3:
		c.Sum = true
	}
	c.Ascending = rapid.Bool().Draw(t, "asc")
	c.Limit = rapid.SampledFrom([]uint64{1, 2, 3, 5, 1000, 1000}).Draw(t, "limit")
	c.Async = rapid.Bool().Draw(t, "async")
	c.StatsZero = rapid.IntRange(0, 2).Draw(t, "statszero") == 1
	c.NoEmpty1 = rapid.IntRange(0, 1).Draw(t, "noemptyfirst") == 1

	// wide cases: more than 100 distinct keys and limits around and above 100 (the cap goProbe applies to the
	// partial results of a streaming query), keys and counters derived from a few draws
	wide := rapid.IntRange(0, 5).Draw(t, "wide") == 0
	if wide {
		c.Limit = rapid.SampledFrom([]uint64{99, 100, 101, 150, 250, 1000}).Draw(t, "widelimit")
		n := rapid.IntRange(101, 320).Draw(t, "poolsize")
		for i := 0; i < n; i++ {
			k := keySpec{SIP: fmt.Sprintf("10.%d.%d.%d", 8+i/65536, (i/256)%256, i%256)}
			if strings.Contains(q.q, "dip") {
				k.DIP = dips[i%len(dips)]
			}
			if q.dport {
				k.Dport, k.Proto = uint16(1+i%7), 6
			}
			if q.time {
				k.TS = tsPool[i%len(tsPool)]
			}
			if q.iface {
				k.Iface = ifPool[i%len(ifPool)]
			}
			c.Keys = append(c.Keys, k)
		}
	}

	// key pool: distinct keys of the shape the query produces
	seen := map[keySpec]bool{}
	for !wide && len(c.Keys) < 8 {
		k := keySpec{SIP: rapid.SampledFrom(sips).Draw(t, "sip")}
		if strings.Contains(q.q, "dip") {
			k.DIP = rapid.SampledFrom(dips).Draw(t, "dip")
		}
		if q.dport {
			k.Dport = rapid.SampledFrom([]uint16{53, 443}).Draw(t, "dport")
			k.Proto = rapid.SampledFrom([]uint8{6, 17}).Draw(t, "proto")
		}
		if q.time {
			k.TS = rapid.SampledFrom(tsPool).Draw(t, "ts")
		}
		if q.iface {
			k.Iface = rapid.SampledFrom(ifPool).Draw(t, "iface")
		}
		if q.host {
			k.Host = rapid.SampledFrom([]string{"", "hostA", "hostB"}).Draw(t, "hostlabel")
		}
		if seen[k] {
			// construct a fresh key instead of rejecting: vary the source address deterministically
			k.SIP = fmt.Sprintf("10.9.%d.%d", len(c.Keys), len(seen))
		}
		seen[k] = true
		c.Keys = append(c.Keys, k)
	}

	nh := rapid.IntRange(1, 6).Draw(t, "nhosts")
	for i := 0; i < nh; i++ {
		l := fmt.Sprintf("h%d.", i)
		h := hostSpec{Name: hostNames[i]}
		h.Kind = rapid.SampledFrom([]int{kindRows, kindRows, kindRows, kindEmpty, kindFailed}).Draw(t, l+"kind")
		if h.Kind == kindFailed {
			h.ErrMsg = rapid.SampledFrom([]string{"connection refused", "context deadline exceeded", "couldn't find endpoint configuration for host", "boom " + h.Name}).Draw(t, l+"err")
			if rapid.Bool().Draw(t, l+"wrap") {
				h.ErrWrap = rapid.SampledFrom([]string{"failed to run query", "request failed"}).Draw(t, l+"wrapmsg")
			}
			c.Hosts = append(c.Hosts, h)
			continue
		}
		if h.Kind == kindRows && wide {
			nr := rapid.IntRange(len(c.Keys)/2, len(c.Keys)).Draw(t, l+"nrows")
			start := rapid.IntRange(0, len(c.Keys)-1).Draw(t, l+"start")
			mul := rapid.Uint64Range(1, 1000).Draw(t, l+"mul")
			for r := 0; r < nr; r++ {
				v := (uint64(r)*7919 + mul*uint64(i+1)) % 1009
				h.Rows = append(h.Rows, rowSpec{Key: (start + r) % len(c.Keys), C: ctr{v * 40, (v * mul) % 977 * 64, v, (v * mul) % 977}})
			}
			h.StatusCode = string(types.StatusOK)
		} else if h.Kind == kindRows {
			nr := rapid.IntRange(1, 5).Draw(t, l+"nrows")
			// a subset of the pool: start + stride walk keeps the keys of one host distinct
			start := rapid.IntRange(0, len(c.Keys)-1).Draw(t, l+"start")
			stride := rapid.SampledFrom([]int{1, 3, 5, 7}).Draw(t, l+"stride")
			for r := 0; r < nr; r++ {
				h.Rows = append(h.Rows, rowSpec{Key: (start + r*stride) % len(c.Keys), C: genCtr(t, fmt.Sprintf("%srow%d", l, r))})
			}
			h.StatusCode = string(types.StatusOK)
		} else {
			h.StatusCode = rapid.SampledFrom([]string{string(types.StatusEmpty), string(types.StatusMissingData)}).Draw(t, l+"status")
			h.StatusMsg = "nothing here"
		}
		h.DataAvail = h.Kind == kindRows || h.StatusCode == string(types.StatusEmpty)
		h.Totals = genCtr(t, l+"totals")
		if rapid.IntRange(0, 4).Draw(t, l+"hasstats") != 0 {
			g := rapid.SampledFrom([]uint64{0, 1, 2, 7, 300, 4096})
			h.Stats = &statsSpec{g.Draw(t, l+"s.bl"), g.Draw(t, l+"s.bd"), g.Draw(t, l+"s.bp"), g.Draw(t, l+"s.bc"), g.Draw(t, l+"s.dp"), g.Draw(t, l+"s.wl")}
			if c.StatsZero {
				h.Stats.BytesLoaded, h.Stats.BlocksProcessed = 0, 0
			}
		}
		h.HitsExtra = rapid.SampledFrom([]int{0, 0, 1, 4}).Draw(t, l+"hitsextra")
		for _, n := range ifPool {
			if rapid.Bool().Draw(t, l+"if."+n) {
				h.Ifaces = append(h.Ifaces, n)
			}
		}
		h.NoStatuses = rapid.IntRange(0, 7).Draw(t, l+"nostatuses") == 3
		h.First = rapid.SampledFrom(tsPool).Draw(t, l+"first")
		h.Last = h.First + rapid.SampledFrom([]int64{300, 600}).Draw(t, l+"len")
		c.Hosts = append(c.Hosts, h)
	}
	return c
}

// String renders a case compactly (only the keys that rows use), for failure messages.
func (c caseSpec) String() string {
	var sb strings.Builder
	dir := "both"
	switch {
	case c.Sum:
		dir = "sum"
	case c.In:
		dir = "in"
	case c.Out:
		dir = "out"
	}
	fmt.Fprintf(&sb, "{query %q sort %s/%s asc=%v limit=%d", c.Query, c.SortBy, dir, c.Ascending, c.Limit)
	if c.Async {
		sb.WriteString(" unbuffered")
	}
	for _, h := range c.Hosts {
		switch h.Kind {
		case kindFailed:
			fmt.Fprintf(&sb, "; %s FAILED %q", h.Name, h.err().Error())
			continue
		case kindEmpty:
			fmt.Fprintf(&sb, "; %s EMPTY(%s)", h.Name, h.StatusCode)
		default:
			fmt.Fprintf(&sb, "; %s rows[", h.Name)
			for i, r := range h.Rows {
				if i > 0 {
					sb.WriteString(" ")
				}
				k := c.Keys[r.Key]
				fmt.Fprintf(&sb, "k%d(", r.Key)
				if k.TS != 0 {
					fmt.Fprintf(&sb, "ts=%d ", k.TS)
				}
				if k.Iface != "" {
					fmt.Fprintf(&sb, "if=%s ", k.Iface)
				}
				if k.Host != "" {
					fmt.Fprintf(&sb, "host=%s ", k.Host)
				}
				fmt.Fprintf(&sb, "%s>%s %d:%d)=%d/%d/%d/%d", k.SIP, k.DIP, k.Proto, k.Dport, r.C.BR, r.C.BS, r.C.PR, r.C.PS)
			}
			sb.WriteString("]")
		}
		fmt.Fprintf(&sb, " totals=%d/%d/%d/%d hits=%d ifaces=%v", h.Totals.BR, h.Totals.BS, h.Totals.PR, h.Totals.PS, len(h.Rows)+h.HitsExtra, h.Ifaces)
		if h.Stats != nil {
			fmt.Fprintf(&sb, " stats=%+v", *h.Stats)
		}
		if h.NoStatuses {
			sb.WriteString(" no-hosts-statuses")
		}
	}
	sb.WriteString("}")
	return sb.String()
}

// ---- building the per-host results handed to the aggregation (fresh for every run:
// the aggregation modifies the results it receives)

func (k keySpec) labels() results.Labels {
	l := results.Labels{Iface: k.Iface, Hostname: k.Host, HostID: hostID(k.Host)}
	if k.TS != 0 {
		l.Timestamp = time.Unix(k.TS, 0).UTC()
	}
	return l
}

func (k keySpec) attributes() results.Attributes {
	a := results.Attributes{IPProto: k.Proto, DstPort: k.Dport}
	if k.SIP != "" {
		a.SrcIP = netip.MustParseAddr(k.SIP)
	}
	if k.DIP != "" {
		a.DstIP = netip.MustParseAddr(k.DIP)
	}
	return a
}

func (h hostSpec) err() error {
	if h.Kind != kindFailed {
		return nil
	}
	e := errors.New(h.ErrMsg)
	if h.ErrWrap != "" {
		return fmt.Errorf("%s: %w", h.ErrWrap, e)
	}
	return e
}

func (c caseSpec) build(h hostSpec) *results.Result {
	r := results.New()
	if h.Kind == kindFailed {
		// what the API client querier does with a failed host
		r.SetErr(h.err())
		r.Hostname = h.Name
		return r
	}
	r.Start()
	r.Hostname = h.Name
	for _, rs := range h.Rows {
		k := c.Keys[rs.Key]
		r.Rows = append(r.Rows, results.Row{Labels: k.labels(), Attributes: k.attributes(), Counters: rs.C.counters()})
	}
	r.Status = results.Status{Code: types.Status(h.StatusCode), Message: h.StatusMsg}
	if h.NoStatuses {
		r.HostsStatuses = nil
	} else {
		r.HostsStatuses = results.HostsStatuses{h.Name: r.Status}
	}
	r.Summary.Interfaces = append(results.Interfaces{}, h.Ifaces...)
	r.Summary.First, r.Summary.Last = time.Unix(h.First, 0).UTC(), time.Unix(h.Last, 0).UTC()
	r.Summary.Totals = h.Totals.counters()
	r.Summary.Hits = results.Hits{Total: len(h.Rows) + h.HitsExtra, Displayed: len(h.Rows)}
	r.Summary.DataAvailable = h.DataAvail
	r.Summary.Stats = nil
	if s := h.Stats; s != nil {
		r.Summary.Stats = &workload.Stats{BytesLoaded: s.BytesLoaded, BytesDecompressed: s.BytesDecompressed, BlocksProcessed: s.BlocksProcessed,
			BlocksCorrupted: s.BlocksCorrupted, DirectoriesProcessed: s.DirectoriesProcessed, Workloads: s.Workloads}
	}
	r.Query = results.Query{Attributes: strings.Split(c.Query, ","), Condition: ""}
	return r
}

// ---- stubs

type stubResolver struct{ out hosts.Hosts }

func (s stubResolver) Resolve(_ context.Context, _ string) (hosts.Hosts, error) { return s.out, nil }

type stubQuerier struct {
	deliver []*results.Result
	async   bool
}

func (s *stubQuerier) Query(_ context.Context, _ hosts.Hosts, _ *query.Args) (<-chan *results.Result, <-chan struct{}) {
	kc := make(chan struct{})
	close(kc)
	if s.async {
		rc := make(chan *results.Result)
		go func() {
			for _, r := range s.deliver {
				rc <- r
			}
			close(rc)
		}()
		return rc, kc
	}
	rc := make(chan *results.Result, len(s.deliver))
	for _, r := range s.deliver {
		rc <- r
	}
	close(rc)
	return rc, kc
}

type recorder struct {
	mu       sync.Mutex
	partials int
	others   int
}

func (r *recorder) send(msg sse.Message) error {
	r.mu.Lock()
	defer r.mu.Unlock()
	if _, ok := msg.Data.(*api.PartialResult); ok {
		r.partials++
	} else {
		r.others++
	}
	return nil
}

func (c caseSpec) args() *query.Args {
	names := make([]string, len(c.Hosts))
	for i, h := range c.Hosts {
		names[i] = h.Name
	}
	return &query.Args{
		Query:      c.Query,
		Ifaces:     "eth0,eth1,eth2",
		QueryHosts: strings.Join(names, ","),
		Format:     types.FormatJSON,
		First:      "1700000000",
		Last:       "1700003600",
		SortBy:     c.SortBy,
		In:         c.In, Out: c.Out, Sum: c.Sum,
		SortAscending: c.Ascending,
		NumResults:    c.Limit,
		MaxMemPct:     60,
	}
}

// run executes the distributed query with the per-host results delivered in the given order
func (c caseSpec) run(order []int, streaming bool) (*results.Result, *recorder, error) {
	hl := make(hosts.Hosts, len(c.Hosts))
	for i, h := range c.Hosts {
		hl[i] = h.Name
	}
	deliver := make([]*results.Result, len(order))
	for i, hi := range order {
		deliver[i] = c.build(c.Hosts[hi])
	}
	rm := hosts.NewResolverMap()
	rm.Set("string", stubResolver{out: hl})
	qr := gqdist.NewQueryRunner(rm, &stubQuerier{deliver: deliver, async: c.Async})
	if !streaming {
		res, err := qr.Run(context.Background(), c.args())
		return res, nil, err
	}
	rec := &recorder{}
	res, err := qr.RunStreaming(context.Background(), c.args(), sse.Sender(rec.send))
	return res, rec, err
}

// ---- reference merge (written from the property statement, not from the code)

type refResult struct {
	rows       []results.Row
	totals     types.Counters
	stats      statsSpec
	hitsTotal  int
	interfaces []string
	okStatuses map[string]results.Status // statuses reported by successful hosts
	failed     map[string][]string       // failed host -> acceptable messages
	merged     int                       // rows that fell onto an existing key
	nMergedAll int                       // number of distinct keys before the limit
}

func sortKey(r *results.Row, sortBy results.SortOrder, dir types.Direction) uint64 {
	c := r.Counters
	switch sortBy {
	case results.SortPackets:
		switch dir {
		case types.DirectionIn:
			return c.PacketsRcvd
		case types.DirectionOut:
			return c.PacketsSent
		}
		return c.PacketsRcvd + c.PacketsSent
	case results.SortTraffic:
		switch dir {
		case types.DirectionIn:
			return c.BytesRcvd
		case types.DirectionOut:
			return c.BytesSent
		}
		return c.BytesRcvd + c.BytesSent
	}
	return uint64(r.Labels.Timestamp.Unix())
}

// naturalLess is the documented tie order: attributes (sip, dip, proto, dport), then labels (time, host, iface)
func naturalLess(a, b *results.Row) bool {
	if x := a.Attributes.SrcIP.Compare(b.Attributes.SrcIP); x != 0 {
		return x < 0
	}
	if x := a.Attributes.DstIP.Compare(b.Attributes.DstIP); x != 0 {
		return x < 0
	}
	if a.Attributes.IPProto != b.Attributes.IPProto {
		return a.Attributes.IPProto < b.Attributes.IPProto
	}
	if a.Attributes.DstPort != b.Attributes.DstPort {
		return a.Attributes.DstPort < b.Attributes.DstPort
	}
	if !a.Labels.Timestamp.Equal(b.Labels.Timestamp) {
		return a.Labels.Timestamp.Before(b.Labels.Timestamp)
	}
	if a.Labels.Hostname != b.Labels.Hostname {
		return a.Labels.Hostname < b.Labels.Hostname
	}
	return a.Labels.Iface < b.Labels.Iface
}

func (c caseSpec) reference(stmt *query.Statement) refResult {
	ref := refResult{okStatuses: map[string]results.Status{}, failed: map[string][]string{}}
	sum := map[int]types.Counters{}
	seenKey := map[int]bool{}
	ifs := map[string]bool{}
	for _, h := range c.Hosts {
		if h.Kind == kindFailed {
			msgs := []string{}
			for e := h.err(); e != nil; e = errors.Unwrap(e) {
				msgs = append(msgs, e.Error())
			}
			ref.failed[h.Name] = msgs
			continue
		}
		if !h.NoStatuses {
			ref.okStatuses[h.Name] = results.Status{Code: types.Status(h.StatusCode), Message: h.StatusMsg}
		}
		for _, r := range h.Rows {
			if seenKey[r.Key] {
				ref.merged++
			}
			seenKey[r.Key] = true
			x := sum[r.Key]
			x.Add(r.C.counters())
			sum[r.Key] = x
		}
		ref.totals.Add(h.Totals.counters())
		if s := h.Stats; s != nil {
			ref.stats.BytesLoaded += s.BytesLoaded
			ref.stats.BytesDecompressed += s.BytesDecompressed
			ref.stats.BlocksProcessed += s.BlocksProcessed
			ref.stats.BlocksCorrupted += s.BlocksCorrupted
			ref.stats.DirectoriesProcessed += s.DirectoriesProcessed
			ref.stats.Workloads += s.Workloads
		}
		ref.hitsTotal += len(h.Rows) + h.HitsExtra
		for _, n := range h.Ifaces {
			ifs[n] = true
		}
	}
	ref.hitsTotal -= ref.merged
	for n := range ifs {
		ref.interfaces = append(ref.interfaces, n)
	}
	sort.Strings(ref.interfaces)
	for k, cnt := range sum {
		ks := c.Keys[k]
		ref.rows = append(ref.rows, results.Row{Labels: ks.labels(), Attributes: ks.attributes(), Counters: cnt})
	}
	ref.nMergedAll = len(ref.rows)
	asc := stmt.SortAscending
	sort.Slice(ref.rows, func(i, j int) bool {
		a, b := &ref.rows[i], &ref.rows[j]
		ka, kb := sortKey(a, stmt.SortBy, stmt.Direction), sortKey(b, stmt.SortBy, stmt.Direction)
		if ka != kb {
			if asc {
				return ka < kb
			}
			return ka > kb
		}
		if asc {
			return naturalLess(a, b)
		}
		return naturalLess(b, a)
	})
	if uint64(len(ref.rows)) > stmt.NumResults {
		ref.rows = ref.rows[:stmt.NumResults]
	}
	return ref
}

// ---- comparison

type diff struct {
	clause string
	field  string // for statistics: the field name
	msg    string
}

func rowString(r results.Row) string {
	ts := "-"
	if !r.Labels.Timestamp.IsZero() {
		ts = fmt.Sprint(r.Labels.Timestamp.Unix())
	}
	return fmt.Sprintf("{ts=%s if=%s host=%s/%s %v>%v p%d:%d | %d %d %d %d}", ts, r.Labels.Iface, r.Labels.Hostname, r.Labels.HostID,
		r.Attributes.SrcIP, r.Attributes.DstIP, r.Attributes.IPProto, r.Attributes.DstPort,
		r.Counters.BytesRcvd, r.Counters.BytesSent, r.Counters.PacketsRcvd, r.Counters.PacketsSent)
}

func rowsString(rows []results.Row) string {
	s := make([]string, len(rows))
	for i, r := range rows {
		s[i] = rowString(r)
	}
	return "[" + strings.Join(s, " ") + "]"
}

func rowEq(a, b results.Row) bool {
	return a.Labels.Timestamp.Equal(b.Labels.Timestamp) && a.Labels.Iface == b.Labels.Iface && a.Labels.Hostname == b.Labels.Hostname &&
		a.Labels.HostID == b.Labels.HostID && a.Attributes == b.Attributes && a.Counters == b.Counters
}

func rowsEq(a, b []results.Row) bool {
	if len(a) != len(b) {
		return false
	}
	for i := range a {
		if !rowEq(a[i], b[i]) {
			return false
		}
	}
	return true
}

func statsOf(r *results.Result) statsSpec {
	s := r.Summary.Stats
	if s == nil {
		return statsSpec{}
	}
	return statsSpec{s.BytesLoaded, s.BytesDecompressed, s.BlocksProcessed, s.BlocksCorrupted, s.DirectoriesProcessed, s.Workloads}
}

func statsDiffs(clause string, got, want statsSpec) []diff {
	var out []diff
	f := func(name string, g, w uint64) {
		if g != w {
			out = append(out, diff{clause, name, fmt.Sprintf("Stats.%s = %d, expected %d", name, g, w)})
		}
	}
	f("BytesLoaded", got.BytesLoaded, want.BytesLoaded)
	f("BytesDecompressed", got.BytesDecompressed, want.BytesDecompressed)
	f("BlocksProcessed", got.BlocksProcessed, want.BlocksProcessed)
	f("BlocksCorrupted", got.BlocksCorrupted, want.BlocksCorrupted)
	f("DirectoriesProcessed", got.DirectoriesProcessed, want.DirectoriesProcessed)
	f("Workloads", got.Workloads, want.Workloads)
	return out
}

func ifacesEq(a, b []string) bool {
	if len(a) != len(b) {
		return false
	}
	for i := range a {
		if a[i] != b[i] {
			return false
		}
	}
	return true
}

// againstReference lists the differences between a merged result and the reference merge
func againstReference(got *results.Result, ref refResult) []diff {
	var out []diff
	if !rowsEq(got.Rows, ref.rows) {
		out = append(out, diff{"C15:rows-union", "", fmt.Sprintf("rows %s, expected %s", rowsString(got.Rows), rowsString(ref.rows))})
	}
	if got.Summary.Totals != ref.totals {
		out = append(out, diff{"C15:totals-sum", "", fmt.Sprintf("totals %+v, expected %+v", got.Summary.Totals, ref.totals)})
	}
	out = append(out, statsDiffs("C15:stats-sum", statsOf(got), ref.stats)...)
	if got.Summary.Hits.Total != ref.hitsTotal {
		out = append(out, diff{"C15:hits", "", fmt.Sprintf("Hits.Total = %d, expected %d (sum of the hosts' hits minus %d merged rows)", got.Summary.Hits.Total, ref.hitsTotal, ref.merged)})
	}
	if got.Summary.Hits.Displayed != len(ref.rows) {
		out = append(out, diff{"C15:hits", "", fmt.Sprintf("Hits.Displayed = %d, expected %d", got.Summary.Hits.Displayed, len(ref.rows))})
	}
	if !ifacesEq(got.Summary.Interfaces, ref.interfaces) {
		out = append(out, diff{"C15:interfaces", "", fmt.Sprintf("interfaces %q, expected %q", got.Summary.Interfaces, ref.interfaces)})
	}
	// host statuses: every failed host with its message, every reported status of the others, nothing else
	for h, msgs := range ref.failed {
		st, ok := got.HostsStatuses[h]
		if !ok {
			out = append(out, diff{"C15:failed-host-reported", "", fmt.Sprintf("failed host %q is missing from the hosts statuses %v", h, got.HostsStatuses)})
			continue
		}
		okMsg := false
		for _, m := range msgs {
			if st.Message == m {
				okMsg = true
			}
		}
		if st.Code != types.StatusError || !okMsg {
			out = append(out, diff{"C15:failed-host-reported", "", fmt.Sprintf("failed host %q reported as %+v, expected code error and one of the messages %q", h, st, msgs)})
		}
	}
	for h, want := range ref.okStatuses {
		if st, ok := got.HostsStatuses[h]; !ok || st != want {
			out = append(out, diff{"C15:host-statuses", "", fmt.Sprintf("host %q status %+v (present %v), expected %+v", h, st, ok, want)})
		}
	}
	for h := range got.HostsStatuses {
		_, f := ref.failed[h]
		_, o := ref.okStatuses[h]
		if !f && !o {
			out = append(out, diff{"C15:host-statuses", "", fmt.Sprintf("hosts statuses contain %q, which no reply reported", h)})
		}
	}
	return out
}

// between lists the differences between two merged results of the same case (what the
// property requires to be identical)
func between(clause string, a, b *results.Result, what string) []diff {
	var out []diff
	if a.Status != b.Status {
		out = append(out, diff{clause, "Status", fmt.Sprintf("%s: status %+v vs %+v", what, a.Status, b.Status)})
	}
	if len(a.HostsStatuses) != len(b.HostsStatuses) {
		out = append(out, diff{clause, "", fmt.Sprintf("%s: hosts statuses %v vs %v", what, a.HostsStatuses, b.HostsStatuses)})
	} else {
		for h, st := range a.HostsStatuses {
			if o, ok := b.HostsStatuses[h]; !ok || o != st {
				out = append(out, diff{clause, "", fmt.Sprintf("%s: status of host %q %+v vs %+v", what, h, st, o)})
			}
		}
	}
	if !rowsEq(a.Rows, b.Rows) {
		out = append(out, diff{clause, "", fmt.Sprintf("%s: rows %s vs %s", what, rowsString(a.Rows), rowsString(b.Rows))})
	}
	if a.Summary.Totals != b.Summary.Totals {
		out = append(out, diff{clause, "", fmt.Sprintf("%s: totals %+v vs %+v", what, a.Summary.Totals, b.Summary.Totals)})
	}
	for _, d := range statsDiffs(clause, statsOf(a), statsOf(b)) {
		d.msg = what + ": " + d.msg
		d.field = ""
		out = append(out, d)
	}
	if a.Summary.Hits != b.Summary.Hits {
		out = append(out, diff{clause, "", fmt.Sprintf("%s: hits %+v vs %+v", what, a.Summary.Hits, b.Summary.Hits)})
	}
	if !ifacesEq(a.Summary.Interfaces, b.Summary.Interfaces) {
		out = append(out, diff{clause, "", fmt.Sprintf("%s: interfaces %q vs %q", what, a.Summary.Interfaces, b.Summary.Interfaces)})
	}
	return out
}

// ---- permutations

func allPerms(n int) [][]int {
	var out [][]int
	p := make([]int, n)
	for i := range p {
		p[i] = i
	}
	var rec func(k int)
	rec = func(k int) {
		if k == n {
			out = append(out, append([]int{}, p...))
			return
		}
		for i := k; i < n; i++ {
			p[k], p[i] = p[i], p[k]
			rec(k + 1)
			p[k], p[i] = p[i], p[k]
		}
	}
	rec(0)
	return out
}

// emptyBeforeRows tells whether, in this delivery order, a successful reply leaves the
// merged row set empty although a later reply brings rows.
func (c caseSpec) emptyBeforeRows(order []int) bool {
	sawEmpty := false
	for _, hi := range order {
		switch c.Hosts[hi].Kind {
		case kindEmpty:
			sawEmpty = true
		case kindRows:
			return sawEmpty
		}
	}
	return false
}

// ---- the property

func TestC15OrderIndependence(t *testing.T) {
	rapid.Check(t, func(t *rapid.T) {
		c := genCase(t)
		nh := len(c.Hosts)

		var perms [][]int
		exhaustive := nh <= 5
		if exhaustive {
			perms = allPerms(nh)
		} else {
			id := make([]int, nh)
			for i := range id {
				id[i] = i
			}
			perms = append(perms, id)
			for i, n := 0, evid.Pick(23, 119); i < n; i++ {
				perms = append(perms, rapid.Permutation(id).Draw(t, fmt.Sprintf("perm%d", i)))
			}
		}

		stmt, err := c.args().Prepare()
		if err != nil {
			t.Fatalf("harness: the generated arguments cannot be prepared: %v", err)
		}
		ref := c.reference(stmt)

		// classes and bookkeeping
		nFailed, nEmpty, nRows := 0, 0, 0
		for _, h := range c.Hosts {
			switch h.Kind {
			case kindFailed:
				nFailed++
			case kindEmpty:
				nEmpty++
			default:
				nRows++
			}
		}
		overlap := ref.merged > 0
		nt := (nRows >= 2 && overlap) || (nFailed >= 1 && nFailed < nh)
		classes := []string{fmt.Sprintf("hosts=%d", nh), fmt.Sprintf("failed=%d", nFailed), fmt.Sprintf("empty=%d", nEmpty)}
		if overlap {
			classes = append(classes, "rows:overlap")
		}
		if uint64(ref.nMergedAll) > stmt.NumResults {
			classes = append(classes, "rows:limit-cuts")
		}
		if ref.nMergedAll > 100 {
			classes = append(classes, "rows:more-than-100-merged")
			if stmt.NumResults > 100 {
				classes = append(classes, "rows:limit-above-streaming-cap")
			}
		}
		if ref.nMergedAll == 0 {
			classes = append(classes, "rows:none")
		}
		if nFailed == nh {
			classes = append(classes, "hosts:all-failed")
		}
		if exhaustive {
			classes = append(classes, "perms:exhaustive")
		} else {
			classes = append(classes, "perms:sampled")
		}
		classes = append(classes, "sort:"+stmt.SortBy.String(), "delivery:"+map[bool]string{false: "prefilled", true: "unbuffered"}[c.Async])
		canon, _ := json.Marshal(c)
		evid.Case(string(canon), nt, classes...)
		evid.ClassN("orders-run", int64(len(perms)))
		if evid.WantSample(nt) {
			evid.Sample(json.RawMessage(canon), nt)
		}
		statsExcluded := c.StatsZero && evid.IsOpen(findingStats)
		if statsExcluded {
			evid.Excluded(findingStats)
		}
		streamExclude := c.NoEmpty1 && evid.IsOpen(findingStreaming)

		wit := func(order []int) string {
			names := make([]string, len(order))
			for i, hi := range order {
				names[i] = c.Hosts[hi].Name
			}
			return fmt.Sprintf("order %v of case %s", names, c.String())
		}
		knownOnce := map[string]bool{} // a finding is acknowledged once per case, not once per order
		known := func(id, witness string) bool {
			if knownOnce[id] {
				return true
			}
			if evid.Known(id, witness) {
				knownOnce[id] = true
				return true
			}
			return false
		}

		var base *results.Result
		var baseOrder []int
		for _, order := range perms {
			got, _, err := c.run(order, false)
			if err != nil || got == nil {
				t.Fatalf("%s", evid.Sig("C15:run", "Run failed: %v (result %v); %s", err, got, wit(order)))
			}

			// 1. equals the reference merge
			for _, d := range againstReference(got, ref) {
				if d.clause == "C15:stats-sum" && statsAddDefect(d.field, statsOf(got), ref.stats) &&
					known(findingStats, fmt.Sprintf("%s; %s", d.msg, wit(order))) {
					continue
				}
				t.Fatalf("%s", evid.Sig(d.clause, "%s; %s", d.msg, wit(order)))
			}

			// 2. identical for every order
			if base == nil {
				base, baseOrder = got, order
			} else if ds := between("C15:order-independence", base, got, "Run"); len(ds) > 0 {
				t.Fatalf("%s", evid.Sig(ds[0].clause, "%s; %s vs %s", ds[0].msg, wit(baseOrder), wit(order)))
			}

			// 3. streaming ends with the same result
			trigger := c.emptyBeforeRows(order) && ref.nMergedAll > 0
			if trigger {
				evid.Class("streaming:empty-reply-before-first-rows")
				if streamExclude {
					evid.Excluded(findingStreaming)
					continue
				}
			}
			sgot, rec, err := c.run(order, true)
			if err != nil || sgot == nil {
				t.Fatalf("%s", evid.Sig("C15:run", "RunStreaming failed: %v (result %v); %s", err, sgot, wit(order)))
			}
			if rec.partials > 0 {
				evid.Class("streaming:partials-sent")
			}
			for _, d := range between("C15:streaming-equals-run", got, sgot, "Run vs RunStreaming") {
				if d.field == "Status" && trigger && got.Status.Code == types.StatusOK && sgot.Status.Code == types.StatusMissingData &&
					known(findingStreaming, fmt.Sprintf("%s; %s", d.msg, wit(order))) {
					continue
				}
				t.Fatalf("%s", evid.Sig(d.clause, "%s; %s", d.msg, wit(order)))
			}
		}
	})
}

// statsAddDefect decides whether a mismatch in one statistics field has exactly the
// shape of the open finding: BlocksProcessed counted twice, BytesLoaded not at all.
func statsAddDefect(field string, got, want statsSpec) bool {
	switch field {
	case "BlocksProcessed":
		return want.BlocksProcessed > 0 && got.BlocksProcessed == 2*want.BlocksProcessed
	case "BytesLoaded":
		return want.BytesLoaded > 0 && got.BytesLoaded == 0
	}
	return false
}
