// C30 — queries running during write-outs see a consistent snapshot per day.
package c30

import (
	"bytes"
	"context"
	"fmt"
	"io"
	"log/slog"
	"os"
	"runtime"
	"strconv"
	"strings"
	"sync"
	"testing"
	"testing/synctest"
	"time"

	"github.com/els0r/goProbe/v4/pkg/capture/capturetypes"
	"github.com/els0r/goProbe/v4/pkg/goDB"
	"github.com/els0r/goProbe/v4/pkg/goDB/encoder/encoders"
	"github.com/els0r/goProbe/v4/pkg/goDB/engine"
	"github.com/els0r/goProbe/v4/pkg/query"
	"github.com/els0r/goProbe/v4/pkg/verifhook"
	"github.com/els0r/telemetry/logging"
	"pgregory.net/rapid"

	"verifharness/internal/evid"
	"verifharness/internal/gen"
	"verifharness/internal/model"
	"verifharness/internal/qgen"
)

func TestMain(m *testing.M) {
	if os.Getenv("VERIF_LOG") != "" {
		_, _ = logging.Init(slog.LevelWarn, logging.EncodingLogfmt, logging.WithOutput(os.Stderr))
	} else {
		_, _ = logging.Init(slog.LevelError+4, logging.EncodingLogfmt, logging.WithOutput(io.Discard))
	}
	evid.Rule("inside a synctest bubble one writer goroutine performs 2–4 DBWriter.Write calls to 1–2 days of one interface (the first day already holds a block) while one reader runs an engine query with the time label (1–2 workers, low-memory on/off) or the interface listing, over a range that ends behind every write-out, on the pre-existing block, or on / 150 s after one of the write-outs; " +
		"both park at step points compiled into the file operations of goProbe (build tag verif: column file open/read/write, metadata open, temporary metadata creation, metadata rename, directory rename, directory listings) and a cooperative scheduler built on synctest.Wait releases one parked goroutine at a time following a rapid-drawn schedule (phased: run the reader to its k-th step, then the writer for m steps, …, and uniform choices); " +
		"oracle: the reader returns no error and reports no corrupted block; per day the block timestamps in the result are a prefix of that day's write-outs containing every write-out that completed before the query started and none that started after it finished; the rows of every visible block equal the model; the listing equals the sum of such a prefix; " +
		"non-trivial = at least one writer step executed between the reader's first and last step; distinct by (history, reader, schedule)")
	evid.Assume("schedules are owned at the granularity of the instrumented file operations, not machine instructions", "one writer (goProbe has a single writer per interface) and one reader")
	evid.Main(m)
}

const day0 = int64(1700006400)

func gid() int64 {
	var buf [64]byte
	n := runtime.Stack(buf[:], false)
	f := bytes.Fields(buf[:n])
	id, _ := strconv.ParseInt(string(f[1]), 10, 64)
	return id
}

type parkedG struct {
	actor string // "writer" | "reader"
	point string
	ch    chan struct{}
}

type scheduler struct {
	mu        sync.Mutex
	parked    []*parkedG
	writerGid int64
	trace     []string
}

func (s *scheduler) step(point string) {
	p := &parkedG{actor: "reader", point: point[:strings.IndexByte(point+" ", ' ')], ch: make(chan struct{})}
	s.mu.Lock()
	if gid() == s.writerGid {
		p.actor = "writer"
	}
	s.parked = append(s.parked, p)
	s.mu.Unlock()
	<-p.ch
}

type phase struct {
	prefer string // reader | writer | any
	n      int
}

type wout struct {
	block     model.Block
	startTick int
	doneTick  int
	err       error
}

type outcome struct {
	failSig, failMsg   string
	writerStepsInside  int
	readerSteps        int
	trace              []string
	inconclusive       string
	forcedSecondRename bool
}

func TestC30Snapshot(tt *testing.T) {
	rapid.Check(tt, func(t *rapid.T) {
		// ---- the history
		nw := rapid.IntRange(2, 4).Draw(t, "nwrites")
		pre := model.Block{Ts: day0 + 300, Flows: []model.Flow{mkFlow(0, 0)}, Drops: 1}
		var outs []*wout
		slot := 1
		for i := 0; i < nw; i++ {
			adv := rapid.SampledFrom([]int{1, 1, 2, 288}).Draw(t, fmt.Sprintf("w%d.adv", i))
			slot += adv
			b := model.Block{Ts: day0 + int64(slot)*300, Drops: uint64(i)}
			for f, n := 0, rapid.IntRange(1, 3).Draw(t, fmt.Sprintf("w%d.nflows", i)); f < n; f++ {
				b.Flows = append(b.Flows, mkFlow(i+1, f))
			}
			outs = append(outs, &wout{block: b, startTick: -1, doneTick: -1})
		}
		readerKind := rapid.SampledFrom([]string{"query", "query", "list"}).Draw(t, "reader")
		units := rapid.IntRange(1, 2).Draw(t, "units")
		lowmem := rapid.Bool().Draw(t, "lowmem")
		nph := rapid.IntRange(1, 8).Draw(t, "nphases")
		var phases []phase
		for i := 0; i < nph; i++ {
			phases = append(phases, phase{rapid.SampledFrom([]string{"reader", "writer", "any"}).Draw(t, fmt.Sprintf("ph%d.who", i)), rapid.IntRange(1, 12).Draw(t, fmt.Sprintf("ph%d.n", i))})
		}
		choices := rapid.SliceOfN(rapid.IntRange(0, 7), 40, 40).Draw(t, "choices")
		readerDelay := rapid.IntRange(0, 30).Draw(t, "readerStartsAfter")
		// excluding mode for the open finding C30-F28: at most one directory rename while the reader is active
		excluding := rapid.Bool().Draw(t, "excludeSecondRename")
		// upper bound of the requested range: behind everything, on the pre-existing block, on / shortly after a write-out
		var lastBound int64
		boundKind := rapid.SampledFrom([]string{"open", "open", "open", "pre", "at-write-out", "after-write-out"}).Draw(t, "bound")
		switch boundKind {
		case "pre":
			lastBound = pre.Ts
		case "at-write-out":
			lastBound = outs[rapid.IntRange(0, nw-1).Draw(t, "boundAt")].block.Ts
		case "after-write-out":
			lastBound = outs[rapid.IntRange(0, nw-1).Draw(t, "boundAt")].block.Ts + 150
		}

		dir, err := os.MkdirTemp(os.Getenv("VERIF_WORK"), "c30-")
		if err != nil {
			t.Fatalf("tempdir: %v", err)
		}
		defer os.RemoveAll(dir)
		if err := goDB.NewDBWriter(dir, "eth0", encoders.EncoderTypeLZ4).Write(gen.FlowMapOf(pre.Flows), capturetypes.CaptureStats{Dropped: pre.Drops}, pre.Ts); err != nil {
			t.Fatalf("harness: %v", err)
		}

		var oc outcome
		synctest.Test(tt, func(_ *testing.T) {
			oc = runBubble(dir, pre, outs, readerKind, units, lowmem, phases, choices, readerDelay, excluding, lastBound)
		})
		var hist []string
		hist = append(hist, fmt.Sprintf("pre-existing block %d", pre.Ts))
		for i, o := range outs {
			hist = append(hist, fmt.Sprintf("write-out #%d ts=%d (day %d) %d flows [started at tick %d, done at tick %d, err %v]", i, o.block.Ts, (o.block.Ts-day0)/86400, len(o.block.Flows), o.startTick, o.doneTick, o.err))
		}
		nt := oc.writerStepsInside > 0
		cls := []string{"reader:" + readerKind, fmt.Sprintf("units:%d", units), fmt.Sprintf("lowmem:%v", lowmem), "range-end:" + boundKind}
		if nt {
			cls = append(cls, "writer-steps-inside-query")
		}
		if lastBound > 0 {
			hist = append(hist, fmt.Sprintf("requested range ends at %d", lastBound))
		}
		evid.Case(fmt.Sprintf("%v|%s|%d|%v|%v", hist, readerKind, units, lowmem, oc.trace), nt, cls...)
		if evid.WantSample(nt) {
			evid.Sample(map[string]any{"history": hist, "reader": readerKind, "units": units, "lowmem": lowmem, "schedule": oc.trace}, nt)
		}
		if oc.inconclusive != "" {
			t.Fatalf("INCONCLUSIVE[%s]", oc.inconclusive)
		}
		if excluding {
			evid.Excluded("C30-F28")
		}
		if oc.failSig != "" && !excluding && (oc.failSig == "C30:committed-block-missing" || oc.failSig == "C30:blocks-corrupted" || oc.failSig == "C30:not-a-prefix") && secondRenameDuringRecovery(oc.trace) {
			if evid.Known("C30-F28", fmt.Sprintf("%s; schedule %s", oc.failMsg, strings.Join(oc.trace, " "))) {
				return
			}
			oc.failSig += ":second-rename-during-recovery"
		}
		if oc.failSig != "" {
			t.Fatalf("%s", evid.Sig(oc.failSig, "%s\n  reader=%s units=%d lowmem=%v\n  history:\n    %s\n  schedule: %s", oc.failMsg, readerKind, units, lowmem, strings.Join(hist, "\n    "), strings.Join(oc.trace, " ")))
		}
	})
}

func mkFlow(w, f int) model.Flow {
	fl := gen.FlowOf(fmt.Sprintf("10.9.%d.%d", w+1, f+1), "192.168.1.34", uint16(80+f), 6)
	fl.PR, fl.BR, fl.PS, fl.BS = uint64(w+1), uint64(100*(w+1)), uint64(f+1), uint64(60*(f+1))
	return fl
}

func runBubble(dir string, pre model.Block, outs []*wout, readerKind string, units int, lowmem bool, phases []phase, choices []int, readerDelay int, excluding bool, bound ...int64) (oc outcome) {
	// upper bound of the requested range (default: far behind every write-out)
	lastBound := day0 + 10*86400
	if len(bound) > 0 && bound[0] > 0 {
		lastBound = bound[0]
	}
	s := &scheduler{}
	verifhook.SetStepFn(s.step)
	defer verifhook.SetStepFn(nil)
	old := engine.VerifSetNumProcessingUnits(units)
	defer engine.VerifSetNumProcessingUnits(old)

	tick := 0
	var wg sync.WaitGroup
	writerDone, readerDone := false, false
	var mu sync.Mutex

	// writer
	wg.Add(1)
	go func() {
		defer wg.Done()
		s.mu.Lock()
		s.writerGid = gid()
		s.mu.Unlock()
		w := goDB.NewDBWriter(dir, "eth0", encoders.EncoderTypeLZ4)
		for _, o := range outs {
			s.step("writer.begin")
			mu.Lock()
			o.startTick = tick
			mu.Unlock()
			o.err = w.Write(gen.FlowMapOf(o.block.Flows), capturetypes.CaptureStats{Dropped: o.block.Drops}, o.block.Ts)
			mu.Lock()
			o.doneTick = tick
			mu.Unlock()
		}
		mu.Lock()
		writerDone = true
		mu.Unlock()
	}()

	// reader
	var (
		res                  *qgen.Response
		listSum              *goDB.InterfaceMetadata
		readErr              error
		qStartTick, qEndTick = -1, -1
	)
	wg.Add(1)
	go func() {
		defer wg.Done()
		s.step("reader.begin")
		mu.Lock()
		qStartTick = tick
		mu.Unlock()
		first, last := day0-1000, lastBound
		if readerKind == "query" {
			args := query.Args{Query: "time,sip,dip,dport,proto", Ifaces: "eth0", First: fmt.Sprint(first), Last: fmt.Sprint(last), Format: "json", MaxMemPct: 100,
				NumResults: 1 << 40, LowMem: lowmem, DNSResolution: query.DNSResolution{Timeout: time.Second, MaxRows: 25}}
			r, err := engine.NewQueryRunner(dir).Run(context.Background(), &args)
			readErr = err
			res = &qgen.Response{Result: r}
		} else {
			wm, err := goDB.NewDBWorkManager(goDB.NewMetadataQuery(), dir, "eth0", units)
			if err == nil {
				listSum, err = wm.ReadMetadata(first, last)
			}
			readErr = err
		}
		mu.Lock()
		qEndTick = tick
		readerDone = true
		mu.Unlock()
	}()

	// ---- cooperative scheduler
	phaseIdx, phaseLeft := 0, 0
	if len(phases) > 0 {
		phaseLeft = phases[0].n
	}
	firstReaderTick, lastReaderTick := -1, -1
	renamesWhileReading := 0
	var writerTicks []int
	for iter := 0; iter < 100000; iter++ {
		synctest.Wait()
		mu.Lock()
		done := writerDone && readerDone
		mu.Unlock()
		s.mu.Lock()
		n := len(s.parked)
		s.mu.Unlock()
		if done && n == 0 {
			break
		}
		if n == 0 {
			oc.inconclusive = "nothing is parked at a step point although reader or writer have not finished (blocked outside the instrumented operations)"
			return
		}
		// hold the reader back until the writer made its first steps (so that queries start in the middle of write-outs)
		s.mu.Lock()
		var cand []int
		prefer := "any"
		if phaseIdx < len(phases) {
			prefer = phases[phaseIdx].prefer
		}
		mu.Lock()
		readerActive := qStartTick >= 0 && !readerDone
		mu.Unlock()
		held := func(p *parkedG) bool {
			return excluding && readerActive && renamesWhileReading >= 1 && p.actor == "writer" && p.point == "gpdir.dir-rename"
		}
		for i, p := range s.parked {
			if p.point == "reader.begin" && tick < readerDelay && len(s.parked) > 1 {
				continue
			}
			if held(p) {
				continue
			}
			if prefer == "any" || p.actor == prefer {
				cand = append(cand, i)
			}
		}
		if len(cand) == 0 {
			for i, p := range s.parked {
				if p.point == "reader.begin" && tick < readerDelay && len(s.parked) > 1 {
					continue
				}
				if held(p) {
					continue
				}
				cand = append(cand, i)
			}
		}
		if len(cand) == 0 {
			for i := range s.parked {
				cand = append(cand, i)
			}
		}
		pick := cand[choices[tick%len(choices)]%len(cand)]
		p := s.parked[pick]
		s.parked = append(s.parked[:pick], s.parked[pick+1:]...)
		s.mu.Unlock()
		mu.Lock()
		tick++
		mu.Unlock()
		if len(oc.trace) < 400 {
			oc.trace = append(oc.trace, p.actor[:1]+":"+strings.TrimPrefix(strings.TrimPrefix(p.point, "gpfile."), "gpdir."))
		}
		if p.actor == "reader" {
			if firstReaderTick < 0 {
				firstReaderTick = tick
			}
			lastReaderTick = tick
			oc.readerSteps++
		} else if !strings.HasPrefix(p.point, "writer.") {
			writerTicks = append(writerTicks, tick)
		}
		if p.actor == "writer" && p.point == "gpdir.dir-rename" && readerActive {
			renamesWhileReading++
			if excluding && renamesWhileReading >= 2 {
				oc.forcedSecondRename = true
			}
		}
		close(p.ch)
		if phaseIdx < len(phases) {
			phaseLeft--
			if phaseLeft <= 0 {
				phaseIdx++
				if phaseIdx < len(phases) {
					phaseLeft = phases[phaseIdx].n
				}
			}
		}
	}
	wg.Wait()
	for _, wt := range writerTicks {
		if wt > firstReaderTick && wt < lastReaderTick {
			oc.writerStepsInside++
		}
	}

	// ---- oracle
	for i, o := range outs {
		if o.err != nil {
			oc.failSig, oc.failMsg = "C30:write-failed", fmt.Sprintf("write-out #%d failed while a reader was active: %v", i, o.err)
			return
		}
	}
	if readErr != nil {
		oc.failSig, oc.failMsg = "C30:reader-error", fmt.Sprintf("the %s failed because of the concurrent write-out: %v", readerKind, readErr)
		return
	}
	// per day: which write-outs must / may be visible
	days := map[int64][]int{}
	for i, o := range outs {
		d := (o.block.Ts - day0) / 86400
		days[d] = append(days[d], i)
	}
	mustSee := func(o *wout) bool { return o.doneTick >= 0 && o.doneTick < qStartTick }
	mustNotSee := func(o *wout) bool { return o.startTick > qEndTick }
	if readerKind == "query" {
		if res.Result == nil {
			oc.failSig, oc.failMsg = "C30:reader-error", "no result"
			return
		}
		if st := res.Result.Summary.Stats; st != nil && st.BlocksCorrupted != 0 {
			oc.failSig, oc.failMsg = "C30:blocks-corrupted", fmt.Sprintf("%d blocks reported corrupted because of the concurrent write-out", st.BlocksCorrupted)
			return
		}
		spec := model.QuerySpec{Ifaces: []string{"eth0"}, First: day0 - 1000, Last: lastBound, Attrs: []string{"sip", "dip", "dport", "proto"}, Time: true}
		got, bad := qgen.RowsOf(res.Result, spec)
		if bad != "" {
			oc.failSig, oc.failMsg = "C30:row-shape", bad
			return
		}
		// every returned row must be a row of the model (pre-existing block or a write-out), exactly
		all := &model.DB{Ifaces: map[string][]model.Block{"eth0": {pre}}}
		for _, o := range outs {
			all.Ifaces["eth0"] = append(all.Ifaces["eth0"], o.block)
		}
		exp, _ := all.Aggregate(spec)
		seenTs := map[int64]int{}
		for k, c := range got {
			w, ok := exp[k]
			if !ok {
				oc.failSig, oc.failMsg = "C30:damaged-row", fmt.Sprintf("the result contains a row that was never written: %s %+v", k, c)
				return
			}
			if w != c {
				oc.failSig, oc.failMsg = "C30:damaged-row", fmt.Sprintf("row %s has counters %+v, written %+v", k, c, w)
				return
			}
			seenTs[k.Ts]++
		}
		visible := func(b model.Block) (bool, string) {
			n := seenTs[b.Ts]
			if n == 0 {
				return false, ""
			}
			if n != len(b.Flows) {
				return true, fmt.Sprintf("block %d is only partly visible: %d of %d rows", b.Ts, n, len(b.Flows))
			}
			return true, ""
		}
		if v, msg := visible(pre); !v || msg != "" {
			oc.failSig, oc.failMsg = "C30:committed-block-missing", fmt.Sprintf("the block that existed before any write-out started is missing or partial (%s)", msg)
			return
		}
		for d, idx := range days {
			gap := false
			for _, i := range idx {
				o := outs[i]
				if o.block.Ts > lastBound {
					// outside the requested range: a row of it would have been reported as C30:damaged-row above
					continue
				}
				v, msg := visible(o.block)
				if msg != "" {
					oc.failSig, oc.failMsg = "C30:partial-block", msg
					return
				}
				if v && gap {
					oc.failSig, oc.failMsg = "C30:not-a-prefix", fmt.Sprintf("day %d: write-out #%d is visible although an earlier write-out of that day is not", d, i)
					return
				}
				if !v {
					gap = true
					if mustSee(o) {
						oc.failSig, oc.failMsg = "C30:committed-block-missing", fmt.Sprintf("write-out #%d (ts %d) completed at tick %d before the query started at tick %d but is missing from the result", i, o.block.Ts, o.doneTick, qStartTick)
						return
					}
				} else if mustNotSee(o) {
					oc.failSig, oc.failMsg = "C30:future-block-visible", fmt.Sprintf("write-out #%d started after the query had finished but is in the result", i)
					return
				}
			}
		}
	} else {
		// listing: must equal the sum of the pre-existing block plus, per day, a prefix of the write-outs within the must/may bounds
		got := model.Counters{BR: listSum.Counts.BytesRcvd, BS: listSum.Counts.BytesSent, PR: listSum.Counts.PacketsRcvd, PS: listSum.Counts.PacketsSent}
		gotV4, gotDrops := listSum.Traffic.NumV4Entries, listSum.Traffic.NumDrops
		var dayKeys []int64
		for d := range days {
			dayKeys = append(dayKeys, d)
		}
		ok := false
		var try func(di int, c model.Counters, v4, drops uint64)
		try = func(di int, c model.Counters, v4, drops uint64) {
			if ok {
				return
			}
			if di == len(dayKeys) {
				if c == got && v4 == gotV4 && drops == gotDrops {
					ok = true
				}
				return
			}
			idx := days[dayKeys[di]]
			for k := 0; k <= len(idx); k++ { // prefix of length k
				valid := true
				for j, i := range idx {
					if j < k && mustNotSee(outs[i]) {
						valid = false
					}
					if j >= k && mustSee(outs[i]) {
						valid = false
					}
				}
				if !valid {
					continue
				}
				cc, vv, dd := c, v4, drops
				for _, i := range idx[:k] {
					if outs[i].block.Ts > lastBound {
						continue // outside the requested range whatever the snapshot is
					}
					for _, f := range outs[i].block.Flows {
						cc.Add(f)
						vv++
					}
					dd += outs[i].block.Drops
				}
				try(di+1, cc, vv, dd)
			}
		}
		var c0 model.Counters
		for _, f := range pre.Flows {
			c0.Add(f)
		}
		try(0, c0, uint64(len(pre.Flows)), pre.Drops)
		if !ok {
			oc.failSig, oc.failMsg = "C30:listing-inconsistent", fmt.Sprintf("the listing (%+v, %d IPv4 flows, %d drops) is not the sum of the committed block and an admissible prefix of the write-outs of each day (query ticks %d..%d)", got, gotV4, gotDrops, qStartTick, qEndTick)
			return
		}
	}
	return
}

// secondRenameDuringRecovery recognises the trigger of the open finding C30-F28 in a schedule: the reader
// re-lists the month directory to recover from a renamed day directory and the writer renames the
// directory again before the reader's retried read took place.
func secondRenameDuringRecovery(trace []string) bool {
	for i, st := range trace {
		if st != "r:recover-readdir" {
			continue
		}
		for j := i + 1; j < len(trace); j++ {
			if trace[j] == "r:read" {
				break
			}
			if trace[j] == "w:dir-rename" {
				return true
			}
		}
	}
	return false
}

// TestC30WitnessF28 deterministically searches a small family of schedules for the trigger of the open
// finding C30-F28 (a second directory rename during the reader's recovery) so that every run reports
// whether the finding is still present. It asserts nothing beyond what TestC30Snapshot asserts.
func TestC30WitnessF28(tt *testing.T) {
	if !evid.IsOpen("C30-F28") {
		tt.Skip("C30-F28 is not listed as open")
	}
	for delay := 0; delay < 80; delay++ {
		for variant := 0; variant < 4; variant++ {
			dir, err := os.MkdirTemp(os.Getenv("VERIF_WORK"), "c30w-")
			if err != nil {
				tt.Fatalf("tempdir: %v", err)
			}
			pre := model.Block{Ts: day0 + 300, Flows: []model.Flow{mkFlow(0, 0)}, Drops: 1}
			if err := goDB.NewDBWriter(dir, "eth0", encoders.EncoderTypeLZ4).Write(gen.FlowMapOf(pre.Flows), capturetypes.CaptureStats{Dropped: pre.Drops}, pre.Ts); err != nil {
				tt.Fatalf("harness: %v", err)
			}
			var outs []*wout
			for i := 0; i < 4; i++ {
				outs = append(outs, &wout{block: model.Block{Ts: day0 + int64(2+i)*300, Flows: []model.Flow{mkFlow(i+1, 0)}}, startTick: -1, doneTick: -1})
			}
			// the reader advances one step for every `variant+2` writer steps
			var phases []phase
			for k := 0; k < 60; k++ {
				phases = append(phases, phase{"writer", variant + 2}, phase{"reader", 1})
			}
			var oc outcome
			synctest.Test(tt, func(_ *testing.T) {
				oc = runBubble(dir, pre, outs, "query", 1, false, phases, []int{0}, delay, false)
			})
			os.RemoveAll(dir)
			if oc.failSig != "" && secondRenameDuringRecovery(oc.trace) {
				evid.Known("C30-F28", fmt.Sprintf("%s; reader starts at tick %d, %d writer steps per reader step", oc.failMsg, delay, variant+2))
				return
			}
		}
	}
	tt.Log("no schedule of the witness family triggers C30-F28 any more")
}

// TestC30Preemptions enumerates systematically (no random choice): for fixed small scenarios every schedule
// with at most two context switches between reader and writer at the instrumented file operations
// (reader runs a steps, writer runs b steps, reader to its end, writer to its end — and the mirrored
// order), thorough: three switches on a stride. This is preemption-bounded exhaustive exploration, the
// part of the schedule space where the renamed-directory recovery lives.
func TestC30Preemptions(tt *testing.T) {
	type scenario struct {
		name   string
		slots  []int // write-outs (slot offsets; 288 = next day)
		reader string
		lowmem bool
		bound  bool // the requested range ends on the pre-existing block (every write-out lies behind it)
	}
	scenarios := []scenario{
		{"append-to-day/query", []int{1}, "query", true, false},
		{"append-to-day/query-readall", []int{1}, "query", false, false},
		{"new-day/query", []int{288}, "query", true, false},
		{"append-to-day/list-range-ends-before-write-out", []int{1}, "list", true, true},
		{"append-to-day/list", []int{1}, "list", true, false},
		{"two-appends/query", []int{1, 1}, "query", true, false},
		{"append-to-day/query-range-ends-before-write-out", []int{1}, "query", true, true},
		{"new-day/list-range-ends-before-write-out", []int{288}, "list", true, true},
	}
	if !evid.Thorough() {
		scenarios = scenarios[:4]
	}
	inF28 := evid.IsOpen("C30-F28")
	run := func(sc scenario, phases []phase) outcome {
		dir, err := os.MkdirTemp(os.Getenv("VERIF_WORK"), "c30p-")
		if err != nil {
			tt.Fatalf("tempdir: %v", err)
		}
		defer os.RemoveAll(dir)
		pre := model.Block{Ts: day0 + 300, Flows: []model.Flow{mkFlow(0, 0)}, Drops: 1}
		if err := goDB.NewDBWriter(dir, "eth0", encoders.EncoderTypeLZ4).Write(gen.FlowMapOf(pre.Flows), capturetypes.CaptureStats{Dropped: pre.Drops}, pre.Ts); err != nil {
			tt.Fatalf("harness: %v", err)
		}
		var outs []*wout
		slot := 1
		for i, adv := range sc.slots {
			slot += adv
			outs = append(outs, &wout{block: model.Block{Ts: day0 + int64(slot)*300, Flows: []model.Flow{mkFlow(i+1, 0), mkFlow(i+1, 1)}}, startTick: -1, doneTick: -1})
		}
		var oc outcome
		synctest.Test(tt, func(_ *testing.T) {
			var bound int64
			if sc.bound {
				bound = pre.Ts
			}
			oc = runBubble(dir, pre, outs, sc.reader, 1, sc.lowmem, phases, []int{0}, 0, false, bound)
		})
		return oc
	}
	const inf = 1 << 20
	for _, sc := range scenarios {
		// count the steps of each side
		all := run(sc, []phase{{"reader", inf}, {"writer", inf}})
		R, W := 0, 0
		for _, st := range all.trace {
			if strings.HasPrefix(st, "r:") {
				R++
			} else {
				W++
			}
		}
		stride := evid.Pick(2, 1)
		n := 0
		check := func(phases []phase, label string) {
			oc := run(sc, phases)
			n++
			nt := oc.writerStepsInside > 0
			evid.Case(sc.name+"|"+label, nt, "preemption-bounded", "scenario:"+sc.name)
			if n%97 == 1 {
				evid.Sample(map[string]any{"scenario": sc.name, "schedule": label, "trace": strings.Join(oc.trace, " ")}, nt)
			}
			if oc.inconclusive != "" {
				tt.Fatalf("INCONCLUSIVE[%s]", oc.inconclusive)
			}
			if oc.failSig != "" {
				if inF28 && secondRenameDuringRecovery(oc.trace) && evid.Known("C30-F28", oc.failMsg+"; "+sc.name+" "+label) {
					return
				}
				tt.Fatalf("%s", evid.Sig(oc.failSig, "%s\n  scenario %s, schedule %s\n  trace: %s", oc.failMsg, sc.name, label, strings.Join(oc.trace, " ")))
			}
		}
		for a := 0; a <= R; a += stride {
			for b := 0; b <= W; b += stride {
				check([]phase{{"reader", a}, {"writer", b}, {"reader", inf}, {"writer", inf}}, fmt.Sprintf("r%d w%d r* w*", a, b))
				check([]phase{{"writer", b}, {"reader", a}, {"writer", inf}, {"reader", inf}}, fmt.Sprintf("w%d r%d w* r*", b, a))
			}
		}
		if evid.Thorough() {
			// three switches on a stride
			for a := 0; a <= R; a += 3 {
				for b := 1; b <= W; b += 3 {
					for c := 1; a+c <= R; c += 3 {
						check([]phase{{"reader", a}, {"writer", b}, {"reader", c}, {"writer", inf}, {"reader", inf}}, fmt.Sprintf("r%d w%d r%d w* r*", a, b, c))
					}
				}
			}
		}
		evid.Note("preemption_bounded_"+strings.ReplaceAll(sc.name, "/", "_"), fmt.Sprintf("reader steps %d, writer steps %d, schedules %d", R, W, n))
	}
	evid.Exhaustive(evid.Thorough())
}
