// C04 — a crash during a write-out leaves the database consistent and queryable.
package c04

import (
	"bytes"
	"fmt"
	"os"
	"os/exec"
	"path/filepath"
	"strings"
	"testing"

	"pgregory.net/rapid"

	"verifharness/internal/crashlab"
	"verifharness/internal/evid"
	"verifharness/internal/execpool"
	"verifharness/internal/strace"
)

func TestMain(m *testing.M) {
	evid.Rule("a history of 2–6 write-outs over 1–2 interfaces and 1–3 days (appends to an existing day, first block of a new day, day roll-over, empty flow maps, IPv4+IPv6) is executed by the scripted writer under strace; a dry run yields the table of its file-system calls; " +
		"for every selected call position (quick: every rename, file creation, directory creation, metadata write and a stride sample of the rest; thorough: every position) a fresh run is killed with SIGKILL on entry to exactly that call; the survivor is examined by the executor child: " +
		"block listing per day, engine query (per interface and any) and interface listing must succeed and equal the completed write-outs, plus the in-flight block iff its metadata rename had executed (all or nothing); then the remaining write-outs are replayed and the final database must equal the full history; " +
		"non-trivial = the kill lands inside a write-out that appends to an already committed day, or on one of the commit calls (temporary metadata file creation, metadata rename, directory rename); distinct by (history, position)")
	evid.Assume("process kill, not power loss (the write path has no fsync, unsynced data is outside the domain)", "strace kills on system call entry; the call itself is not executed",
		"the database is examined by goProbe's own reader, query engine and listing in a fresh process")
	evid.Main(m)
}

var (
	child  = execpool.New(execpool.Bin("gpexec"), "TZ=UTC")
	writer = execpool.Bin("gpwriter")
)

func work() string {
	if w := os.Getenv("VERIF_WORK"); w != "" {
		return w
	}
	return os.TempDir()
}

func TestC04Crash(t *testing.T) {
	full := evid.Thorough()
	rapid.Check(t, func(t *rapid.T) {
		h := crashlab.DrawHistory(t, 2, 6)
		root, err := os.MkdirTemp(work(), "c04-")
		if err != nil {
			t.Fatalf("tempdir: %v", err)
		}
		defer os.RemoveAll(root)
		db := filepath.Join(root, "db")
		scriptPath := filepath.Join(root, "script.json")
		sc := h.Script(db)
		if err := sc.Save(scriptPath); err != nil {
			t.Fatalf("harness: %v", err)
		}
		// two dry runs must agree in shape, otherwise positions cannot be addressed
		dry, err := strace.Exec(writer, scriptPath, root, "")
		if err != nil {
			t.Fatalf("INCONCLUSIVE[strace dry run failed: %v]", err)
		}
		os.RemoveAll(db)
		dry2, err := strace.Exec(writer, scriptPath, root, "")
		if err != nil || !strace.SameShape(dry, dry2) {
			t.Fatalf("INCONCLUSIVE[two dry runs differ in shape: %v]", err)
		}
		if !strings.Contains(dry.Stdout, "ok") || strings.Contains(dry.Stdout, "\"ok\"") == false {
			t.Fatalf("harness: clean run failed: %s", dry.Stdout)
		}
		// the clean run itself must produce the full history
		if v := crashlab.Examine(child, h, db, h.DBOf(func(int) bool { return true }), crashlab.ExamOpts{Prefix: "C04", KnownStale: "C04-F4b", Inflight: -1}); v != nil {
			t.Fatalf("%s\nhistory:\n  %s", evid.Sig(v.Sig+":clean-run", "without any crash: %s", v.Msg), strings.Join(h.Describe(), "\n  "))
		}
		// per step: commit positions
		type stepInfo struct{ tmpCreate, metaRename, dirRename int }
		info := map[int]*stepInfo{}
		for _, c := range dry.Calls {
			if c.Step < 0 {
				continue
			}
			si := info[c.Step]
			if si == nil {
				si = &stepInfo{-1, -1, -1}
				info[c.Step] = si
			}
			switch {
			case c.Name == "openat" && strings.Contains(c.Args, ".tmp-metadata") && strings.Contains(c.Args, "O_CREAT"):
				si.tmpCreate = c.Index
			case strings.HasPrefix(c.Name, "rename") && strings.Contains(c.Args, ".tmp-metadata"):
				si.metaRename = c.Index
			case strings.HasPrefix(c.Name, "rename") && !strings.Contains(c.Args, ".tmp-metadata"):
				si.dirRename = c.Index
			}
		}
		// positions
		var positions []strace.Call
		var rest []strace.Call
		for _, c := range dry.Calls {
			if c.Step < 0 || c.Marker != "" {
				continue
			}
			si := info[c.Step]
			important := strings.HasPrefix(c.Name, "rename") || c.Index == si.tmpCreate ||
				(c.Name == "write" && si.tmpCreate >= 0 && c.Index > si.tmpCreate) || // the metadata write
				(strings.HasPrefix(c.Name, "mkdir") && strings.Contains(c.Args, fmt.Sprintf("%d", h.Outs[c.Step].Block.Ts-h.Outs[c.Step].Block.Ts%86400))) // creation of the day directory
			if full || important {
				positions = append(positions, c)
			} else {
				rest = append(rest, c)
			}
		}
		if !full && len(rest) > 0 {
			// a drawn sample of the remaining positions (quick tier)
			n := min(len(rest), 20)
			perm := rapid.Permutation(rest).Draw(t, "sample")
			positions = append(positions, perm[:n]...)
		}
		for _, p := range positions {
			I := p.Step
			si := info[I]
			committed := si.metaRename >= 0 && p.Index > si.metaRename
			dirRenamePending := committed && (si.dirRename < 0 || p.Index <= si.dirRename)
			// is I the first write-out of its day (no completed block of that interface and day)?
			firstOfDay := true
			for i := 0; i < I; i++ {
				if h.Outs[i].Iface == h.Outs[I].Iface && crashlab.DayOf(h.Outs[i].Block.Ts) == crashlab.DayOf(h.Outs[I].Block.Ts) {
					firstOfDay = false
				}
			}
			commitCall := p.Index == si.tmpCreate || p.Index == si.metaRename || p.Index == si.dirRename
			nt := !firstOfDay || commitCall
			var cls []string
			if !firstOfDay {
				cls = append(cls, "kill-while-appending-to-committed-day")
			}
			if commitCall {
				cls = append(cls, "kill-on-commit-call")
			}
			cls = append(cls, "call:"+p.Name)
			evid.Case(fmt.Sprintf("%v|%d", h.Describe(), p.Index), nt, cls...)
			if evid.WantSample(nt) {
				evid.Sample(map[string]any{"history": h.Describe(), "kill_at": p.String(), "in_flight": I, "committed": committed}, nt)
			}
			os.RemoveAll(db)
			run, err := strace.Exec(writer, scriptPath, root, strace.KillAt(p))
			if err != nil {
				t.Fatalf("INCONCLUSIVE[strace run failed: %v]", err)
			}
			if !run.Killed || len(run.Calls) != p.Index+1 {
				t.Fatalf("INCONCLUSIVE[kill did not land at the requested position: killed=%v calls=%d want %d (%s)]", run.Killed, len(run.Calls), p.Index+1, p)
			}
			ctx := fmt.Sprintf("kill at %s (in-flight write-out #%d, metadata rename executed: %v)\nhistory:\n  %s", p, I, committed, strings.Join(h.Describe(), "\n  "))
			// examineSurvivor checks the database as it is now, lets the writer continue and checks the final state
			examineSurvivor := func(ctx string) {
				want := h.DBOf(func(i int) bool { return i < I || (i == I && committed) })
				if v := crashlab.Examine(child, h, db, want, crashlab.ExamOpts{Prefix: "C04", KnownStale: "C04-F4b", Inflight: I, Committed: committed, FirstOfDay: firstOfDay, Pos: p, DirRenamePending: dirRenamePending}); v != nil {
					t.Fatalf("%s", evid.Sig(v.Sig, "%s\n%s", v.Msg, ctx))
				}
				// continued writer: the remaining write-outs must succeed and the final database must equal the history
				from := I
				if committed {
					from = I + 1
				}
				sc.From = from
				contPath := filepath.Join(root, "cont.json")
				if err := sc.Save(contPath); err != nil {
					t.Fatalf("harness: %v", err)
				}
				sc.From = 0
				res, err := crashlab.RunPlain(writer, contPath)
				if err != nil {
					t.Fatalf("%s", evid.Sig("C04:continued-writer-died", "the writer continuing after the crash died: %v\n%s", err, ctx))
				}
				for i := from; i < len(res); i++ {
					if res[i] != "ok" {
						t.Fatalf("%s", evid.Sig("C04:continued-write-failed", "write-out #%d after the crash fails: %s\n%s", i, res[i], ctx))
					}
				}
				// (the stale directory-name summary of C04-F4b persists until another write-out goes to that day)
				healed := false
				for i := I + 1; i < len(h.Outs); i++ {
					if h.Outs[i].Iface == h.Outs[I].Iface && crashlab.DayOf(h.Outs[i].Block.Ts) == crashlab.DayOf(h.Outs[I].Block.Ts) {
						healed = true
					}
				}
				stale := -1
				if dirRenamePending && !healed {
					stale = I
				}
				if v := crashlab.Examine(child, h, db, h.DBOf(func(int) bool { return true }), crashlab.ExamOpts{Prefix: "C04", KnownStale: "C04-F4b", Inflight: stale, Committed: stale >= 0, Pos: p, DirRenamePending: stale >= 0}); v != nil {
					t.Fatalf("%s", evid.Sig(v.Sig+":after-continuing", "after replaying the remaining write-outs: %s\n%s", v.Msg, ctx))
				}
			}
			partial := full && p.Name == "write" && p.Index+1 < len(dry.Calls)
			dbA := filepath.Join(root, "dbA")
			if partial {
				os.RemoveAll(dbA)
				if err := exec.Command("cp", "-a", db, dbA).Run(); err != nil {
					t.Fatalf("harness: %v", err)
				}
			}
			examineSurvivor(ctx)
			if partial {
				// a kill in the middle of the write: the state before the call with a proper prefix of its data applied
				os.RemoveAll(db)
				next := dry.Calls[p.Index+1]
				if _, err := strace.Exec(writer, scriptPath, root, strace.KillAt(next)); err != nil {
					t.Fatalf("INCONCLUSIVE[strace run failed: %v]", err)
				}
				rel, f0, f1 := changedFile(dbA, db)
				if rel != "" && len(f1) > 0 {
					d0 := 0
					for d0 < len(f0) && d0 < len(f1) && f0[d0] == f1[d0] {
						d0++
					}
					n := len(f1) - d0
					for _, j := range []int{1, n / 2, n - 1} {
						if j <= 0 || j >= n {
							continue
						}
						hybrid := append([]byte(nil), f1[:d0+j]...)
						if len(f0) > d0+j {
							hybrid = append(hybrid, f0[d0+j:]...)
						}
						os.RemoveAll(db)
						if err := exec.Command("cp", "-a", dbA, db).Run(); err != nil {
							t.Fatalf("harness: %v", err)
						}
						if err := os.WriteFile(filepath.Join(db, rel), hybrid, 0o644); err != nil {
							t.Fatalf("harness: %v", err)
						}
						evid.Case(fmt.Sprintf("%v|%d|partial%d", h.Describe(), p.Index, j), nt, "partial-write")
						examineSurvivor(fmt.Sprintf("kill after %d of %d bytes of the write to %s\n%s", j, n, rel, ctx))
					}
				}
			}
		}
	})
}

// changedFile finds the one regular file that differs between two database trees (b is a's successor by
// one write call) and returns its path relative to the roots and both contents.
func changedFile(a, b string) (rel string, f0, f1 []byte) {
	_ = filepath.WalkDir(b, func(p string, d os.DirEntry, err error) error {
		if err != nil || d.IsDir() || rel != "" {
			return nil
		}
		r, _ := filepath.Rel(b, p)
		nb, _ := os.ReadFile(p)
		na, _ := os.ReadFile(filepath.Join(a, r))
		if !bytes.Equal(na, nb) {
			rel, f0, f1 = r, na, nb
		}
		return nil
	})
	return
}
