// C03 — day metadata survives reopening for every accepted write history;
// unrepresentable writes are rejected, not stored in altered form; malformed
// metadata files are errors, never crashes.
package c03

import (
	"encoding/binary"
	"fmt"
	"os"
	"path/filepath"
	"strings"
	"testing"
	"time"

	"github.com/els0r/goProbe/v4/pkg/capture/capturetypes"
	"github.com/els0r/goProbe/v4/pkg/goDB"
	"github.com/els0r/goProbe/v4/pkg/goDB/encoder/encoders"
	"github.com/els0r/goProbe/v4/pkg/goDB/storage/gpfile"
	"github.com/els0r/goProbe/v4/pkg/types"
	"github.com/els0r/goProbe/v4/pkg/types/hashmap"
	"pgregory.net/rapid"

	"verifharness/internal/evid"
)

func TestMain(m *testing.M) {
	evid.Rule("(a) histories: rapid-generated sequences of writes to 1–2 day directories through DBWriter.Write, DBWriter.WriteBulk and raw GPDir.WriteBlocks+Close with arbitrary timestamp sequences " +
		"(later, equal, earlier than the last block, gaps of 2^32-1 / 2^32 / more, day-crossing, zero, negative) and per-block flow/drop counts from {0,1,2^32-1,2^32,2^64-1,random}; after every write the day is reopened and compared with the model; " +
		"non-trivial = the history contains a write that was rejected or is unrepresentable (earlier/equal timestamp, gap ≥ 2^32, count ≥ 2^32) followed by a later accepted write; " +
		"(b) metadata bytes: structure-aware byte strings (valid header with generated block count/size consistency, mutated real .blockmeta files, truncations, random bytes) opened through GPDir.Open; non-trivial = length ≥ 144 and the block count passes the size check")
	evid.Assume("an 'acceptable' write (timestamp later than every stored block of the directory by < 2^32 s, counts < 2^32) must be accepted",
		"for (b): a successful Open must leave the eight column block lists and the traffic list equally long and usable by NBlocks / per-block entry counts / TimeRange (for days with ≥ 1 block; an empty day is a valid state of the format — readers' handling of it is C06's subject)")
	evid.Main(m)
}

type mblock struct {
	ts      int64
	traffic gpfile.TrafficMetadata
	counts  types.Counters
}

type mdir struct {
	dirTs  int64
	blocks []mblock
}

const base0 = int64(1700006400)

func flowMap(t *rapid.T, label string) (*hashmap.AggFlowMap, gpfile.TrafficMetadata, types.Counters) {
	m := hashmap.NewAggFlowMap()
	var tr gpfile.TrafficMetadata
	var c types.Counters
	n4 := rapid.IntRange(0, 2).Draw(t, label+".n4")
	n6 := rapid.IntRange(0, 2).Draw(t, label+".n6")
	for i := 0; i < n4; i++ {
		k := types.NewV4Key([]byte{10, 0, 0, byte(i + 1)}, []byte{10, 0, 1, 1}, []byte{0, 80}, 6)
		v := types.Counters{BytesRcvd: rapid.Uint64Range(0, 1<<40).Draw(t, label+".br"), BytesSent: 7, PacketsRcvd: uint64(i + 1), PacketsSent: 1}
		m.SetOrUpdate(k, true, v.BytesRcvd, v.BytesSent, v.PacketsRcvd, v.PacketsSent)
		c.Add(v)
		tr.NumV4Entries++
	}
	for i := 0; i < n6; i++ {
		sip := make([]byte, 16)
		sip[0], sip[15] = 0x20, byte(i+1)
		k := types.NewV6Key(sip, make([]byte, 16), []byte{1, 187}, 17)
		v := types.Counters{BytesRcvd: 5, BytesSent: rapid.Uint64Range(0, 1<<40).Draw(t, label+".bs"), PacketsRcvd: 1, PacketsSent: uint64(i + 2)}
		m.SetOrUpdate(k, false, v.BytesRcvd, v.BytesSent, v.PacketsRcvd, v.PacketsSent)
		c.Add(v)
		tr.NumV6Entries++
	}
	return m, tr, c
}

func drawTs(t *rapid.T, label string, d *mdir) (int64, string) {
	last, max := d.dirTs, d.dirTs
	if n := len(d.blocks); n > 0 {
		last = d.blocks[n-1].ts
		max = last
		for _, b := range d.blocks {
			if b.ts > max {
				max = b.ts
			}
		}
	}
	kind := rapid.SampledFrom([]string{"next", "next", "next", "next", "equal", "earlier-300", "earlier-1", "before-first", "gap-2^32-1", "gap-2^32", "gap-huge", "day-crossing", "zero", "negative", "after-max"}).Draw(t, label+".tskind")
	switch kind {
	case "next":
		return max + 300*int64(rapid.IntRange(1, 3).Draw(t, label+".step")), kind
	case "equal":
		return last, kind
	case "earlier-300":
		return last - 300, kind
	case "earlier-1":
		return last - 1, kind
	case "before-first":
		if len(d.blocks) > 0 {
			return d.blocks[0].ts - int64(rapid.IntRange(1, 100000).Draw(t, label+".bf")), kind
		}
		return d.dirTs, kind
	case "gap-2^32-1":
		return last + (1<<32 - 1), kind
	case "gap-2^32":
		return last + 1<<32, kind
	case "gap-huge":
		return last + 1<<32 + int64(rapid.IntRange(1, 1<<30).Draw(t, label+".huge")), kind
	case "day-crossing":
		return d.dirTs + 86400 + int64(rapid.IntRange(-1, 600).Draw(t, label+".dc")), kind
	case "zero":
		return 0, kind
	case "negative":
		return -int64(rapid.IntRange(1, 1<<31).Draw(t, label+".neg")), kind
	default:
		return max + int64(rapid.IntRange(1, 100000).Draw(t, label+".am")), kind
	}
}

var countGen = rapid.OneOf(rapid.SampledFrom([]uint64{0, 1, 2, 1<<32 - 1, 1 << 32, 1<<64 - 1}), rapid.Uint64Range(0, 1<<32-1), rapid.Uint64())

// acceptable: what the format can certainly represent
func acceptable(d *mdir, b mblock) bool {
	for _, x := range d.blocks {
		if b.ts <= x.ts {
			return false
		}
	}
	if n := len(d.blocks); n > 0 && b.ts-d.blocks[n-1].ts >= 1<<32 {
		return false
	}
	return b.traffic.NumV4Entries < 1<<32 && b.traffic.NumV6Entries < 1<<32 && b.traffic.NumDrops < 1<<32
}

func reopen(basePath string, d *mdir) (got []mblock, stats gpfile.Stats, err error) {
	// locate the directory the way walkDB does (prefix = day timestamp)
	dayTs := gpfile.DirTimestamp(d.dirTs)
	dayUnix := time.Unix(dayTs, 0)
	month := filepath.Join(basePath, fmt.Sprintf("%d", dayUnix.Year()), fmt.Sprintf("%02d", int(dayUnix.Month())))
	ents, rerr := os.ReadDir(month)
	if rerr != nil {
		if len(d.blocks) == 0 {
			return nil, stats, nil
		}
		return nil, stats, rerr
	}
	var names []string
	for _, e := range ents {
		if strings.HasPrefix(e.Name(), fmt.Sprintf("%d", dayTs)) {
			names = append(names, e.Name())
		}
	}
	if len(names) == 0 && len(d.blocks) == 0 {
		return nil, stats, nil
	}
	if len(names) != 1 {
		return nil, stats, fmt.Errorf("expected one directory for day %d, found %v", dayTs, names)
	}
	_, suffix, _ := gpfile.ExtractTimestampMetadataSuffix(names[0])
	dir := gpfile.NewDirReader(basePath, dayTs, suffix)
	if err := dir.Open(); err != nil {
		if len(d.blocks) == 0 {
			return nil, stats, nil // a directory may exist without metadata if every write so far was rejected
		}
		return nil, stats, fmt.Errorf("Open: %w", err)
	}
	defer dir.Close()
	n := len(dir.BlockTraffic)
	for c := 0; c < int(types.ColIdxCount); c++ {
		if len(dir.BlockMetadata[c].BlockList) != n {
			return nil, stats, fmt.Errorf("column %d lists %d blocks, traffic list has %d", c, len(dir.BlockMetadata[c].BlockList), n)
		}
	}
	for i := 0; i < n; i++ {
		ts := dir.BlockMetadata[0].BlockList[i].Timestamp
		for c := 1; c < int(types.ColIdxCount); c++ {
			if dir.BlockMetadata[c].BlockList[i].Timestamp != ts {
				return nil, stats, fmt.Errorf("block %d: column %d has timestamp %d, column 0 has %d", i, c, dir.BlockMetadata[c].BlockList[i].Timestamp, ts)
			}
		}
		got = append(got, mblock{ts: ts, traffic: dir.BlockTraffic[i]})
	}
	// directory-name summary must agree with the file
	meta := new(gpfile.Metadata)
	if suffix != "" {
		if err := meta.UnmarshalString(suffix); err != nil || meta.Stats != dir.Stats {
			return nil, stats, fmt.Errorf("directory name summary %+v (err %v) differs from metadata file %+v", meta.Stats, err, dir.Stats)
		}
	}
	return got, dir.Stats, nil
}

func checkDir(basePath string, d *mdir, ctx string) error {
	got, stats, err := reopen(basePath, d)
	if err != nil {
		return fmt.Errorf("%s", evid.Sig("C03:reopen", "%s: %v", ctx, err))
	}
	if len(got) != len(d.blocks) {
		return fmt.Errorf("%s", evid.Sig("C03:block-count", "%s: reopened day lists %d blocks, model has %d (%v vs %v)", ctx, len(got), len(d.blocks), tsOf(got), tsOf(d.blocks)))
	}
	var want gpfile.Stats
	for i, b := range d.blocks {
		if got[i].ts != b.ts {
			return fmt.Errorf("%s", evid.Sig("C03:timestamp-altered", "%s: block %d reopened with timestamp %d, accepted with %d (all: %v vs %v)", ctx, i, got[i].ts, b.ts, tsOf(got), tsOf(d.blocks)))
		}
		if got[i].traffic != b.traffic {
			return fmt.Errorf("%s", evid.Sig("C03:count-altered", "%s: block %d (ts %d) reopened with counts %+v, accepted with %+v", ctx, i, b.ts, got[i].traffic, b.traffic))
		}
		want.Traffic = want.Traffic.Add(b.traffic)
		want.Counts.Add(b.counts)
	}
	if len(d.blocks) > 0 && stats != want {
		return fmt.Errorf("%s", evid.Sig("C03:day-totals", "%s: day totals %+v, sum of accepted blocks %+v", ctx, stats, want))
	}
	return nil
}

func tsOf(b []mblock) []int64 {
	var r []int64
	for _, x := range b {
		r = append(r, x.ts)
	}
	return r
}

func TestC03History(t *testing.T) {
	rapid.Check(t, func(t *rapid.T) {
		basePath, err := os.MkdirTemp(os.Getenv("VERIF_WORK"), "c03-")
		if err != nil {
			t.Fatalf("tempdir: %v", err)
		}
		defer os.RemoveAll(basePath)
		iface := "eth0"
		ifaceDir := filepath.Join(basePath, iface)
		dirs := []*mdir{{dirTs: base0}, {dirTs: base0 + 86400}}
		ndirs := rapid.IntRange(1, 2).Draw(t, "ndirs")
		steps := rapid.IntRange(1, 8).Draw(t, "steps")
		var hist []string
		rejectedSeen, ntrivial := false, false
		enc := rapid.SampledFrom([]encoders.Type{encoders.EncoderTypeNull, encoders.EncoderTypeLZ4}).Draw(t, "enc")
		for s := 0; s < steps; s++ {
			l := fmt.Sprintf("w%d", s)
			d := dirs[rapid.IntRange(0, ndirs-1).Draw(t, l+".dir")]
			api := rapid.SampledFrom([]string{"Write", "Write", "WriteBulk", "raw"}).Draw(t, l+".api")
			var newBlocks []mblock
			var werr error
			var desc string
			switch api {
			case "Write":
				ts, kind := drawTs(t, l, d)
				if gpfile.DirTimestamp(ts) != gpfile.DirTimestamp(d.dirTs) {
					// DBWriter.Write derives the directory from the block timestamp: redirect to the matching model dir or skip
					api = "WriteBulk"
				}
				fm, tr, c := flowMap(t, l)
				tr.NumDrops = countGen.Draw(t, l+".drops")
				b := mblock{ts: ts, traffic: tr, counts: c}
				newBlocks = []mblock{b}
				desc = fmt.Sprintf("%s(ts=%d [%s], v4=%d v6=%d drops=%d)", api, ts, kind, tr.NumV4Entries, tr.NumV6Entries, tr.NumDrops)
				w := goDB.NewDBWriter(basePath, iface, enc)
				if api == "Write" {
					werr = w.Write(fm, capturetypes.CaptureStats{Dropped: tr.NumDrops}, ts)
				} else {
					werr = w.WriteBulk([]goDB.BulkWorkload{{FlowMap: fm, CaptureStats: capturetypes.CaptureStats{Dropped: tr.NumDrops}, Timestamp: ts}}, d.dirTs)
				}
			case "WriteBulk":
				n := rapid.IntRange(1, 3).Draw(t, l+".nbulk")
				var wl []goDB.BulkWorkload
				tmp := &mdir{dirTs: d.dirTs, blocks: append([]mblock(nil), d.blocks...)}
				var parts []string
				for k := 0; k < n; k++ {
					ts, kind := drawTs(t, fmt.Sprintf("%s.k%d", l, k), tmp)
					fm, tr, c := flowMap(t, fmt.Sprintf("%s.k%d", l, k))
					tr.NumDrops = countGen.Draw(t, l+".drops")
					b := mblock{ts: ts, traffic: tr, counts: c}
					newBlocks = append(newBlocks, b)
					tmp.blocks = append(tmp.blocks, b)
					wl = append(wl, goDB.BulkWorkload{FlowMap: fm, CaptureStats: capturetypes.CaptureStats{Dropped: tr.NumDrops}, Timestamp: ts})
					parts = append(parts, fmt.Sprintf("ts=%d [%s] drops=%d", ts, kind, tr.NumDrops))
				}
				desc = "WriteBulk(" + strings.Join(parts, "; ") + ")"
				werr = goDB.NewDBWriter(basePath, iface, enc).WriteBulk(wl, d.dirTs)
			case "raw":
				ts, kind := drawTs(t, l, d)
				b := mblock{ts: ts,
					traffic: gpfile.TrafficMetadata{NumV4Entries: countGen.Draw(t, l+".v4"), NumV6Entries: countGen.Draw(t, l+".v6"), NumDrops: countGen.Draw(t, l+".drops")},
					counts:  types.Counters{BytesRcvd: rapid.Uint64().Draw(t, l+".br"), BytesSent: rapid.Uint64().Draw(t, l+".bs"), PacketsRcvd: rapid.Uint64().Draw(t, l+".pr"), PacketsSent: rapid.Uint64().Draw(t, l+".ps")}}
				newBlocks = []mblock{b}
				desc = fmt.Sprintf("raw WriteBlocks(ts=%d [%s], %+v)", ts, kind, b.traffic)
				w := gpfile.NewDirWriter(ifaceDir, d.dirTs, gpfile.WithEncoderTypeLevel(enc, 0))
				if werr = w.Open(); werr == nil {
					var data [types.ColIdxCount][]byte
					for c := range data {
						data[c] = []byte{byte(s), byte(c), 1, 2}
					}
					if werr = w.WriteBlocks(ts, b.traffic, b.counts, data); werr == nil {
						werr = w.Close()
					}
				}
			}
			allAcceptable := true
			tmp := &mdir{dirTs: d.dirTs, blocks: append([]mblock(nil), d.blocks...)}
			for _, b := range newBlocks {
				if !acceptable(tmp, b) {
					allAcceptable = false
				}
				tmp.blocks = append(tmp.blocks, b)
			}
			hist = append(hist, fmt.Sprintf("dir %d: %s -> err=%v", d.dirTs, desc, werr))
			ctx := fmt.Sprintf("after step %d [%s]", s, hist[len(hist)-1])
			if werr == nil {
				d.blocks = append(d.blocks, newBlocks...)
				if rejectedSeen {
					ntrivial = true
				}
				if !allAcceptable {
					rejectedSeen = true
					evid.Class("unrepresentable-but-accepted")
				} else {
					evid.Class("accepted")
				}
			} else {
				rejectedSeen = true
				evid.Class("rejected")
				if allAcceptable {
					t.Fatalf("%s\nhistory:\n  %s", evid.Sig("C03:acceptable-write-rejected", "%s: a representable write was rejected", ctx), strings.Join(hist, "\n  "))
				}
			}
			for _, x := range dirs[:ndirs] {
				if err := checkDir(ifaceDir, x, ctx); err != nil {
					t.Fatalf("%v\nhistory:\n  %s", err, strings.Join(hist, "\n  "))
				}
			}
		}
		evid.Case(strings.Join(hist, "\n"), ntrivial)
		if evid.WantSample(ntrivial) {
			evid.Sample(map[string]any{"kind": "history", "steps": hist}, ntrivial)
		}
	})
}

// ---- (b) arbitrary bytes as .blockmeta

const minMeta = 144
const perBlock = 8*9 + 16

func validMeta(t *rapid.T, nBlocks int) []byte {
	b := make([]byte, minMeta+nBlocks*perBlock)
	binary.BigEndian.PutUint64(b[0:], 1)
	binary.BigEndian.PutUint64(b[8:], uint64(nBlocks))
	pos := 72
	for c := 0; c < 8; c++ {
		binary.BigEndian.PutUint64(b[pos:], uint64(4*nBlocks))
		pos += 8
		for j := 0; j < nBlocks; j++ {
			binary.BigEndian.PutUint32(b[pos:], 4)
			binary.BigEndian.PutUint32(b[pos+4:], 4)
			b[pos+8] = byte(encoders.EncoderTypeNull)
			pos += 9
		}
	}
	binary.BigEndian.PutUint64(b[pos:], uint64(base0+300))
	pos += 8
	for j := 0; j < nBlocks; j++ {
		binary.BigEndian.PutUint32(b[pos:], 1)
		binary.BigEndian.PutUint32(b[pos+12:], uint32(300*j))
		pos += 16
	}
	return b
}

func drawMetaBytes(t *rapid.T) ([]byte, string) {
	kind := rapid.SampledFrom([]string{"valid", "valid-mutated", "valid-mutated", "count-field", "truncated", "extended", "random", "short"}).Draw(t, "kind")
	n := rapid.IntRange(0, 4).Draw(t, "nblocks")
	b := validMeta(t, n)
	switch kind {
	case "valid":
	case "valid-mutated":
		for k, m := 0, rapid.IntRange(1, 4).Draw(t, "nmut"); k < m; k++ {
			pos := rapid.IntRange(0, len(b)-1).Draw(t, "mutpos")
			switch rapid.IntRange(0, 2).Draw(t, "mutkind") {
			case 0:
				b[pos] ^= 1 << rapid.IntRange(0, 7).Draw(t, "bit")
			case 1:
				b[pos] = rapid.Byte().Draw(t, "byte")
			default:
				for i := pos; i < len(b) && i < pos+8; i++ {
					b[i] = 0xff
				}
			}
		}
	case "count-field":
		v := rapid.OneOf(rapid.SampledFrom([]uint64{0, 1, 2, 3, 4, 5, 1 << 31, 1 << 32, 1<<63 - 1, 1 << 63, 1<<64 - 1}), rapid.Uint64Range(0, 8)).Draw(t, "count")
		binary.BigEndian.PutUint64(b[8:], v)
	case "truncated":
		b = b[:rapid.IntRange(0, len(b)).Draw(t, "cut")]
	case "extended":
		b = append(b, rapid.SliceOfN(rapid.Byte(), 1, 200).Draw(t, "tail")...)
	case "random":
		b = rapid.SliceOfN(rapid.Byte(), 0, 600).Draw(t, "bytes")
	case "short":
		b = rapid.SliceOfN(rapid.Byte(), 0, 143).Draw(t, "bytes")
	}
	return b, kind
}

func openBytes(basePath string, b []byte) (res string, panicked any) {
	dayDir := filepath.Join(basePath, "2023", "11", fmt.Sprintf("%d", base0))
	if err := os.MkdirAll(dayDir, 0o755); err != nil {
		return "harness: " + err.Error(), nil
	}
	if err := os.WriteFile(filepath.Join(dayDir, ".blockmeta"), b, 0o644); err != nil {
		return "harness: " + err.Error(), nil
	}
	defer func() {
		if r := recover(); r != nil {
			panicked = r
		}
	}()
	dir := gpfile.NewDirReader(basePath, base0, "")
	if err := dir.Open(); err != nil {
		return "error", nil
	}
	defer dir.Close()
	// what every reader does next
	n := dir.NBlocks()
	for c := 0; c < int(types.ColIdxCount); c++ {
		if len(dir.BlockMetadata[c].BlockList) != n {
			return fmt.Sprintf("inconsistent: column %d lists %d blocks, column 0 %d", c, len(dir.BlockMetadata[c].BlockList), n), nil
		}
	}
	if len(dir.BlockTraffic) != n {
		return fmt.Sprintf("inconsistent: %d traffic entries for %d blocks", len(dir.BlockTraffic), n), nil
	}
	// (TimeRange on a day without blocks is a reader matter and belongs to C06: an empty day is a valid,
	// tested state of the format, so Open must accept it)
	first, last := int64(0), int64(0)
	if n > 0 {
		first, last = dir.TimeRange()
	}
	for i := 0; i < n; i++ {
		_ = dir.NumIPv4EntriesAtIndex(i) + dir.NumIPv6EntriesAtIndex(i)
	}
	return fmt.Sprintf("ok n=%d range=%d..%d", n, first, last), nil
}

func TestC03MetadataBytes(t *testing.T) {
	rapid.Check(t, func(t *rapid.T) {
		basePath, err := os.MkdirTemp(os.Getenv("VERIF_WORK"), "c03b-")
		if err != nil {
			t.Fatalf("tempdir: %v", err)
		}
		defer os.RemoveAll(basePath)
		b, kind := drawMetaBytes(t)
		nt := false
		if len(b) >= minMeta {
			nb := binary.BigEndian.Uint64(b[8:16])
			nt = nb <= uint64(len(b)-minMeta)/perBlock
		}
		res, p := openBytes(basePath, b)
		evid.Case(fmt.Sprintf("%x", b), nt, "meta:"+kind, "meta-result:"+strings.SplitN(res, " ", 2)[0])
		if evid.WantSample(nt) {
			evid.Sample(map[string]any{"kind": "metadata-bytes", "class": kind, "len": len(b), "head": fmt.Sprintf("%x", b[:min(len(b), 24)]), "result": res}, nt)
		}
		if p != nil {
			t.Fatalf("%s", evid.Sig("C03:metadata-panic", "metadata file of %d bytes (%s, head %x) makes a reader panic: %v", len(b), kind, b[:min(len(b), 24)], p))
		}
		if strings.HasPrefix(res, "harness") {
			t.Fatalf("%s", res)
		}
		if strings.HasPrefix(res, "inconsistent") {
			t.Fatalf("%s", evid.Sig("C03:metadata-inconsistent", "metadata file of %d bytes (%s): %s", len(b), kind, res))
		}
	})
}
