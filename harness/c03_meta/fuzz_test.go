package c03

import (
	"os"
	"strings"
	"testing"
)

// FuzzC03Meta is the coverage-guided companion of TestC03MetadataBytes (thorough tier): arbitrary bytes as
// a day's metadata file are reported as an error or decoded into consistent metadata, never a crash.
func FuzzC03Meta(f *testing.F) {
	for n := 0; n <= 3; n++ {
		f.Add(validMeta(nil, n))
	}
	f.Add([]byte{})
	f.Add(make([]byte, 143))
	f.Add(make([]byte, 144))
	f.Fuzz(func(t *testing.T, b []byte) {
		if len(b) > 4096 {
			return
		}
		basePath, err := os.MkdirTemp(os.Getenv("VERIF_WORK"), "c03f-")
		if err != nil {
			t.Skip()
		}
		defer os.RemoveAll(basePath)
		res, p := openBytes(basePath, b)
		if p != nil {
			t.Fatalf("SIG[C03:metadata-panic] metadata file of %d bytes (head %x) makes a reader panic: %v", len(b), b[:min(len(b), 24)], p)
		}
		if strings.HasPrefix(res, "inconsistent") {
			t.Fatalf("SIG[C03:metadata-inconsistent] metadata file of %d bytes: %s", len(b), res)
		}
	})
}
