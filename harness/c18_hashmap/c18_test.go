// C18 — the flow hash map behaves as a map with additive updates.
//
// Rapid state machines drive hashmap.Map and hashmap.AggFlowMap next to a plain
// Go map (map[string]*entry, wrapping uint64 addition). The hash seed of every
// map under test is drawn and pinned through the verification hook
// (*Map).VerifSetSeed right after construction, so a drawn operation sequence
// replays identically. (*Map).VerifState is used only to *steer* the generator
// (stop just before / at / after a growth trigger, keep writing while an
// evacuation is in flight) and to *classify* what was checked (growing, old
// bucket count, overflow buckets); the oracle never looks at it.
//
// One Map only ever holds keys of one length, as in goProbe: the primary map of
// an AggFlowMap holds IPv4 keys (13 bytes, 21 with the time extension), the
// secondary one IPv6 keys (37 / 45 bytes); within one query either all keys are
// time-extended or none.
package c18

import (
	"encoding/binary"
	"fmt"
	"hash"
	"hash/fnv"
	"strings"
	"testing"

	"github.com/els0r/goProbe/v4/pkg/types"
	"github.com/els0r/goProbe/v4/pkg/types/hashmap"
	"pgregory.net/rapid"

	"verifharness/internal/evid"
)

func TestMain(m *testing.M) {
	evid.Rule("rapid state machines (t.Repeat) on hashmap.Map (TestC18Map, TestC18Large) and hashmap.AggFlowMap (TestC18AggFlowMap) with pinned, drawn hash seeds and drawn size hints: " +
		"actions upsert (Set / SetOrUpdate of an old or new key), burst (1..n derived upserts), edge (fill with fresh keys up to 2 before .. several after the next growth trigger computed from the live bucket count; " +
		"while a growth is in flight: 1..old-bucket-count further writes so that every evacuation stage is visited), get (present, absent, one-bit-off keys), iter (full iteration), merge (from a generated second map with its own or the same seed, " +
		"sized to sit around a growth trigger, optionally Clear/ClearFast of the source afterwards as aggregate.go does), rebuild (copy through Iter keys into a new map as goDB.QueryFilter does), and for AggFlowMap MetaIter with/without the four direction filters and Flatten; " +
		"keys: one length per Map (13/21/37/45; AggFlowMap 13+37 or 21+45), key i = drawn template XOR (i * odd multiplier) at a drawn offset, plus the all-zero and all-0xff keys; every insert goes through a caller buffer that is reused or scribbled over afterwards; " +
		"counters 0, 1, small, 2^32, 2^63, 2^64-1, random (sums wrap); " +
		"after every step Len and sampled lookups, a full check (iteration yields every model key exactly once with the model value, nothing else; Get of every model key) whenever the table is growing, after every merge, always for <= 256 entries and every 8th step otherwise; " +
		"iterins: an iteration with 1-6 fresh inserts (or as many as start a growth) between two Next calls — every entry present at the start must be produced exactly once with its value, entries inserted meanwhile at most once; " +
		"non-trivial = a full iteration or a Merge was checked while source or destination table was growing; distinct by the hash of the operation trace")
	evid.Assume("a Map holds keys of one length only (no caller mixes lengths in one Map); iteration is never interleaved with writes to the same map (no caller does that)",
		"Set on an existing key replaces its counters (csvimport usage; documented as 'updates any existing valent'); SetOrUpdate and Merge add with wrapping uint64 arithmetic",
		"insertion during an iteration is taken to be permitted as in the Go runtime map this type is a port of (no caller in goProbe does it; the unchanged implementation honours it); updates of existing keys or merges during an iteration are not exercised",
		"Clear / ClearFast are terminal in all callers; they are only applied to a Merge source after the merge (as engine/aggregate.go does) and nothing is demanded of the cleared map",
		"the source map of a Merge is not required to stay unchanged (callers discard it); only the destination is compared",
		"same-size growth is unreachable through the public API: the map has no delete, bucket chains are always densely packed, so nOverflow >= nBuckets needs more than 8*nBuckets entries while growth by load factor starts at 6.5*nBuckets; the class counter for it is expected to stay 0",
		"the direction filters (types.Counters.IsOnlyInbound etc.) are trusted as pure functions of the value")
	evid.Main(m)
}

// ---------------------------------------------------------------------------------------------
// model

type entry struct {
	val   types.Counters
	stamp uint32 // epoch of the last iteration that yielded this key
}

func add(a, b types.Counters) types.Counters {
	return types.Counters{BytesRcvd: a.BytesRcvd + b.BytesRcvd, BytesSent: a.BytesSent + b.BytesSent,
		PacketsRcvd: a.PacketsRcvd + b.PacketsRcvd, PacketsSent: a.PacketsSent + b.PacketsSent}
}

// universe maps an index to a key: template XOR big-endian(uint32(i)*mul) at offset pos.
// mul is odd, so distinct indices (< 2^32) give distinct keys. Index -1 is the all-zero key
// (what a query without attributes produces), -2 the all-0xff key.
type universe struct {
	klen int
	tmpl []byte
	pos  int
	mul  uint32
}

func (u *universe) key(dst []byte, i int) []byte {
	dst = dst[:u.klen]
	switch i {
	case -1:
		for j := range dst {
			dst[j] = 0
		}
		return dst
	case -2:
		for j := range dst {
			dst[j] = 0xff
		}
		return dst
	}
	copy(dst, u.tmpl)
	var x [4]byte
	binary.BigEndian.PutUint32(x[:], uint32(i)*u.mul)
	for j := 0; j < 4; j++ {
		dst[u.pos+j] ^= x[j]
	}
	return dst
}

func genUniverse(t *rapid.T, label string, klen int) universe {
	return universe{
		klen: klen,
		tmpl: rapid.SliceOfN(rapid.Byte(), klen, klen).Draw(t, label+".tmpl"),
		pos:  rapid.IntRange(0, klen-4).Draw(t, label+".pos"),
		mul:  rapid.SampledFrom([]uint32{1, 1, 0x9E3779B1, 0x01000193, 0x00010001, 0x01000001}).Draw(t, label+".mul"),
	}
}

var u64Gen = rapid.OneOf(
	rapid.SampledFrom([]uint64{0, 0, 1, 2, 60, 1500, 1 << 32, 1 << 63, 1<<64 - 1}),
	rapid.Uint64Range(0, 1000), rapid.Uint64())

func genCounters(t *rapid.T, label string) types.Counters {
	return types.Counters{BytesRcvd: u64Gen.Draw(t, label+".br"), BytesSent: u64Gen.Draw(t, label+".bs"),
		PacketsRcvd: u64Gen.Draw(t, label+".pr"), PacketsSent: u64Gen.Draw(t, label+".ps")}
}

// cs is the compact trace form of a counter set.
func cs(v types.Counters) string {
	return fmt.Sprintf("%d,%d,%d,%d", v.BytesRcvd, v.BytesSent, v.PacketsRcvd, v.PacketsSent)
}

func derived(base, stride types.Counters, i int) types.Counters {
	n := uint64(i)
	return types.Counters{BytesRcvd: base.BytesRcvd + n*stride.BytesRcvd, BytesSent: base.BytesSent + n*stride.BytesSent,
		PacketsRcvd: base.PacketsRcvd + n*stride.PacketsRcvd, PacketsSent: base.PacketsSent + n*stride.PacketsSent}
}

// caller buffer handling
const (
	bufFresh  = iota // a fresh slice per insert, scribbled over afterwards
	bufShared        // one reusable key buffer per map (DBWorkManager / FlowLog style), scribbled and overwritten by the next key
	bufKeep          // a fresh slice that is left alone
)

var hints = []int{0, 0, 0, 0, 1, 5, 8, 9, 13, 14, 20, 26, 27, 52, 53, 100, 105, 208}

// ---------------------------------------------------------------------------------------------
// one map under test with its model

type sub struct {
	name    string
	v4      bool
	m       *hashmap.Map
	u       universe
	model   map[string]*entry
	order   []string // model keys in insertion order (the property never ranges over a Go map)
	next    int      // indices >= next have never been used by a "fresh" insert
	epoch   uint32
	seed    uint64
	hint    int
	scratch []byte
	shared  []byte
	recent  [4]int
	nrecent int

	// observation (classification only)
	maxBuckets, maxOverflow int
	growths                 int
	wasGrowing              bool
	sawSameSize             bool
	fullGrowing, fullSteady int
	fullOverflow            int
	stagesChecked           map[int]int // old bucket count -> full checks while that growth was in flight
	evacEarly, evacLate     int         // full checks while growing with the evacuation mark below / at or above half of the old buckets
}

func newSub(name string, v4 bool, m *hashmap.Map, u universe, seed uint64, hint int) *sub {
	m.VerifSetSeed(seed)
	return &sub{name: name, v4: v4, m: m, u: u, model: map[string]*entry{}, seed: seed, hint: hint,
		scratch: make([]byte, u.klen), shared: make([]byte, u.klen), stagesChecked: map[int]int{}}
}

func (s *sub) track() hashmap.VerifMapState {
	st := s.m.VerifState()
	if st.Buckets > s.maxBuckets {
		s.maxBuckets = st.Buckets
	}
	if int(st.Overflow) > s.maxOverflow {
		s.maxOverflow = int(st.Overflow)
	}
	if st.Growing && !s.wasGrowing {
		s.growths++
	}
	s.wasGrowing = st.Growing
	if st.SameSizeGrow {
		s.sawSameSize = true
	}
	return st
}

// toTrigger returns how many fresh keys can still be inserted before the insert of one more
// fresh key starts a growth (generator steering only), and the entry count at that point.
// -1 while a growth is in flight.
func (s *sub) toTrigger() (r, lim int) {
	st := s.m.VerifState()
	if st.Growing {
		return -1, 0
	}
	nb := st.Buckets
	if nb == 0 {
		nb = 1
	}
	lim = 13 * (nb / 2)
	if lim < 8 {
		lim = 8
	}
	r = lim - s.m.Len()
	if r < 0 {
		r = 0
	}
	return r, lim
}

func (s *sub) freshIdx() int {
	for {
		i := s.next
		s.next++
		if _, ok := s.model[string(s.u.key(s.scratch, i))]; !ok {
			return i
		}
	}
}

// ---------------------------------------------------------------------------------------------
// machine

type machine struct {
	t      *rapid.T
	large  bool
	maxPop int
	subs   []*sub
	agg    *hashmap.AggFlowMap

	h     hash.Hash64
	trace strings.Builder
	step  int

	work, budget int64
	skippedFull  int

	nSetNew, nSetOld, nUpdNew, nUpdOld, nGetHit, nGetMiss, nMerge, nIter, nRebuild, nFlatten, nMeta, nMetaFiltered int
	ntIterGrowing, ntMergeSrcGrowing, ntMergeDstGrowing, mergeDstGrewDuring                                        int
	mergeCleared                                                                                                   int
	stops                                                                                                          map[string]int
}

func newMachine(t *rapid.T, large bool) *machine {
	m := &machine{t: t, large: large, h: fnv.New64a(), stops: map[string]int{}}
	if large {
		m.maxPop = evid.Pick(3600, 7200)
		m.budget = evid.Pick[int64](6_000_000, 40_000_000)
	} else {
		m.maxPop = 460
		m.budget = 600_000
	}
	return m
}

func (m *machine) op(format string, args ...any) {
	s := fmt.Sprintf(format, args...)
	m.h.Write([]byte(s))
	if m.trace.Len() < 1200 {
		m.trace.WriteString(s)
	}
}

func (m *machine) where(s *sub) string {
	st := s.m.VerifState()
	return fmt.Sprintf("[%s: klen %d seed %#x hint %d, %d entries, state %+v, step %d]\ntrace: %s", s.name, s.u.klen, s.seed, s.hint, len(s.model), st, m.step, m.trace.String())
}

// guard turns a panic of the code under test into a failure with a signature.
func (m *machine) guard(s *sub, what string, f func()) {
	defer func() {
		if r := recover(); r != nil {
			// rapid's own control-flow panics (Fatalf, Skip) must pass through untouched
			if fmt.Sprintf("%T", r) == "rapid.stopTest" || fmt.Sprintf("%T", r) == "rapid.invalidData" {
				panic(r)
			}
			m.t.Fatalf("%s", evid.Sig("C18:no-panic", "%s panicked: %v %s", what, r, m.where(s)))
		}
	}()
	f()
}

func (m *machine) pick(label string) *sub {
	if len(m.subs) == 1 {
		return m.subs[0]
	}
	return m.subs[rapid.IntRange(0, len(m.subs)-1).Draw(m.t, label)]
}

// put performs one insert / update through a caller buffer and checks the immediate read-back
// and, after the caller buffer has been overwritten, that the map still knows the key.
func (m *machine) put(s *sub, idx int, v types.Counters, useSet, viaAgg bool, bufMode int) {
	t := m.t
	kb := s.u.key(s.scratch, idx)
	ks := string(kb)
	var buf []byte
	if bufMode == bufShared {
		buf = s.shared
		copy(buf, kb)
	} else {
		buf = append([]byte(nil), kb...)
	}
	e := s.model[ks]
	want := v
	if e != nil && !useSet {
		want = add(e.val, v)
	}
	switch {
	case useSet:
		m.guard(s, "Set", func() { s.m.Set(buf, v) })
		if e == nil {
			m.nSetNew++
		} else {
			m.nSetOld++
		}
	case viaAgg && m.agg != nil:
		m.guard(s, "AggFlowMap.SetOrUpdate", func() {
			m.agg.SetOrUpdate(buf, s.v4, v.BytesRcvd, v.BytesSent, v.PacketsRcvd, v.PacketsSent)
		})
	default:
		m.guard(s, "SetOrUpdate", func() { s.m.SetOrUpdate(buf, v.BytesRcvd, v.BytesSent, v.PacketsRcvd, v.PacketsSent) })
	}
	if !useSet {
		if e == nil {
			m.nUpdNew++
		} else {
			m.nUpdOld++
		}
	}
	if e == nil {
		s.model[ks] = &entry{val: want}
		s.order = append(s.order, ks)
	} else {
		e.val = want
	}
	s.track()

	var (
		got types.Counters
		ok  bool
	)
	m.guard(s, "Get", func() { got, ok = s.m.Get(buf) })
	if !ok {
		t.Fatalf("%s", evid.Sig("C18:get-present", "key %x (index %d) not found right after its insert/update %s", kb, idx, m.where(s)))
	}
	if got != want {
		t.Fatalf("%s", evid.Sig("C18:get-value", "key %x (index %d) right after %s: got {%v}, want {%v} (previous value present: %v) %s",
			kb, idx, map[bool]string{true: "Set", false: "SetOrUpdate"}[useSet], got, want, e != nil, m.where(s)))
	}
	if l := s.m.Len(); l != len(s.model) {
		t.Fatalf("%s", evid.Sig("C18:len", "Len() = %d, want %d after insert/update of key %x %s", l, len(s.model), kb, m.where(s)))
	}
	if bufMode != bufKeep {
		// the caller re-uses its buffer: the map must have kept its own copy
		for j := range buf {
			buf[j] = ^buf[j] + byte(j)
		}
		m.guard(s, "Get", func() { got, ok = s.m.Get(kb) })
		if !ok || got != want {
			t.Fatalf("%s", evid.Sig("C18:own-key-copy", "key %x (index %d) was readable before the caller's key buffer was overwritten and is not afterwards (found=%v value {%v}, want {%v}) %s",
				kb, idx, ok, got, want, m.where(s)))
		}
	}
	s.recent[s.nrecent%len(s.recent)] = idx
	s.nrecent++
}

func (m *machine) probe(s *sub, kb []byte, what string) {
	t := m.t
	e := s.model[string(kb)]
	var (
		got types.Counters
		ok  bool
	)
	m.guard(s, "Get", func() { got, ok = s.m.Get(kb) })
	switch {
	case e == nil && ok:
		t.Fatalf("%s", evid.Sig("C18:get-absent", "%s: key %x was never inserted but Get returns {%v} %s", what, kb, got, m.where(s)))
	case e != nil && !ok:
		t.Fatalf("%s", evid.Sig("C18:get-present", "%s: key %x not found, model value {%v} %s", what, kb, e.val, m.where(s)))
	case e != nil && got != e.val:
		t.Fatalf("%s", evid.Sig("C18:get-value", "%s: key %x: got {%v}, want {%v} %s", what, kb, got, e.val, m.where(s)))
	}
	if e == nil {
		m.nGetMiss++
	} else {
		m.nGetHit++
	}
}

// full is the complete two-directional comparison of one map with its model.
func (m *machine) full(s *sub, ctx string) {
	t := m.t
	st := s.track()
	n := len(s.model)
	m.work += int64(2*n) + 1
	if l := s.m.Len(); l != n {
		t.Fatalf("%s", evid.Sig("C18:len", "%s: Len() = %d, want %d %s", ctx, l, n, m.where(s)))
	}
	s.epoch++
	count := 0
	m.guard(s, "Iter", func() {
		for it := s.m.Iter(); it.Next(); {
			k := it.Key()
			e := s.model[string(k)]
			if e == nil {
				t.Fatalf("%s", evid.Sig("C18:iter-invented", "%s: iteration yields key %x (value {%v}) that was never inserted %s", ctx, k, it.Val(), m.where(s)))
			}
			if e.stamp == s.epoch {
				t.Fatalf("%s", evid.Sig("C18:iter-once", "%s: iteration yields key %x twice %s", ctx, k, m.where(s)))
			}
			e.stamp = s.epoch
			if v := it.Val(); v != e.val {
				t.Fatalf("%s", evid.Sig("C18:iter-value", "%s: iteration yields key %x with {%v}, want {%v} %s", ctx, k, v, e.val, m.where(s)))
			}
			count++
			if count > n {
				t.Fatalf("%s", evid.Sig("C18:iter-once", "%s: iteration yields more than the %d entries of the map %s", ctx, n, m.where(s)))
			}
		}
	})
	if count != n {
		missing := ""
		for _, k := range s.order {
			if s.model[k].stamp != s.epoch {
				missing = fmt.Sprintf("%x", k)
				break
			}
		}
		t.Fatalf("%s", evid.Sig("C18:iter-complete", "%s: iteration yields %d of %d entries; first missing key %s %s", ctx, count, n, missing, m.where(s)))
	}
	for _, k := range s.order {
		e := s.model[k]
		var (
			got types.Counters
			ok  bool
		)
		m.guard(s, "Get", func() { got, ok = s.m.Get([]byte(k)) })
		if !ok {
			t.Fatalf("%s", evid.Sig("C18:get-present", "%s: key %x not found, model value {%v} %s", ctx, k, e.val, m.where(s)))
		}
		if got != e.val {
			t.Fatalf("%s", evid.Sig("C18:get-value", "%s: key %x: got {%v}, want {%v} %s", ctx, k, got, e.val, m.where(s)))
		}
	}
	m.nIter++
	if st.Growing {
		s.fullGrowing++
		s.stagesChecked[st.OldBuckets]++
		if 2*st.Evacuated < st.OldBuckets {
			s.evacEarly++
		} else {
			s.evacLate++
		}
		m.ntIterGrowing++
	} else {
		s.fullSteady++
	}
	if st.Overflow > 0 {
		s.fullOverflow++
	}
}

// maybeFull runs a full check when it is due and the work budget of the sequence allows it.
func (m *machine) maybeFull(s *sub, ctx string) {
	n := len(s.model)
	st := s.m.VerifState()
	if !(st.Growing || n <= 256 || m.step%8 == 0) {
		return
	}
	if m.work+int64(2*n) > m.budget {
		m.skippedFull++
		return
	}
	m.full(s, ctx)
}

// check is the invariant run after every action.
func (m *machine) check(t *rapid.T) {
	m.t = t
	m.step++
	x := rapid.Uint64().Draw(t, "probe")
	for _, s := range m.subs {
		if l := s.m.Len(); l != len(s.model) {
			t.Fatalf("%s", evid.Sig("C18:len", "Len() = %d, want %d %s", l, len(s.model), m.where(s)))
		}
		for j := 0; j < 5; j++ {
			idx := int((x>>33)%uint64(s.next+5)) - 2
			x = x*6364136223846793005 + 1442695040888963407
			m.probe(s, s.u.key(s.scratch, idx), "sampled lookup")
		}
		for j := 0; j < len(s.recent) && j < s.nrecent; j++ {
			m.probe(s, s.u.key(s.scratch, s.recent[j]), "lookup of a recently written key")
		}
		m.maybeFull(s, "after step")
	}
	if m.agg != nil {
		if l, w := m.agg.Len(), len(m.subs[0].model)+len(m.subs[1].model); l != w {
			t.Fatalf("%s", evid.Sig("C18:len", "AggFlowMap.Len() = %d, want %d %s", l, w, m.where(m.subs[0])))
		}
	}
}

// freshRun inserts n fresh keys; full checks (budget permitting) while growing, every stride-th insert.
func (m *machine) freshRun(s *sub, n int, base, stride types.Counters, useSet, viaAgg bool, bufMode, checkStride int) {
	for j := 0; j < n; j++ {
		m.put(s, s.freshIdx(), derived(base, stride, j), useSet, viaAgg, bufMode)
		if checkStride > 0 && j%checkStride == 0 && s.m.VerifState().Growing {
			m.maybeFull(s, "while growing, inside a run of inserts")
		}
	}
}

func (m *machine) actUpsert(t *rapid.T) {
	m.t = t
	s := m.pick("sub")
	idx := rapid.IntRange(-2, s.next+2).Draw(t, "idx")
	v := genCounters(t, "v")
	useSet := rapid.IntRange(0, 3).Draw(t, "useSet") == 0
	viaAgg := rapid.Bool().Draw(t, "viaAgg")
	bufMode := rapid.IntRange(0, 2).Draw(t, "buf")
	m.op(";u%s/%d/%v/%v/%d/%s", s.name, idx, useSet, viaAgg, bufMode, cs(v))
	m.put(s, idx, v, useSet, viaAgg, bufMode)
	if idx >= s.next {
		s.next = idx + 1
	}
}

func (m *machine) actBurst(t *rapid.T) {
	m.t = t
	maxN := 80
	if m.large {
		maxN = 700
	}
	n := rapid.OneOf(rapid.IntRange(1, 24), rapid.IntRange(1, maxN)).Draw(t, "n")
	kind := rapid.SampledFrom([]string{"fresh", "mixed", "existing"}).Draw(t, "kind")
	base, stride := genCounters(t, "base"), genCounters(t, "stride")
	useSet := rapid.IntRange(0, 5).Draw(t, "useSet") == 0
	viaAgg := rapid.Bool().Draw(t, "viaAgg")
	bufMode := rapid.IntRange(0, 2).Draw(t, "buf")
	start := rapid.IntRange(0, 1<<20).Draw(t, "start")
	stepIdx := rapid.SampledFrom([]int{1, 1, 2, 3, 7, 0}).Draw(t, "stepIdx")
	pattern := rapid.OneOf(rapid.SampledFrom([]uint64{0, ^uint64(0), 0xaaaaaaaaaaaaaaaa}), rapid.Uint64()).Draw(t, "family")
	checkStride := rapid.SampledFrom([]int{1, 1, 2, 5}).Draw(t, "checkStride")
	m.op(";b%d/%s/%s/%s/%v/%v/%d/%d/%d/%x/%d", n, kind, cs(base), cs(stride), useSet, viaAgg, bufMode, start, stepIdx, pattern, checkStride)
	for j := 0; j < n; j++ {
		s := m.subs[0]
		if len(m.subs) == 2 && pattern>>(uint(j)%64)&1 == 1 {
			s = m.subs[1]
		}
		if len(s.model) >= m.maxPop+64 && kind != "existing" {
			kind = "existing"
		}
		var idx int
		switch {
		case kind == "fresh" || (kind == "mixed" && j%2 == 0):
			idx = s.freshIdx()
		default:
			idx = (start + j*stepIdx) % (s.next + 1)
		}
		m.put(s, idx, derived(base, stride, j), useSet, viaAgg, bufMode)
		if idx >= s.next {
			s.next = idx + 1
		}
		if j%checkStride == 0 && s.m.VerifState().Growing {
			m.maybeFull(s, "while growing, inside a burst")
		}
	}
}

// actEdge steers the population of one map around the next growth trigger, or, while a growth is
// in flight, pushes the evacuation forward by a drawn number of writes.
func (m *machine) actEdge(t *rapid.T) {
	m.t = t
	s := m.pick("sub")
	base, stride := genCounters(t, "base"), genCounters(t, "stride")
	viaAgg := rapid.Bool().Draw(t, "viaAgg")
	bufMode := rapid.IntRange(0, 2).Draw(t, "buf")
	r, lim := s.toTrigger()
	if r < 0 {
		st := s.m.VerifState()
		old := st.OldBuckets
		k := rapid.SampledFrom([]int{1, 1, 2, 3, old/4 + 1, old/2 + 1, old}).Draw(t, "writes")
		fresh := rapid.Bool().Draw(t, "fresh")
		start := rapid.IntRange(0, 1<<20).Draw(t, "start")
		checkStride := rapid.SampledFrom([]int{1, 1, 3, 16}).Draw(t, "checkStride")
		m.op(";g%s/%d/%v/%d/%d/%s/%s/%d", s.name, k, fresh, start, checkStride, cs(base), cs(stride), bufMode)
		for j := 0; j < k; j++ {
			idx := (start + j) % (s.next + 1)
			if fresh && len(s.model) < m.maxPop+64 {
				idx = s.freshIdx()
			}
			m.put(s, idx, derived(base, stride, j), false, viaAgg, bufMode)
			if idx >= s.next {
				s.next = idx + 1
			}
			if j%checkStride == 0 && s.m.VerifState().Growing {
				m.maybeFull(s, "while growing, evacuation pushed forward")
			}
		}
		m.stops[fmt.Sprintf("stop:mid-growth/old=%d", old)]++
		return
	}
	if lim > m.maxPop {
		t.Skip("next growth trigger beyond the population bound")
	}
	nb := s.m.VerifState().Buckets
	delta := rapid.SampledFrom([]int{-2, -1, 0, 0, 1, 1, 1, 2, 3, 1 + nb/4, 1 + nb/2, nb + 2}).Draw(t, "delta")
	n := r + delta
	if n <= 0 {
		t.Skip("already past that point")
	}
	checkStride := rapid.SampledFrom([]int{1, 1, 3}).Draw(t, "checkStride")
	m.op(";e%s/%d/%d/%s/%s/%d/%d", s.name, delta, n, cs(base), cs(stride), bufMode, checkStride)
	m.freshRun(s, n, base, stride, false, viaAgg, bufMode, checkStride)
	pos := "before"
	switch {
	case delta == 0:
		pos = "just-before"
	case delta == 1:
		pos = "at"
	case delta > 1:
		pos = "after"
	}
	m.stops[fmt.Sprintf("stop:%s-trigger@%d", pos, lim+1)]++
	if s.m.VerifState().Growing {
		m.maybeFull(s, "stopped "+pos+" a growth trigger")
	}
}

func (m *machine) actGet(t *rapid.T) {
	m.t = t
	s := m.pick("sub")
	n := rapid.IntRange(1, 6).Draw(t, "n")
	for j := 0; j < n; j++ {
		idx := rapid.OneOf(rapid.IntRange(-2, s.next+3), rapid.IntRange(-2, 1<<30)).Draw(t, "idx")
		kb := append([]byte(nil), s.u.key(s.scratch, idx)...)
		flip := rapid.IntRange(-1, s.u.klen*8-1).Draw(t, "flipBit")
		if flip >= 0 && rapid.IntRange(0, 2).Draw(t, "doFlip") == 0 {
			kb[flip/8] ^= 1 << (flip % 8)
		}
		m.op(";q%s/%x", s.name, kb)
		m.probe(s, kb, "Get")
	}
}

func (m *machine) actIter(t *rapid.T) {
	m.t = t
	s := m.pick("sub")
	m.op(";i%s", s.name)
	m.full(s, "iter action")
}

// actIterInsert iterates a map and inserts fresh keys between two Next calls (the map is a port of the Go
// runtime map, whose iterators tolerate insertion: every entry present when the iteration started is
// produced exactly once with its value, an entry inserted meanwhile at most once). The inserts are sized
// to start a growth, or to move one along, underneath the iterator.
func (m *machine) actIterInsert(t *rapid.T) {
	m.t = t
	s := m.pick("sub")
	n0 := len(s.model)
	if n0 == 0 || n0+40 > m.maxPop {
		m.full(s, "iter action")
		return
	}
	at := rapid.IntRange(0, n0-1).Draw(t, "insertAfter")
	cnt := rapid.IntRange(1, 6).Draw(t, "inserts")
	if r, _ := s.toTrigger(); r >= 0 && r < 30 && rapid.Bool().Draw(t, "crossTrigger") {
		cnt = r + 1 + rapid.IntRange(0, 3).Draw(t, "beyond")
	}
	v := types.Counters{BytesRcvd: rapid.Uint64Range(1, 1000).Draw(t, "v"), PacketsRcvd: 1}
	m.op(";I%s@%d+%d", s.name, at, cnt)
	before := s.m.VerifState()
	s.epoch++
	start := make(map[string]bool, n0)
	for _, k := range s.order {
		start[k] = true
	}
	ctx := fmt.Sprintf("iteration with %d inserts after the %d. entry (map state at the start %+v)", cnt, at+1, before)
	seen, fresh := 0, 0
	it := s.m.Iter()
	for pos := 0; ; pos++ {
		if pos == at+1 {
			for i := 0; i < cnt; i++ {
				m.put(s, s.freshIdx(), v, false, false, bufShared)
			}
		}
		var more bool
		m.guard(s, "Iter.Next", func() { more = it.Next() })
		if !more {
			break
		}
		k := string(it.Key())
		e := s.model[k]
		if e == nil {
			t.Fatalf("%s", evid.Sig("C18:iter-invented", "%s: yields key %x that was never inserted %s", ctx, k, m.where(s)))
		}
		if e.stamp == s.epoch {
			t.Fatalf("%s", evid.Sig("C18:iter-once", "%s: yields key %x twice %s", ctx, k, m.where(s)))
		}
		e.stamp = s.epoch
		if got := it.Val(); got != e.val {
			t.Fatalf("%s", evid.Sig("C18:iter-value", "%s: yields key %x with {%v}, want {%v} %s", ctx, k, got, e.val, m.where(s)))
		}
		if start[k] {
			seen++
		} else {
			fresh++
		}
		if seen+fresh > len(s.model) {
			t.Fatalf("%s", evid.Sig("C18:iter-once", "%s: yields more entries than the map holds %s", ctx, m.where(s)))
		}
	}
	if seen != n0 {
		missing := ""
		for _, k := range s.order {
			if start[k] && s.model[k].stamp != s.epoch {
				missing = fmt.Sprintf("%x", k)
				break
			}
		}
		t.Fatalf("%s", evid.Sig("C18:iter-complete", "%s: yields %d of the %d entries that were in the map when it started; first missing key %s %s", ctx, seen, n0, missing, m.where(s)))
	}
	after := s.track()
	m.nIter++
	m.stops["iter-with-inserts"]++
	if before.Growing || after.Growing || after.Buckets != before.Buckets {
		m.stops["iter-with-inserts:table-grew-or-was-growing"]++
		m.ntIterGrowing++
	}
}

// buildSource creates a second map over the same key universe with its own model.
func (m *machine) buildSource(t *rapid.T, dst *sub, label string, src *hashmap.Map, hint int) *sub {
	seed := dst.seed
	if rapid.IntRange(0, 3).Draw(t, label+".sameSeed") != 0 {
		seed = rapid.Uint64Range(1, 1<<64-1).Draw(t, label+".seed")
	}
	s := newSub(label, dst.v4, src, dst.u, seed, hint)
	base, stride := genCounters(t, label+".base"), genCounters(t, label+".stride")
	capN := 120
	if m.large {
		capN = 900
	}
	var n int
	switch rapid.IntRange(0, 3).Draw(t, label+".sizing") {
	case 0:
		n = rapid.IntRange(0, 12).Draw(t, label+".n")
	case 1:
		n = rapid.IntRange(0, capN).Draw(t, label+".n")
	default:
		// around a growth trigger of the source: 27, 53, 105, 209 ... entries
		stage := rapid.IntRange(0, 3).Draw(t, label+".stage")
		if m.large {
			stage = rapid.IntRange(0, 5).Draw(t, label+".stageL")
		}
		trig := 13*(4<<stage)/2 + 1
		n = trig + rapid.SampledFrom([]int{-2, -1, 0, 0, 0, 1, 1, 2, 1 << stage, 2 << stage}).Draw(t, label+".delta")
	}
	// overlap with the destination: start somewhere inside (or just beyond) the used index range;
	// once the destination has reached the population bound only inside, so that it stops growing
	hiFirst := dst.next + 2
	if len(dst.model) >= m.maxPop {
		hiFirst = max(0, dst.next-n)
	}
	s.next = rapid.IntRange(0, hiFirst).Draw(t, label+".first")
	useSet := rapid.IntRange(0, 3).Draw(t, label+".useSet") == 0
	bufMode := rapid.IntRange(0, 2).Draw(t, label+".buf")
	dups := rapid.IntRange(0, 3).Draw(t, label+".dups")
	m.op("{%s:%#x/%d/%d/%d/%s/%s/%v/%d/%d}", label, seed, hint, s.next, n, cs(base), cs(stride), useSet, bufMode, dups)
	first := s.next
	for j := 0; j < n; j++ {
		m.put(s, first+j, derived(base, stride, j), useSet, false, bufMode)
	}
	s.next = first + n
	for j := 0; j < dups && n > 0; j++ { // additive updates inside the source
		m.put(s, first+(j*7)%n, derived(stride, base, j), false, false, bufMode)
	}
	return s
}

func (m *machine) mergeModel(dst, src *sub) {
	for _, k := range src.order {
		v := src.model[k].val
		if e := dst.model[k]; e != nil {
			e.val = add(e.val, v)
		} else {
			dst.model[k] = &entry{val: v}
			dst.order = append(dst.order, k)
		}
	}
	if src.next > dst.next {
		dst.next = src.next
	}
}

func (m *machine) noteMerge(dst, src *sub, before hashmap.VerifMapState, srcState hashmap.VerifMapState) {
	after := dst.track()
	if srcState.Growing && len(src.model) > 0 {
		m.ntMergeSrcGrowing++
	}
	if before.Growing && len(src.model) > 0 {
		m.ntMergeDstGrowing++
	}
	if !before.Growing && (after.Buckets != before.Buckets || after.Growing) {
		m.mergeDstGrewDuring++
	}
}

func (m *machine) actMerge(t *rapid.T) {
	m.t = t
	hint := rapid.SampledFrom(hints).Draw(t, "src.hint")
	if m.agg == nil {
		dst := m.subs[0]
		src := m.buildSource(t, dst, "src", hashmap.New(hint), hint)
		m.full(src, "merge source before the merge")
		before, srcState := dst.track(), src.track()
		m.op(";M")
		m.guard(dst, "Merge", func() { dst.m.Merge(src.m) })
		m.mergeModel(dst, src)
		m.noteMerge(dst, src, before, srcState)
		m.afterMerge(t, src)
		m.full(dst, fmt.Sprintf("after Merge of %d entries (source %+v) into a map in state %+v", len(src.model), srcState, before))
		m.nMerge++
		return
	}
	var srcAgg *hashmap.AggFlowMap
	if hint == 0 {
		srcAgg = hashmap.NewAggFlowMap()
	} else {
		srcAgg = hashmap.NewAggFlowMap(hint)
	}
	srcs := []*sub{
		m.buildSource(t, m.subs[0], "src4", srcAgg.PrimaryMap, hint),
		m.buildSource(t, m.subs[1], "src6", srcAgg.SecondaryMap, hint),
	}
	var before, srcState [2]hashmap.VerifMapState
	for i := range srcs {
		m.full(srcs[i], "merge source before the merge")
		before[i], srcState[i] = m.subs[i].track(), srcs[i].track()
	}
	withMeta := rapid.Bool().Draw(t, "withMetadata")
	m.op(";M%v", withMeta)
	m.guard(m.subs[0], "AggFlowMap.Merge", func() {
		if withMeta {
			hashmap.AggFlowMapWithMetadata{AggFlowMap: m.agg}.Merge(hashmap.AggFlowMapWithMetadata{AggFlowMap: srcAgg})
		} else {
			m.agg.Merge(*srcAgg)
		}
	})
	for i := range srcs {
		m.mergeModel(m.subs[i], srcs[i])
		m.noteMerge(m.subs[i], srcs[i], before[i], srcState[i])
	}
	switch rapid.IntRange(0, 2).Draw(t, "clearSource") {
	case 1:
		m.op("c")
		m.guard(srcs[0], "AggFlowMap.Clear", func() { srcAgg.Clear() })
		m.mergeCleared++
	case 2:
		m.op("f")
		m.guard(srcs[0], "AggFlowMap.ClearFast", func() { srcAgg.ClearFast() })
		m.mergeCleared++
	}
	for i := range srcs {
		m.full(m.subs[i], fmt.Sprintf("after AggFlowMap.Merge of %d entries (source %+v) into a map in state %+v", len(srcs[i].model), srcState[i], before[i]))
	}
	m.nMerge++
}

// afterMerge optionally releases the merge source the way engine/aggregate.go does.
func (m *machine) afterMerge(t *rapid.T, src *sub) {
	switch rapid.IntRange(0, 2).Draw(t, "clearSource") {
	case 1:
		m.op("c")
		m.guard(src, "Clear", func() { src.m.Clear() })
		m.mergeCleared++
	case 2:
		m.op("f")
		m.guard(src, "ClearFast", func() { src.m.ClearFast() })
		m.mergeCleared++
	}
}

var filters = []struct {
	name string
	f    hashmap.ValFilter
}{
	{"in", types.Counters.IsOnlyInbound},
	{"out", types.Counters.IsOnlyOutbound},
	{"uni", types.Counters.IsUnidirectional},
	{"bi", types.Counters.IsBidirectional},
}

// actRebuild copies the map through its iterator into a new one (optionally through a direction
// filter), as goDB.QueryFilter does: the iterator's key slices are used as insert keys.
func (m *machine) actRebuild(t *rapid.T) {
	m.t = t
	s := m.pick("sub")
	if int64(4*len(s.model)) > m.budget-m.work {
		t.Skip("work budget")
	}
	fi := rapid.IntRange(-1, len(filters)-1).Draw(t, "filter")
	seed := rapid.Uint64Range(1, 1<<64-1).Draw(t, "seed")
	m.op(";r%s/%d/%#x", s.name, fi, seed)
	res := newSub("rebuilt", s.v4, hashmap.New(), s.u, seed, 0)
	growing := s.m.VerifState().Growing
	m.guard(s, "Iter", func() {
		for it := s.m.Iter(); it.Next(); {
			if fi >= 0 && !filters[fi].f(it.Val()) {
				continue
			}
			v := it.Val()
			res.m.SetOrUpdate(it.Key(), v.BytesRcvd, v.BytesSent, v.PacketsRcvd, v.PacketsSent)
		}
	})
	for _, k := range s.order {
		if e := s.model[k]; fi < 0 || filters[fi].f(e.val) {
			res.model[k] = &entry{val: e.val}
			res.order = append(res.order, k)
		}
	}
	m.full(res, "map rebuilt from an iteration")
	m.work += int64(len(s.model))
	m.nRebuild++
	if growing {
		m.ntIterGrowing++
	}
}

// actMeta checks AggFlowMap.Iter with and without a value filter.
func (m *machine) actMeta(t *rapid.T) {
	m.t = t
	fi := rapid.IntRange(-1, len(filters)-1).Draw(t, "filter")
	m.op(";m%d", fi)
	m.meta(fi)
}

func (m *machine) subFor(k []byte) *sub {
	for _, s := range m.subs {
		if len(k) == s.u.klen {
			return s
		}
	}
	return nil
}

func (m *machine) meta(fi int) {
	t := m.t
	p, q := m.subs[0], m.subs[1]
	m.work += int64(len(p.model) + len(q.model))
	want := 0
	for _, s := range m.subs {
		s.epoch++
		for _, k := range s.order {
			if fi < 0 || filters[fi].f(s.model[k].val) {
				want++
			}
		}
	}
	ctx := "AggFlowMap.Iter()"
	var it *hashmap.MetaIter
	if fi >= 0 {
		ctx = "AggFlowMap.Iter(WithFilter(" + filters[fi].name + "))"
		it = m.agg.Iter(hashmap.WithFilter(filters[fi].f))
	} else {
		it = m.agg.Iter()
	}
	count := 0
	m.guard(p, ctx, func() {
		for it.Next() {
			k := it.Key()
			s := m.subFor(k)
			var e *entry
			if s != nil {
				e = s.model[string(k)]
			}
			if e == nil {
				t.Fatalf("%s", evid.Sig("C18:iter-invented", "%s yields key %x (value {%v}) that was never inserted %s", ctx, k, it.Val(), m.where(p)))
			}
			if e.stamp == s.epoch {
				t.Fatalf("%s", evid.Sig("C18:iter-once", "%s yields key %x twice %s", ctx, k, m.where(s)))
			}
			e.stamp = s.epoch
			if v := it.Val(); v != e.val {
				t.Fatalf("%s", evid.Sig("C18:iter-value", "%s yields key %x with {%v}, want {%v} %s", ctx, k, v, e.val, m.where(s)))
			}
			if fi >= 0 && !filters[fi].f(e.val) {
				t.Fatalf("%s", evid.Sig("C18:filter", "%s yields key %x whose value {%v} does not pass the filter %s", ctx, k, e.val, m.where(s)))
			}
			count++
			if count > want {
				t.Fatalf("%s", evid.Sig("C18:iter-once", "%s yields more than the %d expected entries %s", ctx, want, m.where(s)))
			}
		}
	})
	if count != want {
		missing, in := "", p
		for _, s := range m.subs {
			for _, k := range s.order {
				if e := s.model[k]; e.stamp != s.epoch && (fi < 0 || filters[fi].f(e.val)) && missing == "" {
					missing, in = fmt.Sprintf("%x {%v}", k, e.val), s
				}
			}
		}
		t.Fatalf("%s", evid.Sig("C18:iter-complete", "%s yields %d of %d expected entries; first missing %s %s", ctx, count, want, missing, m.where(in)))
	}
	if fi >= 0 {
		m.nMetaFiltered++
	} else {
		m.nMeta++
	}
	if p.m.VerifState().Growing || q.m.VerifState().Growing {
		m.ntIterGrowing++
		evid.Class("metaiter:while-growing")
	}
}

// actFlatten checks AggFlowMap.Flatten: each list holds exactly the entries of its sub-map, once.
func (m *machine) actFlatten(t *rapid.T) {
	m.t = t
	m.op(";f")
	var lists [2]hashmap.List
	m.guard(m.subs[0], "Flatten", func() { lists[0], lists[1] = m.agg.Flatten() })
	for i, s := range m.subs {
		m.work += int64(len(s.model))
		l := lists[i]
		if len(l) != len(s.model) {
			t.Fatalf("%s", evid.Sig("C18:flatten", "Flatten: list %d has %d items, want %d %s", i, len(l), len(s.model), m.where(s)))
		}
		s.epoch++
		for _, item := range l {
			e := s.model[string(item.Key)]
			if e == nil {
				t.Fatalf("%s", evid.Sig("C18:flatten", "Flatten: list %d holds key %x (value {%v}) that was never inserted into that sub-map %s", i, []byte(item.Key), item.Val, m.where(s)))
			}
			if e.stamp == s.epoch {
				t.Fatalf("%s", evid.Sig("C18:flatten", "Flatten: list %d holds key %x twice %s", i, []byte(item.Key), m.where(s)))
			}
			e.stamp = s.epoch
			if item.Val != e.val {
				t.Fatalf("%s", evid.Sig("C18:flatten", "Flatten: key %x has {%v}, want {%v} %s", []byte(item.Key), item.Val, e.val, m.where(s)))
			}
		}
		if s.m.VerifState().Growing {
			m.ntIterGrowing++
			evid.Class("flatten:while-growing")
		}
	}
	m.nFlatten++
}

// prefill brings a map to a drawn population (2 below .. 1 above a growth trigger) without full checks on the way.
func (m *machine) prefill(t *rapid.T, s *sub, label string) {
	var stages []int
	if m.large {
		stages = evid.Pick([]int{128, 256, 256, 512, 512}, []int{128, 256, 512, 512, 1024, 1024})
	} else {
		stages = []int{0, 0, 0, 0, 1, 2, 4, 8, 16, 32, 64}
	}
	nb := rapid.SampledFrom(stages).Draw(t, label+".prefillStage")
	if nb == 0 {
		m.op("{%s:-}", label)
		return
	}
	lim := 13 * (nb / 2)
	if lim < 8 {
		lim = 8
	}
	target := lim + rapid.SampledFrom([]int{-2, -1, 0, 0, 1}).Draw(t, label+".prefillDelta")
	base, stride := genCounters(t, label+".pbase"), genCounters(t, label+".pstride")
	bufMode := rapid.IntRange(0, 2).Draw(t, label+".pbuf")
	m.op("{%s:%d/%s/%s/%d}", label, target, cs(base), cs(stride), bufMode)
	m.freshRun(s, target, base, stride, false, false, bufMode, 0)
}

func (m *machine) finish(kind string) {
	// closing full comparison of everything
	for _, s := range m.subs {
		m.full(s, "end of sequence")
	}
	if m.agg != nil {
		m.meta(-1)
	}
	nt := m.ntIterGrowing+m.ntMergeSrcGrowing+m.ntMergeDstGrowing > 0
	cl := []string{kind}
	anyOverflow, anyGrowth := false, false
	for _, s := range m.subs {
		cl = append(cl, fmt.Sprintf("klen:%d", s.u.klen), fmt.Sprintf("reached-buckets:%d", s.maxBuckets))
		switch {
		case s.hint == 0:
			cl = append(cl, "hint:0")
		case s.hint <= 8:
			cl = append(cl, "hint:1..8")
		default:
			cl = append(cl, "hint:>8")
		}
		if s.maxOverflow > 0 {
			anyOverflow = true
		}
		if s.growths > 0 {
			anyGrowth = true
		}
		if s.sawSameSize {
			cl = append(cl, "same-size-grow-seen")
		}
		evid.ClassN("full-check:while-growing", int64(s.fullGrowing))
		evid.ClassN("full-check:while-growing/evacuation-mark<half", int64(s.evacEarly))
		evid.ClassN("full-check:while-growing/evacuation-mark>=half", int64(s.evacLate))
		evid.ClassN("full-check:steady", int64(s.fullSteady))
		evid.ClassN("full-check:overflow-buckets-present", int64(s.fullOverflow))
		for _, old := range []int{4, 8, 16, 32, 64, 128, 256, 512, 1024, 2048} {
			if c := s.stagesChecked[old]; c > 0 {
				evid.ClassN(fmt.Sprintf("full-check:while-growing/old-buckets=%d", old), int64(c))
			}
		}
		evid.ClassN("growths-started", int64(s.growths))
		switch {
		case s.maxOverflow == 0:
		case s.maxOverflow <= 2:
			evid.Class("max-overflow-buckets:1..2")
		case s.maxOverflow <= 8:
			evid.Class("max-overflow-buckets:3..8")
		default:
			evid.Class("max-overflow-buckets:>8")
		}
	}
	if anyOverflow {
		cl = append(cl, "overflow-buckets-seen")
	}
	if anyGrowth {
		cl = append(cl, "grew")
	}
	if m.ntIterGrowing > 0 {
		cl = append(cl, "iter-checked-while-growing")
	}
	if m.ntMergeSrcGrowing > 0 {
		cl = append(cl, "merge-checked/source-growing")
	}
	if m.ntMergeDstGrowing > 0 {
		cl = append(cl, "merge-checked/destination-growing")
	}
	if m.mergeDstGrewDuring > 0 {
		cl = append(cl, "merge-checked/destination-grew-during-merge")
	}
	if m.skippedFull > 0 {
		cl = append(cl, "work-budget-hit")
	}
	for _, k := range sortedKeys(m.stops) {
		evid.ClassN(k, int64(m.stops[k]))
	}
	evid.Case(fmt.Sprintf("%s:%016x", kind, m.h.Sum64()), nt, cl...)
	evid.ClassN("ops:set-new", int64(m.nSetNew))
	evid.ClassN("ops:set-existing", int64(m.nSetOld))
	evid.ClassN("ops:setorupdate-new", int64(m.nUpdNew))
	evid.ClassN("ops:setorupdate-existing", int64(m.nUpdOld))
	evid.ClassN("ops:get-present", int64(m.nGetHit))
	evid.ClassN("ops:get-absent", int64(m.nGetMiss))
	evid.ClassN("ops:merge", int64(m.nMerge))
	evid.ClassN("ops:merge/source-growing", int64(m.ntMergeSrcGrowing))
	evid.ClassN("ops:merge/destination-growing", int64(m.ntMergeDstGrowing))
	evid.ClassN("ops:merge/destination-grew-during", int64(m.mergeDstGrewDuring))
	evid.ClassN("ops:merge/source-cleared-afterwards", int64(m.mergeCleared))
	evid.ClassN("ops:full-iteration", int64(m.nIter))
	evid.ClassN("ops:rebuild-from-iter", int64(m.nRebuild))
	evid.ClassN("ops:metaiter", int64(m.nMeta))
	evid.ClassN("ops:metaiter-filtered", int64(m.nMetaFiltered))
	evid.ClassN("ops:flatten", int64(m.nFlatten))
	evid.ClassN("full-checks-skipped-for-budget", int64(m.skippedFull))
	if evid.WantSample(nt) {
		smp := map[string]any{"kind": kind, "steps": m.step, "full_checks_while_growing": m.ntIterGrowing, "merges": m.nMerge,
			"merges_source_growing": m.ntMergeSrcGrowing, "merges_destination_growing": m.ntMergeDstGrowing, "trace": m.trace.String()}
		for _, s := range m.subs {
			smp[s.name] = map[string]any{"klen": s.u.klen, "seed": fmt.Sprintf("%#x", s.seed), "hint": s.hint, "entries": len(s.model),
				"max_buckets": s.maxBuckets, "max_overflow": s.maxOverflow, "growths": s.growths}
		}
		evid.Sample(smp, nt)
	}
}

func sortedKeys(m map[string]int) []string {
	ks := make([]string, 0, len(m))
	for k := range m {
		ks = append(ks, k)
	}
	// insertion sort: tiny maps, and no dependence on map order in what gets recorded
	for i := 1; i < len(ks); i++ {
		for j := i; j > 0 && ks[j] < ks[j-1]; j-- {
			ks[j], ks[j-1] = ks[j-1], ks[j]
		}
	}
	return ks
}

// ---------------------------------------------------------------------------------------------
// the three properties

func runMap(t *rapid.T, large bool) {
	m := newMachine(t, large)
	klen := rapid.SampledFrom([]int{13, 21, 37, 45}).Draw(t, "klen")
	hint := rapid.SampledFrom(hints).Draw(t, "hint")
	seed := rapid.Uint64Range(1, 1<<64-1).Draw(t, "seed")
	var hm *hashmap.Map
	switch rapid.IntRange(0, 2).Draw(t, "ctor") {
	case 0:
		hm = hashmap.NewHint(hint)
	case 1:
		hm = hashmap.New(hint)
	default:
		if hint == 0 {
			hm = hashmap.New()
		} else {
			hm = hashmap.New(hint)
		}
	}
	s := newSub("map", klen == 13 || klen == 21, hm, genUniverse(t, "u", klen), seed, hint)
	m.subs = []*sub{s}
	m.op("map/%d/%d/%#x/%x/%d/%d", klen, hint, seed, s.u.tmpl, s.u.pos, s.u.mul)
	m.prefill(t, s, "map")
	actions := map[string]func(*rapid.T){
		"":        m.check,
		"upsert":  m.actUpsert,
		"upsert2": m.actUpsert,
		"burst":   m.actBurst,
		"edge":    m.actEdge,
		"edge2":   m.actEdge,
		"edge3":   m.actEdge,
		"get":     m.actGet,
		"iter":    m.actIter,
		"iterins": m.actIterInsert,
		"merge":   m.actMerge,
		"merge2":  m.actMerge,
		"rebuild": m.actRebuild,
	}
	t.Repeat(actions)
	kind := "map"
	if large {
		kind = "map-large"
	}
	m.finish(kind)
}

func runAgg(t *rapid.T) {
	m := newMachine(t, false)
	ext := rapid.Bool().Draw(t, "timeExtended")
	k4, k6 := 13, 37
	if ext {
		k4, k6 = 21, 45
	}
	hint := rapid.SampledFrom(hints).Draw(t, "hint")
	if hint == 0 {
		m.agg = hashmap.NewAggFlowMap()
	} else {
		m.agg = hashmap.NewAggFlowMap(hint)
	}
	seed4 := rapid.Uint64Range(1, 1<<64-1).Draw(t, "seed4")
	seed6 := seed4
	if rapid.IntRange(0, 3).Draw(t, "sameSeed") != 0 {
		seed6 = rapid.Uint64Range(1, 1<<64-1).Draw(t, "seed6")
	}
	p := newSub("primary", true, m.agg.PrimaryMap, genUniverse(t, "u4", k4), seed4, hint)
	q := newSub("secondary", false, m.agg.SecondaryMap, genUniverse(t, "u6", k6), seed6, hint)
	m.subs = []*sub{p, q}
	m.op("agg/%v/%d/%#x/%#x/%x/%d/%d/%x/%d/%d", ext, hint, seed4, seed6, p.u.tmpl, p.u.pos, p.u.mul, q.u.tmpl, q.u.pos, q.u.mul)
	m.prefill(t, p, "primary")
	m.prefill(t, q, "secondary")
	actions := map[string]func(*rapid.T){
		"":        m.check,
		"upsert":  m.actUpsert,
		"upsert2": m.actUpsert,
		"burst":   m.actBurst,
		"edge":    m.actEdge,
		"edge2":   m.actEdge,
		"edge3":   m.actEdge,
		"get":     m.actGet,
		"iter":    m.actIter,
		"iterins": m.actIterInsert,
		"merge":   m.actMerge,
		"merge2":  m.actMerge,
		"meta":    m.actMeta,
		"meta2":   m.actMeta,
		"flatten": m.actFlatten,
		"rebuild": m.actRebuild,
	}
	t.Repeat(actions)
	m.finish("aggflowmap")
}

// TestC18Map: state machine on a single hashmap.Map, populations up to ~500 entries (growth stages 1 -> 128 buckets).
func TestC18Map(t *testing.T) {
	rapid.Check(t, func(t *rapid.T) { runMap(t, false) })
}

// TestC18AggFlowMap: state machine on hashmap.AggFlowMap (IPv4 + IPv6 sub-maps, MetaIter, Flatten, Merge).
func TestC18AggFlowMap(t *testing.T) {
	rapid.Check(t, func(t *rapid.T) { runAgg(t) })
}

// TestC18Large: the same machine as TestC18Map started from a population just around a late growth
// trigger (833, 1665, 3329 entries; 6657 in the thorough tier), so that evacuations that take hundreds
// of writes are walked through with full checks.
func TestC18Large(t *testing.T) {
	rapid.Check(t, func(t *rapid.T) { runMap(t, true) })
}
