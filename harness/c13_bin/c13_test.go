// C13 — re-binning time-labelled results to a coarser resolution conserves every
// counter, yields at most one row per (bin, labels, attributes), labels each row
// with the end of the bin that contains its original timestamp, is idempotent,
// and the automatic bin size is a multiple of five minutes that keeps a day's
// worth of bins (288) or fewer.
package c13

import (
	"context"
	"fmt"
	"net/netip"
	"sort"
	"strings"
	"testing"
	"time"

	"github.com/els0r/goProbe/v4/pkg/query"
	"github.com/els0r/goProbe/v4/pkg/results"
	"github.com/els0r/goProbe/v4/pkg/types"
	"pgregory.net/rapid"

	"verifharness/internal/evid"
)

func TestMain(m *testing.M) {
	evid.Rule("rows: 1-40 rows drawn from a pool of 1-4 (labels, attributes) combinations (so that keys collide), timestamps >= 0 placed around multiples of the bin size " +
		"(exact bin ends, +-1 s, +-5 min, arbitrary seconds, Unix 0), instants carried in Local/UTC/fixed/freshly allocated locations, rows without time label (zero time.Time), counters < 2^50; " +
		"bin sizes k*300 s, k in 1..600 (k = 1 only through TimeBinner.BinTime, k >= 2 also through Statement.PostProcess of a statement made by Args.Prepare with an explicit or automatic time resolution); " +
		"durations for CalcTimeBinSize: whole seconds from 1 s to the saturated maximum of time.Duration, clustered around multiples of 288*300 s; " +
		"non-trivial = at least two input rows fall into one output row (binning) / the automatic size exceeds five minutes (bin size selection); distinct by canonical text of bin size and rows")
	evid.Assume("negative Unix times are outside the domain (goDB block timestamps are positive)",
		"Statement.PostProcess deliberately leaves results alone when the bin size equals the native five minutes, so k = 1 is exercised through TimeBinner.BinTime only",
		"CalcTimeBinSize is only called with whole-second durations (time.Unix(last,0).Sub(time.Unix(first,0))); sub-second durations are not generated",
		"rows without a time label carry the literal zero time.Time (engine output and JSON decoding both produce it)",
		"instants are compared with time.Equal / Unix(); counters are small enough that sums do not wrap",
		"the order of the rows after binning is not part of C13 (see C14); results are compared as keyed sets")
	evid.Main(m)
}

const native = int64(300)

// ---- generators

type keyT struct {
	iface, host, hid string
	attrs            results.Attributes
}

var (
	ifaces      = []string{"", "eth0", "eth1"}
	hosts       = []string{"", "hostA", "hostB"}
	hids        = []string{"", "1", "2"}
	addrs       = []netip.Addr{{}, netip.MustParseAddr("10.0.0.1"), netip.MustParseAddr("10.0.0.2"), netip.MustParseAddr("2001:db8::1"), netip.MustParseAddr("0.0.0.0"), netip.MustParseAddr("::")}
	sharedFixed = time.FixedZone("", 2*3600)
)

func genKey(t *rapid.T, label string) keyT {
	return keyT{
		iface: rapid.SampledFrom(ifaces).Draw(t, label+".iface"),
		host:  rapid.SampledFrom(hosts).Draw(t, label+".host"),
		hid:   rapid.SampledFrom(hids).Draw(t, label+".hid"),
		attrs: results.Attributes{
			SrcIP:   rapid.SampledFrom(addrs).Draw(t, label+".sip"),
			DstIP:   rapid.SampledFrom(addrs).Draw(t, label+".dip"),
			IPProto: rapid.SampledFrom([]uint8{0, 6, 17}).Draw(t, label+".proto"),
			DstPort: rapid.SampledFrom([]uint16{0, 53, 443}).Draw(t, label+".dport"),
		},
	}
}

func genCounter(t *rapid.T, label string) uint64 {
	return rapid.OneOf(rapid.SampledFrom([]uint64{0, 1, 2, 1500, 1 << 32, 1<<50 - 1}), rapid.Uint64Range(0, 1<<50-1)).Draw(t, label)
}

// inLoc carries the instant in one of the locations real rows arrive in: Local (engine),
// UTC or a fixed zone (JSON decoded), where every decoded value has its own *Location.
func inLoc(t *rapid.T, ts int64, label string) (time.Time, string) {
	switch rapid.IntRange(0, 4).Draw(t, label) {
	case 0, 1:
		return time.Unix(ts, 0), "local"
	case 2:
		return time.Unix(ts, 0).UTC(), "utc"
	case 3:
		return time.Unix(ts, 0).In(sharedFixed), "fixed"
	default:
		return time.Unix(ts, 0).In(time.FixedZone("", -5*3600)), "fresh"
	}
}

// genRows draws rows whose timestamps probe the bin boundaries of bin (seconds).
func genRows(t *rapid.T, bin int64) (results.Rows, []string) {
	cls := map[string]bool{}
	pool := make([]keyT, rapid.IntRange(1, 4).Draw(t, "npool"))
	for i := range pool {
		pool[i] = genKey(t, fmt.Sprintf("key%d", i))
	}
	// anchor: a multiple of the bin size, sometimes 0 (start of the epoch)
	maxM := int64(2_000_000_000) / bin
	m := rapid.OneOf(rapid.Int64Range(0, 3), rapid.Int64Range(0, maxM)).Draw(t, "anchor")
	anchor := m * bin
	n := rapid.IntRange(1, 40).Draw(t, "nrows")
	rows := make(results.Rows, 0, n)
	locs := map[string]bool{}
	for i := 0; i < n; i++ {
		l := fmt.Sprintf("row%d", i)
		k := pool[rapid.IntRange(0, len(pool)-1).Draw(t, l+".key")]
		row := results.Row{
			Labels:     results.Labels{Iface: k.iface, Hostname: k.host, HostID: k.hid},
			Attributes: k.attrs,
			Counters: types.Counters{BytesRcvd: genCounter(t, l+".br"), BytesSent: genCounter(t, l+".bs"),
				PacketsRcvd: genCounter(t, l+".pr"), PacketsSent: genCounter(t, l+".ps")},
		}
		if rapid.IntRange(0, 7).Draw(t, l+".zero") == 0 {
			cls["rows:no-time-label"] = true
			rows = append(rows, row)
			continue
		}
		var delta int64
		switch rapid.IntRange(0, 5).Draw(t, l+".kind") {
		case 0: // exactly a bin end
			delta = rapid.Int64Range(0, 3).Draw(t, l+".b") * bin
		case 1: // one second around a bin end
			delta = rapid.Int64Range(0, 3).Draw(t, l+".b")*bin + rapid.SampledFrom([]int64{-1, 1}).Draw(t, l+".pm")
		case 2: // native five-minute block ends
			delta = rapid.Int64Range(0, 3*bin/native).Draw(t, l+".blk") * native
		case 3: // one native block around a bin end
			delta = rapid.Int64Range(0, 3).Draw(t, l+".b")*bin + rapid.SampledFrom([]int64{-native, native}).Draw(t, l+".pm")
		default: // arbitrary second
			delta = rapid.Int64Range(0, 3*bin).Draw(t, l+".sec")
		}
		ts := anchor + delta
		if ts < 0 {
			ts = 0
		}
		switch {
		case ts == 0:
			cls["ts:unix-0"] = true
		case ts%bin == 0:
			cls["ts:on-bin-end"] = true
		case ts%bin == 1 || ts%bin == bin-1:
			cls["ts:1s-off-bin-end"] = true
		}
		if ts%native != 0 {
			cls["ts:not-multiple-of-300"] = true
		}
		var where string
		row.Labels.Timestamp, where = inLoc(t, ts, l+".loc")
		locs[where] = true
		rows = append(rows, row)
	}
	if len(locs) > 1 {
		cls["rows:mixed-locations"] = true
	}
	var out []string
	for c := range cls {
		out = append(out, c)
	}
	sort.Strings(out)
	return rows, out
}

func genK(t *rapid.T, min int64) int64 {
	return rapid.OneOf(rapid.Int64Range(min, 3), rapid.Int64Range(min, 12), rapid.SampledFrom([]int64{12, 36, 72, 288, 600}), rapid.Int64Range(min, 600)).Draw(t, "k")
}

func kClass(k int64) string {
	switch {
	case k == 1:
		return "bin:k=1"
	case k <= 3:
		return "bin:k=2..3"
	case k <= 12:
		return "bin:k=4..12"
	case k <= 288:
		return "bin:k=13..288"
	}
	return "bin:k>288"
}

// ---- reference and oracle

type refKey struct {
	zero bool
	end  int64
	keyT
}

func ceilBin(ts, bin int64) int64 { return (ts + bin - 1) / bin * bin } // ts >= 0

func addC(a, b types.Counters) types.Counters {
	return types.Counters{BytesRcvd: a.BytesRcvd + b.BytesRcvd, BytesSent: a.BytesSent + b.BytesSent,
		PacketsRcvd: a.PacketsRcvd + b.PacketsRcvd, PacketsSent: a.PacketsSent + b.PacketsSent}
}

func keyOf(r results.Row, end int64) refKey {
	k := refKey{keyT: keyT{iface: r.Labels.Iface, host: r.Labels.Hostname, hid: r.Labels.HostID, attrs: r.Attributes}}
	if r.Labels.Timestamp.IsZero() {
		k.zero = true
		return k
	}
	k.end = end
	return k
}

// reference re-aggregation of the input rows; merged reports whether two rows fell into one.
func reference(in results.Rows, bin int64) (ref map[refKey]types.Counters, merged bool) {
	ref = map[refKey]types.Counters{}
	for _, r := range in {
		k := keyOf(r, ceilBin(r.Labels.Timestamp.Unix(), bin))
		if c, ok := ref[k]; ok {
			merged = true
			ref[k] = addC(c, r.Counters)
		} else {
			ref[k] = r.Counters
		}
	}
	return ref, merged
}

func total(rows results.Rows) (c types.Counters) {
	for _, r := range rows {
		c = addC(c, r.Counters)
	}
	return c
}

func (k refKey) String() string {
	ts := "no-time"
	if !k.zero {
		ts = fmt.Sprint(k.end)
	}
	return fmt.Sprintf("{%s iface=%q host=%q hid=%q sip=%v dip=%v proto=%d dport=%d}", ts, k.iface, k.host, k.hid, k.attrs.SrcIP, k.attrs.DstIP, k.attrs.IPProto, k.attrs.DstPort)
}

func rowStr(r results.Row) string {
	ts := "no-time"
	if !r.Labels.Timestamp.IsZero() {
		ts = fmt.Sprintf("%d(%s)", r.Labels.Timestamp.Unix(), r.Labels.Timestamp.Location())
	}
	return fmt.Sprintf("%s|%s|%s|%s|%v|%v|%d|%d|%d/%d/%d/%d", ts, r.Labels.Iface, r.Labels.Hostname, r.Labels.HostID,
		r.Attributes.SrcIP, r.Attributes.DstIP, r.Attributes.IPProto, r.Attributes.DstPort,
		r.Counters.BytesRcvd, r.Counters.BytesSent, r.Counters.PacketsRcvd, r.Counters.PacketsSent)
}

func rowsStr(rows results.Rows) string {
	var sb strings.Builder
	for _, r := range rows {
		sb.WriteString("  " + rowStr(r) + "\n")
	}
	return sb.String()
}

func canon(bin int64, rows results.Rows) string {
	var sb strings.Builder
	fmt.Fprintf(&sb, "bin=%d;", bin)
	for _, r := range rows {
		ts := int64(-1)
		if !r.Labels.Timestamp.IsZero() {
			ts = r.Labels.Timestamp.Unix()
		}
		fmt.Fprintf(&sb, "%d|%s|%s|%s|%v|%v|%d|%d|%v;", ts, r.Labels.Iface, r.Labels.Hostname, r.Labels.HostID,
			r.Attributes.SrcIP, r.Attributes.DstIP, r.Attributes.IPProto, r.Attributes.DstPort, r.Counters)
	}
	return sb.String()
}

// checkBinned compares the rows after binning with the reference re-aggregation of in.
func checkBinned(in, out results.Rows, bin int64) (sig, msg string) {
	if ti, to := total(in), total(out); ti != to {
		return "C13:conservation", fmt.Sprintf("counter totals changed: in %+v out %+v", ti, to)
	}
	got := map[refKey]types.Counters{}
	for _, r := range out {
		var end int64
		if !r.Labels.Timestamp.IsZero() {
			ts := r.Labels.Timestamp
			end = ts.Unix()
			if ts.Nanosecond() != 0 || end%bin != 0 {
				return "C13:bin-end", fmt.Sprintf("output timestamp %v (unix %d) is not the end of a %d s bin", ts, end, bin)
			}
		}
		k := keyOf(r, end)
		if _, dup := got[k]; dup {
			return "C13:one-row-per-key", fmt.Sprintf("two output rows for %v", k)
		}
		got[k] = r.Counters
	}
	ref, _ := reference(in, bin)
	for k, c := range ref {
		g, ok := got[k]
		if !ok {
			return "C13:bin-end", fmt.Sprintf("no output row for expected %v (counters %+v)", k, c)
		}
		if g != c {
			return "C13:reaggregation", fmt.Sprintf("row %v has counters %+v, expected %+v", k, g, c)
		}
	}
	for k := range got {
		if _, ok := ref[k]; !ok {
			return "C13:bin-end", fmt.Sprintf("unexpected output row %v", k)
		}
	}
	return "", ""
}

func sameKeyed(a, b results.Rows) string {
	if len(a) != len(b) {
		return fmt.Sprintf("%d rows became %d", len(a), len(b))
	}
	m := map[refKey]types.Counters{}
	for _, r := range a {
		m[keyOf(r, r.Labels.Timestamp.Unix())] = r.Counters
	}
	for _, r := range b {
		k := keyOf(r, r.Labels.Timestamp.Unix())
		c, ok := m[k]
		if !ok || c != r.Counters {
			return fmt.Sprintf("row %v: %+v (present before: %v, counters %+v)", k, r.Counters, ok, c)
		}
	}
	return ""
}

func cloneRows(r results.Rows) results.Rows { return append(results.Rows(nil), r...) }

func record(route string, bin int64, in results.Rows, merged bool, nOut int, extra []string) {
	cls := append([]string{"route:" + route, kClass(bin / native)}, extra...)
	if merged {
		cls = append(cls, "merge:some")
	} else {
		cls = append(cls, "merge:none")
	}
	if nOut == 1 && len(in) > 1 {
		cls = append(cls, "out:single-row")
	}
	evid.Case(canon(bin, in), merged, cls...)
	if evid.WantSample(merged) {
		rs := make([]string, len(in))
		for i, r := range in {
			rs[i] = rowStr(r)
		}
		evid.Sample(map[string]any{"route": route, "bin_seconds": bin, "rows": rs, "rows_out": nOut}, merged)
	}
}

// ---- TimeBinner.BinTime directly (k >= 1)

func TestC13BinTime(t *testing.T) {
	rapid.Check(t, func(t *rapid.T) {
		k := genK(t, 1)
		bin := k * native
		in, cls := genRows(t, bin)
		_, merged := reference(in, bin)

		res := &results.Result{Rows: cloneRows(in)}
		res.Summary.Hits = results.Hits{Total: len(in), Displayed: len(in)}
		binner := results.NewTimeBinner(time.Duration(3*bin)*time.Second, time.Duration(bin)*time.Second)
		if err := binner.BinTime(context.Background(), res); err != nil {
			t.Fatalf("%s", evid.Sig("C13:error", "BinTime(%d s): %v", bin, err))
		}
		record("bintime", bin, in, merged, len(res.Rows), cls)
		if sig, msg := checkBinned(in, res.Rows, bin); sig != "" {
			t.Fatalf("%s", evid.Sig(sig, "BinTime bin=%d s: %s\ninput:\n%soutput:\n%s", bin, msg, rowsStr(in), rowsStr(res.Rows)))
		}
		if h := res.Summary.Hits; h.Total != len(res.Rows) || h.Displayed != len(res.Rows) {
			t.Fatalf("%s", evid.Sig("C13:hits", "BinTime bin=%d s: hits %+v after binning %d rows into %d", bin, h, len(in), len(res.Rows)))
		}
		// binning the binned result again changes nothing
		once := cloneRows(res.Rows)
		if err := binner.BinTime(context.Background(), res); err != nil {
			t.Fatalf("%s", evid.Sig("C13:error", "second BinTime(%d s): %v", bin, err))
		}
		if d := sameKeyed(once, res.Rows); d != "" {
			t.Fatalf("%s", evid.Sig("C13:idempotent", "BinTime bin=%d s applied twice: %s\nonce:\n%stwice:\n%s", bin, d, rowsStr(once), rowsStr(res.Rows)))
		}
	})
}

// ---- Statement.PostProcess (the observed point), statements made by Args.Prepare

var timeQueries = []string{"time", "time,sip,dip", "time,iface,sip,dip,dport,proto", "raw", "time,hostname,hostid,dip"}

func renderDuration(t *rapid.T, sec int64) string {
	switch rapid.IntRange(0, 2).Draw(t, "render") {
	case 0:
		return fmt.Sprintf("%ds", sec)
	case 1:
		return fmt.Sprintf("%dm", sec/60)
	default:
		return (time.Duration(sec) * time.Second).String() // e.g. 1h5m0s
	}
}

func prepare(t *rapid.T, a *query.Args) *query.Statement {
	a.Ifaces, a.Format = "eth0", "json"
	a.SetDefaults()
	stmt, err := a.Prepare()
	if err != nil {
		t.Fatalf("%s", evid.Sig("C13:prepare", "Args.Prepare rejected %s: %v", a.ToJSONString(), err))
	}
	return stmt
}

func TestC13PostProcess(t *testing.T) {
	rapid.Check(t, func(t *rapid.T) {
		a := &query.Args{Query: rapid.SampledFrom(timeQueries).Draw(t, "query")}
		var (
			bin  int64
			mode string
		)
		if rapid.IntRange(0, 3).Draw(t, "auto") == 0 {
			// automatic resolution: the bin size follows from the queried range
			mode = "resolution:auto"
			first := rapid.Int64Range(0, 1_700_000_000).Draw(t, "first")
			d := rapid.OneOf(rapid.Int64Range(1, 40*86400), rapid.Int64Range(86400-2, 12*86400)).Draw(t, "range")
			a.First, a.Last, a.TimeResolution = fmt.Sprint(first), fmt.Sprint(first+d), types.TimeResolutionAuto
			stmt := prepare(t, a)
			bin = int64(stmt.TimeBinSize / time.Second)
			if sig, msg := checkAuto(time.Duration(d)*time.Second, stmt.TimeBinSize); sig != "" {
				t.Fatalf("%s", evid.Sig(sig, "statement for first=%s last=%s resolution=auto: %s", a.First, a.Last, msg))
			}
			runPostProcess(t, stmt, bin, mode)
			return
		}
		mode = "resolution:explicit"
		bin = genK(t, 2) * native
		a.First, a.Last, a.TimeResolution = "0", "2000000000", renderDuration(t, bin)
		stmt := prepare(t, a)
		if stmt.TimeBinSize != time.Duration(bin)*time.Second || !stmt.LabelSelector.Timestamp {
			t.Fatalf("%s", evid.Sig("C13:prepare", "time resolution %q (= %d s) prepared as bin size %v, time label %v", a.TimeResolution, bin, stmt.TimeBinSize, stmt.LabelSelector.Timestamp))
		}
		runPostProcess(t, stmt, bin, mode)
	})
}

func runPostProcess(t *rapid.T, stmt *query.Statement, bin int64, mode string) {
	in, cls := genRows(t, bin)
	cls = append(cls, mode)
	res := &results.Result{Rows: cloneRows(in)}
	res.Summary.Hits = results.Hits{Total: len(in), Displayed: len(in)}
	for _, r := range in {
		ts := r.Labels.Timestamp
		if ts.IsZero() {
			continue
		}
		if res.Summary.First.IsZero() || ts.Before(res.Summary.First) {
			res.Summary.First = ts
		}
		if ts.After(res.Summary.Last) {
			res.Summary.Last = ts
		}
	}
	if err := stmt.PostProcess(context.Background(), res); err != nil {
		t.Fatalf("%s", evid.Sig("C13:error", "PostProcess(%d s): %v", bin, err))
	}
	if bin == native {
		// documented no-op: nothing coarser was asked for. Only conservation is demanded.
		evid.Case(canon(bin, in), false, append(cls, "route:postprocess", "bin:native-noop")...)
		if ti, to := total(in), total(res.Rows); ti != to {
			t.Fatalf("%s", evid.Sig("C13:conservation", "PostProcess at the native resolution changed the totals: in %+v out %+v", ti, to))
		}
		return
	}
	_, merged := reference(in, bin)
	record("postprocess", bin, in, merged, len(res.Rows), cls)
	if sig, msg := checkBinned(in, res.Rows, bin); sig != "" {
		t.Fatalf("%s", evid.Sig(sig, "PostProcess %q bin=%d s: %s\ninput:\n%soutput:\n%s", stmt.QueryType, bin, msg, rowsStr(in), rowsStr(res.Rows)))
	}
	if h := res.Summary.Hits; h.Displayed != len(res.Rows) {
		t.Fatalf("%s", evid.Sig("C13:hits", "PostProcess bin=%d s: hits %+v with %d rows", bin, h, len(res.Rows)))
	}
	once := cloneRows(res.Rows)
	if err := stmt.PostProcess(context.Background(), res); err != nil {
		t.Fatalf("%s", evid.Sig("C13:error", "second PostProcess(%d s): %v", bin, err))
	}
	if d := sameKeyed(once, res.Rows); d != "" {
		t.Fatalf("%s", evid.Sig("C13:idempotent", "PostProcess bin=%d s applied twice: %s\nonce:\n%stwice:\n%s", bin, d, rowsStr(once), rowsStr(res.Rows)))
	}
}

// ---- automatic bin size

const maxBinsPerDay = int64(24 * time.Hour / types.DefaultTimeResolution) // 288

func checkAuto(d, size time.Duration) (sig, msg string) {
	if size <= 0 || size%types.DefaultTimeResolution != 0 {
		return "C13:auto-multiple-of-5m", fmt.Sprintf("bin size %v (%d ns) for a range of %v is not a positive multiple of five minutes", size, int64(size), d)
	}
	bins := int64(d / size)
	if d%size != 0 {
		bins++
	}
	if bins > maxBinsPerDay {
		return "C13:auto-at-most-288-bins", fmt.Sprintf("bin size %v for a range of %v gives %d bins (> %d)", size, d, bins, maxBinsPerDay)
	}
	return "", ""
}

const maxWholeSeconds = int64((1<<63 - 1) / int64(time.Second)) // 9223372036 s: time.Time.Sub saturates there

func TestC13AutoBinSize(t *testing.T) {
	rapid.Check(t, func(t *rapid.T) {
		day := maxBinsPerDay * native // 86400
		sec := rapid.OneOf(
			rapid.Int64Range(1, 2*day),
			rapid.Custom(func(t *rapid.T) int64 { // around the points where the size steps up
				return rapid.Int64Range(1, 2000).Draw(t, "m")*day + rapid.Int64Range(-3, 3).Draw(t, "pm")
			}),
			rapid.Custom(func(t *rapid.T) int64 { // whole five-minute multiples
				return rapid.Int64Range(1, maxWholeSeconds/native).Draw(t, "blocks") * native
			}),
			rapid.Int64Range(1, maxWholeSeconds),
			rapid.SampledFrom([]int64{1, 299, 300, 301, day - 1, day, day + 1, maxWholeSeconds - 1, maxWholeSeconds}),
		).Draw(t, "seconds")
		if sec < 1 {
			sec = 1
		}
		d := time.Duration(sec) * time.Second
		size := results.CalcTimeBinSize(types.DefaultTimeResolution, d)
		cls := "auto:size=5m"
		switch {
		case size > 24*time.Hour:
			cls = "auto:size>1d"
		case size > time.Hour:
			cls = "auto:size=1h..1d"
		case size > types.DefaultTimeResolution:
			cls = "auto:size=10m..1h"
		}
		classes := []string{"route:calc", cls}
		if sec%day == 0 {
			classes = append(classes, "auto:range-multiple-of-a-day")
		}
		if sec == maxWholeSeconds {
			classes = append(classes, "auto:saturated-range")
		}
		nt := size > types.DefaultTimeResolution
		evid.Case(fmt.Sprintf("auto:%d", sec), nt, classes...)
		if evid.WantSample(nt) {
			evid.Sample(map[string]any{"route": "calc", "range_seconds": sec, "bin_size": size.String()}, nt)
		}
		if sig, msg := checkAuto(d, size); sig != "" {
			t.Fatalf("%s", evid.Sig(sig, "CalcTimeBinSize(5m, %d s): %s", sec, msg))
		}
	})
}
