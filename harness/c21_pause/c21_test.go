// C21 — packets seen while the capture is paused are counted once and unaltered.
//
// Same bubble harness as C20 (verifharness/c20_capture/capharness): a real capture.Manager on in-memory
// sources, real GoDB write-out handler, the 300 s scheduler, time and the packet/pause schedule owned by the
// test. Pause events are Manager.Status, Manager.GetFlowMaps (live query) and the scheduled write-out. Packets
// are scripted INSIDE the pause window of an event:
//
//	pre  — after the lock request was placed, before the source is unblocked (from the first Unblock call):
//	       the packet is taken by the normal path while the request is pending, the unblock signal goes stale,
//	in   — while the caller holds the three-point lock: from the source's Stats() call (status, write-out) or,
//	       for live queries, from the derivation of the interface logger inside Capture.flowMap,
//	post — after the unlock request was placed, before the source is unblocked again (from the second Unblock
//	       call): buffered and drained at once.
//
// Oracle (metamorphic): the paused run must yield exactly the blocks, live-query results, in-memory flows and
// status counters of its twin, the run of the same script in which every window packet is delivered just
// outside its window (pre: just before the event; in/post: just after it). A window packet may be missing from
// the paused run only if ErrLocalBufferOverflow was reported right when the capture took it (one packet per
// report; it is left out of the twin). The twin itself must satisfy the C20 conservation oracle.
package c21

import (
	"encoding/binary"
	"fmt"
	"sort"
	"strings"
	"testing"

	"pgregory.net/rapid"

	"verifharness/c20_capture/capharness"
	"verifharness/internal/evid"
)

// findingF16: bufferPackets stores IPv6 packets in the local buffer with isIPv4 = true; when the buffer is
// drained they are added to the IPv4 flow map under the first 13 bytes of their 37-byte key.
const findingF16 = "C21-F16"

func TestMain(m *testing.M) {
	evid.Rule("rapid draws a script as in C20 (1-2 interfaces, mixed IPv4/IPv6 conversations incl. non-decisive ones, 1-4 scheduled write-outs, idle intervals, malformed packets) plus pause events " +
		"status | live query | scheduled write-out, each with per-interface window packets: optional 'pre', 0-5 'in' (90-420 in the overflow class with local buffer limits 1 B..8 KiB), optional 'post'; " +
		"the twin script delivers the same packets just outside the windows; both scripts run in their own bubble; a third of the scripts run under the held-drain schedule (a capture that is about to drain its local buffer yields, through a step hook, until nothing else can run: the pause of the next interface and its window packets come first wherever the code permits); " +
		"non-trivial = at least one IPv6 and one IPv4 packet that parse successfully were taken by the capture inside a pause window through the local buffer ('in' or 'post'); distinct by the script text")
	evid.Assume("packets inside windows are IPv4 or IPv6 (truncated, runt and fragment packets included): layers that are neither are documented as untrackable while buffering (capture.go: 'We cannot track invalid IP header packets during buffering'), they are scripted outside windows only",
		"a window packet counts as permissibly lost iff an overflow report (ErrLocalBufferOverflow on the capture's error channel, observed through the logger) appears when the capture takes it; after a report the capture stops polling until the unlock, "+
			"the remaining window packets of that event are delivered right after the event in both runs. Loss is permitted, not required: if the paused run differs from the twin without the reported packets, the subsets of them are tried too",
		"the 'in' position of a live query uses the logger derivation inside Capture.flowMap (slog Handler.WithAttrs with the iface attribute) as the call-back point; if goProbe stops logging there the packets are delivered after the event and the class note:query-hook-missed shows it",
		"schedule ownership: at packet / pause-event granularity (every delivery is followed by synctest.Wait). In events with window packets the lock holder waits (inside Stats() / the logger hook) until the capture goroutine is blocked on its source inside bufferPackets; "+
			"the schedule in which the holder unlocks before the capture goroutine has looked for the unlock request once only occurs in events without window packets. The interleaving of single instructions of the capture goroutine with the lock holder is not enumerated",
		"the C20 assumptions (stored keys from ParsePacket*/Classify*, packet-type meaning, non-decisive conversations) apply to the conservation check of the twin",
		"the excluding mode (TestC21PauseExcluding) scripts IPv4 packets only inside windows; IPv6 traffic is delivered outside windows (finding "+findingF16+")")
	evid.Main(m)
}

type inWin struct {
	v4, v6, pre, in, post int
}

func windowStats(res *capharness.Result) (w inWin) {
	for _, c := range res.InWindow {
		switch c.Where {
		case "pre":
			w.pre++
			continue
		case "in":
			w.in++
		case "post":
			w.post++
		}
		if c.P.OK() {
			if c.P.V6 {
				w.v6++
			} else {
				w.v4++
			}
		}
	}
	return
}

func scriptClasses(s *capharness.Script) []string {
	set := map[string]bool{}
	for _, a := range s.Actions {
		if a.Kind == capharness.ActPkt {
			continue
		}
		for _, w := range a.Win {
			if w.Empty() {
				continue
			}
			if w.Pre != nil {
				set["window:"+a.Kind.String()+"/pre"] = true
			}
			if len(w.In) > 0 {
				set["window:"+a.Kind.String()+"/in"] = true
			}
			if len(w.In) > 50 {
				set["window:long"] = true
			}
			if w.Post != nil {
				set["window:"+a.Kind.String()+"/post"] = true
			}
		}
	}
	if s.BufLimit < 1<<20 {
		set["buffer-limit:tiny"] = true
	}
	set[fmt.Sprintf("ifaces:%d", len(s.Ifaces))] = true
	set[fmt.Sprintf("buffers:%d", s.NBuffers)] = true
	var out []string
	for k := range set {
		out = append(out, k)
	}
	return out
}

// truncatedKeys returns the two IPv4 keys under which an IPv6 packet shows up when its 37-byte hash is
// stored as a 13-byte IPv4 hash (either orientation).
func truncatedKeys(p *capharness.Packet) [2]capharness.Key {
	h := p.Hash[:13]
	return [2]capharness.Key{
		{Sip: string(h[0:4]), Dip: string(h[6:10]), Dport: binary.BigEndian.Uint16(h[10:12]), Proto: h[12]},
		{Sip: string(h[6:10]), Dip: string(h[0:4]), Dport: binary.BigEndian.Uint16(h[4:6]), Proto: h[12]},
	}
}

type signed struct{ br, bs, pr, ps int64 }

func (s *signed) add(c capharness.Counters, sign int64) {
	s.br += sign * int64(c.BR)
	s.bs += sign * int64(c.BS)
	s.pr += sign * int64(c.PR)
	s.ps += sign * int64(c.PS)
}
func (s signed) nonNeg() bool { return s.br >= 0 && s.bs >= 0 && s.pr >= 0 && s.ps >= 0 }
func (s signed) zero() bool   { return s == signed{} }

// explainF16 decides whether the difference between the paused run and its twin is exactly the signature of
// finding C21-F16: the IPv6 packets that went through the local buffer (and only those) are missing from the
// IPv6 records of their conversations and appear, with the same direction and size, in IPv4 records whose key
// is the first 13 bytes of their hash; everything else (status counters, all other records) is equal.
// strict containers (blocks, flows in memory at the end) are checked per interval ('in' packets must all have
// moved, each 'post' packet may or may not have: it is buffered unless the capture goroutine had left
// bufferPackets already), live queries loosely. The two candidate keys of a non-decisive IPv6 conversation are
// folded, because a mis-filed first packet lets the next packet choose the orientation.
func explainF16(s *capharness.Script, a, tw *capharness.Result, accT *capharness.Accounting, drop map[int]bool) (ok bool, witness string, why string) {
	var moved []capharness.Consumed
	for _, c := range a.InWindow {
		if (c.Where == "in" || c.Where == "post") && c.P.V6 && c.P.OK() && !drop[c.P.ID] {
			moved = append(moved, c)
		}
	}
	if len(moved) == 0 {
		return false, "", "no IPv6 packet went through the local buffer"
	}
	// status counters must agree
	if len(a.Events) != len(tw.Events) {
		return false, "", "event counts differ"
	}
	for i := range a.Events {
		for _, n := range s.Ifaces {
			if a.Events[i].Kind == capharness.ActStatus && a.Events[i].Status[n] != tw.Events[i].Status[n] {
				return false, "", fmt.Sprintf("status call %d differs on %s", i, n)
			}
		}
	}
	canon := map[capharness.Key]capharness.Key{}
	for _, m := range moved {
		if c := s.Convs[m.P.Conv]; c.Ambiguous {
			canon[c.KeyRev] = c.KeyFwd
		}
	}
	check := func(iface int, interval int, strict bool, got, want capharness.FlowSet) bool {
		v6ok, v4ok := map[capharness.Key]bool{}, map[capharness.Key]bool{}
		var sum capharness.Counters     // 'in' packets: certainly taken inside bufferPackets
		var maybe []capharness.Counters // 'post' packets: buffered unless the capture goroutine had left bufferPackets already
		for _, m := range moved {
			if m.Iface != iface {
				continue
			}
			iv, ok := accT.Where[m.P.ID]
			if !ok || (strict && iv != interval) || (!strict && iv > interval) {
				continue
			}
			c := s.Convs[m.P.Conv]
			v6ok[c.KeyFwd], v6ok[c.KeyRev] = true, true
			for _, k := range truncatedKeys(m.P) {
				v4ok[k] = true
			}
			if m.Where == "post" {
				maybe = append(maybe, m.P.Counters())
			} else {
				sum.Add(m.P.Counters())
			}
		}
		// a non-decisive IPv6 conversation may end up under its other candidate key when its first packet was
		// mis-filed (the next packet creates the flow): both candidates are folded onto one key before comparing
		fold := func(in capharness.FlowSet) capharness.FlowSet {
			out := capharness.FlowSet{}
			for k, v := range in {
				if c, ok := canon[k]; ok {
					k = c
				}
				x := out[k]
				x.Add(v)
				out[k] = x
			}
			return out
		}
		got, want = fold(got), fold(want)
		var d6, d4 signed
		keys := map[capharness.Key]bool{}
		for k := range got {
			keys[k] = true
		}
		for k := range want {
			keys[k] = true
		}
		for k := range keys {
			var d signed
			if k.V6 {
				d.add(want[k], 1)
				d.add(got[k], -1)
			} else {
				d.add(got[k], 1)
				d.add(want[k], -1)
			}
			if d.zero() {
				continue
			}
			if !d.nonNeg() || (k.V6 && !v6ok[k]) || (!k.V6 && !v4ok[k]) {
				why = fmt.Sprintf("record %v: paused %v, twin %v is not a shift of buffered IPv6 packets", k, got[k], want[k])
				return false
			}
			if k.V6 {
				d6.add(capharness.Counters{BR: uint64(d.br), BS: uint64(d.bs), PR: uint64(d.pr), PS: uint64(d.ps)}, 1)
			} else {
				d4.add(capharness.Counters{BR: uint64(d.br), BS: uint64(d.bs), PR: uint64(d.pr), PS: uint64(d.ps)}, 1)
				if witness == "" {
					witness = fmt.Sprintf("IPv4 record %v%v", k, got[k])
				}
			}
		}
		if d6 != d4 {
			why = fmt.Sprintf("IPv6 records lack %+v, IPv4 records gained %+v", d6, d4)
			return false
		}
		if strict {
			if len(maybe) > 12 {
				maybe = maybe[:12]
			}
			for mask := 0; mask < 1<<len(maybe); mask++ {
				var w signed
				w.add(sum, 1)
				for i, c := range maybe {
					if mask>>i&1 == 1 {
						w.add(c, 1)
					}
				}
				if d6 == w {
					return true
				}
			}
			why = fmt.Sprintf("records shifted by %+v, which is not the sum of the IPv6 packets buffered in the interval (%+v from 'in' packets plus a subset of %d 'post' packets)", d6, sum, len(maybe))
			return false
		}
		return true
	}
	any := false
	for i, n := range s.Ifaces {
		ba, bt := a.Blocks[n], tw.Blocks[n]
		if len(ba) != len(bt) {
			return false, "", "number of blocks differs"
		}
		for j := range ba {
			if ba[j].Ts != bt[j].Ts || len(ba[j].Dup) > 0 {
				return false, "", "block timestamps differ"
			}
			interval := len(accT.Rotations) // the block written by Close
			for k, ts := range accT.Rotations {
				if ts == ba[j].Ts {
					interval = k
				}
			}
			if !check(i, interval, true, ba[j].Flows, bt[j].Flows) {
				return false, "", fmt.Sprintf("%s block %d: %s", n, ba[j].Ts, why)
			}
		}
		if !check(i, len(accT.Rotations), true, a.FinalLive[n], tw.FinalLive[n]) {
			return false, "", fmt.Sprintf("%s flows in memory at the end: %s", n, why)
		}
		if a.FinalStat[n] != tw.FinalStat[n] {
			return false, "", "final status differs"
		}
		for j := range a.Events {
			if a.Events[j].Kind == capharness.ActQuery && !check(i, len(accT.Rotations), false, a.Events[j].Live[n], tw.Events[j].Live[n]) {
				return false, "", fmt.Sprintf("%s live query %d: %s", n, j, why)
			}
		}
		any = true
	}
	if !any || witness == "" {
		return false, "", "no IPv4 record with a truncated key"
	}
	m := moved[0]
	ev := s.Actions[m.Event]
	return true, fmt.Sprintf("IPv6 packet %v {%x} of %v delivered to %s inside the pause window ('%s') of action %d (%s): missing from its IPv6 record %v, counted in %s (key = first 13 bytes of the IPv6 hash %x); %d such packet(s) in the case",
		m.P, m.P.Layer, s.Convs[m.P.Conv], s.Ifaces[m.Iface], m.Where, m.Event, ev.Kind, s.Convs[m.P.Conv].KeyFwd, witness, m.P.Hash, len(moved)), ""
}

func subsets(ids []int) []map[int]bool {
	// all proper subsets of the reported packets, larger ones first (the full set was tried already)
	var out []map[int]bool
	n := len(ids)
	if n > 4 {
		n = 4
	}
	var masks []int
	for m := 0; m < 1<<n-1; m++ {
		masks = append(masks, m)
	}
	sort.Slice(masks, func(i, j int) bool { return popcount(masks[i]) > popcount(masks[j]) })
	for _, m := range masks {
		d := map[int]bool{}
		for i := 0; i < len(ids); i++ {
			if i >= n || m>>i&1 == 1 {
				d[ids[i]] = true
			}
		}
		out = append(out, d)
	}
	return out
}

func popcount(x int) (n int) {
	for ; x != 0; x &= x - 1 {
		n++
	}
	return
}

func run(t *testing.T, rt *rapid.T, excluding bool) {
	s := capharness.DrawScript(rt, capharness.Options{Windows: true, V6InWindows: !excluding, OverflowClass: true, Ambiguous: true, HoldDrain: true,
		OnExcluded: func() { evid.Excluded(findingF16) }})
	canon := s.Canon()
	fatal := func(f *capharness.Failure, extra string) {
		rt.Fatalf("%s", evid.Sig("C21:"+f.Clause, "%s%s\nscript:\n%s", f.Text, extra, canon))
	}

	a := capharness.Run(t, s) // bubble 1: the run with packets inside pause windows
	if f := capharness.RunFailure(a); f != nil {
		evid.Case(canon, false, "run-failed")
		fatal(f, "")
	}
	w := windowStats(a)
	nt := w.v4 > 0 && w.v6 > 0
	cl := scriptClasses(s)
	mode := "including"
	if excluding {
		mode = "excluding"
	}
	cl = append(cl, "mode:"+mode)
	if w.v4 > 0 {
		cl = append(cl, "in-window:v4")
	}
	if w.v6 > 0 {
		cl = append(cl, "in-window:v6")
	}
	if nt {
		cl = append(cl, "nontrivial")
	}
	overflowReports := 0
	for _, n := range a.Overflows {
		overflowReports += n
	}
	if overflowReports > 0 {
		cl = append(cl, "overflow-reported")
	}
	if len(a.Deferred) > 0 {
		cl = append(cl, "window-packets-deferred")
	}
	evid.Case(canon, nt, cl...)
	evid.ClassN("packets:pre", int64(w.pre))
	evid.ClassN("packets:in", int64(w.in))
	evid.ClassN("packets:post", int64(w.post))
	evid.ClassN("packets:lost-with-report", int64(len(a.Lost)))
	evid.ClassN("overflow-reports", int64(overflowReports))
	for k, n := range a.Notes {
		evid.ClassN("note:"+k, int64(n))
	}
	if len(a.UnblockBad) > 0 {
		evid.Class("note:unexpected-unblock-count")
	}
	if evid.WantSample(nt) {
		c := canon
		if len(c) > 1800 {
			c = c[:1800] + "…"
		}
		evid.Sample(map[string]any{"script": strings.Split(c, "\n"), "in_window_v4": w.v4, "in_window_v6": w.v6, "overflow_reports": overflowReports, "lost": len(a.Lost)}, nt)
	}

	// the only permitted loss: one packet per overflow report
	if len(a.Lost) > overflowReports {
		rt.Fatalf("harness: %d packets marked lost for %d overflow reports", len(a.Lost), overflowReports)
	}
	var lostIDs []int
	drop := map[int]bool{}
	for _, l := range a.Lost {
		lostIDs = append(lostIDs, l.P.ID)
		drop[l.P.ID] = true
	}

	// a 'pre' packet the capture could not take before the lock (never observed; kept for soundness of the twin)
	late := map[int]bool{}
	for _, d := range a.Deferred {
		if w := s.Actions[d.Event].Win[d.Iface]; w != nil && w.Pre == d.P {
			late[d.P.ID] = true
			evid.Class("note:pre-packet-deferred")
		}
	}
	twin := s.Flat(drop, late)
	tw := capharness.Run(t, twin) // bubble 2: the twin
	if f := capharness.RunFailure(tw); f != nil {
		f.Clause = "twin-" + f.Clause
		fatal(f, "")
	}
	for n, k := range tw.Overflows {
		if k > 0 {
			rt.Fatalf("%s", evid.Sig("C21:overflow-without-pause-traffic", "%s: %d overflow report(s) in the twin run, in which no packet arrives inside a pause window\nscript:\n%s", n, k, twin.Canon()))
		}
	}
	diff := capharness.DiffRuns(s.Ifaces, a, tw, "paused", "twin")
	accT := capharness.Account(twin)
	if diff != nil && len(lostIDs) > 0 {
		// a reported packet may, but need not, be lost
		for _, d := range subsets(lostIDs) {
			t2 := s.Flat(d, late)
			r2 := capharness.Run(t, t2)
			if capharness.RunFailure(r2) == nil && capharness.DiffRuns(s.Ifaces, a, r2, "paused", "twin") == nil {
				twin, tw, accT, diff, drop = t2, r2, capharness.Account(t2), nil, d
				evid.Class("reported-packet-kept")
				break
			}
		}
	}
	if diff != nil {
		ok, witness, why := explainF16(s, a, tw, accT, drop)
		if ok {
			evid.Class("known:ipv6-buffered-as-ipv4")
			if evid.Known(findingF16, witness) {
				return
			}
			rt.Fatalf("%s", evid.Sig("C21:ipv6-buffered-as-ipv4", "%s\nfirst difference: %s\nscript:\n%s", witness, diff.Text, canon))
		}
		lost := ""
		if len(a.Lost) > 0 {
			var ps []string
			for _, l := range a.Lost {
				ps = append(ps, fmt.Sprintf("%v on %s (action %d)", l.P, s.Ifaces[l.Iface], l.Event))
			}
			lost = "\npackets left out of the twin because an overflow was reported when the capture took them: " + strings.Join(ps, ", ")
		}
		if w.v6 > 0 {
			lost += "\nnot attributed to " + findingF16 + ": " + why
		}
		fatal(diff, lost+"\nerror log (paused run): "+strings.Join(a.ErrorLogs, " | "))
	}
	// the twin (and therefore the paused run) accounts for every packet
	if f := capharness.CheckConservation(twin, tw, accT); f != nil {
		f.Clause = "conservation-" + f.Clause
		fatal(f, "\n(twin script)\n"+twin.Canon())
	}
}

// TestC21Pause searches the whole domain (IPv4 and IPv6 packets inside pause windows).
func TestC21Pause(t *testing.T) {
	rapid.Check(t, func(rt *rapid.T) { run(t, rt, false) })
}

// TestC21PauseExcluding searches everything finding C21-F16 does not touch: only IPv4 packets are scripted
// inside pause windows.
func TestC21PauseExcluding(t *testing.T) {
	rapid.Check(t, func(rt *rapid.T) { run(t, rt, true) })
}
