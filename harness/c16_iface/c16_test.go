// C16 — interface selection matches the requested list and never crashes.
//
// For any interface argument the interfaces queried are the listed ones that
// exist in the database (or all of them if "any" is listed), minus every
// interface listed with a leading '!'; a /regexp/ argument selects exactly the
// matching interfaces; no combination of repeated, negated or unknown names
// makes the query crash.
//
// The query is run in-process through engine.NewQueryRunner(db).Run against a
// tiny real goDB (one block per interface). Each interface stores counters that
// are a distinct power of 16, so that the totals of a result tell which
// interfaces contributed and how many times.
package c16

import (
	"context"
	"fmt"
	"io"
	"os"
	"path/filepath"
	"regexp"
	"runtime/debug"
	"sort"
	"strings"
	"sync"
	"testing"

	"github.com/els0r/goProbe/v4/pkg/capture/capturetypes"
	"github.com/els0r/goProbe/v4/pkg/goDB"
	"github.com/els0r/goProbe/v4/pkg/goDB/encoder/encoders"
	"github.com/els0r/goProbe/v4/pkg/goDB/engine"
	"github.com/els0r/goProbe/v4/pkg/query"
	"github.com/els0r/goProbe/v4/pkg/results"
	"github.com/els0r/goProbe/v4/pkg/types"
	"github.com/els0r/goProbe/v4/pkg/types/hashmap"
	"github.com/els0r/telemetry/logging"
	"pgregory.net/rapid"

	"verifharness/internal/evid"
)

const findingRepeat = "C16-F20"

func TestMain(m *testing.M) {
	evid.Rule("existing interfaces = drawn subset of {eth0,eth1,eth10,t4_1,wl-0.1} (a real goDB with one block per interface, all 32 subsets incl. the empty DB); " +
		"argument = comma list of 1-7 tokens over the alphabet + unknown name eth7 + any/ANY, each optionally '!'-negated, with repetitions in any position " +
		"(plus a mode without repeated positive names, a mode with one invalid token, and '!any'), or /regexp/ from a small grammar (literals, classes, ., *, +, ?, |, groups, anchors, (?i), a few malformed pieces); " +
		"non-trivial = a list with a repeated name or a negation of an otherwise selected interface, or a valid regexp selecting a non-empty proper subset of >= 2 existing interfaces; distinct by (existing set, argument)")
	evid.Assume("names are restricted to what types.ValidateIfaceName accepts; a list with an invalid token only has to return an error (no particular message) and must not panic",
		"an empty selection must yield an error (the code documents 'no interfaces provided') or a result without interfaces, rows and traffic; never a panic",
		"regular expressions: the part between the slashes is matched unanchored with the stdlib regexp package (what the help text 'wrapped into forward slashes' implies); no negation syntax is documented for regexp arguments, so a '!' inside is a literal and '!/re/' is an invalid name",
		"'!any' is not documented; for lists containing it only the absence of a panic is asserted",
		"totals oracle: interface k stores a block whose four counters are c*16^k, so the result totals identify the multiset of interfaces that contributed; panics in goroutines spawned by the engine cannot be recovered and would end the process (reported by the driver as a crash)")
	_, _ = logging.Init(logging.LevelError, logging.EncodingLogfmt, logging.WithOutput(io.Discard), logging.WithErrorOutput(io.Discard))
	evid.Main(m)
}

var (
	alphabet = []string{"eth0", "eth1", "eth10", "t4_1", "wl-0.1"}
	unknown  = "eth7"
	blockTS  = int64(1700000400)

	pool = append(append([]string{}, alphabet...), unknown, "any", "ANY")
	// the alphabet three times, the unknown name twice, each spelling of the any selector once
	weightedPool = append(append(append(append([]string{}, alphabet...), alphabet...), alphabet...), unknown, unknown, "any", "ANY")
)

// dbCache holds the (at most 32) databases of one test function; they live in a
// directory that is removed when the test function ends.
type dbCache struct {
	mu   sync.Mutex
	root string
	dbs  map[int]string
}

func newDBCache(t *testing.T) *dbCache {
	c := &dbCache{dbs: map[int]string{}}
	if base := os.Getenv("VERIF_WORK"); base != "" {
		d, err := os.MkdirTemp(base, "c16db-")
		if err != nil {
			t.Fatalf("harness: %v", err)
		}
		t.Cleanup(func() { os.RemoveAll(d) })
		c.root = d
	} else {
		c.root = t.TempDir()
	}
	return c
}

// isAny is the oracle's own reading of the documented selector ("ANY", case insensitive)
func isAny(s string) bool { return strings.EqualFold(s, "any") }

func pow16(k int) uint64 { return uint64(1) << (4 * uint(k)) }

// contribution of interface k to the totals
func contrib(k int) types.Counters {
	u := pow16(k)
	// one flow private to the interface and one flow with a key shared by all interfaces
	return types.Counters{BytesRcvd: 3 * u, BytesSent: 5 * u, PacketsRcvd: 2 * u, PacketsSent: 7 * u}
}

// dbFor returns (creating it on first use) the database whose interfaces are the
// alphabet members selected by mask.
func (c *dbCache) dbFor(mask int) (string, error) {
	c.mu.Lock()
	defer c.mu.Unlock()
	if p, ok := c.dbs[mask]; ok {
		return p, nil
	}
	p := filepath.Join(c.root, fmt.Sprintf("db%02d", mask))
	if err := os.MkdirAll(p, 0o755); err != nil {
		return "", err
	}
	for k, name := range alphabet {
		if mask&(1<<k) == 0 {
			continue
		}
		u := pow16(k)
		fm := hashmap.NewAggFlowMap()
		// private flow: 2u/4u bytes, 1u/5u packets
		fm.PrimaryMap.Set(types.NewV4KeyStatic([4]byte{10, 0, 0, byte(k + 1)}, [4]byte{10, 0, 1, 1}, []byte{0, 80}, 6),
			types.Counters{BytesRcvd: 2 * u, BytesSent: 4 * u, PacketsRcvd: 1 * u, PacketsSent: 5 * u})
		// shared key: 1u/1u bytes, 1u/2u packets
		fm.PrimaryMap.Set(types.NewV4KeyStatic([4]byte{10, 0, 0, 100}, [4]byte{10, 0, 1, 1}, []byte{0, 53}, 17),
			types.Counters{BytesRcvd: 1 * u, BytesSent: 1 * u, PacketsRcvd: 1 * u, PacketsSent: 2 * u})
		if err := goDB.NewDBWriter(p, name, encoders.EncoderTypeLZ4).Write(fm, capturetypes.CaptureStats{}, blockTS); err != nil {
			return "", fmt.Errorf("writing %s/%s: %w", p, name, err)
		}
	}
	c.dbs[mask] = p
	return p, nil
}

// ---- generators

// genMask draws the set of existing interfaces (all 32 subsets are reachable; half of the
// draws are the union of two subsets, so that larger databases are not rare)
func genMask(t *rapid.T) int {
	m := rapid.IntRange(0, 1<<len(alphabet)-1).Draw(t, "existing")
	if rapid.Bool().Draw(t, "denser") {
		m |= rapid.IntRange(0, 1<<len(alphabet)-1).Draw(t, "existing2")
	}
	return m
}

type listCase struct {
	tokens   []string
	invalid  bool // contains a token ValidateIfaceName rejects
	negAny   bool // contains "!any"/"!ANY"
	noRepeat bool // drawn in the excluding mode
	small    bool // from the small-scope enumeration
}

var invalidTokens = []string{"", " eth0", "eth0 ", "et h0", "eth0/1", "abcdefghijklmnop", "e!h0", "!", "!!eth0", "eth0;", "/eth0", "é0", "eth*"}

func genList(t *rapid.T) listCase {
	var lc listCase
	n := rapid.IntRange(1, 7).Draw(t, "ntokens")
	mode := rapid.IntRange(0, 9).Draw(t, "listmode") // 0-1: no repeated positive names, 2: one invalid token, 3: may contain !any, else free
	lc.noRepeat = mode <= 1
	usedPos := map[string]bool{}
	var names []string
	for i := 0; i < n; i++ {
		var name string
		if i > 0 && !lc.noRepeat && rapid.IntRange(0, 2).Draw(t, "again") == 0 {
			name = names[rapid.IntRange(0, len(names)-1).Draw(t, "which")] // repeat an earlier name
		} else {
			name = rapid.SampledFrom(weightedPool).Draw(t, "name")
		}
		neg := rapid.IntRange(0, 2).Draw(t, "neg") == 0
		if isAny(name) && neg {
			if mode == 3 {
				lc.negAny = true
			} else {
				neg = false
			}
		}
		if !neg && lc.noRepeat {
			if usedPos[name] {
				// choose an unused pool member instead (construction, not rejection)
				var free []string
				for _, c := range pool {
					if !usedPos[c] {
						free = append(free, c)
					}
				}
				if len(free) == 0 {
					neg = true // pool exhausted: turn the token into a negation
				} else {
					name = free[rapid.IntRange(0, len(free)-1).Draw(t, "free")]
				}
			}
			if !neg {
				usedPos[name] = true
			}
		}
		names = append(names, name)
		if neg {
			name = "!" + name
		}
		lc.tokens = append(lc.tokens, name)
	}
	if mode == 2 {
		pos := rapid.IntRange(0, len(lc.tokens)).Draw(t, "invpos")
		tok := rapid.SampledFrom(invalidTokens).Draw(t, "invtok")
		lc.tokens = append(lc.tokens[:pos:pos], append([]string{tok}, lc.tokens[pos:]...)...)
		lc.invalid = true
	}
	return lc
}

var (
	reLits  = []string{"eth", "e", "t", "h", "0", "1", "10", "t4", "_", "wl", "-", "4", "x", "eth1", "eth0", "l", "0", "1", "th1", "h0", "_1", "w"}
	reAtoms = []string{".", `\.`, "[0-9]", "[01]", "[a-z]", "[^e]", `\d`, `\w`, "[_.-]"}
	reQuant = []string{"", "", "", "*", "+", "?", "{1,2}", "{2}"}
	reBad   = []string{"(", ")", "[", "*", "+", "?", `\`, "(?", "[a-", "{", "**", `\8`, "(?P<n", "!"}
)

func genRegexpBody(t *rapid.T, depth int) string {
	nalt := rapid.SampledFrom([]int{1, 1, 1, 2, 3}).Draw(t, "nalt")
	alts := make([]string, 0, nalt)
	for a := 0; a < nalt; a++ {
		var sb strings.Builder
		if rapid.IntRange(0, 5).Draw(t, "anchor^") == 0 {
			sb.WriteString("^")
		}
		for i, n := 0, rapid.IntRange(1, 3).Draw(t, "npieces"); i < n; i++ {
			switch k := rapid.IntRange(0, 11).Draw(t, "piece"); {
			case k <= 5:
				sb.WriteString(rapid.SampledFrom(reLits).Draw(t, "lit"))
			case k <= 8:
				sb.WriteString(rapid.SampledFrom(reAtoms).Draw(t, "atom"))
			case k == 9 && depth < 2:
				sb.WriteString("(" + genRegexpBody(t, depth+1) + ")")
			case k == 10:
				sb.WriteString(rapid.SampledFrom(reBad).Draw(t, "bad"))
			default:
				sb.WriteString(rapid.SampledFrom(reLits).Draw(t, "lit2"))
			}
			sb.WriteString(rapid.SampledFrom(reQuant).Draw(t, "quant"))
		}
		if rapid.IntRange(0, 5).Draw(t, "anchor$") == 0 {
			sb.WriteString("$")
		}
		alts = append(alts, sb.String())
	}
	return strings.Join(alts, "|")
}

func genRegexpArg(t *rapid.T) string {
	body := genRegexpBody(t, 0)
	if rapid.IntRange(0, 7).Draw(t, "flag") == 0 {
		body = "(?i)" + strings.ToUpper(body[:len(body)/2]) + body[len(body)/2:]
	}
	return "/" + body + "/"
}

// ---- running a query with panic capture

type outcome struct {
	res      *results.Result
	err      error
	panicked bool
	panicVal string
	stack    string
}

func runQuery(db, ifaces string) (o outcome) {
	defer func() {
		if r := recover(); r != nil {
			o.panicked, o.panicVal, o.stack = true, fmt.Sprint(r), string(debug.Stack())
		}
	}()
	args := &query.Args{
		Query:      "sip,dip",
		Ifaces:     ifaces,
		Format:     types.FormatJSON,
		First:      fmt.Sprint(blockTS - 400),
		Last:       fmt.Sprint(blockTS + 400),
		MaxMemPct:  100,
		NumResults: 100000,
		SortBy:     "bytes",
	}
	o.res, o.err = engine.NewQueryRunner(db).Run(context.Background(), args)
	return o
}

// ---- oracle helpers

func existingNames(mask int) []string {
	var out []string
	for k, n := range alphabet {
		if mask&(1<<k) != 0 {
			out = append(out, n)
		}
	}
	sort.Strings(out)
	return out
}

func idx(name string) int {
	for k, n := range alphabet {
		if n == name {
			return k
		}
	}
	return -1
}

func totalsOf(ifaces []string) types.Counters {
	var c types.Counters
	for _, n := range ifaces {
		if k := idx(n); k >= 0 {
			c.Add(contrib(k))
		}
	}
	return c
}

func sumRows(rows results.Rows) types.Counters {
	var c types.Counters
	for _, r := range rows {
		c.Add(r.Counters)
	}
	return c
}

func eqStrings(a, b []string) bool {
	if len(a) != len(b) {
		return false
	}
	for i := range a {
		if a[i] != b[i] {
			return false
		}
	}
	return true
}

func dedupSorted(in []string) []string {
	s := append([]string{}, in...)
	sort.Strings(s)
	out := s[:0]
	for i, v := range s {
		if i == 0 || v != s[i-1] {
			out = append(out, v)
		}
	}
	return out
}

// emptyResult tells whether res reports nothing at all (the alternative to an
// error that is accepted for an empty selection).
func ifacesOf(res *results.Result) []string {
	if res == nil {
		return nil
	}
	return res.Summary.Interfaces
}

func emptyResult(res *results.Result) bool {
	return res != nil && len(res.Summary.Interfaces) == 0 && len(res.Rows) == 0 && res.Summary.Totals == (types.Counters{})
}

// checkSelected compares a successful outcome with the expected selection.
// It returns the clause that failed ("" if none) and a description.
func checkSelected(o outcome, expected []string) (clause, msg string) {
	if o.err != nil {
		return "C16:selection", fmt.Sprintf("unexpected error %q; expected interfaces %q", o.err, expected)
	}
	if o.res == nil {
		return "C16:selection", fmt.Sprintf("nil result without error; expected interfaces %q", expected)
	}
	got := []string(o.res.Summary.Interfaces)
	if !eqStrings(got, expected) {
		return "C16:selection", fmt.Sprintf("Summary.Interfaces = %q, expected %q", got, expected)
	}
	want := totalsOf(expected)
	if o.res.Summary.Totals != want {
		return "C16:contributes-once", fmt.Sprintf("Summary.Totals = %+v, expected %+v (each of %q exactly once)", o.res.Summary.Totals, want, expected)
	}
	if s := sumRows(o.res.Rows); s != want {
		return "C16:contributes-once", fmt.Sprintf("sum of row counters = %+v, expected %+v (each of %q exactly once)", s, want, expected)
	}
	sel := map[string]bool{}
	for _, n := range expected {
		sel[n] = true
	}
	for _, r := range o.res.Rows {
		if r.Labels.Iface != "" && !sel[r.Labels.Iface] {
			return "C16:selection", fmt.Sprintf("row labelled with interface %q which is not selected (%q)", r.Labels.Iface, expected)
		}
	}
	return "", ""
}

// ---- the properties

func TestC16List(t *testing.T) {
	cache := newDBCache(t)
	rapid.Check(t, func(t *rapid.T) {
		mask := genMask(t)
		lc := genList(t)
		checkList(t, cache, mask, lc)
	})
}

// TestC16ListSmallScope enumerates every list of up to 3 (thorough: 4) tokens
// over {eth0, eth1, !eth0, !eth1, any, eth7} against the four databases over
// {eth0, eth1}.
func TestC16ListSmallScope(t *testing.T) {
	cache := newDBCache(t)
	toks := []string{"eth0", "eth1", "!eth0", "!eth1", "any", "eth7"}
	maxLen := evid.Pick(3, 4)
	var rec func(prefix []string)
	n := 0
	rec = func(prefix []string) {
		if len(prefix) > 0 {
			for mask := 0; mask < 4; mask++ {
				checkList(t, cache, mask, listCase{tokens: append([]string{}, prefix...), small: true})
				n++
			}
		}
		if len(prefix) == maxLen {
			return
		}
		for _, tk := range toks {
			rec(append(prefix, tk))
		}
	}
	rec(nil)
	evid.Exhaustive(true)
	evid.Note("small_scope", fmt.Sprintf("all %d (list, database) pairs with lists of length <= %d over %q and databases over {eth0,eth1}", n, maxLen, toks))
}

type fataler interface {
	Fatalf(format string, args ...any)
}

// checkList runs one list argument against the database given by mask and
// applies the oracle.
func checkList(t fataler, cache *dbCache, mask int, lc listCase) {
	arg := strings.Join(lc.tokens, ",")
	db, err := cache.dbFor(mask)
	if err != nil {
		t.Fatalf("harness: %v", err)
	}
	existing := existingNames(mask)
	exists := map[string]bool{}
	for _, n := range existing {
		exists[n] = true
	}

	// reference selection
	var (
		hasAny   bool
		posCount = map[string]int{}
		negated  = map[string]bool{}
	)
	for _, tok := range lc.tokens {
		if strings.HasPrefix(tok, "!") {
			negated[tok[1:]] = true
		} else if isAny(tok) {
			hasAny = true
		} else {
			posCount[tok]++
		}
	}
	base := map[string]bool{}
	if hasAny {
		for _, n := range existing {
			base[n] = true
		}
	} else {
		for n := range posCount {
			if exists[n] {
				base[n] = true
			}
		}
	}
	var expected []string
	negOfSelected := false
	for n := range base {
		if negated[n] {
			negOfSelected = true
			continue
		}
		expected = append(expected, n)
	}
	sort.Strings(expected)

	// which names can trigger the open finding: repeated among the positives that end up in the working list
	var repeated []string
	repeatedAny := false
	for n, c := range posCount {
		if c > 1 {
			repeatedAny = true
			if exists[n] && !hasAny {
				repeated = append(repeated, n)
			}
		}
	}
	sort.Strings(repeated)
	repeatedNegated := false
	for _, n := range repeated {
		if negated[n] {
			repeatedNegated = true
		}
	}

	classes := []string{"arg:list"}
	if lc.small {
		classes = []string{"arg:list-small-scope"}
	}
	switch {
	case lc.invalid:
		classes = append(classes, "list:invalid-token")
	case lc.negAny:
		classes = append(classes, "list:neg-any")
	case len(expected) == 0:
		classes = append(classes, "list:empty-selection")
	default:
		classes = append(classes, fmt.Sprintf("list:selected=%d", len(expected)))
	}
	if hasAny {
		classes = append(classes, "list:any")
	}
	if repeatedAny {
		classes = append(classes, "list:repeated-name")
	}
	if len(repeated) > 0 {
		classes = append(classes, "list:repeated-existing-positive")
	}
	if repeatedNegated {
		classes = append(classes, "list:repeated-and-negated")
	}
	if negOfSelected {
		classes = append(classes, "list:negation-of-selected")
	}
	if len(negated) > 0 && strings.HasPrefix(lc.tokens[0], "!") {
		classes = append(classes, "list:negation-first")
	}
	if mask == 0 {
		classes = append(classes, "db:empty")
	}
	if lc.noRepeat && evid.IsOpen(findingRepeat) {
		evid.Excluded(findingRepeat)
		classes = append(classes, "mode:no-repeated-positive")
	}
	nt := !lc.invalid && !lc.negAny && (repeatedAny || negOfSelected)
	canon := fmt.Sprintf("%02d|%s", mask, arg)
	evid.Case(canon, nt, classes...)
	if evid.WantSample(nt) {
		evid.Sample(map[string]any{"existing": existing, "ifaces": arg, "expected": expected}, nt)
	}

	o := runQuery(db, arg)
	wit := fmt.Sprintf("existing=%q ifaces=%q", existing, arg)

	// attribution of the open finding: only lists whose working list contains a repeated name
	known := func(observed string) bool {
		return len(repeated) > 0 && evid.Known(findingRepeat, wit+" -> "+observed)
	}

	if o.panicked {
		if repeatedNegated && strings.Contains(o.panicVal, "slice bounds out of range") &&
			strings.Contains(o.stack, "parseIfaceListWithCommaSeparatedString") && known("panic: "+o.panicVal) {
			return
		}
		t.Fatalf("%s", evid.Sig("C16:no-crash", "%s: panic: %s\n%s", wit, o.panicVal, o.stack))
	}
	if lc.invalid {
		if o.err == nil {
			t.Fatalf("%s", evid.Sig("C16:invalid-name-error", "%s: a list with an invalid interface name was accepted (interfaces %q)", wit, ifacesOf(o.res)))
		}
		return
	}
	if lc.negAny {
		return // no crash is all that is asserted
	}
	if len(expected) == 0 {
		if o.err != nil || emptyResult(o.res) {
			return
		}
		if o.res == nil {
			t.Fatalf("%s", evid.Sig("C16:empty-selection", "%s: neither a result nor an error", wit))
		}
		// the finding keeps a negated repeated name alive
		if repeatedNegated && explainedByRepeat(o, expected, repeated, negated) && known(fmt.Sprintf("interfaces %q", o.res.Summary.Interfaces)) {
			return
		}
		t.Fatalf("%s", evid.Sig("C16:empty-selection", "%s: empty selection expected (error or empty result), got interfaces %q totals %+v",
			wit, o.res.Summary.Interfaces, o.res.Summary.Totals))
	}
	clause, msg := checkSelected(o, expected)
	if clause == "" {
		return
	}
	if o.err == nil && o.res != nil && explainedByRepeat(o, expected, repeated, negated) && known(fmt.Sprintf("interfaces %q", o.res.Summary.Interfaces)) {
		return
	}
	t.Fatalf("%s", evid.Sig(clause, "%s: %s", wit, msg))
}

// explainedByRepeat decides whether a wrong but non-crashing result has the
// shape the open finding produces: the reported interface list, after removing
// duplicates, is the expected list plus only names that are both repeated and
// negated; duplicates are only of repeated names; and the traffic is that of the
// distinct reported interfaces, each counted at most as often as it is reported.
func explainedByRepeat(o outcome, expected, repeated []string, negated map[string]bool) bool {
	if len(repeated) == 0 || o.res == nil {
		return false
	}
	rep := map[string]bool{}
	for _, n := range repeated {
		rep[n] = true
	}
	exp := map[string]bool{}
	for _, n := range expected {
		exp[n] = true
	}
	got := []string(o.res.Summary.Interfaces)
	count := map[string]int{}
	for _, n := range got {
		count[n]++
		if !exp[n] && !(rep[n] && negated[n]) {
			return false // an invented interface that the finding cannot explain
		}
		if count[n] > 1 && !rep[n] {
			return false
		}
	}
	for _, n := range expected {
		if count[n] == 0 {
			return false // a dropped interface
		}
	}
	distinct := dedupSorted(got)
	if eqStrings(distinct, got) && eqStrings(got, expected) {
		return false // the interface list is right: a traffic mismatch is something else
	}
	tot := o.res.Summary.Totals
	return tot == totalsOf(distinct) || tot == totalsOf(got)
}

func TestC16Regexp(t *testing.T) {
	cache := newDBCache(t)
	rapid.Check(t, func(t *rapid.T) {
		mask := genMask(t)
		arg := genRegexpArg(t)
		if rapid.IntRange(0, 19).Draw(t, "negprefix") == 7 {
			arg = "!" + arg // not a regexp argument any more: an invalid interface name
		}
		db, err := cache.dbFor(mask)
		if err != nil {
			t.Fatalf("harness: %v", err)
		}
		existing := existingNames(mask)
		wit := fmt.Sprintf("existing=%q ifaces=%q", existing, arg)

		isRe := strings.HasPrefix(arg, "/") && strings.HasSuffix(arg, "/") && len(arg) > 2 // "wrapped into forward slashes"
		var (
			expected  []string
			innerErr  error
			wholeErr  error
			mustError bool
		)
		if isRe {
			inner := arg[1 : len(arg)-1]
			_, innerErr = regexp.Compile(inner)
			_, wholeErr = regexp.Compile(arg) // the argument validation compiles the text including the slashes
			if innerErr == nil {
				for _, n := range existing {
					if ok, _ := regexp.MatchString(inner, n); ok {
						expected = append(expected, n)
					}
				}
			}
			mustError = innerErr != nil
		} else {
			mustError = true // "//" or "!/re/": slashes are not valid in interface names
		}
		sort.Strings(expected)

		classes := []string{"arg:regexp"}
		nt := false
		switch {
		case !isRe:
			classes = append(classes, "re:not-a-regexp-argument")
		case innerErr != nil:
			classes = append(classes, "re:invalid")
		case len(expected) == 0:
			classes = append(classes, "re:matches-none")
		case len(expected) == len(existing):
			classes = append(classes, "re:matches-all")
		default:
			classes = append(classes, "re:proper-subset")
			nt = len(existing) >= 2
		}
		if isRe && innerErr == nil && wholeErr != nil {
			classes = append(classes, "re:valid-inner-invalid-with-slashes")
		}
		if mask == 0 {
			classes = append(classes, "db:empty")
		}
		evid.Case(fmt.Sprintf("%02d|%s", mask, arg), nt, classes...)
		if evid.WantSample(nt) {
			evid.Sample(map[string]any{"existing": existing, "ifaces": arg, "expected": expected}, nt)
		}

		o := runQuery(db, arg)
		if o.panicked {
			t.Fatalf("%s", evid.Sig("C16:no-crash", "%s: panic: %s\n%s", wit, o.panicVal, o.stack))
		}
		if mustError {
			if o.err == nil {
				t.Fatalf("%s", evid.Sig("C16:invalid-regexp-error", "%s: invalid argument accepted (inner compile error: %v), interfaces %q", wit, innerErr, ifacesOf(o.res)))
			}
			return
		}
		if wholeErr != nil && o.err != nil {
			return // rejected by the argument validation, which compiles the text with its slashes: an error, not a wrong selection
		}
		if len(expected) == 0 {
			if o.err != nil || emptyResult(o.res) {
				return
			}
			if o.res == nil {
				t.Fatalf("%s", evid.Sig("C16:regexp-selection", "%s: neither a result nor an error", wit))
			}
			t.Fatalf("%s", evid.Sig("C16:regexp-selection", "%s: no interface matches, expected an error or an empty result, got interfaces %q", wit, o.res.Summary.Interfaces))
		}
		if clause, msg := checkSelected(o, expected); clause != "" {
			if clause == "C16:selection" {
				clause = "C16:regexp-selection"
			}
			t.Fatalf("%s", evid.Sig(clause, "%s: %s", wit, msg))
		}
	})
}
