// C19 — packet parsing extracts the documented flow key and never panics.
//
// (a) constructive: a logical packet (family, addresses, protocol, ports, TCP
// flags, ICMP type/code, fragment fields, captured length) is encoded into
// header bytes; the expected outcome is computed from the logical packet alone
// (never from the bytes) with the rules the code documents:
//   - IPv4 non-first fragments (fragment offset != 0) of anything but ESP are
//     classified ErrnoPacketFragmentIgnore,
//   - TCP needs the transport header up to and including the flags byte, UDP
//     the two ports, ICMP (v4: proto 1, v6: proto 58) the type byte, otherwise
//     ErrnoPacketTruncated,
//   - otherwise the key is (sip, dip, proto, sport, dport) where, for TCP and
//     UDP, the source port is dropped when the destination port is a common
//     service port and the destination port is dropped when the source port is
//     one (TCP 53/80/443/445/8080, UDP 53/443); every other protocol carries no
//     ports; the auxiliary byte is the TCP flags byte / the ICMP type.
//
// (b) mirror: Parse(mirror(p)) == Parse(p).Reverse(), and Reverse swaps the
// documented fields.
// (c) raw bytes of every length >= the fixed IP header (20 / 40) never panic;
// shorter "runt" IP layers are the separate class C19-F23 (TestC19Runts).
package c19

import (
	"encoding/binary"
	"encoding/hex"
	"fmt"
	"testing"

	"github.com/els0r/goProbe/v4/pkg/capture"
	"github.com/els0r/goProbe/v4/pkg/capture/capturetypes"
	"pgregory.net/rapid"

	"verifharness/internal/evid"
)

func TestMain(m *testing.M) {
	evid.Rule("constructive: logical packet (family; sip/dip from special addresses incl. broadcast/multicast/unspecified or random; proto 0..255 weighted to TCP/UDP/ICMP/ICMPv6/ESP; " +
		"sport/dport from all common ports, their neighbours, byte-swapped and byte-sharing look-alikes, 0, 1023/1024, 32767/32768, 65535 or uniform; TCP flags, ICMP type/code; IPv4 fragment offset/flags; " +
		"captured length from the fixed IP header up to header+40 weighted to the per-protocol limits and 54) encoded to bytes, outcome predicted from the logical packet; each case is also evaluated mirrored; " +
		"raw: random bytes of every length from the fixed header up to 128 with the version nibble the capture loop dispatches on; runts: every length 1..19 / 1..39; " +
		"non-trivial = a port of a TCP/UDP pair is a common port, or the packet is classified as fragment/truncated; distinct by family + header bytes")
	evid.Assume("IPv4 headers carry no options in the constructive generator (fixed-offset parsing is the documented behaviour); the raw generator covers every IHL value with the same fixed-offset expectation",
		"the capture loop dispatches on the version nibble (capture.go process(): ipLayer.Type()), so ParsePacketV4 only sees layers starting with 0x4_, ParsePacketV6 only 0x6_",
		"the IPv6 parser takes the next-header field of the fixed header as the protocol (extension headers, incl. the fragment header 44, are stored as that protocol without ports)",
		"key contents are only asserted when the parser reports ErrnoOK (callers drop everything else)",
		"IP layers shorter than the fixed header (20 / 40 bytes) are outside the main domain: slimcap hands out tp_snaplen minus the link header without a lower bound, so whether they occur is link dependent; they are searched separately (finding key C19-F23)")
	evid.Main(m)
}

// ---------------------------------------------------------------- logical packet

const (
	protoICMP   = 1
	protoTCP    = 6
	protoUDP    = 17
	protoESP    = 50
	protoICMPv6 = 58
)

type packet struct {
	V6           bool
	Sip, Dip     []byte // 4 or 16 bytes
	Proto        byte
	Sport, Dport uint16 // meaningful for TCP/UDP only
	TCPFlags     byte
	ICMPType     byte
	ICMPCode     byte
	FragOff      uint16 // IPv4: 13 bit fragment offset
	FragFlags    byte   // IPv4: 3 flag bits (reserved, DF, MF)
	Filler       []byte // every byte not named above
	CapLen       int    // captured length of the IP layer
}

func (p *packet) hdrLen() int {
	if p.V6 {
		return 40
	}
	return 20
}

func (p *packet) hasPorts() bool { return p.Proto == protoTCP || p.Proto == protoUDP }
func (p *packet) isICMP() bool {
	return (!p.V6 && p.Proto == protoICMP) || (p.V6 && p.Proto == protoICMPv6)
}

// encode writes the wire format (RFC 791 / RFC 8200 fixed headers, RFC 793 / 768 / 792 transport headers).
func (p *packet) encode() []byte {
	h := p.hdrLen()
	b := make([]byte, h+40)
	copy(b, p.Filler)
	if p.V6 {
		b[0] = 0x60 | (b[0] & 0x0f)
		b[6] = p.Proto
		copy(b[8:24], p.Sip)
		copy(b[24:40], p.Dip)
	} else {
		b[0] = 0x45
		binary.BigEndian.PutUint16(b[6:8], uint16(p.FragFlags&7)<<13|p.FragOff&0x1fff)
		b[9] = p.Proto
		copy(b[12:16], p.Sip)
		copy(b[16:20], p.Dip)
	}
	l4 := b[h:]
	switch {
	case p.Proto == protoTCP:
		binary.BigEndian.PutUint16(l4[0:2], p.Sport)
		binary.BigEndian.PutUint16(l4[2:4], p.Dport)
		l4[13] = p.TCPFlags
	case p.Proto == protoUDP:
		binary.BigEndian.PutUint16(l4[0:2], p.Sport)
		binary.BigEndian.PutUint16(l4[2:4], p.Dport)
	case p.isICMP():
		l4[0] = p.ICMPType
		l4[1] = p.ICMPCode
	}
	return b[:p.CapLen]
}

// mirror is the same conversation seen in the other direction.
func (p *packet) mirror() *packet {
	m := *p
	m.Sip, m.Dip = p.Dip, p.Sip
	if p.hasPorts() {
		m.Sport, m.Dport = p.Dport, p.Sport
	}
	return &m
}

// ---------------------------------------------------------------- oracle

type outcome int

const (
	outOK outcome = iota
	outFragment
	outTruncated
)

func (o outcome) String() string { return [...]string{"ok", "fragment", "truncated"}[o] }

type key struct {
	Sip, Dip     string // raw bytes
	Sport, Dport uint16
	Proto        byte
}

func (k key) String() string {
	return fmt.Sprintf("%x:%d -> %x:%d proto %d", k.Sip, k.Sport, k.Dip, k.Dport, k.Proto)
}

func (k key) swapped() key { return key{k.Dip, k.Sip, k.Dport, k.Sport, k.Proto} }

// documented common service ports (flow.go, table comments)
func commonPort(port uint16, proto byte) bool {
	switch proto {
	case protoTCP:
		return port == 53 || port == 80 || port == 443 || port == 445 || port == 8080
	case protoUDP:
		return port == 53 || port == 443
	}
	return false
}

func expect(p *packet) (outcome, key, byte) {
	if !p.V6 && p.Proto != protoESP && p.FragOff != 0 {
		return outFragment, key{}, 0
	}
	l4 := p.CapLen - p.hdrLen() // captured transport bytes
	k := key{Sip: string(p.Sip), Dip: string(p.Dip), Proto: p.Proto}
	var aux byte
	switch {
	case p.Proto == protoTCP:
		if l4 < 14 { // ports .. flags byte
			return outTruncated, key{}, 0
		}
		aux = p.TCPFlags
	case p.Proto == protoUDP:
		if l4 < 4 { // both ports
			return outTruncated, key{}, 0
		}
	case p.isICMP():
		if l4 < 1 { // type
			return outTruncated, key{}, 0
		}
		aux = p.ICMPType
	}
	if p.hasPorts() {
		if !commonPort(p.Dport, p.Proto) {
			k.Sport = p.Sport
		}
		if !commonPort(p.Sport, p.Proto) {
			k.Dport = p.Dport
		}
	}
	return outOK, k, aux
}

// ---------------------------------------------------------------- observation

type observed struct {
	Panic any
	Errno capturetypes.ParsingErrno
	Aux   byte
	Hash  []byte // 13 / 37 bytes
	Rev   []byte // Hash.Reverse()
}

func parse(v6 bool, ipLayer []byte) (o observed) {
	defer func() {
		if r := recover(); r != nil {
			o.Panic = r
		}
	}()
	if v6 {
		h, aux, errno := capture.ParsePacketV6(ipLayer)
		r := h.Reverse()
		return observed{Errno: errno, Aux: aux, Hash: h[:], Rev: r[:]}
	}
	h, aux, errno := capture.ParsePacketV4(ipLayer)
	r := h.Reverse()
	return observed{Errno: errno, Aux: aux, Hash: h[:], Rev: r[:]}
}

// decodeHash reads a hash by the layout documented in capturetypes/packet.go:
// v4: [0:4] sip [4:6] sport [6:10] dip [10:12] dport [12] proto; v6: [0:16] [16:18] [18:34] [34:36] [36].
func decodeHash(v6 bool, h []byte) key {
	n := 4
	if v6 {
		n = 16
	}
	if len(h) != 2*n+5 {
		panic(fmt.Sprintf("hash of %d bytes", len(h)))
	}
	return key{Sip: string(h[0:n]), Sport: binary.BigEndian.Uint16(h[n : n+2]), Dip: string(h[n+2 : 2*n+2]),
		Dport: binary.BigEndian.Uint16(h[2*n+2 : 2*n+4]), Proto: h[2*n+4]}
}

func outcomeOf(e capturetypes.ParsingErrno) (outcome, bool) {
	switch e {
	case capturetypes.ErrnoOK:
		return outOK, true
	case capturetypes.ErrnoPacketFragmentIgnore:
		return outFragment, true
	case capturetypes.ErrnoPacketTruncated:
		return outTruncated, true
	}
	return 0, false
}

type failer interface {
	Fatalf(format string, args ...any)
	Helper()
}

func famName(v6 bool) string {
	if v6 {
		return "v6"
	}
	return "v4"
}

// check compares one observation with the expectation; what names the packet in messages.
func check(t failer, what string, v6 bool, ipLayer []byte, wantOut outcome, wantKey key, wantAux byte) observed {
	t.Helper()
	o := parse(v6, ipLayer)
	if o.Panic != nil {
		t.Fatalf("%s", evid.Sig("C19:no-panic", "%s: ParsePacketV%s panics on a %d byte IP layer %x: %v", what, famName(v6)[1:], len(ipLayer), ipLayer, o.Panic))
	}
	got, ok := outcomeOf(o.Errno)
	if !ok {
		t.Fatalf("%s", evid.Sig("C19:classification", "%s: undefined errno %d for %x", what, o.Errno, ipLayer))
	}
	if got != wantOut {
		t.Fatalf("%s", evid.Sig("C19:classification", "%s: %s IP layer %x (%d bytes) classified %q, want %q", what, famName(v6), ipLayer, len(ipLayer), got, wantOut))
	}
	if got != outOK {
		return o
	}
	if k := decodeHash(v6, o.Hash); k != wantKey {
		sig := "C19:key"
		if k.Sip == wantKey.Sip && k.Dip == wantKey.Dip && k.Proto == wantKey.Proto {
			sig = "C19:key-ports"
		}
		t.Fatalf("%s", evid.Sig(sig, "%s: %s IP layer %x: key %v, want %v", what, famName(v6), ipLayer, k, wantKey))
	}
	if o.Aux != wantAux {
		t.Fatalf("%s", evid.Sig("C19:aux", "%s: %s IP layer %x: auxiliary byte %#x, want %#x", what, famName(v6), ipLayer, o.Aux, wantAux))
	}
	// Reverse swaps the documented fields and nothing else
	if r := decodeHash(v6, o.Rev); r != wantKey.swapped() {
		t.Fatalf("%s", evid.Sig("C19:reverse", "%s: Reverse of %v is %v", what, wantKey, r))
	}
	return o
}

// ---------------------------------------------------------------- generators

var portsOfInterest = []uint16{0, 1, 52, 53, 54, 79, 80, 81, 442, 443, 444, 445, 446, 8079, 8080, 8081,
	1023, 1024, 32767, 32768, 49152, 60999, 65535,
	// byte-swapped common ports and ports sharing one byte with a common port
	0x3500, 0x5000, 0xbb01, 0xbd01, 0x901f, 0x0135, 0x0150, 0x00bb, 0x00bd, 0x1f35, 0x1f50, 0x1fbb, 0x0090, 0x0190, 0x1f00, 0x2090, 0x0235}

var commonTCP = []uint16{53, 80, 443, 445, 8080}
var commonUDP = []uint16{53, 443}

func genPort(t *rapid.T, label string, proto byte) uint16 {
	switch k := rapid.IntRange(0, 9).Draw(t, label+"kind"); {
	case k < 3: // a documented common port (of either protocol: 80/445/8080 are not common for UDP)
		if proto == protoUDP && rapid.Bool().Draw(t, label+"udpc") {
			return rapid.SampledFrom(commonUDP).Draw(t, label)
		}
		return rapid.SampledFrom(commonTCP).Draw(t, label)
	case k < 7:
		return rapid.SampledFrom(portsOfInterest).Draw(t, label)
	}
	return rapid.Uint16().Draw(t, label)
}

var otherProtos = []byte{0, 2, 4, 5, 7, 16, 18, 41, 43, 44, 47, 51, 60, 132, 255}

func genProto(t *rapid.T, v6 bool) byte {
	switch k := rapid.IntRange(0, 11).Draw(t, "protokind"); {
	case k < 4:
		return protoTCP
	case k < 7:
		return protoUDP
	case k == 7: // the ICMP of the family
		if v6 {
			return protoICMPv6
		}
		return protoICMP
	case k == 8: // ESP, and the ICMP of the other family (an ordinary protocol here)
		return rapid.SampledFrom([]byte{protoESP, protoESP, protoICMP, protoICMPv6}).Draw(t, "proto")
	case k == 9:
		return rapid.SampledFrom(otherProtos).Draw(t, "proto")
	}
	return rapid.Byte().Draw(t, "proto")
}

var addrs4 = [][]byte{{10, 0, 0, 1}, {10, 0, 0, 2}, {0, 0, 0, 0}, {255, 255, 255, 255}, {224, 0, 0, 1}, {224, 0, 0, 251}, {224, 0, 1, 1},
	{239, 255, 255, 250}, {127, 0, 0, 1}, {192, 168, 1, 255}, {0, 53, 0, 80}, {1, 187, 31, 144}}

func mk16(prefix []byte, last byte) []byte {
	b := make([]byte, 16)
	copy(b, prefix)
	b[15] = last
	return b
}

var addrs6 = [][]byte{mk16(nil, 0), mk16(nil, 1), mk16([]byte{0xfe, 0x80}, 1), mk16([]byte{0xff, 0x02}, 1), mk16([]byte{0xff, 0x02}, 0xfb),
	mk16([]byte{0x20, 0x01, 0x0d, 0xb8}, 1), mk16([]byte{0x20, 0x01, 0x0d, 0xb8}, 2), mk16([]byte{0, 0, 0, 0, 0, 0, 0, 0, 0, 0, 0xff, 0xff, 10, 0, 0}, 1),
	mk16([]byte{0, 53, 0, 80, 1, 187, 1, 189, 31, 144, 0, 53}, 80)}

func genAddr(t *rapid.T, v6 bool, label string) []byte {
	n, pool := 4, addrs4
	if v6 {
		n, pool = 16, addrs6
	}
	if rapid.IntRange(0, 2).Draw(t, label+"kind") == 0 {
		return rapid.SliceOfN(rapid.Byte(), n, n).Draw(t, label)
	}
	return rapid.SampledFrom(pool).Draw(t, label)
}

var tcpFlagsOfInterest = []byte{0x00, 0x02, 0x12, 0x10, 0x18, 0x11, 0x04, 0x14, 0xc2, 0x52, 0xff}

func genPacket(t *rapid.T) *packet {
	p := &packet{V6: rapid.Bool().Draw(t, "v6")}
	p.Sip = genAddr(t, p.V6, "sip")
	if rapid.IntRange(0, 9).Draw(t, "sameaddr") == 0 {
		p.Dip = p.Sip
	} else {
		p.Dip = genAddr(t, p.V6, "dip")
	}
	p.Proto = genProto(t, p.V6)
	p.Sport, p.Dport = genPort(t, "sport", p.Proto), genPort(t, "dport", p.Proto)
	if rapid.Bool().Draw(t, "flagkind") {
		p.TCPFlags = rapid.SampledFrom(tcpFlagsOfInterest).Draw(t, "tcpflags")
	} else {
		p.TCPFlags = rapid.Byte().Draw(t, "tcpflags")
	}
	p.ICMPType, p.ICMPCode = rapid.Byte().Draw(t, "icmptype"), rapid.Byte().Draw(t, "icmpcode")
	if !p.V6 {
		p.FragFlags = byte(rapid.IntRange(0, 7).Draw(t, "fragflags"))
		switch rapid.IntRange(0, 7).Draw(t, "fragkind") {
		case 0:
			p.FragOff = rapid.SampledFrom([]uint16{1, 2, 4, 8, 0x10, 0x20, 0x40, 0x80, 0x100, 0x200, 0x400, 0x800, 0x1000, 185, 0x00ff, 0x1f00, 0x1fff}).Draw(t, "fragoff") // every single bit of the 13
		case 1:
			p.FragOff = uint16(rapid.IntRange(1, 0x1fff).Draw(t, "fragoff"))
		}
	}
	h := p.hdrLen()
	p.Filler = rapid.SliceOfN(rapid.Byte(), h+40, h+40).Draw(t, "filler")
	// captured length: the limits the code documents, their neighbours, the production snap length (54) or anything
	var lim []int
	switch {
	case p.Proto == protoTCP:
		lim = []int{h, h + 4, h + 13, h + 14, h + 15}
	case p.Proto == protoUDP:
		lim = []int{h, h + 3, h + 4, h + 5}
	case p.isICMP():
		lim = []int{h, h + 1, h + 2}
	default:
		lim = []int{h, h + 1, h + 4}
	}
	lim = append(lim, 54, 55, h+40)
	switch rapid.IntRange(0, 3).Draw(t, "capkind") {
	case 0:
		p.CapLen = rapid.IntRange(h, h+40).Draw(t, "caplen")
	case 1:
		p.CapLen = 54 // what afring is configured to deliver for full packets
	default:
		p.CapLen = rapid.SampledFrom(lim).Draw(t, "caplen")
	}
	if p.CapLen < h {
		p.CapLen = h
	}
	return p
}

func protoClass(p *packet) string {
	switch {
	case p.Proto == protoTCP:
		return "tcp"
	case p.Proto == protoUDP:
		return "udp"
	case p.isICMP():
		return "icmp"
	case p.Proto == protoESP:
		return "esp"
	}
	return "other"
}

// ---------------------------------------------------------------- (a)+(b) constructive with mirror

func TestC19Constructive(t *testing.T) {
	rapid.Check(t, func(t *rapid.T) {
		p := genPacket(t)
		b := p.encode()
		wantOut, wantKey, wantAux := expect(p)

		fam := famName(p.V6)
		classes := []string{"fam:" + fam, "proto:" + protoClass(p), "outcome:" + wantOut.String(), fmt.Sprintf("%s/%s:%s", fam, protoClass(p), wantOut)}
		nt := wantOut != outOK
		if p.hasPorts() && wantOut == outOK {
			cs, cd := commonPort(p.Sport, p.Proto), commonPort(p.Dport, p.Proto)
			switch {
			case cs && cd:
				classes = append(classes, "common:both")
			case cd:
				classes = append(classes, "common:dst")
			case cs:
				classes = append(classes, "common:src")
			default:
				classes = append(classes, "common:none")
			}
			nt = cs || cd
		}
		if !p.V6 && p.FragOff != 0 {
			classes = append(classes, "frag:nonfirst")
			if p.Proto == protoESP {
				classes = append(classes, "frag:nonfirst-esp")
			}
		} else if !p.V6 && p.FragFlags&1 != 0 {
			classes = append(classes, "frag:first(MF)")
		}
		if p.CapLen == p.hdrLen() {
			classes = append(classes, "caplen:header-only")
		} else if p.CapLen >= 54 {
			classes = append(classes, "caplen:>=54")
		}
		evid.Case(fam+":"+string(b), nt, classes...)
		if evid.WantSample(nt) {
			smp := map[string]any{"family": fam, "ip_layer": hex.EncodeToString(b), "proto": p.Proto, "sport": p.Sport, "dport": p.Dport,
				"captured": p.CapLen, "frag_offset": p.FragOff, "expected": wantOut.String()}
			if wantOut == outOK {
				smp["expected_key"] = wantKey.String()
			}
			evid.Sample(smp, nt)
		}

		o := check(t, "packet", p.V6, b, wantOut, wantKey, wantAux)

		// (b) the same conversation in the other direction
		m := p.mirror()
		mb := m.encode()
		mOut, mKey, mAux := expect(m)
		if mOut != wantOut || (mOut == outOK && (mKey != wantKey.swapped() || mAux != wantAux)) {
			// the documented rules themselves are mirror symmetric; anything else is a bug of this oracle
			t.Fatalf("oracle not mirror symmetric: %v/%v/%x vs %v/%v/%x", wantOut, wantKey, wantAux, mOut, mKey, mAux)
		}
		om := check(t, "mirrored packet", m.V6, mb, mOut, mKey, mAux)
		if wantOut == outOK {
			if string(om.Hash) != string(o.Rev) || string(om.Rev) != string(o.Hash) || om.Aux != o.Aux {
				t.Fatalf("%s", evid.Sig("C19:mirror", "Parse(mirror(p)) = %x aux %#x, Parse(p).Reverse() = %x aux %#x (p = %s %x)", om.Hash, om.Aux, o.Rev, o.Aux, fam, b))
			}
		}
	})
}

// ---------------------------------------------------------------- (c) raw bytes

// expectRaw reads the fields the documentation names from fixed offsets of a raw
// IP layer (len >= fixed header) and applies the same rules.
func expectRaw(v6 bool, b []byte) (*packet, outcome, key, byte) {
	p := &packet{V6: v6, CapLen: len(b)}
	h := p.hdrLen()
	if v6 {
		p.Proto, p.Sip, p.Dip = b[6], b[8:24], b[24:40]
	} else {
		p.Proto, p.Sip, p.Dip = b[9], b[12:16], b[16:20]
		ff := binary.BigEndian.Uint16(b[6:8])
		p.FragFlags, p.FragOff = byte(ff>>13), ff&0x1fff
	}
	l4 := b[h:]
	if p.hasPorts() && len(l4) >= 4 {
		p.Sport, p.Dport = binary.BigEndian.Uint16(l4[0:2]), binary.BigEndian.Uint16(l4[2:4])
	}
	if p.Proto == protoTCP && len(l4) >= 14 {
		p.TCPFlags = l4[13]
	}
	if p.isICMP() && len(l4) >= 1 {
		p.ICMPType = l4[0]
	}
	o, k, aux := expect(p)
	return p, o, k, aux
}

func checkRaw(t failer, v6 bool, b []byte) (outcome, bool) {
	t.Helper()
	p, wantOut, wantKey, wantAux := expectRaw(v6, b)
	check(t, "raw layer", v6, b, wantOut, wantKey, wantAux)
	nt := wantOut != outOK
	if wantOut == outOK && p.hasPorts() {
		nt = commonPort(p.Sport, p.Proto) || commonPort(p.Dport, p.Proto)
	}
	return wantOut, nt
}

func TestC19RawBytes(t *testing.T) {
	rapid.Check(t, func(t *rapid.T) {
		v6 := rapid.Bool().Draw(t, "v6")
		min := 20
		if v6 {
			min = 40
		}
		var n int
		switch rapid.IntRange(0, 3).Draw(t, "lenkind") {
		case 0:
			n = rapid.IntRange(min, min+2).Draw(t, "len")
		case 1:
			n = rapid.IntRange(min, 128).Draw(t, "len")
		default:
			n = rapid.IntRange(min, min+16).Draw(t, "len")
		}
		b := rapid.SliceOfN(rapid.Byte(), n, n).Draw(t, "bytes")
		// the capture loop dispatches on the version nibble
		if v6 {
			b[0] = 0x60 | b[0]&0x0f
		} else {
			b[0] = 0x40 | b[0]&0x0f
		}
		// steer the protocol byte towards the parsed protocols half of the time
		if rapid.Bool().Draw(t, "steer") {
			pr := rapid.SampledFrom([]byte{protoTCP, protoUDP, protoICMP, protoICMPv6, protoESP}).Draw(t, "proto")
			if v6 {
				b[6] = pr
			} else {
				b[9] = pr
				if rapid.Bool().Draw(t, "nofrag") {
					b[6], b[7] = b[6]&0xe0, 0
				}
			}
		}
		out, nt := checkRaw(t, v6, b)
		evid.Case(famName(v6)+":"+string(b), nt, "raw:"+famName(v6), "raw-outcome:"+out.String(), fmt.Sprintf("raw-len:%s+%d", famName(v6), minInt(n-min, 15)))
	})
}

func minInt(a, b int) int {
	if a < b {
		return a
	}
	return b
}

// ---------------------------------------------------------------- runts (finding key C19-F23)

// checkRunt: an IP layer shorter than the fixed header cannot yield a key; it
// has to be classified (no ErrnoOK) and must not take the process down.
func checkRunt(t failer, v6 bool, b []byte) {
	t.Helper()
	o := parse(v6, b)
	if o.Panic != nil {
		w := fmt.Sprintf("ParsePacketV%s(ipLayer = %x, %d bytes) panics: %v", famName(v6)[1:], b, len(b), o.Panic)
		evid.Class("runt:panic")
		if evid.Known("C19-F23", w) {
			return
		}
		t.Fatalf("%s", evid.Sig("C19:runt-no-panic", "%s", w))
	}
	evid.Class("runt:returned")
	if o.Errno == capturetypes.ErrnoOK {
		t.Fatalf("%s", evid.Sig("C19:runt-classified", "ParsePacketV%s accepts a %d byte IP layer %x as a complete header (key %x)", famName(v6)[1:], len(b), b, o.Hash))
	}
}

func TestC19Runts(t *testing.T) {
	rapid.Check(t, func(t *rapid.T) {
		v6 := rapid.Bool().Draw(t, "v6")
		min := 20
		if v6 {
			min = 40
		}
		n := rapid.IntRange(1, min-1).Draw(t, "len")
		b := rapid.SliceOfN(rapid.Byte(), n, n).Draw(t, "bytes")
		if v6 {
			b[0] = 0x60 | b[0]&0x0f
		} else {
			b[0] = 0x40 | b[0]&0x0f
		}
		evid.Case("runt:"+famName(v6)+":"+string(b), true, "runt:"+famName(v6), fmt.Sprintf("runt-len:%s:%d", famName(v6), n))
		if evid.WantSample(true) {
			evid.Sample(map[string]any{"family": famName(v6), "ip_layer": hex.EncodeToString(b), "class": "runt"}, true)
		}
		checkRunt(t, v6, b)
	})
}

// ---------------------------------------------------------------- native fuzz target (seed corpus runs under plain `go test`)

func seedPackets() [][]byte {
	var out [][]byte
	for _, v6 := range []bool{false, true} {
		sip, dip := addrs4[0], addrs4[1]
		if v6 {
			sip, dip = addrs6[5], addrs6[6]
		}
		h := 20
		if v6 {
			h = 40
		}
		icmp := byte(protoICMP)
		if v6 {
			icmp = protoICMPv6
		}
		for _, p := range []*packet{
			{Proto: protoTCP, Sport: 40000, Dport: 443, TCPFlags: 0x02, CapLen: 54},
			{Proto: protoTCP, Sport: 80, Dport: 51000, TCPFlags: 0x12, CapLen: h + 14},
			{Proto: protoTCP, Sport: 40000, Dport: 22, TCPFlags: 0x18, CapLen: h + 13},
			{Proto: protoUDP, Sport: 53, Dport: 33000, CapLen: h + 8},
			{Proto: protoUDP, Sport: 5353, Dport: 5353, CapLen: h + 3},
			{Proto: icmp, ICMPType: 8, CapLen: h + 8},
			{Proto: icmp, ICMPType: 0, CapLen: h},
			{Proto: protoESP, FragOff: 185, CapLen: h + 8},
			{Proto: protoUDP, Sport: 1, Dport: 2, FragOff: 185, CapLen: h + 8},
			{Proto: 47, CapLen: h},
		} {
			p.V6, p.Sip, p.Dip, p.Filler = v6, sip, dip, make([]byte, h+40)
			out = append(out, p.encode())
		}
	}
	return out
}

func FuzzC19Parse(f *testing.F) {
	for _, s := range seedPackets() {
		f.Add(s)
	}
	f.Fuzz(func(t *testing.T, data []byte) {
		if len(data) == 0 {
			return
		}
		// dispatch exactly like capture.go process()
		var v6 bool
		switch data[0] >> 4 {
		case 4:
		case 6:
			v6 = true
		default:
			evid.Class("fuzz:not-ip")
			return
		}
		min := 20
		if v6 {
			min = 40
		}
		b := append([]byte(nil), data...)
		if len(b) < min {
			// runts are searched by TestC19Runts; while C19-F23 is open they would end every fuzz campaign at once
			if evid.IsOpen("C19-F23") {
				evid.Excluded("C19-F23")
				return
			}
			evid.Case("fuzz-runt:"+string(b), true, "fuzz:runt")
			checkRunt(t, v6, b)
			return
		}
		out, nt := checkRaw(t, v6, b)
		evid.Case("fuzz:"+string(b), nt, "fuzz:"+famName(v6), "fuzz-outcome:"+out.String())
	})
}
