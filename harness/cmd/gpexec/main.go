// gpexec is the crash-isolating executor child: it runs goProbe code (query engine, interface
// listing, raw block dump, merge) on request of a test process and answers in JSON lines. A panic in
// a worker goroutine of the code under test kills only this process; the parent reports the case as
// failed, restarts the child and lets rapid shrink the case.
package main

import (
	"bufio"
	"context"
	"encoding/json"
	"fmt"
	"io"
	"log/slog"
	"os"
	"path/filepath"
	"runtime"
	"sort"
	"strings"
	"time"

	"github.com/els0r/goProbe/v4/pkg/goDB"
	"github.com/els0r/goProbe/v4/pkg/goDB/encoder/encoders"
	"github.com/els0r/goProbe/v4/pkg/goDB/engine"
	"github.com/els0r/goProbe/v4/pkg/goDB/info"
	"github.com/els0r/goProbe/v4/pkg/goDB/storage/gpfile"
	"github.com/els0r/goProbe/v4/pkg/query"
	"github.com/els0r/goProbe/v4/pkg/types"
	"github.com/els0r/telemetry/logging"
)

type request struct {
	Op    string          `json:"op"`
	DB    string          `json:"db"`
	Args  json.RawMessage `json:"args,omitempty"`
	Units int             `json:"units,omitempty"`
	Iface string          `json:"iface,omitempty"`
	First int64           `json:"first,omitempty"`
	Last  int64           `json:"last,omitempty"`
	Procs int             `json:"procs,omitempty"`
	// writeraw
	Sessions []writeSession `json:"sessions,omitempty"`
	// merge
	Src       string   `json:"src,omitempty"`
	Ifaces    []string `json:"ifaces,omitempty"`
	Overwrite bool     `json:"overwrite,omitempty"`
	DryRun    bool     `json:"dry_run,omitempty"`
	Tolerance int64    `json:"tolerance,omitempty"`
}

type rawBlock struct {
	Ts       int64                  `json:"ts"`
	Cols     [][]byte               `json:"cols"`
	Traffic  gpfile.TrafficMetadata `json:"traffic"`
	Counters types.Counters         `json:"counters"`
}

type writeSession struct {
	Encoder string     `json:"encoder"`
	Level   int        `json:"level"`
	Blocks  []rawBlock `json:"blocks"`
}

type blockDump struct {
	Ts      int64                  `json:"ts"`
	Cols    [][]byte               `json:"cols"`
	Traffic gpfile.TrafficMetadata `json:"traffic"`
}

type dayDump struct {
	Dir    string       `json:"dir"`
	DayTs  int64        `json:"day_ts"`
	Suffix string       `json:"suffix"`
	Stats  gpfile.Stats `json:"stats"`
	Blocks []blockDump  `json:"blocks"`
	Err    string       `json:"err,omitempty"`
}

type response struct {
	Err    string          `json:"err,omitempty"`
	Result json.RawMessage `json:"result,omitempty"`
	Meta   json.RawMessage `json:"meta,omitempty"`
	Ifaces []string        `json:"ifaces,omitempty"`
	Days   []dayDump       `json:"days,omitempty"`
	Merge  json.RawMessage `json:"merge,omitempty"`
	TZ     string          `json:"tz,omitempty"`
}

func main() {
	// keep the code under test quiet: its log output is not part of any oracle
	_, _ = logging.Init(slog.LevelError+4, logging.EncodingLogfmt, logging.WithOutput(io.Discard))
	in := bufio.NewReaderSize(os.Stdin, 1<<20)
	out := bufio.NewWriter(os.Stdout)
	for {
		line, err := in.ReadBytes('\n')
		if len(line) > 0 {
			var req request
			var resp response
			if jerr := json.Unmarshal(line, &req); jerr != nil {
				resp.Err = "bad request: " + jerr.Error()
			} else {
				resp = handle(&req)
			}
			b, _ := json.Marshal(resp)
			out.Write(b)
			out.WriteByte('\n')
			out.Flush()
		}
		if err != nil {
			return
		}
	}
}

func handle(req *request) (resp response) {
	if req.Procs > 0 {
		runtime.GOMAXPROCS(req.Procs)
	}
	switch req.Op {
	case "ping":
		resp.TZ = time.Local.String()
	case "query":
		var args query.Args
		if err := json.Unmarshal(req.Args, &args); err != nil {
			resp.Err = "bad args: " + err.Error()
			return
		}
		if req.Units > 0 {
			engine.VerifSetNumProcessingUnits(req.Units)
		}
		res, err := engine.NewQueryRunner(req.DB).Run(context.Background(), &args)
		if err != nil {
			resp.Err = err.Error()
			return
		}
		b, err := json.Marshal(res)
		if err != nil {
			resp.Err = "encode result: " + err.Error()
			return
		}
		resp.Result = b
	case "list":
		// the call sequence of `goQuery list`
		wm, err := goDB.NewDBWorkManager(goDB.NewMetadataQuery(), req.DB, req.Iface, runtime.NumCPU())
		if err != nil {
			resp.Err = err.Error()
			return
		}
		im, err := wm.ReadMetadata(req.First, req.Last)
		if err != nil {
			resp.Err = err.Error()
			return
		}
		resp.Meta, _ = json.Marshal(im)
	case "ifaces":
		ifaces, err := info.GetInterfaces(req.DB)
		if err != nil {
			resp.Err = err.Error()
			return
		}
		resp.Ifaces = ifaces
	case "dump":
		days, err := dump(filepath.Join(req.DB, req.Iface))
		if err != nil {
			resp.Err = err.Error()
		}
		resp.Days = days
	case "writeraw":
		// write sessions through the public GPDir writer API in this build configuration
		for si, sess := range req.Sessions {
			et, err := encoders.GetTypeByString(sess.Encoder)
			if err != nil {
				resp.Err = err.Error()
				return
			}
			if len(sess.Blocks) == 0 {
				continue
			}
			w := gpfile.NewDirWriter(filepath.Join(req.DB, req.Iface), sess.Blocks[0].Ts, gpfile.WithEncoderTypeLevel(et, sess.Level))
			if err := w.Open(); err != nil {
				resp.Err = fmt.Sprintf("session %d: open: %v", si, err)
				return
			}
			for _, b := range sess.Blocks {
				var cols [types.ColIdxCount][]byte
				for i := range cols {
					if i < len(b.Cols) {
						cols[i] = b.Cols[i]
					}
				}
				if err := w.WriteBlocks(b.Ts, b.Traffic, b.Counters, cols); err != nil {
					resp.Err = fmt.Sprintf("session %d: write block %d: %v", si, b.Ts, err)
					return
				}
			}
			if err := w.Close(); err != nil {
				resp.Err = fmt.Sprintf("session %d: close: %v", si, err)
				return
			}
		}
	case "merge":
		summary, err := goDB.MergeDatabases(context.Background(), goDB.MergeOptions{
			SourcePath: req.Src, DestinationPath: req.DB,
			Interfaces: req.Ifaces, Overwrite: req.Overwrite, DryRun: req.DryRun, CompleteTolerance: time.Duration(req.Tolerance) * time.Second,
		})
		if err != nil {
			resp.Err = err.Error()
		}
		resp.Merge, _ = json.Marshal(summary)
	default:
		resp.Err = "unknown op " + req.Op
	}
	return
}

// dump reads every day directory of an interface the way walkDB finds them and returns the raw blocks.
func dump(ifaceDir string) (days []dayDump, err error) {
	var dirs []string
	werr := filepath.WalkDir(ifaceDir, func(p string, d os.DirEntry, e error) error {
		if e != nil {
			return e
		}
		rel, _ := filepath.Rel(ifaceDir, p)
		if d.IsDir() && strings.Count(rel, string(filepath.Separator)) == 2 {
			dirs = append(dirs, p)
			return filepath.SkipDir
		}
		return nil
	})
	if werr != nil {
		return nil, werr
	}
	sort.Strings(dirs)
	for _, p := range dirs {
		dd := dayDump{Dir: filepath.Base(p)}
		ts, suffix, perr := gpfile.ExtractTimestampMetadataSuffix(dd.Dir)
		if perr != nil {
			dd.Err = "name: " + perr.Error()
			days = append(days, dd)
			continue
		}
		dd.DayTs, dd.Suffix = ts, suffix
		dir := gpfile.NewDirReader(ifaceDir, ts, suffix)
		if oerr := dir.Open(); oerr != nil {
			dd.Err = "open: " + oerr.Error()
			days = append(days, dd)
			continue
		}
		dd.Stats = dir.Stats
		for i := 0; i < dir.NBlocks(); i++ {
			bd := blockDump{Ts: dir.BlockMetadata[0].BlockList[i].Timestamp, Traffic: dir.BlockTraffic[i]}
			for c := types.ColumnIndex(0); c < types.ColIdxCount; c++ {
				data, rerr := dir.ReadBlockAtIndex(c, i)
				if rerr != nil {
					dd.Err = fmt.Sprintf("block %d column %d: %v", i, c, rerr)
					break
				}
				bd.Cols = append(bd.Cols, append([]byte(nil), data...))
			}
			dd.Blocks = append(dd.Blocks, bd)
		}
		dir.Close()
		days = append(days, dd)
	}
	return days, nil
}
