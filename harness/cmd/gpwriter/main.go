// gpwriter executes a JSON script of write-outs (and merges) on the main OS thread, emitting progress
// markers as faccessat("/verif-marker/<event>") calls, so that a syscall tracer (strace --inject) can
// kill it or fail a call at an exact position and the harness knows which steps had completed.
package main

import (
	"context"
	"encoding/json"
	"fmt"
	"io"
	"log/slog"
	"net/netip"
	"os"
	"runtime"
	"time"

	"github.com/els0r/goProbe/v4/pkg/capture/capturetypes"
	"github.com/els0r/goProbe/v4/pkg/goDB"
	"github.com/els0r/goProbe/v4/pkg/goDB/encoder/encoders"
	"github.com/els0r/goProbe/v4/pkg/types"
	"github.com/els0r/goProbe/v4/pkg/types/hashmap"
	"github.com/els0r/telemetry/logging"
	"golang.org/x/sys/unix"
)

type flow struct {
	Sip   string `json:"sip"`
	Dip   string `json:"dip"`
	Dport uint16 `json:"dport"`
	Proto uint8  `json:"proto"`
	BR    uint64 `json:"br"`
	BS    uint64 `json:"bs"`
	PR    uint64 `json:"pr"`
	PS    uint64 `json:"ps"`
}

type step struct {
	Op    string `json:"op"` // write | merge
	Iface string `json:"iface,omitempty"`
	Ts    int64  `json:"ts,omitempty"`
	Drops uint64 `json:"drops,omitempty"`
	Flows []flow `json:"flows,omitempty"`
	// merge
	Src       string   `json:"src,omitempty"`
	Ifaces    []string `json:"ifaces,omitempty"`
	Overwrite bool     `json:"overwrite,omitempty"`
	Tolerance int64    `json:"tolerance,omitempty"`
}

type script struct {
	DB      string `json:"db"`
	Encoder string `json:"encoder"`
	From    int    `json:"from"` // first step to execute (earlier ones are skipped)
	To      int    `json:"to"`   // exclusive end (0 = all steps)
	Steps   []step `json:"steps"`
}

func init() {
	// all file-system calls of the DB layer must be issued by the main thread
	runtime.LockOSThread()
}

func marker(ev string) {
	_ = unix.Faccessat(unix.AT_FDCWD, "/verif-marker/"+ev, unix.F_OK, 0)
}

func main() {
	runtime.GOMAXPROCS(1)
	_, _ = logging.Init(slog.LevelError+4, logging.EncodingLogfmt, logging.WithOutput(io.Discard))
	if len(os.Args) < 2 {
		fmt.Fprintln(os.Stderr, "usage: gpwriter <script.json>")
		os.Exit(2)
	}
	b, err := os.ReadFile(os.Args[1])
	if err != nil {
		fmt.Fprintln(os.Stderr, err)
		os.Exit(2)
	}
	var sc script
	if err := json.Unmarshal(b, &sc); err != nil {
		fmt.Fprintln(os.Stderr, err)
		os.Exit(2)
	}
	enc, err := encoders.GetTypeByString(sc.Encoder)
	if err != nil {
		fmt.Fprintln(os.Stderr, err)
		os.Exit(2)
	}
	results := make([]string, len(sc.Steps))
	marker("start")
	end := len(sc.Steps)
	if sc.To > 0 && sc.To < end {
		end = sc.To
	}
	for i := sc.From; i < end; i++ {
		st := sc.Steps[i]
		marker(fmt.Sprintf("begin-%d", i))
		var err error
		switch st.Op {
		case "write":
			m := hashmap.NewAggFlowMap()
			for _, f := range st.Flows {
				sip, dip := netip.MustParseAddr(f.Sip), netip.MustParseAddr(f.Dip)
				dport := []byte{byte(f.Dport >> 8), byte(f.Dport)}
				if sip.Is4() {
					s, d := sip.As4(), dip.As4()
					m.SetOrUpdate(types.NewV4Key(s[:], d[:], dport, f.Proto), true, f.BR, f.BS, f.PR, f.PS)
				} else {
					s, d := sip.As16(), dip.As16()
					m.SetOrUpdate(types.NewV6Key(s[:], d[:], dport, f.Proto), false, f.BR, f.BS, f.PR, f.PS)
				}
			}
			err = goDB.NewDBWriter(sc.DB, st.Iface, enc).Write(m, capturetypes.CaptureStats{Dropped: st.Drops}, st.Ts)
		case "merge":
			_, err = goDB.MergeDatabases(context.Background(), goDB.MergeOptions{SourcePath: st.Src, DestinationPath: sc.DB, Interfaces: st.Ifaces,
				Overwrite: st.Overwrite, CompleteTolerance: time.Duration(st.Tolerance) * time.Second})
		default:
			err = fmt.Errorf("unknown op %q", st.Op)
		}
		if err != nil {
			results[i] = err.Error()
			marker(fmt.Sprintf("done-%d-err", i))
		} else {
			results[i] = "ok"
			marker(fmt.Sprintf("done-%d-ok", i))
		}
	}
	marker("end")
	out, _ := json.Marshal(results)
	fmt.Println(string(out))
}
