// C31 — the query concurrency limit is never exceeded and never leaks.
//
// A limit L is configured the way the servers do it (a chan struct{} of capacity L
// handed to WithMaxConcurrent) on ONE shared runner. A rapid-drawn list of events
// (start a query, release a running query with a successful / failing read, cancel a
// running query, hand a slot over) is executed strictly sequentially by the harness.
//
// The harness *knows* that a query is executing without sleeping or polling:
//
//   - engine.QueryRunner: every query is aimed at its own interface whose first-read
//     column file (sip.gpf) of the only block is a named pipe and runs with LowMem:
//     the worker blocks in open/read of the FIFO while the query holds its slot; the
//     harness' os.OpenFile(fifo, O_WRONLY) returns exactly when the worker has opened
//     the FIFO for reading. Writing the saved original bytes lets the query succeed,
//     garbage / a short write / an immediate close make the block read fail.
//   - distributed.QueryRunner (global-query): a stub Querier signals that Query() was
//     entered and hands back a result channel owned by the harness.
//
// Oracle (evaluated after every event, when every started query is either known to be
// executing or has returned): #executing <= L; a query started while L queries are
// executing and none is released returns "too many requests" and never executes; a
// query started with a free slot executes; the number of slots in use of the
// harness-owned semaphore channel equals #executing; after all queries of the burst
// have returned, L fresh queries execute concurrently and one more is rejected.
//
// No timeout is used as a correctness signal: every wait is for an event that must
// happen (FIFO opened, Run returned); the overall deadline only produces INCONCLUSIVE.
package c31

import (
	"context"
	"encoding/json"
	"errors"
	"fmt"
	"io"
	"io/fs"
	"net/netip"
	"os"
	"path/filepath"
	"runtime"
	"strings"
	"sync"
	"sync/atomic"
	"syscall"
	"testing"
	"time"

	gqdist "github.com/els0r/goProbe/v4/cmd/global-query/pkg/distributed"
	"github.com/els0r/goProbe/v4/pkg/capture/capturetypes"
	"github.com/els0r/goProbe/v4/pkg/distributed/hosts"
	"github.com/els0r/goProbe/v4/pkg/goDB"
	"github.com/els0r/goProbe/v4/pkg/goDB/encoder/encoders"
	"github.com/els0r/goProbe/v4/pkg/goDB/engine"
	"github.com/els0r/goProbe/v4/pkg/goDB/storage/gpfile"
	"github.com/els0r/goProbe/v4/pkg/query"
	"github.com/els0r/goProbe/v4/pkg/results"
	"github.com/els0r/goProbe/v4/pkg/types"
	"github.com/els0r/goProbe/v4/pkg/types/hashmap"
	"github.com/els0r/telemetry/logging"
	"pgregory.net/rapid"

	"verifharness/internal/evid"
)

const (
	blockTS   = int64(1700006700)
	nFlows    = 64
	maxStarts = 8 // queries per burst (the final probe adds L+1 more)

	// semaphore timeout (= Args.KeepAlive) of a query the model expects to be rejected: it only
	// determines how long the harness waits for the rejection
	rejectKA = 30 * time.Millisecond
	// semaphore timeout of a query the model expects to be admitted: never elapses when a slot is
	// free; it is long so that a stalled scheduler cannot turn a free slot into a spurious rejection
	admitKA = 3 * time.Second
	// the same once a violation has been found in this process, i.e. while rapid minimises the witness (every
	// failing attempt otherwise costs the full 3 s and rapid's inner minimisation loops are not time-bounded)
	admitKAShrinking = 300 * time.Millisecond
	// bound on every single wait of the harness; exceeding it is INCONCLUSIVE, never a violation
	waitMax = 25 * time.Second
)

var (
	violationSeen atomic.Bool  // a violation was reported by an earlier case of this process
	gaveUp        atomic.Value // string: an earlier case ran into the wait bound; nothing after it is trustworthy
	passedCases   sync.Map     // canonical case -> struct{}: cases that passed in this process
	failedCases   sync.Map     // canonical case -> failure text: cases that violated the property in this process
)

func admitTimeout() time.Duration {
	if violationSeen.Load() {
		return admitKAShrinking
	}
	return admitKA
}

// C31_NO_SEMLEN=1 switches the len(sem) clause off (sensitivity experiments: behaviour only)
var noSemLen = os.Getenv("C31_NO_SEMLEN") != ""

func TestMain(m *testing.M) {
	evid.Rule("burst = limit L in 1..3 on one shared runner + a rapid-drawn list of 3..18 events over at most 8 queries, executed sequentially: " +
		"start (a query that blocks while executing: engine = LowMem query whose first column file is a FIFO, distributed = stub Querier with a harness-owned result channel), " +
		"start-error (a query that fails after admission: engine = unknown interface / unparsable DB directory, distributed = host selector 'any' with a Querier that cannot list hosts / resolver error), " +
		"start-precancelled (context already cancelled), release i (good bytes / garbage / short write / immediate close; distributed: rows / host error / closed channel), " +
		"cancel i then release it, distributed only: cancel i without any host reply, handoff (start j while all slots are taken and release i without waiting, semaphore timeout 1 ms / 30 ms / 300 ms), handoff-cancel (start j while all slots are taken, cancel j while it waits for a slot, then release i within j's timeout); " +
		"then all remaining queries are released and L+1 fresh queries probe the slots; " +
		"non-trivial = the burst contains >= 1 rejected, >= 1 failed (failed read or error return after admission) and >= 1 cancelled query; distinct by the JSON of (backend, L, events, drain mode)")
	evid.Assume("a query whose FIFO has been opened by a worker (engine) / whose Querier.Query call was entered (distributed) and which the harness has not released is executing; nothing else counts as executing",
		"the channel handed to WithMaxConcurrent is the semaphore itself (as in pkg/api/goprobe/server and pkg/api/globalquery/server), so len(sem) at a quiescent point is the number of slots in use (clause C31:sem-len; C31_NO_SEMLEN=1 disables it)",
		"queries the model expects to be admitted use keepalive (= semaphore timeout) 3 s, queries it expects to be rejected 30 ms: a rejection of a query below the limit is only reported after the runner itself waited 3 s for a slot (300 ms while rapid minimises an already found violation)",
		"engine: a cancelled query whose worker is blocked in a read keeps executing until the read returns (the worker cannot be interrupted), so cancel is always followed by releasing the FIFO before the next event; what the slot does between cancel and read return is not asserted",
		"a query that is started beyond the limit with an already cancelled context or that would fail after admission may be answered with 'too many requests' or with an error; it must not execute",
		"all engine queries of a burst have the same attributes (sip) and LowMem=true, so the QueryRunner's unsynchronised per-run fields (query, keepAlive) hold equal values whichever Run wrote them last",
		"verdicts are memoised per process for rapid's minimisation only: once a violation was found, a case that already passed is not run again and a case that already violated the property fails with its recorded text (rapid demands identical messages from re-runs; its inner minimisation loops are not time-bounded); a replay from a fail file evaluates the case afresh",
		"contents of results are not compared (C08/C11/C15); a released, uncancelled good query only has to return its rows, otherwise the run is INCONCLUSIVE (harness assumption broken)")
	_, _ = logging.Init(logging.LevelError, logging.EncodingLogfmt, logging.WithOutput(io.Discard), logging.WithErrorOutput(io.Discard))
	engine.VerifSetNumProcessingUnits(2)
	evid.Main(m)
}

// ---------------------------------------------------------------------------
// case description

type op struct {
	K   string `json:"k"`           // start | starterr | startpc | release | cancel | cancelonly | handoff | handoffcancel
	Sel int    `json:"s,omitempty"` // selects among the executing queries
	How string `json:"h,omitempty"` // good | garbage | short | eof
	Var int    `json:"v,omitempty"` // error kind / handoff timeout index
}

type caseSpec struct {
	Backend string `json:"backend"`
	L       int    `json:"L"`
	Ops     []op   `json:"ops"`
	Drain   string `json:"drain"` // how the queries still executing at the end of the event list are released
}

var hows = []string{"good", "good", "garbage", "short", "eof"}

func genCase(t *rapid.T, backend string) caseSpec {
	kinds := []string{"start", "start", "start", "start", "starterr", "startpc", "release", "release", "release", "cancel", "cancel", "handoff", "handoffcancel"}
	if backend == "distributed" {
		kinds = append(kinds, "cancelonly")
	}
	c := caseSpec{Backend: backend, L: rapid.IntRange(1, 3).Draw(t, "L")}
	n := rapid.IntRange(3, 18).Draw(t, "nops")
	for i := 0; i < n; i++ {
		o := op{K: rapid.SampledFrom(kinds).Draw(t, "op")}
		switch o.K {
		case "starterr":
			o.Var = rapid.IntRange(0, 1).Draw(t, "errkind")
		case "release", "cancel":
			o.Sel = rapid.IntRange(0, 2).Draw(t, "sel")
			o.How = rapid.SampledFrom(hows).Draw(t, "how")
		case "cancelonly":
			o.Sel = rapid.IntRange(0, 2).Draw(t, "sel")
		case "handoff":
			o.Sel = rapid.IntRange(0, 2).Draw(t, "sel")
			o.Var = rapid.IntRange(0, 2).Draw(t, "ka")
		case "handoffcancel":
			o.Sel = rapid.IntRange(0, 2).Draw(t, "sel")
			o.Var = rapid.IntRange(1, 2).Draw(t, "ka") // a timeout long enough for the slot to be freed while the query waits
		}
		c.Ops = append(c.Ops, o)
	}
	c.Drain = rapid.SampledFrom([]string{"good", "eof", "mixed"}).Draw(t, "drain")
	return c
}

// ---------------------------------------------------------------------------
// queries and backends

type runOut struct {
	res      *results.Result
	err      error
	panicked string
}

func (o runOut) rejected() bool {
	return o.err == nil && o.res != nil && o.res.Status.Code == types.StatusTooManyRequests
}

func (o runOut) String() string {
	switch {
	case o.panicked != "":
		return "panic: " + o.panicked
	case o.err != nil:
		return "error: " + o.err.Error()
	case o.res == nil:
		return "nil result, nil error"
	}
	s := fmt.Sprintf("status=%q rows=%d", o.res.Status.Code, len(o.res.Rows))
	if st := o.res.Summary.Stats; st != nil && st.BlocksCorrupted > 0 {
		s += fmt.Sprintf(" corrupted-blocks=%d", st.BlocksCorrupted)
	}
	return s
}

const (
	kBlocking = iota // executes until released
	kErrA            // fails after admission, kind A
	kErrB            // fails after admission, kind B
)

const (
	stNew = iota
	stExecuting
	stReturned
)

type qry struct {
	id        int
	name      string
	kind      int
	preCancel bool
	ka        time.Duration
	ctx       context.Context
	cancel    context.CancelFunc
	entered   chan struct{} // closed when the query is known to be executing
	done      chan runOut
	st        int
	launched  bool
	cancelled bool
	out       runOut
	priv      any
}

type backend interface {
	sem() chan struct{}
	prepare(q *qry) error // create what the query needs (interface directory + FIFO / stub entry)
	run(q *qry) (*results.Result, error)
	enterErr(q *qry) error // harness-side error while detecting "executing"
	release(q *qry, how string) error
	goodRows() int        // rows a successfully released query returns
	cleanup(q *qry) error // after Run returned (or was never called): free harness resources
	close()
}

// ---- engine backend

type tmplFile struct {
	rel  string
	data []byte
}

var tmpl struct {
	once  sync.Once
	dirs  []string
	files []tmplFile
	fifo  string // rel path of the column file that becomes the FIFO
	orig  []byte
	err   error
}

var firstColumn = types.ColumnFileNames[types.SIPColIdx] + gpfile.FileSuffix

// buildTemplate writes a one-block interface with DBWriter and keeps it in memory.
func buildTemplate() {
	dir, err := os.MkdirTemp(os.Getenv("VERIF_WORK"), "c31-tmpl-")
	if err != nil {
		tmpl.err = err
		return
	}
	defer os.RemoveAll(dir)
	m := hashmap.NewAggFlowMap()
	for i := 0; i < nFlows; i++ {
		// one source address for all flows: the sip column is compressible, so that it is stored LZ4-encoded and
		// garbage bytes make the block read fail (an incompressible column is stored as is and garbage would be data)
		k := types.NewV4Key([]byte{10, 0, 0, 1}, []byte{10, 0, 1, byte(i + 1)}, []byte{0, 80}, 6)
		m.SetOrUpdate(k, true, uint64(1000+i), uint64(500+i), uint64(10+i), uint64(5+i))
	}
	if err := goDB.NewDBWriter(dir, "tmpl", encoders.EncoderTypeLZ4).Write(m, capturetypes.CaptureStats{}, blockTS); err != nil {
		tmpl.err = err
		return
	}
	root := filepath.Join(dir, "tmpl")
	tmpl.err = filepath.WalkDir(root, func(p string, d fs.DirEntry, err error) error {
		if err != nil {
			return err
		}
		rel, _ := filepath.Rel(root, p)
		if d.IsDir() {
			if rel != "." {
				tmpl.dirs = append(tmpl.dirs, rel)
			}
			return nil
		}
		b, err := os.ReadFile(p)
		if err != nil {
			return err
		}
		if d.Name() == firstColumn {
			tmpl.fifo, tmpl.orig = rel, b
			return nil
		}
		tmpl.files = append(tmpl.files, tmplFile{rel, b})
		return nil
	})
	if tmpl.err == nil && (tmpl.fifo == "" || len(tmpl.orig) == 0 || len(tmpl.orig) > 4096) {
		tmpl.err = fmt.Errorf("template: column file %s not found or of unusable size %d", firstColumn, len(tmpl.orig))
	}
}

type engBE struct {
	db     string
	s      chan struct{}
	runner *engine.QueryRunner
}

type engPriv struct {
	fifo    string
	wr      *os.File
	openErr error
}

func newEngine(L int) (*engBE, error) {
	tmpl.once.Do(buildTemplate)
	if tmpl.err != nil {
		return nil, tmpl.err
	}
	db, err := os.MkdirTemp(os.Getenv("VERIF_WORK"), "c31-")
	if err != nil {
		return nil, err
	}
	// an interface whose directory cannot be walked (non-numeric year): the query fails after admission
	if err := os.MkdirAll(filepath.Join(db, "bad", "xxxx"), 0o755); err != nil {
		return nil, err
	}
	b := &engBE{db: db, s: make(chan struct{}, L)}
	b.runner = engine.NewQueryRunner(db, engine.WithMaxConcurrent(b.s))
	return b, nil
}

func (b *engBE) sem() chan struct{} { return b.s }
func (b *engBE) goodRows() int      { return 1 }
func (b *engBE) close()             { os.RemoveAll(b.db) }

func (b *engBE) prepare(q *qry) error {
	if q.kind != kBlocking {
		return nil
	}
	root := filepath.Join(b.db, q.name)
	if err := os.MkdirAll(root, 0o755); err != nil {
		return err
	}
	for _, d := range tmpl.dirs {
		if err := os.MkdirAll(filepath.Join(root, d), 0o755); err != nil {
			return err
		}
	}
	for _, f := range tmpl.files {
		if err := os.WriteFile(filepath.Join(root, f.rel), f.data, 0o644); err != nil {
			return err
		}
	}
	p := &engPriv{fifo: filepath.Join(root, tmpl.fifo)}
	if err := syscall.Mkfifo(p.fifo, 0o644); err != nil {
		return fmt.Errorf("mkfifo: %w", err)
	}
	q.priv = p
	go func() {
		// returns exactly when a reader (the query's worker) has opened the FIFO
		p.wr, p.openErr = os.OpenFile(p.fifo, os.O_WRONLY, 0)
		close(q.entered)
	}()
	return nil
}

func (b *engBE) run(q *qry) (*results.Result, error) {
	iface := q.name
	switch q.kind {
	case kErrA:
		iface = "nope" // not in the DB: "no interfaces provided"
	case kErrB:
		iface = "bad"
	}
	return b.runner.Run(q.ctx, &query.Args{
		Query:      "sip",
		Ifaces:     iface,
		Format:     types.FormatJSON,
		First:      fmt.Sprint(blockTS - 400),
		Last:       fmt.Sprint(blockTS + 400),
		MaxMemPct:  100,
		NumResults: 100000,
		SortBy:     "bytes",
		LowMem:     true,
		KeepAlive:  q.ka,
	})
}

func (b *engBE) enterErr(q *qry) error { return q.priv.(*engPriv).openErr }

func (b *engBE) release(q *qry, how string) error {
	p := q.priv.(*engPriv)
	if p.wr == nil {
		return errors.New("release of a FIFO that is not open")
	}
	var data []byte
	switch how {
	case "good":
		data = tmpl.orig
	case "garbage":
		data = make([]byte, len(tmpl.orig))
		for i, x := range tmpl.orig {
			data[i] = ^x
		}
	case "short":
		data = tmpl.orig[:len(tmpl.orig)/2]
	}
	var werr error
	if len(data) > 0 {
		_, werr = p.wr.Write(data)
	}
	cerr := p.wr.Close()
	p.wr = nil
	if werr != nil {
		return werr
	}
	return cerr
}

func (b *engBE) cleanup(q *qry) error {
	p, _ := q.priv.(*engPriv)
	if p == nil {
		return nil
	}
	select {
	case <-q.entered:
	default:
		// nobody ever opened the FIFO for reading: let the blocked open(O_WRONLY) of the harness return
		fd, err := syscall.Open(p.fifo, syscall.O_RDONLY|syscall.O_NONBLOCK, 0)
		if err != nil {
			return fmt.Errorf("unblocking the FIFO opener: %w", err)
		}
		defer syscall.Close(fd)
		select {
		case <-q.entered:
		case <-time.After(waitMax):
			return errors.New("FIFO opener did not return")
		}
	}
	if p.wr != nil {
		p.wr.Close()
		p.wr = nil
	}
	return nil
}

// ---- distributed backend

type distBE struct {
	s      chan struct{}
	runner *gqdist.QueryRunner
	mu     sync.Mutex
	qs     map[string]*qry
}

type distPriv struct {
	ch     chan *results.Result
	closed bool
}

type distResolver struct{}

func (distResolver) Resolve(_ context.Context, q string) (hosts.Hosts, error) {
	if strings.HasPrefix(q, "bad") {
		return nil, errors.New("resolver: unknown host group")
	}
	return hosts.Hosts{q}, nil
}

var closedKeepalive = func() chan struct{} { c := make(chan struct{}); close(c); return c }()

// Query implements distributed.Querier: entering it is the proof that the query passed the limit.
func (b *distBE) Query(_ context.Context, hl hosts.Hosts, _ *query.Args) (<-chan *results.Result, <-chan struct{}) {
	b.mu.Lock()
	var q *qry
	if len(hl) == 1 {
		q = b.qs[hl[0]]
	}
	b.mu.Unlock()
	if q == nil {
		c := make(chan *results.Result)
		close(c)
		return c, closedKeepalive
	}
	close(q.entered)
	return q.priv.(*distPriv).ch, closedKeepalive
}

func newDistributed(L int) *distBE {
	b := &distBE{s: make(chan struct{}, L), qs: map[string]*qry{}}
	rm := hosts.NewResolverMap()
	rm.Set("string", distResolver{})
	b.runner = gqdist.NewQueryRunner(rm, b, gqdist.WithMaxConcurrent(b.s))
	return b
}

func (b *distBE) sem() chan struct{} { return b.s }
func (b *distBE) goodRows() int      { return 1 }
func (b *distBE) close()             {}

func (b *distBE) prepare(q *qry) error {
	q.priv = &distPriv{ch: make(chan *results.Result, 1)}
	b.mu.Lock()
	b.qs[q.name] = q
	b.mu.Unlock()
	return nil
}

func (b *distBE) run(q *qry) (*results.Result, error) {
	a := &query.Args{
		Query:      "sip",
		Ifaces:     "eth0",
		QueryHosts: q.name,
		Format:     types.FormatJSON,
		First:      fmt.Sprint(blockTS - 400),
		Last:       fmt.Sprint(blockTS + 400),
		MaxMemPct:  60,
		NumResults: 1000,
		SortBy:     "bytes",
		KeepAlive:  q.ka,
	}
	switch q.kind {
	case kErrA:
		a.QueryHosts = types.AnySelector // the stub Querier cannot enumerate all hosts: refused after admission
	case kErrB:
		a.QueryHosts = "bad" + q.name // the resolver fails
	}
	return b.runner.Run(q.ctx, a)
}

func (b *distBE) enterErr(*qry) error { return nil }

func (b *distBE) release(q *qry, how string) error {
	p := q.priv.(*distPriv)
	if p.closed {
		return errors.New("release of a closed result channel")
	}
	switch how {
	case "good":
		r := results.New()
		r.Start()
		r.Hostname = q.name
		r.Status = results.Status{Code: types.StatusOK}
		r.HostsStatuses = results.HostsStatuses{q.name: r.Status}
		r.Rows = results.Rows{{
			Labels:     results.Labels{Hostname: q.name, HostID: "id-" + q.name, Iface: "eth0"},
			Attributes: results.Attributes{SrcIP: netip.MustParseAddr("10.0.0.1")},
			Counters:   types.Counters{BytesRcvd: 10, BytesSent: 20, PacketsRcvd: 1, PacketsSent: 2},
		}}
		r.Summary.Interfaces = results.Interfaces{"eth0"}
		r.Summary.Hits = results.Hits{Total: 1, Displayed: 1}
		r.Summary.DataAvailable = true
		r.Query = results.Query{Attributes: []string{"sip"}}
		p.ch <- r
	case "garbage":
		r := results.New()
		r.Hostname = q.name
		r.SetErr(errors.New("host unreachable"))
		p.ch <- r
	}
	close(p.ch)
	p.closed = true
	return nil
}

func (b *distBE) cleanup(q *qry) error {
	if p, _ := q.priv.(*distPriv); p != nil && !p.closed {
		close(p.ch)
		p.closed = true
	}
	return nil
}

// ---------------------------------------------------------------------------
// the sequential driver and the oracle

type verdict struct {
	sig          string // "" = inconclusive
	msg          string
	inconclusive bool
	hung         bool // a wait bound elapsed
}

func hung(format string, a ...any) *verdict {
	return &verdict{inconclusive: true, hung: true, msg: fmt.Sprintf(format, a...)}
}

func violation(sig, format string, a ...any) *verdict {
	return &verdict{sig: sig, msg: fmt.Sprintf(format, a...)}
}

func inconclusive(format string, a ...any) *verdict {
	return &verdict{inconclusive: true, msg: fmt.Sprintf(format, a...)}
}

type burst struct {
	be      backend
	L       int
	qs      []*qry
	exec    []*qry // queries known to be executing, in start order
	hist    []string
	classes []string
	starts  int

	nRejected, nFailed, nCancelled             int
	burstRejected, burstFailed, burstCancelled int // the same before the final probe
}

func (b *burst) logf(format string, a ...any) { b.hist = append(b.hist, fmt.Sprintf(format, a...)) }
func (b *burst) class(c string)               { b.classes = append(b.classes, c) }

func (b *burst) execNames() string {
	var s []string
	for _, q := range b.exec {
		n := q.name
		if q.cancelled {
			n += "(cancelled)"
		}
		s = append(s, n)
	}
	return "[" + strings.Join(s, " ") + "]"
}

func (b *burst) newQuery(prefix string, kind int, preCancel bool, ka time.Duration) (*qry, *verdict) {
	q := &qry{id: len(b.qs), kind: kind, preCancel: preCancel, ka: ka, entered: make(chan struct{}), done: make(chan runOut, 1)}
	q.name = fmt.Sprintf("%s%d", prefix, q.id)
	q.ctx, q.cancel = context.WithCancel(context.Background())
	if preCancel {
		q.cancel()
		q.cancelled = true
	}
	b.qs = append(b.qs, q)
	if err := b.be.prepare(q); err != nil {
		return nil, inconclusive("harness: preparing %s: %v", q.name, err)
	}
	return q, nil
}

func (b *burst) launch(q *qry) {
	q.launched = true
	go func() {
		var o runOut
		defer func() {
			if r := recover(); r != nil {
				o.panicked = fmt.Sprint(r)
			}
			q.done <- o
		}()
		o.res, o.err = b.be.run(q)
	}()
}

// await waits until q is known to be executing or has returned.
func (b *burst) await(q *qry) (entered bool, v *verdict) {
	tm := time.NewTimer(waitMax)
	defer tm.Stop()
	select {
	case <-q.entered:
		if err := b.be.enterErr(q); err != nil {
			return false, inconclusive("harness: opening the FIFO of %s: %v", q.name, err)
		}
		return true, nil
	case o := <-q.done:
		q.out, q.st = o, stReturned
		if o.panicked != "" {
			return false, inconclusive("%s panicked: %s", q.name, o.panicked)
		}
		return false, nil
	case <-tm.C:
		return false, hung("%s neither started executing nor returned within %v", q.name, waitMax)
	}
}

func (b *burst) awaitDone(q *qry) *verdict {
	tm := time.NewTimer(waitMax)
	defer tm.Stop()
	select {
	case o := <-q.done:
		q.out, q.st = o, stReturned
		if o.panicked != "" {
			return inconclusive("%s panicked: %s", q.name, o.panicked)
		}
		return nil
	case <-tm.C:
		return hung("%s did not return within %v after it was released / cancelled", q.name, waitMax)
	}
}

func (b *burst) removeExec(q *qry) {
	for i, x := range b.exec {
		if x == q {
			b.exec = append(b.exec[:i:i], b.exec[i+1:]...)
			return
		}
	}
}

// quiescent evaluates the clauses that hold whenever every started query is executing or has returned.
func (b *burst) quiescent(after string) *verdict {
	if len(b.exec) > b.L {
		return violation("C31:limit-exceeded", "after %s: %d queries execute at once %s, limit is %d", after, len(b.exec), b.execNames(), b.L)
	}
	if !noSemLen {
		if n := len(b.be.sem()); n != len(b.exec) {
			return violation("C31:sem-len", "after %s: %d slots of the semaphore are in use, but %d queries are executing %s and all others have returned (limit %d)",
				after, n, len(b.exec), b.execNames(), b.L)
		}
	}
	return nil
}

// start starts one query and checks the admission clause.
func (b *burst) start(prefix string, kind int, preCancel bool) *verdict {
	full := len(b.exec) >= b.L
	ka := admitTimeout()
	if full {
		ka = rejectKA
	}
	q, v := b.newQuery(prefix, kind, preCancel, ka)
	if v != nil {
		return v
	}
	desc := fmt.Sprintf("start %s%s%s with %d/%d slots taken %s", q.name, map[int]string{kBlocking: "", kErrA: " (error kind A)", kErrB: " (error kind B)"}[kind],
		map[bool]string{true: " (context already cancelled)"}[preCancel], len(b.exec), b.L, b.execNames())
	b.launch(q)
	entered, v := b.await(q)
	if v != nil {
		b.logf("%s -> ?", desc)
		return v
	}
	if entered {
		b.logf("%s -> executing", desc)
		if full {
			b.exec = append(b.exec, q)
			return violation("C31:limit-exceeded", "%s was started while %d queries were executing (limit %d) and none was released, yet it executes too: %s", q.name, b.L, b.L, b.execNames())
		}
		if kind != kBlocking {
			return inconclusive("harness: %s was expected to fail before executing", q.name)
		}
		q.st = stExecuting
		b.exec = append(b.exec, q)
		if preCancel {
			// never leave a cancelled query executing across events (see assumptions)
			b.nCancelled++
			b.class("q:precancelled-executed")
			return b.finish(q, "eof", "release (context was cancelled before the start)")
		}
		return nil
	}
	// returned without executing
	b.logf("%s -> returned: %s", desc, q.out)
	switch {
	case q.out.rejected():
		if !full {
			return violation("C31:rejected-below-limit", "%s was answered with 'too many requests' although only %d of %d slots were held by executing queries %s and every other query had returned (a slot leaked or a free slot was refused)",
				q.name, len(b.exec), b.L, b.execNames())
		}
		b.nRejected++
		b.class("q:rejected")
		if preCancel {
			b.nCancelled++
		}
	case full:
		// beyond the limit and not answered with the status
		if (preCancel || kind != kBlocking) && q.out.err != nil {
			b.class("q:beyond-limit-error")
			break
		}
		return violation("C31:reject-status", "%s was started while %d queries were executing (limit %d) and did not execute, but was not answered with status %q: %s",
			q.name, b.L, b.L, types.StatusTooManyRequests, q.out)
	case kind != kBlocking:
		if q.out.err == nil {
			return inconclusive("harness: %s was expected to fail after admission, got %s", q.name, q.out)
		}
		b.nFailed++
		b.class("q:error-after-admission")
		if preCancel {
			b.nCancelled++
		}
	case preCancel:
		b.nCancelled++
		b.class("q:precancelled-returned")
	default:
		return inconclusive("harness: %s had a free slot but returned without reading its FIFO / calling the querier: %s", q.name, q.out)
	}
	return nil
}

// finish releases an executing query, waits for its return and classifies it.
func (b *burst) finish(q *qry, how, what string) *verdict {
	if err := b.be.release(q, how); err != nil {
		return inconclusive("harness: releasing %s (%s): %v", q.name, how, err)
	}
	b.removeExec(q)
	if v := b.awaitDone(q); v != nil {
		b.logf("%s %s (%s) -> ?", what, q.name, how)
		return v
	}
	b.logf("%s %s (%s) -> returned: %s", what, q.name, how, q.out)
	if q.out.rejected() {
		return violation("C31:reject-status", "%s had been executing and was answered with 'too many requests' when it finished", q.name)
	}
	good := q.out.err == nil && q.out.res != nil && len(q.out.res.Rows) == b.be.goodRows()
	switch {
	case q.cancelled:
		b.class("q:cancelled-" + how)
	case how == "good":
		if !good {
			return inconclusive("harness: %s was released with the original data but returned %s (want %d rows)", q.name, q.out, b.be.goodRows())
		}
		b.class("q:ok")
	case good:
		b.class("q:accepted-" + how) // the damaged reply was not noticed: not counted as a failed query
	default:
		b.nFailed++
		b.class("q:failed-" + how)
	}
	return nil
}

func (b *burst) pick(sel int, uncancelledOnly bool) *qry {
	var c []*qry
	for _, q := range b.exec {
		if !uncancelledOnly || !q.cancelled {
			c = append(c, q)
		}
	}
	if len(c) == 0 {
		return nil
	}
	return c[sel%len(c)]
}

var handoffKA = []time.Duration{time.Millisecond, rejectKA, admitKAShrinking}

func (b *burst) apply(o op) *verdict {
	isStart := o.K == "start" || o.K == "starterr" || o.K == "startpc" || o.K == "handoff" || o.K == "handoffcancel"
	if isStart && b.starts >= maxStarts {
		b.class("op:skipped")
		return nil
	}
	switch o.K {
	case "start":
		b.starts++
		return b.start("q", kBlocking, false)
	case "starterr":
		b.starts++
		return b.start("q", kErrA+o.Var, false)
	case "startpc":
		b.starts++
		return b.start("q", kBlocking, true)
	case "release":
		q := b.pick(o.Sel, false)
		if q == nil {
			b.class("op:skipped")
			return nil
		}
		return b.finish(q, o.How, "release")
	case "cancel":
		q := b.pick(o.Sel, true)
		if q == nil {
			b.class("op:skipped")
			return nil
		}
		q.cancel()
		q.cancelled = true
		b.nCancelled++
		return b.finish(q, o.How, "cancel, then release")
	case "cancelonly":
		q := b.pick(o.Sel, true)
		if q == nil {
			b.class("op:skipped")
			return nil
		}
		q.cancel()
		q.cancelled = true
		b.nCancelled++
		b.removeExec(q)
		if v := b.awaitDone(q); v != nil {
			b.logf("cancel %s without any reply -> ?", q.name)
			return v
		}
		b.logf("cancel %s without any reply -> returned: %s", q.name, q.out)
		b.class("q:cancelled-noreply")
		return nil
	case "handoff", "handoffcancel":
		cancelWaiting := o.K == "handoffcancel"
		if len(b.exec) < b.L {
			b.starts++
			return b.start("q", kBlocking, false)
		}
		old := b.pick(o.Sel, false)
		b.starts++
		q, v := b.newQuery("q", kBlocking, false, handoffKA[o.Var])
		if v != nil {
			return v
		}
		desc := fmt.Sprintf("handoff: start %s (semaphore timeout %v) with %d/%d slots taken %s, release %s without waiting", q.name, q.ka, len(b.exec), b.L, b.execNames(), old.name)
		b.launch(q)
		if cancelWaiting {
			// the query is cancelled while it waits for a slot; the slot is freed afterwards, within its timeout
			desc = fmt.Sprintf("handoff: start %s (semaphore timeout %v) with %d/%d slots taken %s, cancel it while it waits, then release %s", q.name, q.ka, len(b.exec), b.L, b.execNames(), old.name)
			time.Sleep(2 * time.Millisecond)
			q.cancel()
			q.cancelled = true
			b.nCancelled++
			time.Sleep(time.Millisecond)
		}
		if err := b.be.release(old, "good"); err != nil {
			return inconclusive("harness: releasing %s: %v", old.name, err)
		}
		b.removeExec(old)
		if v := b.awaitDone(old); v != nil {
			b.logf("%s -> ?", desc)
			return v
		}
		entered, v := b.await(q)
		if v != nil {
			b.logf("%s -> %s returned: %s; %s ?", desc, old.name, old.out, q.name)
			return v
		}
		if entered {
			b.logf("%s -> %s returned: %s; %s executing", desc, old.name, old.out, q.name)
			q.st = stExecuting
			b.exec = append(b.exec, q)
			if cancelWaiting {
				// admitted with a cancelled context: it may end by itself (distributed) or only once its blocked
				// read is served (engine) — release it and wait for it, as the cancel event does
				b.class("handoffcancel:admitted")
				return b.finish(q, "good", "cancelled while waiting, admitted; release")
			}
			b.class("handoff:admitted")
			return nil
		}
		b.logf("%s -> %s returned: %s; %s returned: %s", desc, old.name, old.out, q.name, q.out)
		if cancelWaiting {
			// rejected, or admitted and ended by its cancelled context: either way it holds no slot any more (quiescent check)
			if q.out.rejected() {
				b.nRejected++
				b.class("handoffcancel:rejected")
			} else {
				b.class("handoffcancel:returned")
			}
			return nil
		}
		if !q.out.rejected() {
			return violation("C31:reject-status", "%s was started while %d queries were executing (limit %d), did not execute and was not answered with status %q: %s",
				q.name, b.L, b.L, types.StatusTooManyRequests, q.out)
		}
		b.nRejected++
		b.class("handoff:rejected")
		return nil
	}
	return inconclusive("harness: unknown op %q", o.K)
}

// teardown unblocks and collects everything, whatever state the burst is in.
func (b *burst) teardown() (errs []string) {
	for _, q := range b.qs {
		q.cancel()
	}
	for _, q := range append([]*qry(nil), b.exec...) {
		if err := b.be.release(q, "eof"); err != nil {
			errs = append(errs, err.Error())
		}
	}
	b.exec = nil
	for _, q := range b.qs {
		if q.launched && q.st != stReturned {
			select {
			case o := <-q.done:
				q.out, q.st = o, stReturned
			case <-q.entered:
				// executing but not in b.exec (e.g. the violating query): release and wait
				_ = b.be.release(q, "eof")
				select {
				case o := <-q.done:
					q.out, q.st = o, stReturned
				case <-time.After(waitMax):
					errs = append(errs, q.name+" did not return during teardown")
				}
			case <-time.After(waitMax):
				errs = append(errs, q.name+" neither executing nor returned during teardown")
			}
		}
		if err := b.be.cleanup(q); err != nil {
			errs = append(errs, err.Error())
		}
	}
	b.be.close()
	return errs
}

func runCase(c caseSpec) (b *burst, v *verdict) {
	var be backend
	switch c.Backend {
	case "engine":
		e, err := newEngine(c.L)
		if err != nil {
			return nil, inconclusive("harness: engine setup: %v", err)
		}
		be = e
	default:
		be = newDistributed(c.L)
	}
	b = &burst{be: be, L: c.L}
	defer func() {
		if errs := b.teardown(); len(errs) > 0 && v == nil {
			v = inconclusive("harness: teardown: %s", strings.Join(errs, "; "))
		}
	}()
	step := func(what string, vv *verdict) *verdict {
		if vv != nil {
			return vv
		}
		return b.quiescent(what)
	}
	if v = b.quiescent("setup"); v != nil {
		return
	}
	for i, o := range c.Ops {
		if v = step(fmt.Sprintf("event %d (%s)", i, o.K), b.apply(o)); v != nil {
			return
		}
	}
	// drain: every query of the burst returns
	for i := 0; len(b.exec) > 0; i++ {
		how := c.Drain
		if how == "mixed" {
			how = []string{"good", "garbage", "eof", "short"}[i%4]
		}
		if v = step("drain", b.finish(b.exec[0], how, "drain")); v != nil {
			return
		}
	}
	// probe: L fresh queries execute concurrently, one more is rejected (not counted for non-triviality)
	b.burstRejected, b.burstFailed, b.burstCancelled = b.nRejected, b.nFailed, b.nCancelled
	b.logf("-- all %d queries of the burst have returned; probing the %d slots", len(b.qs), c.L)
	for i := 0; i <= c.L; i++ {
		if v = step("probe", b.start("p", kBlocking, false)); v != nil {
			return
		}
	}
	b.class("probe:done")
	for len(b.exec) > 0 {
		if v = step("probe drain", b.finish(b.exec[0], "good", "probe drain")); v != nil {
			return
		}
	}
	return
}

func check(t *rapid.T, backend string) {
	c := genCase(t, backend)
	if m, _ := gaveUp.Load().(string); m != "" {
		t.Fatalf("INCONCLUSIVE[C31 %s: an earlier case did not make progress: %s]", backend, m)
	}
	canon, _ := json.Marshal(c)
	if _, ok := passedCases.Load(string(canon)); ok && violationSeen.Load() {
		// rapid is minimising a violation and proposes a case that already passed in this process (its inner
		// minimisation loops map hundreds of attempts onto the same few cases and are not time-bounded)
		return
	}
	// A violating case is evaluated once per process: rapid re-runs it (flakiness check, every accepted shrink
	// step, final output) and insists on an identical message, which a history with an "either" outcome
	// (handoff) could not guarantee. A replay from a fail file is a new process and evaluates it afresh.
	var failure string
	var b *burst
	if m, ok := failedCases.Load(string(canon)); ok {
		failure = m.(string)
	} else {
		t0 := time.Now()
		var v *verdict
		b, v = runCase(c)
		if os.Getenv("C31_DEBUG") != "" {
			fds, _ := os.ReadDir("/proc/self/fd")
			fmt.Fprintf(os.Stderr, "C31_DEBUG %v goroutines=%d fds=%d %s -> %+v\n", time.Since(t0).Round(time.Millisecond), runtime.NumGoroutine(), len(fds), canon, v)
		}
		if v != nil {
			hist := ""
			if b != nil {
				hist = "\nhistory:\n  " + strings.Join(b.hist, "\n  ")
			}
			if v.hung {
				gaveUp.Store(v.msg)
			}
			if v.inconclusive {
				t.Fatalf("INCONCLUSIVE[C31 %s: %s]\ncase: %s%s", backend, v.msg, canon, hist)
			}
			violationSeen.Store(true)
			failure = fmt.Sprintf("%s\ncase: %s%s", evid.Sig(v.sig, "%s (limit %d): %s", backend, c.L, v.msg), canon, hist)
			failedCases.Store(string(canon), failure)
		}
	}
	if failure != "" {
		t.Fatalf("%s", failure)
	}
	passedCases.Store(string(canon), struct{}{})
	nt := b.burstRejected > 0 && b.burstFailed > 0 && b.burstCancelled > 0
	classes := append(b.classes, "backend:"+backend, fmt.Sprintf("L=%d", c.L))
	if b.burstRejected > 0 {
		classes = append(classes, "burst:has-rejected")
	}
	if b.burstFailed > 0 {
		classes = append(classes, "burst:has-failed")
	}
	if b.burstCancelled > 0 {
		classes = append(classes, "burst:has-cancelled")
	}
	evid.Case(string(canon), nt, classes...)
	if evid.WantSample(nt) {
		evid.Sample(map[string]any{"case": c, "history": b.hist}, nt)
	}
}

func TestC31Engine(t *testing.T) {
	rapid.Check(t, func(t *rapid.T) { check(t, "engine") })
}

func TestC31Distributed(t *testing.T) {
	rapid.Check(t, func(t *rapid.T) { check(t, "distributed") })
}
