// C23 — the local packet buffer is a bounded FIFO that preserves every field.
//
// A rapid state machine drives capture.LocalBuffer (Add / Next / Reset) next to a
// plain slice queue. The buffer is set up the way capture.go does it: a
// LocalBufferPool with one element and a size limit, the slice obtained from the
// pool with Get(page size) and handed to Assign.
//
// The amount of buffer space in use is *observed* through the documented
// Usage() method (used = Usage · limit), not re-computed from the record layout,
// so that the refusal / boundedness clauses do not depend on how many bytes an
// element occupies.
package c23

import (
	"bytes"
	"fmt"
	"math"
	"os"
	"runtime"
	"strings"
	"testing"

	"github.com/els0r/goProbe/v4/pkg/capture"
	"github.com/els0r/goProbe/v4/pkg/capture/capturetypes"
	"pgregory.net/rapid"

	"verifharness/internal/evid"
)

const (
	findingGrow = "C23-F17" // Add grows once to a limit that is not a doubling step and then writes past it
	findingMSB  = "C23-F27" // an element's flag byte overwrites the most significant byte of the previous element's pktSize
)

func TestMain(m *testing.M) {
	evid.Rule("rapid state machine over one LocalBuffer (pool of 1, slice from pool.Get(page), Assign): actions add (IPv4 = 13-byte key + isIPv4=true, IPv6 = 37-byte key + isIPv4=false; " +
		"pktType/aux full byte range, errno -1..2, pktSize 0..2^32-1 with boundary values), burst (1..2500 adds derived from a drawn template, family pattern drawn), next, drain, reset; " +
		"size limit drawn from {<page, page, page+4, 5000, 2*page, 64 KiB, 64 MiB, doubling step + 1..48, doubling step + 64.., 3*page}; " +
		"reference = slice queue; non-trivial = the sequence made the buffer grow beyond the initial page or had an insert refused; distinct by the action trace")
	evid.Assume("keys have the length that belongs to the isIPv4 flag (C21/F16 covers the caller that passes isIPv4=true with a 37-byte key)",
		"one Assign per buffer: returning the slice to the pool and re-acquiring it (capLock.Release / Lock) needs the unexported data field and is not exercised",
		"space in use is read from Usage() (documented: fraction of the limit written to); a limit below the page size is ineffective by construction (effective limit = max(limit, page))",
		"errno restricted to the four values capturetypes defines (-1..2), which is all ParsePacketV4/V6 return")
	evid.Main(m)
}

type item struct {
	hash    []byte
	v4      bool
	pktType byte
	aux     byte
	errno   capturetypes.ParsingErrno
	size    uint32
	clobber int // -1: not followed by another write; 0/1: flag byte of the element written after it
}

func (it item) String() string {
	return fmt.Sprintf("{v4=%v key=%x type=%d aux=%d errno=%d size=%d}", it.v4, it.hash, it.pktType, it.aux, it.errno, it.size)
}

func (it item) flag() int {
	if it.v4 {
		return 0
	}
	return 1
}

var page = os.Getpagesize()

type limitClass struct {
	name string
	gen  func(t *rapid.T) int
	// offGridNear: the limit lies 1..48 bytes above a doubling step (page*2^k): the domain of C23-F17
	offGridNear bool
}

func step(t *rapid.T) int { return page << rapid.IntRange(0, 3).Draw(t, "k") }

var limitClasses = []limitClass{
	{"lt-page", func(t *rapid.T) int {
		return rapid.OneOf(rapid.SampledFrom([]int{1, 20, 44, page - 1}), rapid.IntRange(1, page-1)).Draw(t, "limit")
	}, false},
	{"page", func(t *rapid.T) int { return page }, false},
	{"2*page", func(t *rapid.T) int { return 2 * page }, false},
	{"64KiB", func(t *rapid.T) int { return 64 * 1024 }, false},
	{"large", func(t *rapid.T) int { return 64 * 1024 * 1024 }, false},
	{"doubling-step", func(t *rapid.T) int { return step(t) }, false},
	{"5000", func(t *rapid.T) int { return 5000 }, false},
	{"3*page", func(t *rapid.T) int { return 3 * page }, false},
	{"step+64..", func(t *rapid.T) int { s := step(t); return s + rapid.IntRange(64, s-1).Draw(t, "delta") }, false},
	{"page+4", func(t *rapid.T) int { return page + 4 }, true},
	{"step+1..48", func(t *rapid.T) int { return step(t) + rapid.IntRange(1, 48).Draw(t, "delta") }, true},
}

func classOf(limit int) string {
	switch {
	case limit < page:
		return "limit:<page"
	case limit == page:
		return "limit:page"
	case limit == page+4:
		return "limit:page+4"
	case limit == 5000:
		return "limit:5000"
	case limit == 2*page:
		return "limit:2*page"
	case limit == 64*1024:
		return "limit:64KiB"
	case limit >= 1<<26:
		return "limit:large"
	}
	s := page
	for 2*s <= limit {
		s *= 2
	}
	switch d := limit - s; {
	case d == 0:
		return "limit:doubling-step"
	case d <= 48:
		return "limit:step+1..48"
	default:
		return "limit:off-grid"
	}
}

// growShortfall reports whether the limit lies 1..48 bytes above a doubling step, i.e. whether the
// last growth (to the limit) can be smaller than one element: the domain of C23-F17.
func growShortfall(limit int) bool {
	if limit <= page {
		return false
	}
	s := page
	for 2*s < limit {
		s *= 2
	}
	return limit-s >= 1 && limit-s <= 48
}

func reachableByDoubling(limit int) bool {
	if limit <= page {
		return true
	}
	s := page
	for s < limit {
		s *= 2
	}
	return s == limit
}

var sizeGen = rapid.OneOf(
	rapid.SampledFrom([]uint32{0, 1, 60, 1500, 65535, 65536, 1<<24 - 1, 1 << 24, 1<<24 + 1, 1 << 25, 1<<31 - 1, 1 << 31, math.MaxUint32 - 1, math.MaxUint32}),
	rapid.Uint32(), rapid.Uint32Range(0, 70000))

func genItem(t *rapid.T, v4 bool) item {
	n := capturetypes.EPHashSizeV6
	if v4 {
		n = capturetypes.EPHashSizeV4
	}
	return item{
		hash:    rapid.SliceOfN(rapid.Byte(), n, n).Draw(t, "key"),
		v4:      v4,
		pktType: rapid.Byte().Draw(t, "pktType"),
		aux:     rapid.Byte().Draw(t, "aux"),
		errno:   capturetypes.ParsingErrno(rapid.IntRange(-1, 2).Draw(t, "errno")),
		size:    sizeGen.Draw(t, "pktSize"),
		clobber: -1,
	}
}

// derive produces the i-th element of a burst from a template (a deterministic
// function of drawn values only).
func derive(tmpl4, tmpl6 item, pattern uint64, stride byte, sizeStride uint32, i int) item {
	src := tmpl6
	if pattern>>(uint(i)%64)&1 == 0 {
		src = tmpl4
	}
	it := src
	it.hash = make([]byte, len(src.hash))
	for j := range it.hash {
		it.hash[j] = src.hash[j] + byte(i)*stride + byte(j*i)
	}
	it.pktType = src.pktType + byte(i)
	it.aux = src.aux + byte(3*i)
	it.errno = capturetypes.ParsingErrno((int(src.errno)+1+i)%4 - 1)
	it.size = src.size + uint32(i)*sizeStride
	it.clobber = -1
	return it
}

type machine struct {
	t       *rapid.T
	excl    bool // excluding mode: open findings are avoided by construction / masked
	limit   int
	effLim  int // max(limit, page)
	pool    *capture.LocalBufferPool
	buf     *capture.LocalBuffer
	all     []item // every element accepted since the last Reset
	head    int    // index into all of the next element Next must return
	ovh     int    // observed per-element overhead (footprint - key length), -1 = none observed yet
	maxUsed int
	trace   strings.Builder

	nAdd, nRefused, nNext, nEmptyNext, nReset, nGrowPanic, nGrowOverrun, nMSB int
	sawV4, sawV6, sawBigSize                                                  bool
}

func (m *machine) used() int {
	return int(math.Round(m.buf.Usage() * float64(m.limit)))
}

// tryAdd calls Add and converts a panic into a value.
func (m *machine) tryAdd(it item) (ok bool, pan any, stack string) {
	defer func() {
		if r := recover(); r != nil {
			pan = r
			b := make([]byte, 4096)
			stack = string(b[:runtime.Stack(b, false)])
			// keep the frames between the panic and the harness
			if i := strings.Index(stack, "LocalBuffer).Add"); i >= 0 {
				stack = stack[strings.LastIndex(stack[:i], "\n")+1:]
			}
			if i := strings.Index(stack, "verifharness/"); i >= 0 {
				stack = stack[:i]
			}
		}
	}()
	ok = m.buf.Add(append([]byte(nil), it.hash...), it.pktType, it.size, it.v4, it.aux, it.errno)
	return
}

func (m *machine) add(it item) {
	t := m.t
	before := m.used()
	ok, pan, stack := m.tryAdd(it)
	after := m.used()
	if it.v4 {
		m.sawV4 = true
	} else {
		m.sawV6 = true
	}
	if pan != nil {
		// Attribute: the limit is not a doubling step, the buffer could not take the element below the limit
		// (so Add grew it to the limit), and the failure is an out-of-range write in Add.
		ovh := m.ovh
		if ovh < 0 {
			ovh = 7
		}
		_, isRT := pan.(runtime.Error)
		msg := fmt.Sprint(pan)
		if isRT && strings.Contains(msg, "out of range") && strings.Contains(stack, "LocalBuffer).Add") &&
			!reachableByDoubling(m.limit) && growShortfall(m.limit) && before+len(it.hash)+ovh >= m.limit && after == before {
			wit := fmt.Sprintf("limit %d (page %d), %d bytes in use, Add of a %d-byte key: %v", m.limit, page, before, len(it.hash), pan)
			if evid.Known(findingGrow, wit) {
				m.nGrowPanic++
				// the element was not stored (write position unchanged) but its flag byte was written
				if n := len(m.all); n > 0 {
					m.all[n-1].clobber = it.flag()
				}
				return
			}
			t.Fatalf("%s", evid.Sig("C23:panic-grow-to-limit", "%s\n%s", wit, stack))
		}
		t.Fatalf("%s", evid.Sig("C23:no-panic", "Add panicked: %v (limit %d, %d bytes in use, key length %d)\n%s", pan, m.limit, before, len(it.hash), stack))
	}
	if !ok {
		m.nRefused++
		if after != before {
			t.Fatalf("%s", evid.Sig("C23:refused-unchanged", "refused Add changed the space in use from %d to %d (limit %d)", before, after, m.limit))
		}
		// refused only when the buffer has reached its limit: the element does not fit below max(limit, page)
		if m.ovh < 0 {
			t.Fatalf("%s", evid.Sig("C23:refused-only-at-limit", "Add refused on a buffer that never accepted anything (limit %d, effective %d, in use %d)", m.limit, m.effLim, before))
		}
		if need := len(it.hash) + m.ovh; before+need < m.effLim {
			t.Fatalf("%s", evid.Sig("C23:refused-only-at-limit", "Add of a %d-byte element refused with %d of %d bytes in use (limit %d, page %d)", need, before, m.effLim, m.limit, page))
		}
		return
	}
	m.nAdd++
	foot := after - before
	if foot < len(it.hash) {
		t.Fatalf("%s", evid.Sig("C23:usage", "accepted Add of a %d-byte key moved the space in use from %d to %d", len(it.hash), before, after))
	}
	m.ovh = foot - len(it.hash)
	if after > m.effLim {
		// second face of C23-F17: the grow to an off-grid limit was too small, the bounds-checked writes still fit
		// but the unchecked 4-byte pktSize store and the write position run up to 3 bytes past the limit
		wit := fmt.Sprintf("limit %d (page %d), %d bytes in use, Add of a %d-byte key accepted: %d bytes in use afterwards", m.limit, page, before, len(it.hash), after)
		if !reachableByDoubling(m.limit) && growShortfall(m.limit) && before+foot >= m.limit && after-m.effLim <= 3 {
			if !evid.Known(findingGrow, wit) {
				t.Fatalf("%s", evid.Sig("C23:overrun-grow-to-limit", "%s", wit))
			}
			m.nGrowOverrun++
		} else {
			t.Fatalf("%s", evid.Sig("C23:bounded", "%s", wit))
		}
	}
	if after > m.maxUsed {
		m.maxUsed = after
	}
	if it.size >= 1<<24 {
		m.sawBigSize = true
	}
	if n := len(m.all); n > 0 {
		m.all[n-1].clobber = it.flag()
	}
	m.all = append(m.all, it)
}

func (m *machine) next() (got bool) {
	t := m.t
	var (
		h       []byte
		pktType byte
		size    uint32
		v4, ok  bool
		aux     byte
		errno   capturetypes.ParsingErrno
	)
	if pan := func() (pan any) {
		defer func() { pan = recover() }()
		h, pktType, size, v4, aux, errno, ok = m.buf.Next()
		return nil
	}(); pan != nil {
		t.Fatalf("%s", evid.Sig("C23:no-panic", "Next panicked: %v (limit %d, %d elements pending, %d accepted since reset)", pan, m.limit, len(m.all)-m.head, len(m.all)))
	}
	if m.head >= len(m.all) {
		m.nEmptyNext++
		if ok {
			t.Fatalf("%s", evid.Sig("C23:nothing-invented", "Next on a drained buffer returned an element: key=%x type=%d size=%d v4=%v aux=%d errno=%d", h, pktType, size, v4, aux, errno))
		}
		return false
	}
	want := m.all[m.head]
	if !ok {
		t.Fatalf("%s", evid.Sig("C23:nothing-dropped", "Next returned nothing, %d elements pending, first %v", len(m.all)-m.head, want))
	}
	m.nNext++
	g := item{hash: append([]byte(nil), h...), v4: v4, pktType: pktType, aux: aux, errno: errno, size: size}
	if !bytes.Equal(g.hash, want.hash) || g.v4 != want.v4 || g.pktType != want.pktType || g.aux != want.aux || g.errno != want.errno {
		t.Fatalf("%s", evid.Sig("C23:fifo-fields", "element %d since reset: got %v, want %v", m.head, g, want))
	}
	if g.size != want.size {
		clobbered := want.clobber >= 0 && g.size == want.size&0x00ffffff|uint32(want.clobber)<<24
		switch {
		case clobbered && m.excl:
			evid.Excluded(findingMSB)
		case clobbered:
			wit := fmt.Sprintf("Add(size=%d, any family) followed by Add(isIPv4=%v): Next returns size %d", want.size, want.clobber == 0, g.size)
			if !evid.Known(findingMSB, wit) {
				t.Fatalf("%s", evid.Sig("C23:pktsize-msb-clobbered", "%s (element %d since reset, limit %d)", wit, m.head, m.limit))
			}
			m.nMSB++
		default:
			t.Fatalf("%s", evid.Sig("C23:fifo-fields", "element %d since reset: got %v, want %v", m.head, g, want))
		}
	}
	m.head++
	return true
}

func run(t *rapid.T, excl bool) {
	m := &machine{t: t, excl: excl, ovh: -1}
	classes := limitClasses
	ci := rapid.IntRange(0, len(classes)-1).Draw(t, "limitClass")
	if excl && classes[ci].offGridNear {
		// excluded by construction: limits 1..48 bytes above a doubling step trigger C23-F17
		evid.Excluded(findingGrow)
		ci = rapid.IntRange(0, len(classes)-1).Filter(func(i int) bool { return !classes[i].offGridNear }).Draw(t, "limitClassSafe")
	}
	m.limit = classes[ci].gen(t)
	m.effLim = max(m.limit, page)
	m.pool = capture.NewLocalBufferPool(1, m.limit)
	m.buf = capture.NewLocalBuffer(m.pool)
	m.buf.Assign(m.pool.Get(page))
	fmt.Fprintf(&m.trace, "L%d", m.limit)
	if u := m.used(); u != 0 {
		t.Fatalf("%s", evid.Sig("C23:usage", "fresh buffer reports %d bytes in use", u))
	}

	actions := map[string]func(*rapid.T){
		"add4": func(t *rapid.T) {
			it := genItem(t, true)
			fmt.Fprintf(&m.trace, ";a%x/%d/%d/%d/%d", it.hash, it.pktType, it.aux, it.errno, it.size)
			m.add(it)
		},
		"add6": func(t *rapid.T) {
			it := genItem(t, false)
			fmt.Fprintf(&m.trace, ";A%x/%d/%d/%d/%d", it.hash, it.pktType, it.aux, it.errno, it.size)
			m.add(it)
		},
		"burst": func(t *rapid.T) {
			t4, t6 := genItem(t, true), genItem(t, false)
			pattern := rapid.OneOf(rapid.SampledFrom([]uint64{0, math.MaxUint64, 0xaaaaaaaaaaaaaaaa}), rapid.Uint64()).Draw(t, "familyPattern")
			stride := rapid.Byte().Draw(t, "stride")
			sizeStride := rapid.SampledFrom([]uint32{0, 1, 1 << 16, 1<<24 - 1, 0x01010101}).Draw(t, "sizeStride")
			n := rapid.OneOf(rapid.IntRange(1, 300), rapid.IntRange(1, 2500)).Draw(t, "n")
			fmt.Fprintf(&m.trace, ";b%d/%x/%x/%x/%d/%d/%d/%d", n, t4.hash, t6.hash, pattern, stride, sizeStride, t4.size, t6.size)
			for i := 0; i < n; i++ {
				m.add(derive(t4, t6, pattern, stride, sizeStride, i))
			}
		},
		"next": func(t *rapid.T) {
			n := rapid.IntRange(1, 5).Draw(t, "n")
			fmt.Fprintf(&m.trace, ";n%d", n)
			for i := 0; i < n; i++ {
				m.next()
			}
		},
		"drain": func(t *rapid.T) {
			// what bufferPackets does: read until Next reports the end, optionally followed by Reset
			m.trace.WriteString(";d")
			for m.next() {
			}
			if rapid.IntRange(0, 2).Draw(t, "thenReset") == 0 {
				m.trace.WriteString("r")
				m.reset()
			}
		},
		"reset": func(t *rapid.T) {
			if rapid.IntRange(0, 3).Draw(t, "really") != 0 {
				t.Skip("reset not taken")
			}
			m.trace.WriteString(";r")
			m.reset()
		},
	}
	t.Repeat(actions)

	// final drain: everything still pending must come out, then the end
	for m.next() {
	}

	refused, grew := m.nRefused > 0, m.maxUsed >= page
	nt := refused || grew || m.nGrowPanic+m.nGrowOverrun > 0
	cl := []string{classOf(m.limit)}
	if grew {
		cl = append(cl, "grew")
	}
	if refused {
		cl = append(cl, "refused", "limit-hit/"+classOf(m.limit))
	}
	if m.nGrowOverrun > 0 {
		cl = append(cl, "known:grow-overrun")
	}
	if m.nGrowPanic > 0 {
		cl = append(cl, "known:grow-panic")
	}
	if m.nMSB > 0 {
		cl = append(cl, "known:pktsize-msb")
	}
	if m.sawV4 && m.sawV6 {
		cl = append(cl, "mixed-families")
	}
	if m.sawBigSize {
		cl = append(cl, "pktSize>=2^24")
	}
	if m.nReset > 0 {
		cl = append(cl, "with-reset")
	}
	if m.nAdd == 0 {
		cl = append(cl, "no-accepted-add")
	}
	evid.Case(m.trace.String(), nt, cl...)
	evid.ClassN("ops:add-accepted", int64(m.nAdd))
	evid.ClassN("ops:add-refused", int64(m.nRefused))
	evid.ClassN("ops:next", int64(m.nNext))
	evid.ClassN("ops:next-empty", int64(m.nEmptyNext))
	evid.ClassN("ops:reset", int64(m.nReset))
	if evid.WantSample(nt) {
		tr := m.trace.String()
		if len(tr) > 400 {
			tr = tr[:400] + "…"
		}
		evid.Sample(map[string]any{"limit": m.limit, "page": page, "accepted": m.nAdd, "refused": m.nRefused, "read": m.nNext, "resets": m.nReset, "max_used": m.maxUsed, "trace": tr}, nt)
	}
}

func (m *machine) reset() {
	m.buf.Reset()
	m.nReset++
	m.all, m.head = m.all[:0], 0
	if u := m.used(); u != 0 {
		m.t.Fatalf("%s", evid.Sig("C23:usage", "buffer reports %d bytes in use after Reset", u))
	}
}

// TestC23Fifo searches the whole domain. Mismatches that are attributed to an open
// known finding are counted and the search goes on; without the listing they fail.
func TestC23Fifo(t *testing.T) {
	rapid.Check(t, func(t *rapid.T) { run(t, false) })
}

// TestC23FifoExcluding searches everything the open findings do not touch: limits
// 1..48 bytes above a doubling step are not drawn (C23-F17) and the most significant
// byte of pktSize is not compared for elements that were followed by another insert
// when it holds exactly the follower's flag byte (C23-F27).
func TestC23FifoExcluding(t *testing.T) {
	rapid.Check(t, func(t *rapid.T) { run(t, true) })
}
