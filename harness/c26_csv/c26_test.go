// C26 — CSV import stores exactly the rows it reports as imported: every
// accepted row ends up under its interface and timestamp, counters of rows that
// share a key are summed, rows read = rows imported + rows skipped, and input
// that goes backwards in time is rejected.
package c26

import (
	"context"
	"fmt"
	"io"
	"math/big"
	"net/netip"
	"os"
	"path/filepath"
	"regexp"
	"sort"
	"strconv"
	"strings"
	"testing"
	"time"

	"github.com/els0r/goProbe/v4/cmd/gpdb/pkg/csvimport"
	"github.com/els0r/goProbe/v4/pkg/goDB/encoder/encoders"
	"github.com/els0r/goProbe/v4/pkg/goDB/engine"
	"github.com/els0r/goProbe/v4/pkg/goDB/storage/gpfile"
	"github.com/els0r/goProbe/v4/pkg/query"
	"github.com/els0r/goProbe/v4/pkg/types"
	"github.com/els0r/telemetry/logging"
	"github.com/fako1024/gotools/bitpack"
	"pgregory.net/rapid"

	"verifharness/internal/evid"
	"verifharness/internal/model"
)

const findingDup = "C26-F22" // duplicate keys within one (interface, timestamp) overwrite instead of adding

func TestMain(m *testing.M) {
	time.Local = time.UTC // day directories are UTC days; keep the year/month lookup of the engine out of this check (C08/C12)
	_, _ = logging.Init(logging.LevelError, logging.EncodingLogfmt, logging.WithOutput(io.Discard), logging.WithErrorOutput(io.Discard))
	evid.Rule("CSV files built from a rapid-drawn schema (header row or --schema, with the header optionally left in the file; permuted columns; with/without iface, sip, dip, dport, proto and the four counter columns; unknown and unnamed columns) " +
		"and 0–40 data rows over 1–5 timestamps (mostly multiples of 300 s from 1700006400, some unaligned, spread over up to five days) drawn from small alphabets (3 interfaces, 2+2 IPv4 and 2+2 IPv6 addresses, 4 ports, protocol numbers and names in several spellings), " +
		"with constructed duplicates of an earlier row's key in the same timestamp, malformed rows (bad address/port/protocol/counter/timestamp, timestamp ≤ 0, mixed families, empty or path-like interface, too few fields), over-long rows, quoted fields, LF/CRLF, " +
		"one optional time regression, --max-rows, and schemas that lack `time` or any interface; each file is imported into an empty destination which is then read back block by block and through the query engine; " +
		"two generator modes: 'dup' (duplicates allowed) and 'nodup' (a colliding row gets a unique port; excluded draws are counted); " +
		"non-trivial = the imported part of the file has ≥ 1 key occurring twice within one interface and timestamp and ≥ 1 skipped row; distinct by file text and options")
	evid.Assume("row acceptance follows the documentation: a row is accepted iff every known schema column (time, iface, sip, dip, dport, proto, 'packets received', 'packets sent', 'data vol. received', 'data vol. sent') is present in the row and parses "+
		"(time: decimal integer > 0; addresses: textual IPv4/IPv6, both of one family; dport 0–65535; proto 0–255 or a protocol name; counters: unsigned 64-bit decimals), the interface (column value, else --iface) is a valid interface name; unknown columns are ignored; missing key columns are zero, missing counters are zero",
		"ordering is global over the file (README: 'Input rows must be ordered by non-decreasing time') and judged over accepted rows; generated malformed rows never carry a later timestamp than the following rows, and the regressing row is valid and preceded by an accepted row, so no reading of the rule disagrees",
		"--max-rows N limits the number of CSV data rows that are read (help: 'maximum number of CSV data rows to import'); rows after the limit are not looked at",
		"after a rejected (time-regressing) import only 'nothing invented' is demanded of the destination: what is stored must be complete groups of rows accepted before the regression",
		"interface names are restricted to what types.ValidateIfaceName accepts (others cannot be queried); IPv4-mapped IPv6 addresses, zones, signs, leading zeros and padded fields are outside the documented format and not generated; "+
			"IPv6 addresses whose bytes 4–15 are zero are not generated (their rendering by the engine is C08's subject); counters stay below 2^56 so that sums cannot overflow",
		"the block layout (column files, IPv4 entries before IPv6 entries, bit-packed counters) is read as documented in pkg/goDB/database_format.md; encoding/csv is not used by the oracle: it works on the generated field lists")
	evid.Main(m)
}

// ---------------------------------------------------------------------------
// case description

const (
	colTime  = "time"
	colIface = "iface"
	colSip   = "sip"
	colDip   = "dip"
	colDport = "dport"
	colProto = "proto"
	colPR    = "packets received"
	colPS    = "packets sent"
	colBR    = "data vol. received"
	colBS    = "data vol. sent"
)

var counterCols = []string{colPR, colPS, colBR, colBS}

type drow struct {
	Fields []string `json:"f"`
	Quoted []bool   `json:"-"`
	Kind   string   `json:"k"`
}

type tcase struct {
	Cols       []string      `json:"cols"`
	SchemaOpt  bool          `json:"schema_opt"`
	HeaderLeft bool          `json:"header_left_in_file"`
	IfaceOpt   string        `json:"iface_opt"`
	MaxRows    int           `json:"max_rows"`
	Enc        encoders.Type `json:"enc"`
	CRLF       bool          `json:"crlf"`
	FinalNL    bool          `json:"final_nl"`
	Rows       []drow        `json:"rows"` // data rows as the importer sees them (includes a left-over header when SchemaOpt)
	Mode       string        `json:"mode"`
}

func csvField(s string, quote bool) string {
	if quote || strings.ContainsAny(s, ",\"\r\n") {
		return `"` + strings.ReplaceAll(s, `"`, `""`) + `"`
	}
	return s
}

func (c *tcase) text() string {
	nl := "\n"
	if c.CRLF {
		nl = "\r\n"
	}
	var lines []string
	if !c.SchemaOpt {
		lines = append(lines, strings.Join(c.Cols, ","))
	}
	for _, r := range c.Rows {
		fs := make([]string, len(r.Fields))
		for i, f := range r.Fields {
			fs[i] = csvField(f, i < len(r.Quoted) && r.Quoted[i])
		}
		if len(fs) == 1 && fs[0] == "" {
			fs[0] = `""` // a single empty field must be quoted, otherwise the line is blank and not a record
		}
		lines = append(lines, strings.Join(fs, ","))
	}
	s := strings.Join(lines, nl)
	if c.FinalNL && len(lines) > 0 {
		s += nl
	}
	return s
}

func (c *tcase) colIndex(name string) int {
	for i, n := range c.Cols {
		if n == name {
			return i
		}
	}
	return -1
}

// ---------------------------------------------------------------------------
// the independent row parser (oracle)

type gkey struct {
	Iface    string
	Ts       int64
	Sip, Dip netip.Addr
	Dport    uint16
	Proto    uint8
}

func (k gkey) String() string {
	return fmt.Sprintf("%s@%d %s>%s:%d/%d", k.Iface, k.Ts, k.Sip, k.Dip, k.Dport, k.Proto)
}

type agg struct {
	sum, last types.Counters
	n         int
}

var (
	reUint      = regexp.MustCompile(`^[0-9]+$`)
	reInt       = regexp.MustCompile(`^-?[0-9]+$`)
	reIfaceName = regexp.MustCompile(`^[a-zA-Z0-9.:_-]{1,15}$`)
	maxU64      = new(big.Int).SetUint64(^uint64(0))
)

func parseU64(s string) (uint64, bool) {
	if !reUint.MatchString(s) {
		return 0, false
	}
	b, ok := new(big.Int).SetString(s, 10)
	if !ok || b.Cmp(maxU64) > 0 {
		return 0, false
	}
	return b.Uint64(), true
}

func parseAddr(s string) (netip.Addr, bool) {
	a, err := netip.ParseAddr(s)
	if err != nil || a.Zone() != "" || a.Is4In6() {
		return netip.Addr{}, false
	}
	return a, true
}

// oracleRow decides acceptance of one data row and returns its key and counters.
func oracleRow(cols []string, ifaceOpt string, fields []string) (k gkey, c types.Counters, reason string) {
	idx := map[string]int{}
	for i, n := range cols {
		idx[n] = i
	}
	get := func(name string) (string, bool, bool) { // value, column exists, field present
		i, ok := idx[name]
		if !ok {
			return "", false, false
		}
		if i >= len(fields) {
			return "", true, false
		}
		return fields[i], true, true
	}
	for _, name := range append([]string{colTime, colIface, colSip, colDip, colDport, colProto}, counterCols...) {
		if _, exists, present := get(name); exists && !present {
			return k, c, "too-few-fields"
		}
	}
	k.Iface = ifaceOpt
	if v, exists, _ := get(colIface); exists {
		k.Iface = v
	}
	if !reIfaceName.MatchString(k.Iface) || k.Iface == "." || k.Iface == ".." { // "." and ".." are directory entries, never interfaces
		return k, c, "bad-iface"
	}
	tsText, _, _ := get(colTime)
	if !reInt.MatchString(tsText) {
		return k, c, "bad-time"
	}
	ts, err := strconv.ParseInt(tsText, 10, 64)
	if err != nil || ts <= 0 {
		return k, c, "bad-time"
	}
	k.Ts = ts
	fam := 0
	var sip, dip netip.Addr
	if v, exists, _ := get(colSip); exists {
		a, ok := parseAddr(v)
		if !ok {
			return k, c, "bad-sip"
		}
		sip = a
		fam = 4
		if a.Is6() {
			fam = 6
		}
	}
	if v, exists, _ := get(colDip); exists {
		a, ok := parseAddr(v)
		if !ok {
			return k, c, "bad-dip"
		}
		dip = a
		f2 := 4
		if a.Is6() {
			f2 = 6
		}
		if fam != 0 && fam != f2 {
			return k, c, "mixed-families"
		}
		fam = f2
	}
	if fam == 0 {
		fam = 4 // no address column: the flow has no addresses; stored among the IPv4 flows with zero addresses
	}
	zero := netip.AddrFrom4([4]byte{})
	if fam == 6 {
		zero = netip.IPv6Unspecified()
	}
	if !sip.IsValid() {
		sip = zero
	}
	if !dip.IsValid() {
		dip = zero
	}
	k.Sip, k.Dip = sip, dip
	if v, exists, _ := get(colDport); exists {
		n, ok := parseU64(v)
		if !ok || n > 65535 {
			return k, c, "bad-dport"
		}
		k.Dport = uint16(n)
	}
	if v, exists, _ := get(colProto); exists {
		if n, ok := parseU64(v); ok {
			if n > 255 {
				return k, c, "bad-proto"
			}
			k.Proto = uint8(n)
		} else if p, ok := model.ProtoNames[strings.ToLower(v)]; ok {
			k.Proto = p
		} else {
			return k, c, "bad-proto"
		}
	}
	for _, name := range counterCols {
		v, exists, _ := get(name)
		if !exists {
			continue
		}
		n, ok := parseU64(v)
		if !ok {
			return k, c, "bad-counter"
		}
		switch name {
		case colPR:
			c.PacketsRcvd = n
		case colPS:
			c.PacketsSent = n
		case colBR:
			c.BytesRcvd = n
		case colBS:
			c.BytesSent = n
		}
	}
	return k, c, ""
}

type expectation struct {
	schemaErr  string // non-empty: Import must fail before reading rows
	considered int
	accepted   int
	skipped    int
	regressAt  int // index (0-based, in Rows) of the row that goes backwards, -1 if none
	groups     map[gkey]*agg
	order      []gkey // first-seen order, for deterministic reports
	dupKeys    int    // keys with n ≥ 2
	reasons    map[string]int
}

func (c *tcase) expect() *expectation {
	e := &expectation{regressAt: -1, groups: map[gkey]*agg{}, reasons: map[string]int{}}
	if c.colIndex(colTime) < 0 {
		e.schemaErr = "schema without time"
		return e
	}
	if c.colIndex(colIface) < 0 && c.IfaceOpt == "" {
		e.schemaErr = "no iface column and no --iface"
		return e
	}
	var cur int64
	have := false
	for i, r := range c.Rows {
		if c.MaxRows > 0 && i >= c.MaxRows {
			break
		}
		e.considered++
		k, cnt, reason := oracleRow(c.Cols, c.IfaceOpt, r.Fields)
		if reason != "" {
			e.skipped++
			e.reasons[reason]++
			continue
		}
		if have && k.Ts < cur {
			e.regressAt = i
			return e
		}
		have, cur = true, k.Ts
		e.accepted++
		g := e.groups[k]
		if g == nil {
			g = &agg{}
			e.groups[k] = g
			e.order = append(e.order, k)
		}
		g.n++
		g.last = cnt
		g.sum.Add(cnt)
		if g.n == 2 {
			e.dupKeys++
		}
	}
	return e
}

// ---------------------------------------------------------------------------
// generator

const base0 = int64(1700006400) // 2023-11-15 00:00:00 UTC

var (
	ifaceNames  = []string{"eth0", "eth1", "wlan-0.1"}
	v4Sips      = []string{"10.0.0.1", "10.0.0.2"}
	v4Dips      = []string{"10.0.1.1", "192.168.1.255"}
	v6Sips      = []string{"2001:db8::1", "fe80::2"}
	v6Dips      = []string{"2001:db8::2", "ff02::fb"}
	dports      = []string{"80", "443", "0", "65535"}
	protos      = []string{"6", "TCP", "tcp", "17", "UDP", "1", "icmp", "58", "IPv6-ICMP", "255", "0"}
	badAddrs    = []string{"10.0.0.256", "10.0.0", "INVALID_IP", "", "2001:db8::g", "10.0.0.1/24", "1.2.3.4.5", ":::1", "10.0.0.1:80"}
	badPorts    = []string{"65536", "-1", "http", "", "80.0", "4294967376"}
	badProtos   = []string{"256", "tcpx", "-6", "", "6.0"}
	badCounters = []string{"-1", "1.5", "abc", "18446744073709551616", "", "1e3"}
	badTimes    = []string{"0", "-300", "abc", "", "1700006400.5", "-1700006400", "2023-11-15T00:00:00Z"}
	badIfaces   = []string{"", "", "e/0", "..", "a\\b"}
	unknownCols = []string{"%", "comment", "l7proto", "hostname"}
	unknownVals = []string{"x", "", "a,b", "12.5", "say \"hi\"", "10.0.0.1"}
	goodCounter = rapid.OneOf(rapid.SampledFrom([]uint64{0, 0, 1, 2, 1500, 1 << 32, 1<<56 - 1}), rapid.Uint64Range(0, 1<<20), rapid.Uint64Range(0, 1<<48))
)

type gen struct {
	t *rapid.T
	c *tcase
}

func (g *gen) pick(label string, from []string) string {
	return rapid.SampledFrom(from).Draw(g.t, label)
}

// chance is true with roughly pct % probability. rapid's integer draws are biased towards small values and
// shrink towards 0, so the feature is switched on by *large* values (a shrunk case has its features off) and
// the threshold is taken from the measured distribution of IntRange(0, 99).
func (g *gen) chance(label string, pct int) bool {
	if pct <= 0 {
		return false
	}
	// P(v >= thr) in percent, measured over 20 000 draws
	table := [][2]int{{100, 0}, {90, 1}, {79, 2}, {74, 3}, {68, 4}, {58, 10}, {47, 20}, {39, 30}, {33, 40}, {27, 50}, {22, 60}, {17, 70}, {12, 80}, {7, 90}, {0, 100}}
	thr := 100
	for i := 1; i < len(table); i++ {
		hi, lo := table[i-1], table[i]
		if pct <= hi[0] && pct >= lo[0] {
			// linear interpolation between the two measured points
			thr = lo[1] - (lo[1]-hi[1])*(pct-lo[0])/(hi[0]-lo[0])
			break
		}
	}
	return rapid.IntRange(0, 99).Draw(g.t, label) >= thr
}

func drawCase(t *rapid.T) *tcase {
	c := &tcase{}
	g := &gen{t: t, c: c}
	c.Mode = rapid.SampledFrom([]string{"dup", "nodup", "dup", "dup", "nodup", "dup"}).Draw(t, "mode")
	schemaKind := rapid.SampledFrom([]string{"full", "full", "partial", "full", "partial", "full"}).Draw(t, "schemaKind")
	if g.chance("schemaError", 8) {
		schemaKind = rapid.SampledFrom([]string{"no-time", "no-iface-at-all"}).Draw(t, "schemaErrorKind")
	}

	// ---- schema
	cols := []string{colTime}
	hasIfaceCol := rapid.Bool().Draw(t, "ifaceCol")
	if schemaKind == "no-iface-at-all" {
		hasIfaceCol = false
	}
	if hasIfaceCol {
		cols = append(cols, colIface)
	}
	for _, n := range []string{colSip, colDip, colDport, colProto} {
		if schemaKind != "partial" || g.chance("keep."+n, 60) || (n == colDport && c.Mode == "nodup") {
			cols = append(cols, n)
		}
	}
	for _, n := range counterCols {
		if schemaKind != "partial" || g.chance("keep."+n, 70) {
			cols = append(cols, n)
		}
	}
	for i, n := 0, rapid.SampledFrom([]int{0, 0, 0, 1, 2}).Draw(t, "nUnknown"); i < n; i++ {
		u := unknownCols[(rapid.IntRange(0, len(unknownCols)-1).Draw(t, "unknownCol")+i)%len(unknownCols)]
		dup := false
		for _, x := range cols {
			dup = dup || x == u
		}
		if !dup {
			cols = append(cols, u)
		}
	}
	if g.chance("unnamedCol", 10) {
		cols = append(cols, "")
	}
	if schemaKind == "no-time" {
		cols = cols[1:]
		if len(cols) == 0 {
			cols = []string{colSip}
		}
	}
	perm := rapid.Permutation(cols).Draw(t, "colOrder")
	if g.chance("canonicalOrder", 30) {
		perm = cols
	}
	c.Cols = perm
	c.SchemaOpt = rapid.Bool().Draw(t, "schemaOpt")
	if c.SchemaOpt {
		c.HeaderLeft = g.chance("headerLeft", 25)
	}
	switch {
	case schemaKind == "no-iface-at-all":
		c.IfaceOpt = ""
	case !hasIfaceCol || g.chance("ifaceOptToo", 25):
		c.IfaceOpt = g.pick("ifaceOpt", ifaceNames)
	}
	c.Enc = rapid.SampledFrom([]encoders.Type{encoders.EncoderTypeLZ4, encoders.EncoderTypeLZ4, encoders.EncoderTypeNull}).Draw(t, "enc")
	c.CRLF = g.chance("crlf", 25)
	c.FinalNL = !g.chance("noFinalNL", 20)

	// ---- rows
	nRows := rapid.OneOf(rapid.IntRange(2, 14), rapid.IntRange(0, 3), rapid.IntRange(4, 14), rapid.IntRange(4, 14), rapid.IntRange(10, 40)).Draw(t, "nRows")
	nTs := rapid.IntRange(1, 5).Draw(t, "nTs")
	tsList := make([]int64, nTs)
	ts := base0 + 300*int64(rapid.IntRange(1, 280).Draw(t, "ts0"))
	for i := range tsList {
		if i > 0 {
			ts += rapid.SampledFrom([]int64{300, 300, 300, 600, 3600, 86100, 86400, 172800 + 300}).Draw(t, "tsStep")
		}
		tsList[i] = ts
	}
	if g.chance("unaligned", 15) {
		off := int64(rapid.IntRange(1, 299).Draw(t, "tsOffset"))
		for i := range tsList {
			tsList[i] += off
		}
	}
	if c.HeaderLeft {
		c.Rows = append(c.Rows, drow{Fields: append([]string(nil), c.Cols...), Kind: "header-as-data"})
	}
	regressPos := -1
	if nRows >= 2 && g.chance("regress", 18) {
		regressPos = rapid.IntRange(1, nRows-1).Draw(t, "regressPos")
	}
	malformedPct := rapid.SampledFrom([]int{20, 10, 35, 0, 60}).Draw(t, "malformedPct")
	dupPct := rapid.SampledFrom([]int{50, 30, 70}).Draw(t, "dupPct")

	tsIdx := 0
	if nTs > 1 && g.chance("startLater", 20) {
		tsIdx = rapid.IntRange(0, nTs-1).Draw(t, "startIdx")
	}
	type seenRow struct {
		fields []string
		key    gkey
	}
	var acceptedAtCur []seenRow // accepted rows with the current timestamp (candidates to duplicate)
	seen := map[gkey]bool{}     // keys of accepted rows so far
	acceptedBefore := false     // an accepted row precedes
	for i := 0; i < nRows; i++ {
		l := fmt.Sprintf("r%d.", i)
		regress := i == regressPos && acceptedBefore
		malformed := !regress && g.chance(l+"malformed", malformedPct)
		if !malformed && !regress && tsIdx < nTs-1 && g.chance(l+"advance", 25) {
			tsIdx++
			acceptedAtCur = nil
		}
		rowTs := tsList[tsIdx]
		if regress {
			if tsIdx > 0 && g.chance(l+"regressToEarlierBlock", 50) {
				rowTs = tsList[rapid.IntRange(0, tsIdx-1).Draw(t, l+"regressIdx")]
			} else {
				rowTs -= rapid.SampledFrom([]int64{1, 300, 600, 86400}).Draw(t, l+"regressBy")
			}
		}
		var fields []string
		kind := "ok"
		if !regress && len(acceptedAtCur) > 0 && g.chance(l+"dup", dupPct) {
			// same key as an earlier accepted row of this timestamp, fresh counters, possibly another spelling of the protocol
			src := acceptedAtCur[rapid.IntRange(0, len(acceptedAtCur)-1).Draw(t, l+"dupOf")]
			fields = append([]string(nil), src.fields...)
			for _, n := range counterCols {
				if j := c.colIndex(n); j >= 0 && j < len(fields) {
					fields[j] = strconv.FormatUint(goodCounter.Draw(t, l+n), 10)
				}
			}
			if j := c.colIndex(colProto); j >= 0 && j < len(fields) {
				fields[j] = respell(fields[j], g.chance(l+"respell", 50))
			}
			kind = "ok-dup"
		} else {
			fam6 := g.chance(l+"v6", 35)
			fields = make([]string, len(c.Cols))
			for j, n := range c.Cols {
				switch n {
				case colTime:
					fields[j] = strconv.FormatInt(rowTs, 10)
				case colIface:
					fields[j] = g.pick(l+"iface", ifaceNames)
				case colSip:
					if fam6 {
						fields[j] = g.pick(l+"sip", v6Sips)
					} else {
						fields[j] = g.pick(l+"sip", v4Sips)
					}
				case colDip:
					if fam6 {
						fields[j] = g.pick(l+"dip", v6Dips)
					} else {
						fields[j] = g.pick(l+"dip", v4Dips)
					}
				case colDport:
					fields[j] = g.pick(l+"dport", dports)
				case colProto:
					fields[j] = g.pick(l+"proto", protos)
				case colPR, colPS, colBR, colBS:
					fields[j] = strconv.FormatUint(goodCounter.Draw(t, l+n), 10)
				default:
					fields[j] = g.pick(l+"unknown", unknownVals)
				}
			}
			if fam6 {
				kind = "ok6"
			} else {
				kind = "ok4"
			}
		}
		if regress {
			kind = "regress"
		}
		if malformed {
			kind, fields = g.malform(l, fields)
		}
		// shape variations that must not change acceptance
		if !malformed && g.chance(l+"long", 10) {
			fields = append(fields, g.pick(l+"extra", unknownVals))
			kind += "+long"
		}
		if !malformed && g.chance(l+"dropTrailingUnknown", 10) {
			cut := false
			for len(fields) > 1 && isUnknown(c.Cols, len(fields)-1) {
				fields = fields[:len(fields)-1]
				cut = true
			}
			if cut {
				kind += "+short-ok"
			}
		}
		// nodup mode: a row that would be accepted with a key already present in this timestamp gets a unique port
		k, _, reason := oracleRow(c.Cols, c.IfaceOpt, fields)
		if reason == "" && seen[k] && c.Mode == "nodup" {
			if j := c.colIndex(colDport); j >= 0 && j < len(fields) {
				fields[j] = strconv.Itoa(1000 + i)
				k, _, reason = oracleRow(c.Cols, c.IfaceOpt, fields)
				evid.Excluded(findingDup)
				kind += "+dedup"
			}
		}
		if reason == "" {
			seen[k] = true
			acceptedBefore = true
			if !regress {
				acceptedAtCur = append(acceptedAtCur, seenRow{fields: append([]string(nil), fields...), key: k})
			}
		}
		q := make([]bool, len(fields))
		if g.chance(l+"quoting", 12) {
			for j := range q {
				q[j] = g.chance(l+"q", 40)
			}
		}
		c.Rows = append(c.Rows, drow{Fields: fields, Quoted: q, Kind: kind})
	}
	if len(c.Rows) > 0 && g.chance("maxRows", 25) {
		c.MaxRows = rapid.IntRange(1, len(c.Rows)+2).Draw(t, "maxRowsN")
	}
	return c
}

func isUnknown(cols []string, i int) bool {
	if i >= len(cols) {
		return true
	}
	switch cols[i] {
	case colTime, colIface, colSip, colDip, colDport, colProto, colPR, colPS, colBR, colBS:
		return false
	}
	return true
}

func respell(proto string, other bool) string {
	if !other {
		return proto
	}
	switch strings.ToLower(proto) {
	case "6":
		return "TCP"
	case "tcp":
		return "6"
	case "17":
		return "udp"
	case "udp":
		return "17"
	case "1":
		return "ICMP"
	case "icmp":
		return "1"
	case "58":
		return "ipv6-icmp"
	case "ipv6-icmp":
		return "58"
	}
	return proto
}

// malform damages one field (or the shape) of a valid row and returns the class label.
func (g *gen) malform(l string, fields []string) (string, []string) {
	c := g.c
	type opt struct {
		name string
		do   func()
	}
	var opts []opt
	set := func(col string, name string, vals []string) {
		if j := c.colIndex(col); j >= 0 {
			opts = append(opts, opt{name, func() { fields[j] = g.pick(l+"bad", vals) }})
		}
	}
	set(colSip, "bad-sip", badAddrs)
	set(colDip, "bad-dip", badAddrs)
	set(colDport, "bad-dport", badPorts)
	set(colProto, "bad-proto", badProtos)
	set(colTime, "bad-time", badTimes)
	set(colIface, "bad-iface", badIfaces)
	for _, n := range counterCols {
		set(n, "bad-counter", badCounters)
	}
	if si, di := c.colIndex(colSip), c.colIndex(colDip); si >= 0 && di >= 0 {
		opts = append(opts, opt{"mixed-families", func() {
			if strings.Contains(fields[si], ":") {
				fields[di] = g.pick(l+"mix", v4Dips)
			} else {
				fields[di] = g.pick(l+"mix", v6Dips)
			}
		}})
	}
	if len(opts) == 0 {
		return "ok-unmalformable", fields
	}
	// too few fields: cut below the last known column
	last := -1
	for j := range c.Cols {
		if !isUnknown(c.Cols, j) {
			last = j
		}
	}
	// (a row keeps at least one field: a line without fields is a blank line, which is not a CSV record)
	nOpts := len(opts)
	if last >= 1 {
		nOpts++
	}
	k := rapid.IntRange(0, nOpts-1).Draw(g.t, l+"malformKind")
	if k == len(opts) {
		return "too-few-fields", fields[:rapid.IntRange(1, last).Draw(g.t, l+"cut")]
	}
	opts[k].do()
	return opts[k].name, fields
}

// ---------------------------------------------------------------------------
// observation 1: read the destination block by block

type stored struct {
	rows   map[gkey]types.Counters
	blocks map[string]bool // "iface@ts"
	ifaces []string
}

func readDB(dbPath string) (*stored, error) {
	s := &stored{rows: map[gkey]types.Counters{}, blocks: map[string]bool{}}
	ents, err := os.ReadDir(dbPath)
	if err != nil {
		if os.IsNotExist(err) {
			return s, nil
		}
		return nil, err
	}
	for _, e := range ents {
		if !e.IsDir() {
			return nil, fmt.Errorf("unexpected file %q in the destination", e.Name())
		}
		iface := e.Name()
		s.ifaces = append(s.ifaces, iface)
		ifaceDir := filepath.Join(dbPath, iface)
		days, err := filepath.Glob(filepath.Join(ifaceDir, "*", "*", "*"))
		if err != nil {
			return nil, err
		}
		sort.Strings(days)
		for _, d := range days {
			dayTs, suffix, err := gpfile.ExtractTimestampMetadataSuffix(filepath.Base(d))
			if err != nil {
				return nil, fmt.Errorf("day directory %q: %v", d, err)
			}
			dir := gpfile.NewDirReader(ifaceDir, dayTs, suffix)
			if err := dir.Open(); err != nil {
				return nil, fmt.Errorf("open %q: %v", d, err)
			}
			err = readDay(dir, iface, dayTs, s)
			dir.Close()
			if err != nil {
				return nil, fmt.Errorf("%s day %d: %v", iface, dayTs, err)
			}
		}
	}
	sort.Strings(s.ifaces)
	return s, nil
}

func readDay(dir *gpfile.GPDir, iface string, dayTs int64, s *stored) error {
	n := dir.NBlocks()
	if len(dir.BlockTraffic) != n {
		return fmt.Errorf("%d traffic entries for %d blocks", len(dir.BlockTraffic), n)
	}
	for b := 0; b < n; b++ {
		ts := dir.BlockMetadata[0].BlockList[b].Timestamp
		if gpfile.DirTimestamp(ts) != dayTs {
			return fmt.Errorf("block %d is stored in the directory of another day", ts)
		}
		bk := fmt.Sprintf("%s@%d", iface, ts)
		if s.blocks[bk] {
			return fmt.Errorf("block %d stored twice", ts)
		}
		s.blocks[bk] = true
		var data [types.ColIdxCount][]byte
		for c := types.ColumnIndex(0); c < types.ColIdxCount; c++ {
			raw, err := dir.ReadBlockAtIndex(c, b)
			if err != nil {
				return fmt.Errorf("block %d column %d: %v", ts, c, err)
			}
			data[c] = append([]byte(nil), raw...)
		}
		n4, n6 := int(dir.BlockTraffic[b].NumV4Entries), int(dir.BlockTraffic[b].NumV6Entries)
		tot := n4 + n6
		if len(data[types.SIPColIdx]) != 4*n4+16*n6 || len(data[types.DIPColIdx]) != 4*n4+16*n6 || len(data[types.DportColIdx]) != 2*tot || len(data[types.ProtoColIdx]) != tot {
			return fmt.Errorf("block %d: column lengths sip=%d dip=%d dport=%d proto=%d do not fit %d IPv4 + %d IPv6 entries", ts,
				len(data[types.SIPColIdx]), len(data[types.DIPColIdx]), len(data[types.DportColIdx]), len(data[types.ProtoColIdx]), n4, n6)
		}
		var cnt [4][]uint64
		for i, c := range []types.ColumnIndex{types.BytesRcvdColIdx, types.BytesSentColIdx, types.PacketsRcvdColIdx, types.PacketsSentColIdx} {
			if tot > 0 {
				cnt[i] = bitpack.UnpackInto(data[c], nil)
			}
			if len(cnt[i]) != tot {
				return fmt.Errorf("block %d: counter column %d holds %d values for %d entries", ts, c, len(cnt[i]), tot)
			}
		}
		pos := 0
		for i := 0; i < tot; i++ {
			k := gkey{Iface: iface, Ts: ts}
			if i < n4 {
				k.Sip = netip.AddrFrom4([4]byte(data[types.SIPColIdx][pos : pos+4]))
				k.Dip = netip.AddrFrom4([4]byte(data[types.DIPColIdx][pos : pos+4]))
				pos += 4
			} else {
				k.Sip = netip.AddrFrom16([16]byte(data[types.SIPColIdx][pos : pos+16]))
				k.Dip = netip.AddrFrom16([16]byte(data[types.DIPColIdx][pos : pos+16]))
				pos += 16
			}
			k.Dport = uint16(data[types.DportColIdx][2*i])<<8 | uint16(data[types.DportColIdx][2*i+1])
			k.Proto = data[types.ProtoColIdx][i]
			if _, dup := s.rows[k]; dup {
				return fmt.Errorf("%s", evid.Sig("C26:one-row-per-key", "block %d holds key %s twice", ts, k))
			}
			s.rows[k] = types.Counters{BytesRcvd: cnt[0][i], BytesSent: cnt[1][i], PacketsRcvd: cnt[2][i], PacketsSent: cnt[3][i]}
		}
	}
	return nil
}

// ---------------------------------------------------------------------------
// observation 2: the query engine

// projection of a key onto the attributes that the schema (and therefore the query) contains
func project(k gkey, attrs map[string]bool) gkey {
	p := gkey{Iface: k.Iface, Ts: k.Ts}
	if attrs[colSip] {
		p.Sip = k.Sip
	}
	if attrs[colDip] {
		p.Dip = k.Dip
	}
	if attrs[colDport] {
		p.Dport = k.Dport
	}
	if attrs[colProto] {
		p.Proto = k.Proto
	}
	return p
}

func queryDB(dbPath string, attrs []string, first, last int64) (map[gkey]types.Counters, error) {
	args := &query.Args{
		Query:      strings.Join(append([]string{"time", "iface"}, attrs...), ","),
		Ifaces:     "any",
		First:      strconv.FormatInt(first, 10),
		Last:       strconv.FormatInt(last, 10),
		Format:     "json",
		MaxMemPct:  100,
		NumResults: 1 << 30,
		SortBy:     "time",
	}
	res, err := engine.NewQueryRunner(dbPath).Run(context.Background(), args)
	if err != nil {
		return nil, err
	}
	out := map[gkey]types.Counters{}
	for _, r := range res.Rows {
		k := gkey{Iface: r.Labels.Iface, Ts: r.Labels.Timestamp.Unix(), Sip: r.Attributes.SrcIP, Dip: r.Attributes.DstIP, Dport: r.Attributes.DstPort, Proto: r.Attributes.IPProto}
		if _, dup := out[k]; dup {
			return nil, fmt.Errorf("%s", evid.Sig("C26:query-one-row-per-key", "the query returns key %s twice", k))
		}
		out[k] = r.Counters
	}
	return out, nil
}

// ---------------------------------------------------------------------------
// comparison with attribution of the known duplicate-overwrite defect

// compare checks observed against expected. subsetOK: observed may lack expected keys (rejected import).
// It returns the witnesses of mismatches that are exactly "last duplicate wins instead of sum" and the first other mismatch.
func compare(route string, want map[gkey]*agg, order []gkey, got map[gkey]types.Counters, subsetOK bool) (dupHits []string, violation string) {
	keys := append([]gkey(nil), order...)
	for _, k := range keys {
		w := want[k]
		g, ok := got[k]
		if !ok {
			if subsetOK {
				continue
			}
			return dupHits, evid.Sig("C26:row-missing", "%s: accepted row %s (×%d, sum %+v) is not in the destination", route, k, w.n, w.sum)
		}
		if g == w.sum {
			continue
		}
		if w.n >= 2 && g == w.last {
			dupHits = append(dupHits, fmt.Sprintf("%s: key %s occurs %d times in one timestamp; stored %+v = the last row, sum is %+v", route, k, w.n, g, w.sum))
			continue
		}
		return dupHits, evid.Sig("C26:stored-counters", "%s: key %s (×%d) is stored with %+v, accepted rows sum to %+v (last row %+v)", route, k, w.n, g, w.sum, w.last)
	}
	var extra []string
	for k, g := range got {
		if _, ok := want[k]; !ok {
			extra = append(extra, fmt.Sprintf("%s %+v", k, g))
		}
	}
	if len(extra) > 0 {
		sort.Strings(extra)
		return dupHits, evid.Sig("C26:row-invented", "%s: the destination holds %d row(s) that no accepted row explains, e.g. %s", route, len(extra), extra[0])
	}
	return dupHits, ""
}

// ---------------------------------------------------------------------------
// the property

func workDir(t failer) string {
	base := os.Getenv("VERIF_WORK")
	if base == "" {
		base = os.TempDir()
	}
	d, err := os.MkdirTemp(base, "c26-")
	if err != nil {
		t.Fatalf("tempdir: %v", err)
	}
	return d
}

// failer is what checkCase needs of *rapid.T / *testing.T
type failer interface {
	Fatalf(format string, args ...any)
}

func checkCase(t failer, c *tcase) {
	text := c.text()
	exp := c.expect()

	dir := workDir(t)
	defer os.RemoveAll(dir)
	in := filepath.Join(dir, "in.csv")
	db := filepath.Join(dir, "db")
	if err := os.WriteFile(in, []byte(text), 0o600); err != nil {
		t.Fatalf("write: %v", err)
	}
	opts := csvimport.Options{InputPath: in, OutputPath: db, Interface: c.IfaceOpt, MaxRows: c.MaxRows, EncoderType: c.Enc}
	if c.SchemaOpt {
		opts.Schema = strings.Join(c.Cols, ",")
	}
	sum, err := csvimport.Import(context.Background(), opts)

	describe := func() string {
		return fmt.Sprintf("options: schema=%q iface=%q max-rows=%d encoder=%v\nfile:\n%s\nsummary: %+v err=%v\nexpected: considered=%d accepted=%d skipped=%d %v regressAt=%d schemaErr=%q",
			opts.Schema, c.IfaceOpt, c.MaxRows, c.Enc, text, sum, err, exp.considered, exp.accepted, exp.skipped, exp.reasons, exp.regressAt, exp.schemaErr)
	}

	// ---- evidence
	nt := exp.schemaErr == "" && exp.dupKeys >= 1 && exp.skipped >= 1
	outcome := "imported"
	switch {
	case exp.schemaErr != "":
		outcome = "schema-error"
	case exp.regressAt >= 0:
		outcome = "time-regression"
	}
	classes := []string{"mode:" + c.Mode, "outcome:" + outcome, "schema-from:" + map[bool]string{true: "option", false: "header"}[c.SchemaOpt]}
	if c.colIndex(colIface) >= 0 {
		classes = append(classes, "iface:column")
	} else {
		classes = append(classes, "iface:option")
	}
	if c.MaxRows > 0 {
		if c.MaxRows < len(c.Rows) {
			classes = append(classes, "max-rows:cuts")
		} else {
			classes = append(classes, "max-rows:no-cut")
		}
	}
	if exp.dupKeys > 0 {
		classes = append(classes, "has:duplicate-key-in-timestamp")
	}
	if exp.skipped > 0 {
		classes = append(classes, "has:skipped-row")
	}
	days, fams := map[int64]bool{}, map[bool]bool{}
	for k := range exp.groups {
		days[gpfile.DirTimestamp(k.Ts)] = true
		fams[k.Sip.Is4()] = true
	}
	if len(days) > 1 {
		classes = append(classes, "has:several-days")
	}
	if len(fams) > 1 {
		classes = append(classes, "has:both-families")
	}
	evid.Case(fmt.Sprintf("%q|%q|%d|%d|%s", opts.Schema, c.IfaceOpt, c.MaxRows, c.Enc, text), nt, classes...)
	for _, r := range c.Rows {
		evid.Class("row:" + strings.SplitN(r.Kind, "+", 2)[0])
	}
	for r, n := range exp.reasons {
		evid.ClassN("skip-reason:"+r, int64(n))
	}
	if evid.WantSample(nt) {
		evid.Sample(map[string]any{"schema_option": opts.Schema, "iface_option": c.IfaceOpt, "max_rows": c.MaxRows, "mode": c.Mode, "file": text,
			"expected": map[string]int{"accepted": exp.accepted, "skipped": exp.skipped, "duplicate_keys": exp.dupKeys, "regress_at": exp.regressAt}}, nt)
	}

	// ---- schema errors
	if exp.schemaErr != "" {
		if err == nil {
			t.Fatalf("%s\n%s", evid.Sig("C26:schema-error-accepted", "%s, but Import succeeded", exp.schemaErr), describe())
		}
		st, rerr := readDB(db)
		if rerr != nil {
			t.Fatalf("%s\n%s", evid.Sig("C26:readback", "%v", rerr), describe())
		}
		if len(st.rows) > 0 {
			t.Fatalf("%s\n%s", evid.Sig("C26:row-invented", "rows stored although the schema was rejected"), describe())
		}
		return
	}

	// ---- summary
	rejected := exp.regressAt >= 0
	if rejected {
		if err == nil {
			t.Fatalf("%s\n%s", evid.Sig("C26:regression-accepted", "row %d goes backwards in time but Import succeeded", exp.regressAt+1), describe())
		}
	} else {
		if err != nil {
			t.Fatalf("%s\n%s", evid.Sig("C26:unexpected-error", "Import failed on an ordered file: %v", err), describe())
		}
		if sum.RowsRead != sum.RowsImported+sum.RowsSkipped {
			t.Fatalf("%s\n%s", evid.Sig("C26:rows-balance", "RowsRead %d != RowsImported %d + RowsSkipped %d", sum.RowsRead, sum.RowsImported, sum.RowsSkipped), describe())
		}
		if sum.RowsRead != exp.considered {
			t.Fatalf("%s\n%s", evid.Sig("C26:rows-read", "RowsRead %d, the file has %d data rows within the limit", sum.RowsRead, exp.considered), describe())
		}
		if sum.RowsImported != exp.accepted || sum.RowsSkipped != exp.skipped {
			t.Fatalf("%s\n%s", evid.Sig("C26:rows-imported", "RowsImported/RowsSkipped %d/%d, the row parser accepts %d and rejects %d", sum.RowsImported, sum.RowsSkipped, exp.accepted, exp.skipped), describe())
		}
		wantBlocks, wantIfaces := map[string]bool{}, map[string]bool{}
		for k := range exp.groups {
			wantBlocks[fmt.Sprintf("%s@%d", k.Iface, k.Ts)] = true
			wantIfaces[k.Iface] = true
		}
		if sum.BlocksWritten != len(wantBlocks) || sum.Interfaces != len(wantIfaces) {
			t.Fatalf("%s\n%s", evid.Sig("C26:summary-blocks", "BlocksWritten/Interfaces %d/%d, accepted rows span %d (interface, timestamp) pairs and %d interfaces", sum.BlocksWritten, sum.Interfaces, len(wantBlocks), len(wantIfaces)), describe())
		}
	}

	// ---- destination, block by block
	var dupHits []string
	st, rerr := readDB(db)
	if rerr != nil {
		if strings.HasPrefix(rerr.Error(), "SIG[") || strings.Contains(rerr.Error(), "SIG[") {
			t.Fatalf("%v\n%s", rerr, describe())
		}
		t.Fatalf("%s\n%s", evid.Sig("C26:readback", "%v", rerr), describe())
	}
	hits, viol := compare("blocks", exp.groups, exp.order, st.rows, rejected)
	if viol != "" {
		t.Fatalf("%s\n%s", viol, describe())
	}
	dupHits = append(dupHits, hits...)
	wantBlocks := map[string]bool{}
	for k := range exp.groups {
		wantBlocks[fmt.Sprintf("%s@%d", k.Iface, k.Ts)] = true
	}
	for b := range st.blocks {
		if !wantBlocks[b] {
			t.Fatalf("%s\n%s", evid.Sig("C26:block-invented", "block %s exists without an accepted row", b), describe())
		}
	}
	if !rejected && len(st.blocks) != len(wantBlocks) {
		t.Fatalf("%s\n%s", evid.Sig("C26:block-missing", "%d blocks stored, accepted rows need %d", len(st.blocks), len(wantBlocks)), describe())
	}

	// ---- destination, through the query engine
	if len(st.ifaces) > 0 {
		attrSet := map[string]bool{}
		var attrs []string
		for _, n := range []string{colSip, colDip, colDport, colProto} {
			if c.colIndex(n) >= 0 {
				attrSet[n] = true
				attrs = append(attrs, n)
			}
		}
		// the query range covers everything that is expected or stored
		first, last := base0, base0
		for _, m := range []map[gkey]*agg{exp.groups} {
			for k := range m {
				first, last = min(first, k.Ts), max(last, k.Ts)
			}
		}
		for k := range st.rows {
			first, last = min(first, k.Ts), max(last, k.Ts)
		}
		first, last = max(first-86400, 1), last+86400
		got, qerr := queryDB(db, attrs, first, last)
		if qerr != nil {
			if strings.Contains(qerr.Error(), "SIG[") {
				t.Fatalf("%v\n%s", qerr, describe())
			}
			t.Fatalf("%s\n%s", evid.Sig("C26:query-error", "query %v over the destination failed: %v", attrs, qerr), describe())
		}
		want := map[gkey]*agg{}
		var order []gkey
		for _, k := range exp.order {
			p := project(k, attrSet)
			a := want[p]
			if a == nil {
				a = &agg{}
				want[p] = a
				order = append(order, p)
			}
			src := exp.groups[k]
			a.n += src.n
			a.sum.Add(src.sum)
			a.last = src.last
		}
		hits, viol := compare("query "+strings.Join(attrs, ","), want, order, got, rejected)
		if viol != "" {
			t.Fatalf("%s\n%s", viol, describe())
		}
		dupHits = append(dupHits, hits...)
	}

	if len(dupHits) > 0 {
		wit := dupHits[0] + "\n" + describe()
		if !evid.Known(findingDup, wit) {
			t.Fatalf("%s\n%s", evid.Sig("C26:duplicates-not-summed", "%s", dupHits[0]), describe())
		}
		evid.Class("known:" + findingDup)
	}
}

const fullSchema = "time,iface,sip,dip,dport,proto,packets received,packets sent,data vol. received,data vol. sent"

func fixedCase(schema string, schemaOpt bool, ifaceOpt string, maxRows int, rows ...string) *tcase {
	c := &tcase{Cols: strings.Split(schema, ","), SchemaOpt: schemaOpt, IfaceOpt: ifaceOpt, MaxRows: maxRows, Enc: encoders.EncoderTypeLZ4, FinalNL: true, Mode: "fixed"}
	for _, r := range rows {
		c.Rows = append(c.Rows, drow{Fields: strings.Split(r, ","), Kind: "fixed"})
	}
	return c
}

// TestC26Fixed runs a few hand-written files through the same oracle (smallest witnesses first, so that
// the recorded witness of a known finding is the minimal one).
func TestC26Fixed(t *testing.T) {
	cases := []*tcase{
		// the smallest file with a key that occurs twice within one interface and timestamp
		fixedCase(fullSchema, false, "", 0,
			"1700006700,eth0,10.0.0.1,10.0.1.1,80,6,1,2,10,20",
			"1700006700,eth0,10.0.0.1,10.0.1.1,80,6,3,4,30,40"),
		// the README example: --schema without iface, --iface, protocol names
		fixedCase("time,sip,dip,dport,proto,packets received,packets sent,data vol. received,data vol. sent", true, "eth0", 0,
			"1711929900,10.0.0.1,10.0.0.2,443,TCP,3,2,300,200",
			"1711930200,10.0.0.3,10.0.0.4,80,TCP,4,1,400,100"),
		// both families, a skipped row, two days, the same key under two interfaces and two timestamps (no duplicate)
		fixedCase(fullSchema, false, "", 0,
			"1700006700,eth0,10.0.0.1,10.0.1.1,80,6,1,2,10,20",
			"1700006700,eth1,10.0.0.1,10.0.1.1,80,tcp,3,4,30,40",
			"1700006700,eth1,2001:db8::1,2001:db8::2,443,UDP,5,6,50,60",
			"1700006700,eth1,2001:db8::1,10.0.1.1,443,UDP,5,6,50,60",
			"1700093100,eth0,10.0.0.1,10.0.1.1,80,6,7,8,70,80"),
		// a time regression across interfaces
		fixedCase(fullSchema, false, "", 0,
			"1700007000,eth0,10.0.0.1,10.0.1.1,80,6,1,2,10,20",
			"1700006700,eth1,10.0.0.1,10.0.1.1,80,6,3,4,30,40"),
		// the limit applies to rows read
		fixedCase(fullSchema, false, "", 2,
			"1700006700,eth0,10.0.0.256,10.0.1.1,80,6,1,2,10,20",
			"1700006700,eth0,10.0.0.1,10.0.1.1,80,6,3,4,30,40",
			"1700007000,eth0,10.0.0.1,10.0.1.1,80,6,5,6,50,60"),
	}
	for _, c := range cases {
		checkCase(t, c)
	}
}

func TestC26Import(t *testing.T) {
	rapid.Check(t, func(t *rapid.T) {
		checkCase(t, drawCase(t))
	})
}
