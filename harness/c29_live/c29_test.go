// C29 — live queries see current flows with the same semantics and change nothing.
//
// A real capture.Manager (capture.InitManager: real GoDB write-out handler, temporary database, scheduled
// write-outs every 300 s of the bubble clock) runs on in-memory packet sources inside a testing/synctest bubble,
// together with the query runner goProbe's API server creates: engine.NewQueryRunner(db, WithLiveData(manager)).
// The script — conversations, packets with fake-clock instants, write-outs, and live queries (Args.Live = true,
// the C08 query generator) at drawn points — is drawn outside the bubble; the bubble returns what the queries
// returned as values, the database is read back afterwards and the verdict is formed outside.
//
// Oracle
//
//	(1) rows of a live query = reference aggregation (model.DB.Aggregate) over the blocks that were in the database
//	    when the query ran (read back from the files, first <= ts) plus, per interface, the flows in memory
//	    (known to the harness from the packets it delivered since the last write-out; stored key computed with the
//	    exported parser / direction classifier as capharness does), same condition / grouping / direction-filter
//	    semantics for both parts. In-memory flows have no block timestamp: when the time label is requested
//	    they form groups without a timestamp (what the engine reports), otherwise they are merged into the
//	    stored group of the same attributes.
//	(2) the same script without the live queries (twin run) writes the same blocks at every write-out and holds
//	    the same flows and counters at the end.
package c29

import (
	"encoding/binary"
	"fmt"
	"net/netip"
	"sort"
	"strings"
	"testing"

	"github.com/els0r/goProbe/v4/pkg/capture"
	"github.com/els0r/goProbe/v4/pkg/capture/capturetypes"
	"github.com/els0r/goProbe/v4/pkg/results"
	"pgregory.net/rapid"

	"verifharness/c20_capture/capharness"
	"verifharness/internal/evid"
	"verifharness/internal/model"
	"verifharness/internal/qgen"
)

const findingF24 = "C29-F24"

func TestMain(m *testing.M) {
	evid.Rule("rapid draws a capture script outside the bubble with the C20 generator (1-2 interfaces, lz4/null encoder, manager start 0..299 s after a boundary, 1-6 decisive conversations " +
		"(TCP/UDP/ICMP/ICMPv6/other protocols, collapsing client ports), 1-4 scheduled write-outs with per-interval packet scripts incl. malformed packets, idle intervals, a tail); the check adds 1-3 TCP/UDP conversations " +
		"(the missing IP family first, so that every script has both), 0-6 extra packets per interval (replays of drawn packets in other intervals / on the other interface, packets of the added conversations) " +
		"and 0-5 live queries per interval at drawn positions, more often late in the interval (also directly after a write-out, 1 ns before one, and a few before the first write-out); " +
		"each query comes from the C08 generator (attribute subsets / aliases incl. time, iface and raw, one interface / list / any, " +
		"condition from the whole grammar with address and network leaves of both families — two thirds of the leaf values are re-drawn from the hosts, ports and protocols of the script's conversations —, optional direction filter, " +
		"lower bound from {block ts, ±1, ±300, day bounds, outside}, low-memory on/off) with Live = true and no upper bound; the twin run executes the same script without the queries; " +
		"a third run (twin-only) draws the script with non-decisive conversations as well (other protocols both ways, identical ports, both ports common, unknown ICMP types), places queries also directly after a write-out, and compares only what the run with and the run without live queries write and keep in memory; " +
		"non-trivial = at some compared live query the selected interfaces hold in-memory flows of both IP families and the condition accepts some and rejects some of them (twin-only: a non-decisive conversation, a live query and a query that directly follows a write-out); distinct by script text + query texts")
	evid.Assume("the flows in memory at a query are the successfully parsed packets delivered since the last write-out, keyed by the stored key computed with the exported ParsePacketV4/V6 and ClassifyPacketDirectionV4/V6 (verified by C19/C22; that the capture holds exactly these is C20's subject); only decisive conversations are generated",
		"the stored part of the expectation is computed from the blocks read back from the database files after the run (blocks with timestamp <= instant of the query; blocks are immutable once written — C01/C03), not from the capture model: a capture defect does not show up as a query defect",
		"a live query must carry Last = types.MaxTime (query.Args.SetDefaults; prepLiveArg rejects anything else); in-memory flows are reported whatever the lower bound is",
		"in-memory flows belong to no block: with the time label they are expected as groups without a timestamp (zero Labels.Timestamp — what the engine reports), without it they are merged into the stored group with the same attributes and interface",
		"interfaces are resolved against the directories of the database (the engine's documented resolution, C16): a query that selects only interfaces without a directory — i.e. before the very first write-out — may fail with an error; its result is not compared (class query:before-first-write-out), it still takes part in the twin comparison",
		"block time in range means first <= block end timestamp; hostname / host-id labels are ignored; the semantics of conditions and of the direction filter are those of the C08/C09 reference model",
		"schedule ownership: packet delivery, queries and the instants of write-outs are owned (synctest, queries never overlap a write-out); the engine's worker goroutines run under the Go scheduler")
	evid.Main(m)
}

// maxTime is types.MaxTime.Unix(): the only upper bound a live query accepts (query.Args.SetDefaults / prepLiveArg).
const maxTime = int64(1<<63 - 62135596801)

func addrOf(raw string) netip.Addr {
	a, ok := netip.AddrFromSlice([]byte(raw))
	if !ok {
		panic(fmt.Sprintf("harness: address of %d bytes", len(raw)))
	}
	return a
}

func flowsOf(fs capharness.FlowSet) []model.Flow {
	var out []model.Flow
	for k, c := range fs {
		out = append(out, model.Flow{Sip: addrOf(k.Sip), Dip: addrOf(k.Dip), Dport: k.Dport, Proto: k.Proto, BR: c.BR, BS: c.BS, PR: c.PR, PS: c.PS})
	}
	sort.Slice(out, func(i, j int) bool { return out[i].String() < out[j].String() })
	return out
}

// ---------------------------------------------------------------- generator

// Hosts, ports of the conversations the check adds to the capharness script: both families are present in every
// script, and the values overlap with the alphabets of the shared condition generator.
var (
	localHosts4 = []string{"10.0.0.1", "10.0.0.2", "192.168.1.34", "172.16.5.5", "10.200.1.1"}
	localHosts6 = []string{"2001:db8::1", "fe80::1", "2001:db8:0:1::1", "2a00:1450:4001:81b::200e", "2001:db8::ffff"}
	localSrv    = []uint16{53, 80, 443, 445, 8080, 22}
	localCli    = []uint16{40001, 49152, 51000, 60999}
	cliFlags    = []byte{0x02, 0x10, 0x18}
	srvFlags    = []byte{0x12, 0x10, 0x18}
)

// layerOf writes the RFC 791 / RFC 8200 fixed header and the start of a TCP or UDP header.
func layerOf(v6 bool, sip, dip []byte, proto byte, sport, dport uint16, tcpFlags byte) []byte {
	h := 20
	if v6 {
		h = 40
	}
	b := make([]byte, h+20)
	if v6 {
		b[0] = 0x60
		binary.BigEndian.PutUint16(b[4:6], 20)
		b[6], b[7] = proto, 64
		copy(b[8:24], sip)
		copy(b[24:40], dip)
	} else {
		b[0] = 0x45
		binary.BigEndian.PutUint16(b[2:4], 40)
		b[8], b[9] = 64, proto
		copy(b[12:16], sip)
		copy(b[16:20], dip)
	}
	l4 := b[h:]
	binary.BigEndian.PutUint16(l4[0:2], sport)
	binary.BigEndian.PutUint16(l4[2:4], dport)
	if proto == capharness.ProtoTCP {
		l4[12], l4[13] = 0x50, tcpFlags
	} else {
		binary.BigEndian.PutUint16(l4[4:6], 8)
	}
	return b
}

// storedKeyOf derives the stored key of an IP layer with goProbe's exported parser and direction classifier
// (verified by C19 / C22), as capharness does: stored = Reverse(hash) if the classifier says "reverts".
func storedKeyOf(layer []byte) (errno int8, key capharness.Key) {
	if layer[0]>>4 == 4 {
		h, a, e := capture.ParsePacketV4(layer)
		if e != capturetypes.ErrnoOK {
			return int8(e), capharness.Key{}
		}
		st := h
		if capturetypes.ClassifyPacketDirectionV4(h, a) == capturetypes.DirectionReverts {
			st = h.Reverse()
		}
		return int8(e), capharness.Key{Sip: string(st[0:4]), Dip: string(st[6:10]), Dport: binary.BigEndian.Uint16(st[10:12]), Proto: st[12]}
	}
	h, a, e := capture.ParsePacketV6(layer)
	if e != capturetypes.ErrnoOK {
		return int8(e), capharness.Key{}
	}
	st := h
	if capturetypes.ClassifyPacketDirectionV6(h, a) == capturetypes.DirectionReverts {
		st = h.Reverse()
	}
	return int8(e), capharness.Key{V6: true, Sip: string(st[0:16]), Dip: string(st[18:34]), Dport: binary.BigEndian.Uint16(st[34:36]), Proto: st[36]}
}

func rawAddr(s string) []byte { return netip.MustParseAddr(s).AsSlice() }

// drawLocalConv draws a TCP or UDP conversation (common server port, high client port: the port heuristics are
// decisive) and checks that every packet variant of either direction yields the same stored key.
func drawLocalConv(rt *rapid.T, l string, id int, v6 bool) *capharness.Conv {
	hosts := localHosts4
	if v6 {
		hosts = localHosts6
	}
	ci := rapid.IntRange(0, len(hosts)-1).Draw(rt, l+"chost")
	si := rapid.IntRange(0, len(hosts)-2).Draw(rt, l+"shost")
	if si >= ci {
		si++
	}
	c := &capharness.Conv{ID: id, Kind: "c29-tcp", V6: v6, Cip: rawAddr(hosts[ci]), Sip: rawAddr(hosts[si]), Proto: capharness.ProtoTCP,
		Cport: rapid.SampledFrom(localCli).Draw(rt, l+"cport"), Sport: rapid.SampledFrom(localSrv).Draw(rt, l+"sport")}
	if rapid.IntRange(0, 2).Draw(rt, l+"udp") == 0 {
		c.Kind, c.Proto = "c29-udp", capharness.ProtoUDP
		c.Sport = rapid.SampledFrom([]uint16{53, 443}).Draw(rt, l+"usport")
	}
	c.FwdPktType, c.RevPktType = 0, capharness.PktOutgoing
	if rapid.Bool().Draw(rt, l+"outbound-client") {
		c.FwdPktType, c.RevPktType = capharness.PktOutgoing, 0
	}
	first := true
	for _, fl := range cliFlags {
		for _, rev := range []bool{false, true} {
			e, k := storedKeyOf(localLayer(c, rev, fl))
			if e != int8(capturetypes.ErrnoOK) {
				panic(fmt.Sprintf("harness: %v: constructed packet does not parse (%d)", c, e))
			}
			if first {
				c.KeyFwd, c.KeyRev, first = k, k, false
			} else if k != c.KeyFwd {
				panic(fmt.Sprintf("harness: %v was constructed as decisive but yields the stored keys %v and %v", c, c.KeyFwd, k))
			}
		}
	}
	return c
}

// localLayer encodes a packet of a local conversation; flagIdx selects the TCP flags of the sender's role.
func localLayer(c *capharness.Conv, rev bool, cliFlag byte) []byte {
	if !rev {
		return layerOf(c.V6, c.Cip, c.Sip, c.Proto, c.Cport, c.Sport, cliFlag)
	}
	fl := cliFlag
	for i, f := range cliFlags {
		if f == cliFlag {
			fl = srvFlags[i]
		}
	}
	return layerOf(c.V6, c.Sip, c.Cip, c.Proto, c.Sport, c.Cport, fl)
}

func drawLocalPacket(rt *rapid.T, l string, c *capharness.Conv, id int) *capharness.Packet {
	p := &capharness.Packet{ID: id, Conv: c.ID, V6: c.V6, Rev: rapid.Bool().Draw(rt, l+"rev")}
	p.Layer = localLayer(c, p.Rev, rapid.SampledFrom(cliFlags).Draw(rt, l+"flags"))
	p.PktType = c.FwdPktType
	if p.Rev {
		p.PktType = c.RevPktType
	}
	p.Size = rapid.Uint32Range(40, 1500).Draw(rt, l+"size")
	p.Errno, p.Key = storedKeyOf(p.Layer)
	return p
}

// drawScript draws the capture script with capharness (no packets inside pause windows, decisive conversations
// only: the stored key of every packet is known), adds conversations so that both IP families occur, adds
// packets (replays of drawn packets in other intervals / on other interfaces, packets of the added
// conversations) and turns the status / flow-map events of the script plus extra drawn positions into live
// engine queries.
func drawScript(rt *rapid.T, allAttrs bool, nonDecisive ...bool) *script {
	amb := len(nonDecisive) > 0 && nonDecisive[0]
	base := capharness.DrawScript(rt, capharness.Options{Ambiguous: amb})
	s := &script{Script: base, Queries: map[int]*qgen.Query{}}
	nIf := len(base.Ifaces)
	// conversations of the check: the family that is missing, or a drawn one
	has4, has6 := false, false
	for _, c := range base.Convs {
		if c.V6 {
			has6 = true
		} else {
			has4 = true
		}
	}
	var local []*capharness.Conv
	for k, n := 0, rapid.IntRange(1, 3).Draw(rt, "lc.n"); k < n; k++ {
		l := fmt.Sprintf("lc%d.", k)
		v6 := rapid.Bool().Draw(rt, l+"v6")
		if !has6 {
			v6 = true
		} else if !has4 {
			v6 = false
		}
		c := drawLocalConv(rt, l, len(base.Convs), v6)
		base.Convs = append(base.Convs, c)
		local = append(local, c)
		if v6 {
			has6 = true
		} else {
			has4 = true
		}
	}
	var pool []*capharness.Packet
	for _, a := range base.Actions {
		if a.Kind == capharness.ActPkt && a.P.OK() {
			pool = append(pool, a.P)
		}
	}
	nextID := base.NPackets

	var out, cur []*capharness.Action
	iv := 0
	flush := func(rot *capharness.Action) {
		l := fmt.Sprintf("x%d.", iv)
		lo := int64(iv)*capharness.Interval + 1000
		if iv == 0 {
			lo += base.StartOffset
		}
		insert := func(pos int, a *capharness.Action) {
			a.At = lo
			if pos > 0 {
				a.At = cur[pos-1].At
			}
			cur = append(cur[:pos], append([]*capharness.Action{a}, cur[pos:]...)...)
		}
		for _, a := range cur {
			if a.Kind != capharness.ActPkt {
				a.Kind, a.Ifaces, a.Win = capharness.ActQuery, nil, nil
			}
		}
		for k, n := 0, rapid.SampledFrom([]int{0, 1, 2, 3, 4, 6}).Draw(rt, l+"np"); k < n; k++ {
			pl := fmt.Sprintf("%sp%d.", l, k)
			var p *capharness.Packet
			if len(pool) > 0 && rapid.Bool().Draw(rt, pl+"replay") {
				q := *pool[rapid.IntRange(0, len(pool)-1).Draw(rt, pl+"of")]
				q.ID = nextID
				p = &q
			} else {
				p = drawLocalPacket(rt, pl, local[rapid.IntRange(0, len(local)-1).Draw(rt, pl+"conv")], nextID)
			}
			nextID++
			insert(rapid.IntRange(0, len(cur)).Draw(rt, pl+"pos"), &capharness.Action{Kind: capharness.ActPkt, Iface: rapid.IntRange(0, nIf-1).Draw(rt, pl+"iface"), P: p})
		}
		nq := []int{0, 1, 1, 2, 3}
		if iv == 0 {
			nq = []int{0, 0, 1} // before the first write-out the database has no interface directories: results are not comparable
		}
		for k, n := 0, rapid.SampledFrom(nq).Draw(rt, l+"nq"); k < n; k++ {
			ql := fmt.Sprintf("%sq%d.", l, k)
			// more often late in the interval, when flows are in memory
			pos := max(rapid.IntRange(0, len(cur)).Draw(rt, ql+"pos"), rapid.IntRange(0, len(cur)).Draw(rt, ql+"pos2"))
			if amb && rapid.Bool().Draw(rt, ql+"early") {
				// twin-only mode: also early in the interval, when the flows of the previous interval are idle
				pos = rapid.IntRange(0, min(2, len(cur))).Draw(rt, ql+"pos3")
			}
			insert(pos, &capharness.Action{Kind: capharness.ActQuery})
		}
		out = append(out, cur...)
		if rot != nil {
			rot.Win = nil
			out = append(out, rot)
		}
		cur = nil
		iv++
	}
	for _, a := range base.Actions {
		if a.Kind == capharness.ActRotate {
			flush(a)
		} else {
			cur = append(cur, a)
		}
	}
	flush(nil)
	base.Actions = out
	base.NPackets = nextID

	// the data the range bounds are drawn around: one block per scheduled write-out
	pseudo := &model.DB{Ifaces: map[string][]model.Block{}}
	for _, n := range base.Ifaces {
		pseudo.Ifaces[n] = nil
		for k := 1; k < iv; k++ {
			pseudo.Ifaces[n] = append(pseudo.Ifaces[n], model.Block{Ts: capharness.T0.Unix() + int64(k)*300})
		}
	}
	for i, a := range base.Actions {
		if a.Kind != capharness.ActQuery {
			continue
		}
		q := qgen.Draw(rt, pseudo, qgen.Opts{AllAttrs: allAttrs})
		retarget(rt, fmt.Sprintf("a%d.", i), base, q)
		// a live query has no upper time bound
		q.Spec.Last = maxTime
		q.Args.Last = fmt.Sprintf("%d", maxTime)
		q.Args.Live = true
		q.Desc = fmt.Sprintf("live query=%q ifaces=%q cond=%q first=%d lowmem=%v", q.Args.Query, q.Args.Ifaces, q.Args.Condition, q.Spec.First, q.Args.LowMem)
		s.Queries[i] = q
	}
	return s
}

// retarget replaces some values of the condition's leaves by values that occur in the script's conversations,
// so that conditions select some of the captured flows (the alphabets of the shared condition generator
// only partly overlap with the hosts and ports of the capture harness).
func retarget(rt *rapid.T, l string, s *capharness.Script, q *qgen.Query) {
	if q.Spec.Cond == nil {
		return
	}
	old := q.Spec.Cond.String()
	for i, leaf := range q.Spec.Cond.Leaves() {
		ll := fmt.Sprintf("%sleaf%d.", l, i)
		if rapid.IntRange(0, 2).Draw(rt, ll+"keep") == 0 {
			continue
		}
		c := s.Convs[rapid.IntRange(0, len(s.Convs)-1).Draw(rt, ll+"conv")]
		ip := c.Sip
		if rapid.Bool().Draw(rt, ll+"client") {
			ip = c.Cip
		}
		addr := addrOf(string(ip))
		switch leaf.Attr {
		case "sip", "dip", "src", "dst", "host":
			leaf.Val = addr.String()
		case "snet", "dnet", "net":
			bits := rapid.SampledFrom([]int{32, 31, 24, 16, 8, 1, 0}).Draw(rt, ll+"bits")
			if addr.Is6() {
				bits = rapid.SampledFrom([]int{128, 127, 64, 48, 32, 16, 1, 0}).Draw(rt, ll+"bits6")
			}
			leaf.Val = fmt.Sprintf("%s/%d", addr, bits)
		case "dport", "port":
			leaf.Val = fmt.Sprintf("%d", c.Sport)
		case "proto", "protocol", "ipproto":
			leaf.Val = fmt.Sprintf("%d", c.Proto)
		}
	}
	if now := q.Spec.Cond.String(); now != old {
		if !strings.Contains(q.Args.Condition, old) {
			panic("harness: condition text does not contain the rendered condition")
		}
		q.Args.Condition = strings.Replace(q.Args.Condition, old, now, 1)
	}
}

func (s *script) canon() string {
	var b strings.Builder
	b.WriteString(s.Canon())
	for i := range s.Actions {
		if q := s.Queries[i]; q != nil {
			fmt.Fprintf(&b, "  action %d: %s sort=%s asc=%v in=%v out=%v sum=%v\n", i, q.Desc, q.Args.SortBy, q.Args.SortAscending, q.Args.In, q.Args.Out, q.Args.Sum)
		}
	}
	return b.String()
}

// ---------------------------------------------------------------- model

// inMemory walks the script and returns, per query action, the flows each interface holds in memory at that
// point (successfully parsed packets since the last write-out, by stored key), and the flows left at the end.
func inMemory(s *script) (atQuery map[int]map[string]capharness.FlowSet, tail map[string]capharness.FlowSet) {
	atQuery = map[int]map[string]capharness.FlowSet{}
	cur := map[string]capharness.FlowSet{}
	for _, n := range s.Ifaces {
		cur[n] = capharness.FlowSet{}
	}
	for i, a := range s.Actions {
		switch a.Kind {
		case capharness.ActPkt:
			if !a.P.OK() {
				continue
			}
			c := s.Convs[a.P.Conv]
			if c.Ambiguous || a.P.Key != c.KeyFwd {
				panic(fmt.Sprintf("harness: packet %v of %v: stored key %v is not the conversation's key %v", a.P, c, a.P.Key, c.KeyFwd))
			}
			fs := cur[s.Ifaces[a.Iface]]
			v := fs[a.P.Key]
			v.Add(a.P.Counters())
			fs[a.P.Key] = v
		case capharness.ActQuery:
			snap := map[string]capharness.FlowSet{}
			for n, fs := range cur {
				cp := capharness.FlowSet{}
				for k, v := range fs {
					cp[k] = v
				}
				snap[n] = cp
			}
			atQuery[i] = snap
		case capharness.ActRotate:
			for _, n := range s.Ifaces {
				cur[n] = capharness.FlowSet{}
			}
		}
	}
	return atQuery, cur
}

func hasAttr(spec model.QuerySpec, a string) bool {
	for _, x := range spec.Attrs {
		if x == a {
			return true
		}
	}
	return false
}

// liveTs is the timestamp of the synthetic block that holds the in-memory flows inside the reference database
// (any value inside the range handed to Aggregate; it never appears in a row).
const liveTs = int64(1)

// expectedRows is the reference result: stored blocks of the range and the in-memory flows, filtered by the same
// condition, grouped by the same attributes (in-memory flows without a block timestamp), direction filter on
// the summed counters of a group.
func expectedRows(spec model.QuerySpec, ifaces []string, stored, live *model.DB) (map[model.RowKey]model.Counters, error) {
	sp := spec
	sp.Ifaces = ifaces
	sp.DirFilter = ""
	out, err := stored.Aggregate(sp)
	if err != nil {
		return nil, err
	}
	lp := sp
	lp.First, lp.Last, lp.Time = liveTs, liveTs, false
	lv, err := live.Aggregate(lp)
	if err != nil {
		return nil, err
	}
	for k, c := range lv {
		v := out[k]
		v.AddC(c)
		out[k] = v
	}
	for k, c := range out {
		if !model.DirMatch(spec.DirFilter, c) {
			delete(out, k)
		}
	}
	return out, nil
}

// row is one result row in the reference key space.
type row struct {
	K model.RowKey
	C model.Counters
}

func sortRows(rs []row) {
	sort.Slice(rs, func(i, j int) bool {
		a, b := fmt.Sprintf("%s %+v", rs[i].K, rs[i].C), fmt.Sprintf("%s %+v", rs[j].K, rs[j].C)
		return a < b
	})
}

func sameRows(a, b []row) bool {
	if len(a) != len(b) {
		return false
	}
	sortRows(a)
	sortRows(b)
	for i := range a {
		if a[i] != b[i] {
			return false
		}
	}
	return true
}

func describeRows(rs []row) string {
	sortRows(rs)
	var s []string
	for _, r := range rs {
		s = append(s, fmt.Sprintf("%s %+v", r.K, r.C))
	}
	if len(s) > 12 {
		s = append(s[:12], fmt.Sprintf("… (%d)", len(rs)))
	}
	return strings.Join(s, "; ")
}

// rowsOf converts the rows of a result into the reference key space (a list: the same group may occur twice).
// Rows of a live query may lack a timestamp although the time label was requested (in-memory flows).
func rowsOf(res *results.Result, spec model.QuerySpec) ([]row, string) {
	var out []row
	for i, r := range res.Rows {
		k := model.RowKey{Iface: r.Labels.Iface}
		if !r.Labels.Timestamp.IsZero() {
			if !spec.Time {
				return nil, fmt.Sprintf("row %d carries timestamp %v although the time label was not requested", i, r.Labels.Timestamp)
			}
			k.Ts = r.Labels.Timestamp.Unix()
		}
		if hasAttr(spec, "sip") {
			if !r.Attributes.SrcIP.IsValid() {
				return nil, fmt.Sprintf("row %d has no sip although sip was requested", i)
			}
			k.Sip = r.Attributes.SrcIP
		} else if r.Attributes.SrcIP.IsValid() {
			return nil, fmt.Sprintf("row %d carries sip %v although sip was not requested", i, r.Attributes.SrcIP)
		}
		if hasAttr(spec, "dip") {
			if !r.Attributes.DstIP.IsValid() {
				return nil, fmt.Sprintf("row %d has no dip although dip was requested", i)
			}
			k.Dip = r.Attributes.DstIP
		} else if r.Attributes.DstIP.IsValid() {
			return nil, fmt.Sprintf("row %d carries dip %v although dip was not requested", i, r.Attributes.DstIP)
		}
		if hasAttr(spec, "dport") {
			k.Dport = r.Attributes.DstPort
		} else if r.Attributes.DstPort != 0 {
			return nil, fmt.Sprintf("row %d carries dport %d although dport was not requested", i, r.Attributes.DstPort)
		}
		if hasAttr(spec, "proto") {
			k.Proto = r.Attributes.IPProto
		} else if r.Attributes.IPProto != 0 {
			return nil, fmt.Sprintf("row %d carries proto %d although proto was not requested", i, r.Attributes.IPProto)
		}
		out = append(out, row{k, model.Counters{BR: r.Counters.BytesRcvd, BS: r.Counters.BytesSent, PR: r.Counters.PacketsRcvd, PS: r.Counters.PacketsSent}})
	}
	return out, ""
}

// ---------------------------------------------------------------- attribution of finding C29-F24

// ungroupedLiveRows predicts the rows the engine returns if in-memory flows are filtered by the condition but
// never regrouped by the query attributes (finding C29-F24): the engine merges the live map — keyed by the full
// (sip, dip, dport, proto) of each in-memory flow, IPv4 and IPv6 flows in separate maps — into the per-interface
// result map whose stored entries are keyed by the requested attributes only (other attributes zero, block
// timestamp appended if the time label is requested, IPv6 flows in the IPv4-width map unless sip or dip is
// requested). Entries merge only if these internal keys are identical; the direction filter then applies per
// entry, and a row shows the requested attributes of its entry.
func ungroupedLiveRows(spec model.QuerySpec, ifaces []string, stored, live *model.DB) ([]row, error) {
	type ikey struct {
		iface    string
		v6map    bool
		sip, dip netip.Addr
		dport    uint16
		proto    uint8
		ts       int64
	}
	hs, hd, hp, hr := hasAttr(spec, "sip"), hasAttr(spec, "dip"), hasAttr(spec, "dport"), hasAttr(spec, "proto")
	zero := func(v6 bool) netip.Addr {
		if v6 {
			return netip.IPv6Unspecified()
		}
		return netip.AddrFrom4([4]byte{})
	}
	m := map[ikey]model.Counters{}
	pass := func(f model.Flow) (bool, error) {
		if spec.Cond == nil {
			return true, nil
		}
		return spec.Cond.Eval(f)
	}
	for _, n := range ifaces {
		for _, b := range stored.Ifaces[n] {
			if b.Ts < spec.First || b.Ts > spec.Last {
				continue
			}
			for _, f := range b.Flows {
				ok, err := pass(f)
				if err != nil {
					return nil, err
				}
				if !ok {
					continue
				}
				k := ikey{iface: n, v6map: !f.IsV4() && (hs || hd)}
				k.sip, k.dip = zero(k.v6map), zero(k.v6map)
				if hs {
					k.sip = f.Sip
				}
				if hd {
					k.dip = f.Dip
				}
				if hp {
					k.dport = f.Dport
				}
				if hr {
					k.proto = f.Proto
				}
				if spec.Time {
					k.ts = b.Ts
				}
				c := m[k]
				c.Add(f)
				m[k] = c
			}
		}
		for _, b := range live.Ifaces[n] {
			for _, f := range b.Flows {
				ok, err := pass(f)
				if err != nil {
					return nil, err
				}
				if !ok {
					continue
				}
				k := ikey{iface: n, v6map: !f.IsV4(), sip: f.Sip, dip: f.Dip, dport: f.Dport, proto: f.Proto}
				c := m[k]
				c.Add(f)
				m[k] = c
			}
		}
	}
	var out []row
	for k, c := range m {
		if !model.DirMatch(spec.DirFilter, c) {
			continue
		}
		r := model.RowKey{Iface: k.iface, Ts: k.ts}
		if hs {
			r.Sip = k.sip
		}
		if hd {
			r.Dip = k.dip
		}
		if hp {
			r.Dport = k.dport
		}
		if hr {
			r.Proto = k.proto
		}
		out = append(out, row{r, c})
	}
	return out, nil
}

// ---------------------------------------------------------------- the property

type failure struct {
	sig  string
	text string
}

func failf(sig, format string, args ...any) *failure {
	return &failure{sig: "C29:" + sig, text: fmt.Sprintf(format, args...)}
}

func modelBlocks(bs []capharness.Block, upTo int64) []model.Block {
	var out []model.Block
	for _, b := range bs {
		if b.Ts <= upTo {
			out = append(out, model.Block{Ts: b.Ts, Drops: b.Drops, Flows: flowsOf(b.Flows)})
		}
	}
	return out
}

func describeDB(db *model.DB, ifaces []string) string {
	var s []string
	for _, n := range ifaces {
		for _, b := range db.Ifaces[n] {
			var fl []string
			for _, f := range b.Flows {
				fl = append(fl, f.String())
			}
			s = append(s, fmt.Sprintf("%s@%d{%s}", n, b.Ts, strings.Join(fl, " ")))
		}
	}
	return strings.Join(s, " ")
}

// checkQuery is clause (1) for one live query. known reports that the mismatch is exactly finding C29-F24.
func checkQuery(s *script, r *runResult, qr *queryResult, mem map[string]capharness.FlowSet) (f *failure, classes []string, nt bool, known string) {
	q := s.Queries[qr.Action]
	spec := q.Spec
	// interface resolution against the database directories
	var resolved []string
	for _, n := range spec.Ifaces {
		for _, d := range qr.Dirs {
			if d == n {
				resolved = append(resolved, n)
			}
		}
	}
	sort.Strings(resolved)
	if len(spec.Attrs) == 4 {
		classes = append(classes, "query:all-four-attributes")
	} else {
		classes = append(classes, "query:attribute-subset")
	}
	if spec.Time {
		classes = append(classes, "query:time-label")
	}
	if spec.Cond != nil {
		classes = append(classes, "query:with-condition")
	}
	if spec.DirFilter != "" {
		classes = append(classes, "query:with-direction-filter")
	}
	if len(spec.Ifaces) > 1 {
		classes = append(classes, "query:several-interfaces")
	}
	ctx := func() string {
		return fmt.Sprintf("action %d at %d (+%d s): %s\n  interfaces in the database: %v\n  error log: %s", qr.Action, qr.Now, qr.Now-capharness.T0.Unix(), q.Desc, qr.Dirs, strings.Join(r.ErrorLogs, " | "))
	}
	if len(resolved) == 0 {
		classes = append(classes, "query:before-first-write-out")
		return nil, classes, false, ""
	}
	if qr.Err != nil {
		return failf("query-error", "the live query failed: %v\n  %s", qr.Err, ctx()), classes, false, ""
	}
	if qr.Res == nil {
		return failf("query-error", "the live query returned neither a result nor an error\n  %s", ctx()), classes, false, ""
	}
	stored := &model.DB{Ifaces: map[string][]model.Block{}}
	live := &model.DB{Ifaces: map[string][]model.Block{}}
	v4, v6, acc, rej, nLive, nStoredBlocks := false, false, 0, 0, 0, 0
	for _, n := range resolved {
		stored.Ifaces[n] = modelBlocks(r.Blocks[n], qr.Now)
		for _, b := range stored.Ifaces[n] {
			if b.Ts >= spec.First && len(b.Flows) > 0 {
				nStoredBlocks++
			}
		}
		fl := flowsOf(mem[n])
		live.Ifaces[n] = []model.Block{{Ts: liveTs, Flows: fl}}
		for _, fw := range fl {
			nLive++
			if fw.IsV4() {
				v4 = true
			} else {
				v6 = true
			}
			if spec.Cond != nil {
				ok, err := spec.Cond.Eval(fw)
				if err != nil {
					return failf("harness", "reference evaluation of the condition: %v\n  %s", err, ctx()), classes, false, ""
				}
				if ok {
					acc++
				} else {
					rej++
				}
			}
		}
	}
	nt = v4 && v6 && acc > 0 && rej > 0
	switch {
	case nLive == 0:
		classes = append(classes, "live:no-flows-in-memory")
	case v4 && v6:
		classes = append(classes, "live:both-families")
	default:
		classes = append(classes, "live:one-family")
	}
	if nLive > 0 && nStoredBlocks > 0 {
		classes = append(classes, "live:stored-and-in-memory-data")
	}
	if acc > 0 && rej > 0 {
		classes = append(classes, "live:condition-splits-in-memory-flows")
	}
	want, err := expectedRows(spec, resolved, stored, live)
	if err != nil {
		return failf("harness", "reference aggregation: %v\n  %s", err, ctx()), classes, nt, ""
	}
	if len(want) == 0 {
		classes = append(classes, "query:empty-expected")
	}
	data := func() string {
		return fmt.Sprintf("%s\n  stored blocks: %s\n  in memory:     %s\n  expected rows: %s", ctx(), describeDB(stored, resolved), describeDB(live, resolved), describeRows(mapRows(want)))
	}
	got, bad := rowsOf(qr.Res, spec)
	if bad != "" {
		return failf("row-shape", "%s\n  %s", bad, data()), classes, nt, ""
	}
	gotMap := map[model.RowKey]model.Counters{}
	split := ""
	for _, g := range got {
		if _, dup := gotMap[g.K]; dup && split == "" {
			split = g.K.String()
		}
		c := gotMap[g.K]
		c.AddC(g.C)
		gotMap[g.K] = c
	}
	kind, detail := "", ""
	if split != "" {
		kind, detail = "group-split", fmt.Sprintf("more than one row for the group %s", split)
		if k2, d2 := qgen.Diff(gotMap, want); k2 != "" {
			detail += "; after adding up the rows of equal groups: " + k2 + ": " + d2
		} else {
			detail += "; the rows of equal groups add up to the expected rows"
		}
	} else {
		kind, detail = qgen.Diff(gotMap, want)
	}
	if kind != "" {
		// is this exactly what "in-memory flows are not regrouped" produces?
		if len(spec.Attrs) < 4 && nLive > 0 {
			pred, err := ungroupedLiveRows(spec, resolved, stored, live)
			if err == nil && sameRows(pred, append([]row(nil), got...)) {
				known = fmt.Sprintf("%s: %s\n  returned rows: %s\n  %s", kind, detail, describeRows(got), data())
				return nil, classes, nt, known
			}
		}
		return failf(kind, "%s\n  returned rows: %s\n  %s", detail, describeRows(got), data()), classes, nt, ""
	}
	var tot model.Counters
	for _, c := range want {
		tot.AddC(c)
	}
	gt := qr.Res.Summary.Totals
	if (model.Counters{BR: gt.BytesRcvd, BS: gt.BytesSent, PR: gt.PacketsRcvd, PS: gt.PacketsSent}) != tot {
		return failf("totals", "totals %+v, sum of the rows %+v\n  %s", gt, tot, data()), classes, nt, ""
	}
	if qr.Res.Summary.Hits.Total != len(want) {
		return failf("hits", "hit count %d, rows %d\n  %s", qr.Res.Summary.Hits.Total, len(want), data()), classes, nt, ""
	}
	if strings.Join(qr.Res.Summary.Interfaces, ",") != strings.Join(resolved, ",") {
		return failf("interfaces", "interfaces %v, selected %v\n  %s", qr.Res.Summary.Interfaces, resolved, data()), classes, nt, ""
	}
	return nil, classes, nt, ""
}

func mapRows(m map[model.RowKey]model.Counters) []row {
	var out []row
	for k, c := range m {
		out = append(out, row{k, c})
	}
	return out
}

func toCap(r *runResult) *capharness.Result {
	return &capharness.Result{Blocks: r.Blocks, FinalLive: r.FinalLive, FinalStat: r.FinalStat, CloseTs: r.CloseTs}
}

func runFailure(r *runResult, who string) *failure {
	switch {
	case r.Panic != "":
		return failf(who+"panic", "panic inside the bubble: %s", r.Panic)
	case r.Err != nil && strings.HasPrefix(r.Err.Error(), "PANIC"):
		return failf(who+"panic", "%v", r.Err)
	case r.Err != nil && strings.HasPrefix(r.Err.Error(), "HANG"):
		return failf(who+"query-hang", "%v\nerror log: %s", r.Err, strings.Join(r.ErrorLogs, " | "))
	case r.Err != nil:
		return failf(who+"capture-stalled", "%v\nerror log: %s", r.Err, strings.Join(r.ErrorLogs, " | "))
	case r.ReadErr != nil:
		return failf(who+"database-unreadable", "reading the written database back: %v\nerror log: %s", r.ReadErr, strings.Join(r.ErrorLogs, " | "))
	case len(r.FinalDup) > 0:
		return failf(who+"one-record-per-key", "flows in memory at the end: %s", strings.Join(r.FinalDup, "; "))
	}
	return nil
}

func run(t *testing.T, rt *rapid.T, excluding bool) {
	s := drawScript(rt, excluding)
	canon := s.canon()
	fatal := func(f *failure) {
		rt.Fatalf("%s", evid.Sig(f.sig, "%s\nscript:\n%s", f.text, canon))
	}
	atQuery, _ := inMemory(s)

	a := runScript(t, s, true) // bubble 1: with live queries
	if f := runFailure(a, ""); f != nil {
		evid.Case(canon, false, "run-failed")
		fatal(f)
	}
	if len(a.Queries) != len(s.Queries) {
		rt.Fatalf("harness: %d queries scripted, %d results", len(s.Queries), len(a.Queries))
	}
	mode := "including"
	if excluding {
		mode = "excluding"
	}
	set := map[string]bool{"mode:" + mode: true, fmt.Sprintf("ifaces:%d", len(s.Ifaces)): true}
	nt := false
	var first *failure
	var knownWit string
	for i := range a.Queries {
		qr := &a.Queries[i]
		if excluding {
			evid.Excluded(findingF24)
		}
		f, cls, qnt, known := checkQuery(s, a, qr, atQuery[qr.Action])
		for _, c := range cls {
			evid.Class(c)
			set["has-"+c] = true
		}
		if qnt {
			nt = true
			evid.Class("query:nontrivial")
		}
		if known != "" {
			evid.Class("known:live-flows-not-regrouped")
			if knownWit == "" {
				knownWit = known
			}
		}
		if f != nil && first == nil {
			first = f
		}
	}
	evid.ClassN("queries", int64(len(a.Queries)))
	if len(a.Queries) == 0 {
		set["no-live-query"] = true
	}
	if nt {
		set["nontrivial"] = true
	}
	var cl []string
	for c := range set {
		cl = append(cl, c)
	}
	sort.Strings(cl)
	evid.Case(canon, nt, cl...)
	if evid.WantSample(nt) {
		c := canon
		if len(c) > 2400 {
			c = c[:2400] + "…"
		}
		evid.Sample(map[string]any{"script": strings.Split(c, "\n"), "queries": len(a.Queries)}, nt)
	}
	if first != nil {
		fatal(first)
	}
	if knownWit != "" && !evid.Known(findingF24, knownWit) {
		rt.Fatalf("%s", evid.Sig("C29:live-flows-not-regrouped", "the in-memory flows are filtered but not regrouped by the query attributes (one row per in-memory flow, not merged with the stored group)\n  %s\nscript:\n%s", knownWit, canon))
	}

	// clause (2): the twin run without live queries
	tw := runScript(t, s, false) // bubble 2
	if f := runFailure(tw, "twin-"); f != nil {
		fatal(f)
	}
	if d := capharness.DiffRuns(s.Ifaces, toCap(a), toCap(tw), "live-query", "twin"); d != nil {
		fatal(failf("changed-"+d.Clause, "the run with live queries and the run without differ: %s\nerror log (run with live queries): %s", d.Text, strings.Join(a.ErrorLogs, " | ")))
	}
	if a.CloseTs != tw.CloseTs {
		rt.Fatalf("harness: the two runs end at different instants (%d / %d)", a.CloseTs, tw.CloseTs)
	}
}

// TestC29TwinNonDecisive: clause (2) alone on scripts that also contain conversations whose stored orientation
// is decided by the first packet seen (other protocols both ways, identical ports, both ports common, unknown ICMP
// types): what is written with live queries in between must equal what is written without them. The results of
// the queries themselves are not compared here (the in-memory model of clause (1) needs decisive conversations).
func TestC29TwinNonDecisive(t *testing.T) {
	rapid.Check(t, func(rt *rapid.T) {
		s := drawScript(rt, false, true)
		canon := s.canon()
		nAmb, early := 0, 0
		for _, c := range s.Convs {
			if c.Ambiguous {
				nAmb++
			}
		}
		// a query that directly follows a write-out (no packet in between) meets only idle flows
		for i, a := range s.Actions {
			if a.Kind == capharness.ActQuery && i > 0 {
				for j := i - 1; j >= 0; j-- {
					if s.Actions[j].Kind == capharness.ActRotate {
						early++
						break
					}
					if s.Actions[j].Kind == capharness.ActPkt {
						break
					}
				}
			}
		}
		nt := nAmb > 0 && early > 0 && len(s.Queries) > 0
		cl := []string{"twin-only"}
		if nAmb > 0 {
			cl = append(cl, "twin-only:non-decisive-conversation")
		}
		if early > 0 {
			cl = append(cl, "twin-only:query-directly-after-write-out")
		}
		if nt {
			cl = append(cl, "twin-only:nontrivial")
		}
		evid.Case("twin|"+canon, nt, cl...)
		if evid.WantSample(nt) {
			c := canon
			if len(c) > 2000 {
				c = c[:2000] + "…"
			}
			evid.Sample(map[string]any{"kind": "twin comparison with non-decisive conversations", "script": strings.Split(c, "\n"), "queries": len(s.Queries), "non_decisive_conversations": nAmb}, nt)
		}
		a := runScript(t, s, true)
		if f := runFailure(a, ""); f != nil {
			rt.Fatalf("%s", evid.Sig(f.sig, "%s\nscript:\n%s", f.text, canon))
		}
		tw := runScript(t, s, false)
		if f := runFailure(tw, "twin-"); f != nil {
			rt.Fatalf("%s", evid.Sig(f.sig, "%s\nscript:\n%s", f.text, canon))
		}
		if d := capharness.DiffRuns(s.Ifaces, toCap(a), toCap(tw), "live-query", "twin"); d != nil {
			rt.Fatalf("%s", evid.Sig("C29:changed-"+d.Clause, "the run with live queries and the run without differ: %s\nerror log (run with live queries): %s\nscript:\n%s", d.Text, strings.Join(a.ErrorLogs, " | "), canon))
		}
	})
}

// TestC29Live searches the whole domain (queries with attribute subsets included).
func TestC29Live(t *testing.T) {
	rapid.Check(t, func(rt *rapid.T) { run(t, rt, false) })
}

// TestC29LiveExcluding searches everything finding C29-F24 does not touch: every query asks for all four attributes.
func TestC29LiveExcluding(t *testing.T) {
	rapid.Check(t, func(rt *rapid.T) { run(t, rt, true) })
}
