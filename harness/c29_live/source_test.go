package c29

import (
	"errors"
	"fmt"
	"sync"
	"time"

	"github.com/fako1024/gotools/link"
	slimcap "github.com/fako1024/slimcap/capture"

	"verifharness/c20_capture/capharness"
)

// deliverTimeout is the fake-clock bound on handing a packet to a capture: nobody consuming becomes a reported failure.
const deliverTimeout = 5 * time.Second

type delivery struct {
	layer   []byte
	pktType byte
	size    uint32
}

// chanSource is an in-memory slimcap SourceZeroCopy (the recipe of DESIGN §13, as in capharness.Source but
// without pause-window call-backs): packet delivery is an unbuffered channel hand-off, Unblock a buffered signal.
type chanSource struct {
	name  string
	pkts  chan delivery
	unblk chan struct{}
	stop  chan struct{}
	once  sync.Once

	mu     sync.Mutex
	parked bool   // the capture is blocked in NextIPPacketZeroCopy
	last   []byte // the slice handed out by the previous call (poisoned on the next call: zero-copy contract)
	recv   uint64
}

func newChanSource(name string) *chanSource {
	return &chanSource{name: name, pkts: make(chan delivery), unblk: make(chan struct{}, 64), stop: make(chan struct{})}
}

func (s *chanSource) isParked() bool { s.mu.Lock(); defer s.mu.Unlock(); return s.parked }

// NextIPPacketZeroCopy blocks until a packet, an unblock signal or Close arrives. A pending stop / unblock
// signal wins over a packet (deterministic).
func (s *chanSource) NextIPPacketZeroCopy() (slimcap.IPLayer, slimcap.PacketType, uint32, error) {
	s.mu.Lock()
	s.parked = true
	for i := range s.last { // the previous packet's memory is gone (ring buffer slot released)
		s.last[i] = 0xee
	}
	s.last = nil
	s.mu.Unlock()
	unpark := func() { s.mu.Lock(); s.parked = false; s.mu.Unlock() }
	select {
	case <-s.stop:
		unpark()
		return nil, 0, 0, slimcap.ErrCaptureStopped
	default:
	}
	select {
	case <-s.unblk:
		unpark()
		return nil, 0, 0, slimcap.ErrCaptureUnblocked
	default:
	}
	select {
	case <-s.stop:
		unpark()
		return nil, 0, 0, slimcap.ErrCaptureStopped
	case <-s.unblk:
		unpark()
		return nil, 0, 0, slimcap.ErrCaptureUnblocked
	case d := <-s.pkts:
		s.mu.Lock()
		s.parked = false
		s.last = d.layer
		s.recv++
		s.mu.Unlock()
		return d.layer, d.pktType, d.size, nil
	}
}

// deliver hands one packet to the capture (a copy of the layer: the capture may not keep it).
func (s *chanSource) deliver(p *capharness.Packet) error {
	d := delivery{layer: append([]byte(nil), p.Layer...), pktType: p.PktType, size: p.Size}
	tm := time.NewTimer(deliverTimeout)
	defer tm.Stop()
	select {
	case s.pkts <- d:
		return nil
	case <-tm.C:
		return fmt.Errorf("capture on %s did not take packet %v within %v of the fake clock (it is not polling its source)", s.name, p, deliverTimeout)
	}
}

// Unblock is called by the three-point lock: first for the lock request, then for the unlock request.
func (s *chanSource) Unblock() error {
	select {
	case s.unblk <- struct{}{}:
	default: // signals coalesce like an eventfd counter
	}
	return nil
}

func (s *chanSource) Stats() (slimcap.Stats, error) {
	s.mu.Lock()
	st := slimcap.Stats{PacketsReceived: s.recv}
	s.recv = 0
	s.mu.Unlock()
	return st, nil
}

func (s *chanSource) Close() error {
	s.once.Do(func() { close(s.stop) })
	return nil
}

func (s *chanSource) Link() *link.Link { return nil }

// The capture uses NextIPPacketZeroCopy, Unblock, Stats, Close and Link only.
var errUnused = errors.New("c29: method not used by goProbe")

func (s *chanSource) NextPayloadZeroCopy() ([]byte, slimcap.PacketType, uint32, error) {
	panic(errUnused)
}
func (s *chanSource) NewPacket() slimcap.Packet                         { panic(errUnused) }
func (s *chanSource) NextPacket(slimcap.Packet) (slimcap.Packet, error) { panic(errUnused) }
func (s *chanSource) NextPayload([]byte) ([]byte, byte, uint32, error)  { panic(errUnused) }
func (s *chanSource) NextIPPacket(slimcap.IPLayer) (slimcap.IPLayer, slimcap.PacketType, uint32, error) {
	panic(errUnused)
}
func (s *chanSource) NextPacketFn(func([]byte, uint32, slimcap.PacketType, byte) error) error {
	panic(errUnused)
}
