package c29

import (
	"context"
	"errors"
	"fmt"
	"log/slog"
	"os"
	"path/filepath"
	"runtime/debug"
	"strings"
	"sync"
	"sync/atomic"
	"testing"
	"testing/synctest"
	"time"

	"github.com/els0r/goProbe/v4/cmd/goProbe/config"
	"github.com/els0r/goProbe/v4/pkg/capture"
	"github.com/els0r/goProbe/v4/pkg/goDB/engine"
	"github.com/els0r/goProbe/v4/pkg/results"
	"github.com/els0r/goProbe/v4/pkg/types"
	"github.com/els0r/goProbe/v4/pkg/types/hashmap"
	"github.com/els0r/telemetry/logging"

	"verifharness/c20_capture/capharness"
	"verifharness/internal/qgen"
)

// queryTimeout is the fake-clock bound on one engine query (a query takes no fake time unless it hangs).
const queryTimeout = 60 * time.Second

// script is a capture script (capharness) whose ActQuery actions are live engine queries.
type script struct {
	*capharness.Script
	Queries map[int]*qgen.Query // by action index
}

// queryResult is what one live query returned.
type queryResult struct {
	Action int
	Now    int64    // fake clock (unix seconds) at the query
	Dirs   []string // interface directories that existed in the database when the query ran
	Res    *results.Result
	Err    error
}

// runResult is everything observable about one run.
type runResult struct {
	Err       error  // driver level failure (capture not polling, start-up failure, query hang ...)
	Panic     string // panic inside the bubble
	Queries   []queryResult
	FinalLive map[string]capharness.FlowSet // GetFlowMaps just before Close
	FinalDup  []string
	FinalStat map[string]capharness.StatusResult
	CloseTs   int64
	Blocks    map[string][]capharness.Block // read back after the run, per interface, ordered by timestamp
	ReadErr   error
	ErrorLogs []string
}

// ---------------------------------------------------------------- logging

type runLog struct {
	mu   sync.Mutex
	logs []string
}

var currentLog atomic.Pointer[runLog]

type logHandler struct{ attrs []slog.Attr }

func (h *logHandler) Enabled(_ context.Context, l slog.Level) bool { return l >= slog.LevelError }
func (h *logHandler) Handle(_ context.Context, rec slog.Record) error {
	r := currentLog.Load()
	if r == nil {
		return nil
	}
	var sb strings.Builder
	sb.WriteString(rec.Message)
	for _, a := range h.attrs {
		fmt.Fprintf(&sb, " %s=%v", a.Key, a.Value)
	}
	rec.Attrs(func(a slog.Attr) bool { fmt.Fprintf(&sb, " %s=%v", a.Key, a.Value); return true })
	r.mu.Lock()
	r.logs = append(r.logs, sb.String())
	r.mu.Unlock()
	return nil
}
func (h *logHandler) WithAttrs(attrs []slog.Attr) slog.Handler {
	return &logHandler{attrs: append(append([]slog.Attr(nil), h.attrs...), attrs...)}
}
func (h *logHandler) WithGroup(string) slog.Handler { return h }

type devNull struct{}

func (devNull) Write(p []byte) (int, error) { return len(p), nil }

var logOnce sync.Once

// installLogger routes goProbe's global logger (a wrapper around slog.Default) to the harness: error records are
// collected per run, everything else is discarded.
func installLogger() {
	logOnce.Do(func() {
		_, _ = logging.Init(logging.LevelError, logging.EncodingLogfmt, logging.WithOutput(devNull{}))
		slog.SetDefault(slog.New(&logHandler{}))
	})
}

// ---------------------------------------------------------------- driver

// runScript executes the script against a real capture.Manager (real GoDB write-out handler, temporary database)
// and, if live is set, an engine.QueryRunner with WithLiveData(manager), inside a synctest bubble; afterwards it
// reads the database back. With live unset the ActQuery actions are skipped (the twin run).
func runScript(t *testing.T, s *script, live bool) *runResult {
	installLogger()
	res := &runResult{Blocks: map[string][]capharness.Block{}}
	dir, err := os.MkdirTemp(os.Getenv("VERIF_WORK"), "c29-")
	if err != nil {
		res.Err = fmt.Errorf("tempdir: %w", err)
		return res
	}
	defer os.RemoveAll(dir)
	lg := &runLog{}
	currentLog.Store(lg)
	func() {
		defer func() {
			if p := recover(); p != nil {
				res.Panic = fmt.Sprintf("%v\n%s", p, debug.Stack())
			}
		}()
		synctest.Test(t, func(*testing.T) {
			defer func() {
				// a panic must not leave the bubble goroutine (rapid could not recover it)
				if p := recover(); p != nil {
					res.Panic = fmt.Sprintf("%v\n%s", p, debug.Stack())
				}
			}()
			bubble(s, live, dir, res)
		})
	}()
	currentLog.Store(nil)
	lg.mu.Lock()
	res.ErrorLogs = lg.logs
	lg.mu.Unlock()
	if res.Err == nil && res.Panic == "" {
		for _, iface := range s.Ifaces {
			b, err := capharness.ReadBlocks(filepath.Join(dir, iface))
			if err != nil {
				res.ReadErr = fmt.Errorf("%s: %w", iface, err)
				break
			}
			res.Blocks[iface] = b
		}
	}
	return res
}

func bubble(s *script, live bool, dir string, res *runResult) {
	srcs := map[string]*chanSource{}
	for _, n := range s.Ifaces {
		srcs[n] = newChanSource(n)
	}
	if start := time.Now(); !start.Equal(capharness.T0) {
		res.Err = fmt.Errorf("bubble clock starts at %v", start)
		return
	}
	sleepUntil := func(off int64) {
		if d := time.Until(capharness.T0.Add(time.Duration(off))); d > 0 {
			time.Sleep(d)
		}
	}
	sleepUntil(s.StartOffset)

	ctx, cancel := context.WithCancel(context.Background())
	cfg := &config.Config{DB: config.DBConfig{Path: dir, EncoderType: s.Encoder}, Interfaces: config.Ifaces{}}
	for _, n := range s.Ifaces {
		cfg.Interfaces[n] = config.DefaultCaptureConfig()
	}
	mgr, err := capture.InitManager(ctx, cfg,
		capture.WithSourceInitFn(func(c *capture.Capture) (capture.Source, error) {
			src := srcs[c.Iface()]
			if src == nil {
				return nil, fmt.Errorf("no source for %s", c.Iface())
			}
			return src, nil
		}),
		capture.WithLocalBuffers(s.NBuffers, s.BufLimit))
	if err != nil {
		cancel()
		res.Err = fmt.Errorf("InitManager: %w", err)
		return
	}
	// the runner the API server of goProbe creates (pkg/api/goprobe/server): one runner, reused for every query
	runner := engine.NewQueryRunner(dir, engine.WithLiveData(mgr))

	// leaving the bubble: every goroutine of the manager has to end
	abort := func() {
		cancel()
		for _, src := range srcs {
			src.Close()
		}
		time.Sleep(time.Duration(capharness.Interval) + time.Second)
	}
	var fail error
	settle := func(what string) bool {
		synctest.Wait()
		for _, n := range s.Ifaces {
			if !srcs[n].isParked() {
				fail = fmt.Errorf("%s: the capture on %s is not waiting for packets", what, n)
				return false
			}
		}
		return true
	}
	status := func() map[string]capharness.StatusResult {
		out := map[string]capharness.StatusResult{}
		for n, st := range mgr.Status(ctx) {
			r := capharness.StatusResult{Processed: st.Processed, ProcessedTotal: st.ProcessedTotal}
			for i := range r.ParsingErrors {
				r.ParsingErrors[i] = st.ParsingErrors[i]
			}
			out[n] = r
		}
		return out
	}
	flowMaps := func() (map[string]capharness.FlowSet, []string) {
		ch := make(chan hashmap.AggFlowMapWithMetadata, len(s.Ifaces)+1)
		mgr.GetFlowMaps(ctx, nil, ch)
		close(ch)
		out := map[string]capharness.FlowSet{}
		var dup []string
		for m := range ch {
			fs, d := flowSetOf(m.AggFlowMap)
			if _, twice := out[m.Interface]; twice {
				dup = append(dup, "interface "+m.Interface+" reported twice")
			}
			for _, k := range d {
				dup = append(dup, m.Interface+": "+k.String())
			}
			out[m.Interface] = fs
		}
		return out, dup
	}
	liveQuery := func(i int, q *qgen.Query) bool {
		qr := queryResult{Action: i, Now: time.Now().Unix()}
		if ents, err := os.ReadDir(dir); err == nil {
			for _, e := range ents {
				if e.IsDir() {
					qr.Dirs = append(qr.Dirs, e.Name())
				}
			}
		}
		args := q.Args // a copy: Prepare may normalise fields
		type out struct {
			res *results.Result
			err error
			pan string
		}
		done := make(chan out, 1)
		qctx, qcancel := context.WithCancel(ctx)
		go func() {
			var o out
			defer func() {
				if p := recover(); p != nil {
					o.pan = fmt.Sprintf("%v\n%s", p, debug.Stack())
				}
				done <- o
			}()
			o.res, o.err = runner.Run(qctx, &args)
		}()
		tm := time.NewTimer(queryTimeout)
		defer tm.Stop()
		select {
		case o := <-done:
			qcancel()
			if o.pan != "" {
				fail = fmt.Errorf("PANIC in live query (action %d, %s): %s", i, q.Desc, o.pan)
				return false
			}
			qr.Res, qr.Err = o.res, o.err
			res.Queries = append(res.Queries, qr)
			return true
		case <-tm.C:
			qcancel()
			fail = fmt.Errorf("HANG: live query (action %d, %s) did not return within %v of the fake clock", i, q.Desc, queryTimeout)
			return false
		}
	}

	ok := settle("after start-up")
	for i, a := range s.Actions {
		if !ok {
			break
		}
		what := fmt.Sprintf("action %d (%s at +%v)", i, a.Kind, time.Duration(a.At))
		switch a.Kind {
		case capharness.ActPkt:
			sleepUntil(a.At)
			if err := srcs[s.Ifaces[a.Iface]].deliver(a.P); err != nil {
				fail, ok = err, false
				break
			}
			ok = settle(what)
		case capharness.ActQuery:
			sleepUntil(a.At)
			if live {
				ok = liveQuery(i, s.Queries[i]) && settle(what)
			}
		case capharness.ActRotate:
			// the scheduler goroutine performs the write-out at the boundary; the clock can only pass it once
			// every goroutine (including the write-out) is durably blocked again
			sleepUntil(a.At + 500)
			ok = settle(what)
		}
	}
	if !ok {
		res.Err = fail
		if res.Err == nil {
			res.Err = errors.New("driver stopped")
		}
		abort()
		return
	}
	// what is still in memory, then the final write-out performed by Close
	res.FinalStat = status()
	res.FinalLive, res.FinalDup = flowMaps()
	if !settle("final status/flow maps") {
		res.Err = fail
		abort()
		return
	}
	res.CloseTs = time.Now().Add(time.Second).Unix()
	mgr.Close(ctx)
	synctest.Wait()
	cancel()
	// the ScheduleWriteouts goroutine notices the cancellation at its next tick only
	time.Sleep(time.Duration(capharness.Interval) + time.Second)
	synctest.Wait()
}

func flowSetOf(m *hashmap.AggFlowMap) (capharness.FlowSet, []capharness.Key) {
	out := capharness.FlowSet{}
	var dup []capharness.Key
	if m == nil {
		return out, nil
	}
	for it := m.Iter(); it.Next(); {
		k := types.Key(it.Key())
		key := capharness.Key{V6: !k.IsIPv4(), Sip: string(k.GetSIP()), Dip: string(k.GetDIP()),
			Dport: uint16(k.GetDport()[0])<<8 | uint16(k.GetDport()[1]), Proto: k.GetProto()}
		v := it.Val()
		if _, twice := out[key]; twice {
			dup = append(dup, key)
		}
		c := out[key]
		c.Add(capharness.Counters{BR: v.BytesRcvd, BS: v.BytesSent, PR: v.PacketsRcvd, PS: v.PacketsSent})
		out[key] = c
	}
	return out, dup
}
