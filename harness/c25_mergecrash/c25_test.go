// C25 — an interrupted merge never duplicates or hides data.
package c25

import (
	"fmt"
	"os"
	"os/exec"
	"path/filepath"
	"sort"
	"strings"
	"testing"
	"time"

	"github.com/els0r/goProbe/v4/pkg/goDB/encoder/encoders"
	"github.com/els0r/goProbe/v4/pkg/query"
	"pgregory.net/rapid"

	"verifharness/internal/crashlab"
	"verifharness/internal/evid"
	"verifharness/internal/execpool"
	"verifharness/internal/gen"
	"verifharness/internal/model"
	"verifharness/internal/qgen"
	"verifharness/internal/strace"
)

func TestMain(m *testing.M) {
	evid.Rule("a source and a destination database (2 interfaces × 2 days each side: day absent / partial / complete, shared block timestamps with different contents) are generated; `gpdb merge` (goDB.MergeDatabases with drawn options overwrite / tolerance) runs in the scripted writer under strace; " +
		"a clean run yields the merged state of every (interface, day) and the table of file-system call positions; for selected (thorough: all) positions a fresh copy of the destination is merged and the process killed on entry to exactly that call; " +
		"oracle on the survivor (examined through the executor child): every (interface, day) holds either its pre-merge or its merged content (never both: exactly one directory per day is visible; never neither), the interface list holds no staging or backup entry, queries over every interface and over any and the interface listings succeed and return for every day one of the two contents, and running the merge again succeeds and converges to the merged state; " +
		"non-trivial = the kill lands between the two renames of a day's commit or while the stage directory exists; distinct by (databases, options, position)")
	evid.Assume("the merged state is taken from a clean run of the same merge (C24 checks the clean merge against the documented plan)", "process kill on system call entry; no power-loss model")
	evid.Main(m)
}

var (
	child  = execpool.New(execpool.Bin("gpexec"), "TZ=UTC")
	writer = execpool.Bin("gpwriter")
)

func work() string {
	if w := os.Getenv("VERIF_WORK"); w != "" {
		return w
	}
	return os.TempDir()
}

const day0 = crashlab.Day0

// drawSide draws one side: per interface and day absent / partial / complete.
func drawSide(t *rapid.T, side string, shared map[string][]int64) *model.DB {
	db := &model.DB{Ifaces: map[string][]model.Block{}}
	for ii, ifc := range []string{"eth0", "eth1"} {
		for d := 0; d < 2; d++ {
			kind := rapid.SampledFrom([]string{"absent", "partial", "partial", "complete"}).Draw(t, fmt.Sprintf("%s.%s.d%d.kind", side, ifc, d))
			var slots []int
			switch kind {
			case "absent":
				continue
			case "partial":
				slots = []int{100 + rapid.IntRange(0, 3).Draw(t, fmt.Sprintf("%s.%s.d%d.s0", side, ifc, d)), 110 + rapid.IntRange(0, 3).Draw(t, fmt.Sprintf("%s.%s.d%d.s1", side, ifc, d))}
			case "complete":
				slots = []int{0, 1, 100 + rapid.IntRange(0, 3).Draw(t, fmt.Sprintf("%s.%s.d%d.sm", side, ifc, d)), 286, 287}
			}
			key := fmt.Sprintf("%s/%d", ifc, d)
			for si, s := range slots {
				ts := day0 + int64(d)*86400 + int64(s)*300
				shared[key] = append(shared[key], ts)
				fl := gen.FlowOf(fmt.Sprintf("10.%d.%d.%d", ii+1, d+1, si+1), "192.168.1.34", 443, 6)
				if side == "src" {
					fl.PR, fl.BR = uint64(1000+si), uint64(100000+si)
				} else {
					fl.PR, fl.BR, fl.PS, fl.BS = uint64(1+si), uint64(100+si), 1, 60
				}
				db.Ifaces[ifc] = append(db.Ifaces[ifc], model.Block{Ts: ts, Drops: uint64(si), Flows: []model.Flow{fl}})
			}
		}
		b := db.Ifaces[ifc]
		sort.Slice(b, func(i, j int) bool { return b[i].Ts < b[j].Ts })
	}
	return db
}

func copyTree(src, dst string) error {
	return exec.Command("cp", "-a", src, dst).Run()
}

// state: interface -> day timestamp -> content of the regular directory of that day (or, if only a
// merge backup directory exists for it, of that one). backups lists the days for which a directory named
// '<day>.gpdb-merge-backup-<ns>' is visible next to a regular one.
func state(db string, ifaces []string) (st map[string]map[int64]string, backups map[string]bool, problems []string, err error) {
	st = map[string]map[int64]string{}
	backups = map[string]bool{}
	for _, ifc := range ifaces {
		days, derr := crashlab.Dump(child, db, ifc)
		if derr != nil {
			return nil, nil, nil, derr
		}
		st[ifc] = map[int64]string{}
		regular := map[int64]bool{}
		// regular directories first
		for pass := 0; pass < 2; pass++ {
			for _, d := range days {
				isBackup := strings.Contains(d.Dir, ".gpdb-merge-backup-")
				if isBackup != (pass == 1) {
					continue
				}
				key := fmt.Sprintf("%s/%d", ifc, d.DayTs)
				if isBackup {
					if regular[d.DayTs] {
						backups[key] = true // both visible: the day is there twice
						continue
					}
					// only the backup is visible: it is what readers take for the day
				}
				if d.Err != "" {
					problems = append(problems, fmt.Sprintf("%s/%s unreadable: %s", ifc, d.Dir, d.Err))
					continue
				}
				if _, dup := st[ifc][d.DayTs]; dup {
					problems = append(problems, fmt.Sprintf("%s day %d has more than one regular directory (%s)", ifc, d.DayTs, d.Dir))
					continue
				}
				st[ifc][d.DayTs] = d.Content()
				regular[d.DayTs] = true
			}
		}
	}
	return st, backups, problems, nil
}

func rowsPerDay(db, ifArg string, sel []string) (map[string]string, string, error) {
	args := query.Args{Query: "time,sip,dip,dport,proto", Ifaces: ifArg, First: fmt.Sprintf("%d", day0-86400), Last: fmt.Sprintf("%d", day0+40*86400),
		Format: "json", MaxMemPct: 100, NumResults: 1 << 40, DNSResolution: query.DNSResolution{Timeout: time.Second, MaxRows: 25}}
	var resp qgen.Response
	if err := child.Call(qgen.Request{Op: "query", DB: db, Args: &args}, &resp, 60*time.Second); err != nil {
		return nil, "", err
	}
	if resp.Err != "" {
		return nil, resp.Err, nil
	}
	per := map[string][]string{}
	for _, r := range resp.Result.Rows {
		ts := r.Labels.Timestamp.Unix()
		k := fmt.Sprintf("%s/%d", r.Labels.Iface, ts-ts%86400)
		per[k] = append(per[k], fmt.Sprintf("%d %s %+v", ts, r.Attributes.String(), r.Counters))
	}
	out := map[string]string{}
	for k, v := range per {
		sort.Strings(v)
		out[k] = strings.Join(v, ";")
	}
	return out, "", nil
}

func TestC25MergeCrash(t *testing.T) {
	full := evid.Thorough()
	rapid.Check(t, func(t *rapid.T) {
		root, err := os.MkdirTemp(work(), "c25-")
		if err != nil {
			t.Fatalf("tempdir: %v", err)
		}
		defer os.RemoveAll(root)
		shared := map[string][]int64{}
		srcDB := drawSide(t, "src", shared)
		dstDB := drawSide(t, "dst", shared)
		if len(srcDB.Ifaces) == 0 {
			t.Skip("empty source")
		}
		overwrite := rapid.Bool().Draw(t, "overwrite")
		src, tmpl := filepath.Join(root, "src"), filepath.Join(root, "dst-template")
		os.MkdirAll(tmpl, 0o755)
		if err := gen.WriteDB(srcDB, src, encoders.EncoderTypeLZ4); err != nil {
			t.Fatalf("harness: %v", err)
		}
		if err := gen.WriteDB(dstDB, tmpl, encoders.EncoderTypeLZ4); err != nil {
			t.Fatalf("harness: %v", err)
		}
		ifaces := []string{"eth0", "eth1"}
		dst := filepath.Join(root, "dst")
		sc := &crashlab.Script{DB: dst, Encoder: "lz4", Steps: []crashlab.Step{{Op: "merge", Src: src, Overwrite: overwrite, Tolerance: 600}}}
		scriptPath := filepath.Join(root, "merge.json")
		if err := sc.Save(scriptPath); err != nil {
			t.Fatalf("harness: %v", err)
		}
		desc := fmt.Sprintf("overwrite=%v\n  source: %s\n  destination: %s", overwrite, strings.Join(gen.DescribeDB(srcDB), " | "), strings.Join(gen.DescribeDB(dstDB), " | "))

		fresh := func() {
			os.RemoveAll(dst)
			if err := copyTree(tmpl, dst); err != nil {
				t.Fatalf("harness: copy: %v", err)
			}
		}
		// pre-merge state
		fresh()
		pre, _, prob, err := state(dst, ifaces)
		if err != nil || len(prob) > 0 {
			t.Fatalf("harness: pre-merge state: %v %v", err, prob)
		}
		preRows, _, _ := rowsPerDay(dst, "any", ifaces)
		// clean (traced) run = merged state + position table
		dry, err := strace.Exec(writer, scriptPath, root, "")
		if err != nil {
			t.Fatalf("INCONCLUSIVE[strace dry run failed: %v]", err)
		}
		if !strings.Contains(dry.Stdout, `["ok"]`) {
			t.Fatalf("%s", evid.Sig("C25:clean-merge-failed", "the merge fails without any crash: %s\n  %s", dry.Stdout, desc))
		}
		post, postBackups, prob, err := state(dst, ifaces)
		if err != nil || len(prob) > 0 || len(postBackups) > 0 {
			t.Fatalf("%s", evid.Sig("C25:clean-merge-state", "state after a clean merge: %v %v\n  %s", err, prob, desc))
		}
		postRows, qerr, _ := rowsPerDay(dst, "any", ifaces)
		if qerr != "" {
			t.Fatalf("%s", evid.Sig("C25:clean-merge-state", "query after a clean merge fails: %s\n  %s", qerr, desc))
		}
		fresh()
		dry2, err := strace.Exec(writer, scriptPath, root, "")
		if err != nil || !strace.SameShape(dry, dry2) {
			t.Fatalf("INCONCLUSIVE[two dry runs differ in shape: %v]", err)
		}
		// positions: renames, directory creations/removals and a sample of the rest
		var important, rest []strace.Call
		stageSeen := false
		inStage := map[int]bool{}
		for _, c := range dry.Calls {
			if c.Step != 0 || c.Marker != "" {
				continue
			}
			if strings.Contains(c.Args, ".gpdb-merge-stage-") {
				stageSeen = true
			}
			inStage[c.Index] = stageSeen
			if strings.HasPrefix(c.Name, "rename") || (strings.HasPrefix(c.Name, "unlink") && strings.Contains(c.Args, "gpdb-merge")) || (strings.HasPrefix(c.Name, "mkdir") && strings.Contains(c.Args, dst)) {
				important = append(important, c)
			} else {
				rest = append(rest, c)
			}
		}
		positions := append([]strace.Call(nil), important...)
		if full {
			positions = append(positions, rest...)
		} else if len(rest) > 0 {
			perm := rapid.Permutation(rest).Draw(t, "sample")
			positions = append(positions, perm[:min(len(perm), 14)]...)
			if len(positions) > 30 {
				perm2 := rapid.Permutation(positions).Draw(t, "cap")
				positions = perm2[:30]
			}
		}
		allDays := map[string]bool{}
		for _, ifc := range ifaces {
			for d := range pre[ifc] {
				allDays[fmt.Sprintf("%s/%d", ifc, d)] = true
			}
			for d := range post[ifc] {
				allDays[fmt.Sprintf("%s/%d", ifc, d)] = true
			}
		}
		for _, p := range positions {
			// is the kill between the two renames of a commit (the call before it on a rename was a backup rename)?
			betweenRenames := false
			if strings.HasPrefix(p.Name, "rename") {
				for i := p.Index - 1; i >= 0 && i > p.Index-6; i-- {
					if strings.HasPrefix(dry.Calls[i].Name, "rename") && strings.Contains(dry.Calls[i].Args, "gpdb-merge-backup") {
						betweenRenames = true
					}
				}
			}
			nt := betweenRenames || inStage[p.Index]
			var cls []string
			if betweenRenames {
				cls = append(cls, "kill-between-commit-renames")
			}
			if inStage[p.Index] {
				cls = append(cls, "kill-while-stage-exists")
			}
			cls = append(cls, "call:"+p.Name)
			evid.Case(fmt.Sprintf("%s|%d", desc, p.Index), nt, cls...)
			if evid.WantSample(nt) {
				evid.Sample(map[string]any{"setup": desc, "kill_at": p.String()}, nt)
			}
			fresh()
			run, err := strace.Exec(writer, scriptPath, root, strace.KillAt(p))
			if err != nil {
				t.Fatalf("INCONCLUSIVE[strace run failed: %v]", err)
			}
			if !run.Killed || len(run.Calls) != p.Index+1 {
				t.Fatalf("INCONCLUSIVE[kill did not land at the requested position: killed=%v calls=%d want %d]", run.Killed, len(run.Calls), p.Index+1)
			}
			ctx := fmt.Sprintf("kill at %s\n  %s", p, desc)
			// interface list
			var ir qgen.Response
			if err := child.Call(qgen.Request{Op: "ifaces", DB: dst}, &ir, 30*time.Second); err != nil {
				t.Fatalf("harness: %v", err)
			}
			leftover := ""
			for _, n := range ir.Ifaces {
				if n != "eth0" && n != "eth1" {
					leftover = n
				}
			}
			if leftover != "" {
				if !evid.Known("C25-F18a", fmt.Sprintf("interface list %v after %s", ir.Ifaces, p)) {
					t.Fatalf("%s", evid.Sig("C25:staging-listed-as-interface", "the interface list after the kill contains %q: %v\n  %s", leftover, ir.Ifaces, ctx))
				}
			}
			// per-day state
			st, backups, problems, err := state(dst, ifaces)
			if err != nil {
				if ce, ok := execpool.IsCrash(err); ok {
					t.Fatalf("%s", evid.Sig("C25:reader-crash:"+ce.Signature, "%s\n  %s", ce.Signature, ctx))
				}
				t.Fatalf("harness: %v", err)
			}
			for _, pr := range problems {
				t.Fatalf("%s", evid.Sig("C25:day-unreadable", "%s\n  %s", pr, ctx))
			}
			dupKnown := len(backups) > 0
			for k := range backups {
				if !evid.Known("C25-F18b", fmt.Sprintf("%s is visible twice (backup directory next to the merged one) after %s", k, p)) {
					t.Fatalf("%s", evid.Sig("C25:day-twice", "%s has two directories (the merge backup and the merged one): readers see the day twice\n  %s", k, ctx))
				}
			}
			for k := range allDays {
				var ifc string
				var d int64
				fmt.Sscanf(strings.ReplaceAll(k, "/", " "), "%s %d", &ifc, &d)
				got, ok := st[ifc][d]
				preC, hadPre := pre[ifc][d]
				postC, hasPost := post[ifc][d]
				switch {
				case !ok && (hadPre && hasPost):
					t.Fatalf("%s", evid.Sig("C25:day-hidden", "%s day %d holds neither its pre-merge nor its merged data (no directory visible)\n  %s", ifc, d, ctx))
				case !ok:
					// absent before or absent after: absence is one of the two states
				case (hadPre && got == preC) || (hasPost && got == postC):
				default:
					t.Fatalf("%s", evid.Sig("C25:day-mixed", "%s day %d holds neither exactly its pre-merge nor exactly its merged content\n  got  %s\n  pre  %s\n  post %s\n  %s", ifc, d, clip(got), clip(preC), clip(postC), ctx))
				}
			}
			// queries and listings
			for _, q := range [][2]string{{"eth0", "eth0"}, {"eth1", "eth1"}, {"any", ""}} {
				if _, err := os.Stat(filepath.Join(dst, q[0])); q[0] != "any" && err != nil {
					continue
				}
				rows, qerr, err := rowsPerDay(dst, q[0], ifaces)
				if err != nil {
					if ce, ok := execpool.IsCrash(err); ok {
						t.Fatalf("%s", evid.Sig("C25:query-crash:"+ce.Signature, "%s\n  %s", ce.Signature, ctx))
					}
					t.Fatalf("harness: %v", err)
				}
				if qerr != "" {
					if q[0] == "any" && leftover != "" && evid.Known("C25-F18a", fmt.Sprintf("query any fails after %s: %s", p, clipN(qerr, 120))) {
						continue
					}
					t.Fatalf("%s", evid.Sig("C25:query-error", "query over %s fails after the kill: %s\n  %s", q[0], qerr, ctx))
				}
				for k, got := range rows {
					if q[0] != "any" && !strings.HasPrefix(k, q[0]+"/") {
						continue
					}
					if got != preRows[k] && got != postRows[k] {
						if backups[k] {
							continue
						}
						t.Fatalf("%s", evid.Sig("C25:query-day-mixed", "query over %s: day %s returns neither its pre-merge nor its merged rows\n  got  %s\n  pre  %s\n  post %s\n  %s", q[0], k, clip(got), clip(preRows[k]), clip(postRows[k]), ctx))
					}
				}
				for k := range preRows {
					if _, ok := rows[k]; !ok && (q[0] == "any" || strings.HasPrefix(k, q[0]+"/")) && postRows[k] != "" {
						t.Fatalf("%s", evid.Sig("C25:query-day-hidden", "query over %s: day %s returns no rows although it held data before and after the merge\n  %s", q[0], k, ctx))
					}
				}
			}
			for _, ifc := range ifaces {
				if _, err := os.Stat(filepath.Join(dst, ifc)); err != nil {
					continue
				}
				if _, lerr, err := crashlab.List(child, dst, ifc); err != nil || lerr != "" {
					if ce, ok := execpool.IsCrash(err); ok {
						t.Fatalf("%s", evid.Sig("C25:listing-crash:"+ce.Signature, "%s\n  %s", ce.Signature, ctx))
					}
					t.Fatalf("%s", evid.Sig("C25:listing-error", "listing %s fails after the kill: %v %s\n  %s", ifc, err, lerr, ctx))
				}
			}
			// run the merge again: must succeed and converge
			res, err := crashlab.RunPlain(writer, scriptPath)
			if err == nil && len(res) == 1 && dupKnown && strings.Contains(res[0], "duplicate day timestamp") {
				// consequence of the open finding: the left-over backup directory makes the next merge refuse the interface
				evid.Known("C25-F18b", "re-running the merge fails: "+clipN(res[0], 160))
				continue
			}
			if err != nil || len(res) != 1 || res[0] != "ok" {
				t.Fatalf("%s", evid.Sig("C25:rerun-failed", "running the merge again after the kill fails: %v %v\n  %s", err, res, ctx))
			}
			st2, backups2, problems2, err := state(dst, ifaces)
			if err != nil {
				t.Fatalf("harness: %v", err)
			}
			for _, pr := range problems2 {
				t.Fatalf("%s", evid.Sig("C25:rerun-state", "after running the merge again: %s\n  %s", pr, ctx))
			}
			for k := range backups2 {
				if !evid.Known("C25-F18b", k+" still has a backup directory after re-running the merge; kill at "+p.String()) {
					t.Fatalf("%s", evid.Sig("C25:rerun-state", "after running the merge again %s still has two directories\n  %s", k, ctx))
				}
			}
			for _, ifc := range ifaces {
				for d, want := range post[ifc] {
					if st2[ifc][d] != want {
						if backups2[fmt.Sprintf("%s/%d", ifc, d)] {
							continue
						}
						t.Fatalf("%s", evid.Sig("C25:rerun-does-not-converge", "after running the merge again %s day %d differs from the merged state\n  got  %s\n  want %s\n  %s", ifc, d, clip(st2[ifc][d]), clip(want), ctx))
					}
				}
			}
		}
	})
}

func clip(s string) string { return clipN(s, 300) }

func clipN(s string, n int) string {
	if len(s) > n {
		return s[:n] + "…"
	}
	return s
}
