// C07 — every compressor restores exactly the bytes it was given and reports
// the number of bytes it emitted, whatever the scratch buffer looks like.
package c07

import (
	"bytes"
	"fmt"
	"os"
	"testing"

	"github.com/els0r/goProbe/v4/pkg/goDB/encoder"
	"github.com/els0r/goProbe/v4/pkg/goDB/encoder/encoders"
	"github.com/els0r/goProbe/v4/pkg/goDB/encoder/lz4"
	"github.com/els0r/goProbe/v4/pkg/goDB/encoder/zstd"
	"pgregory.net/rapid"

	"verifharness/internal/evid"
	"verifharness/internal/gen"
)

var variant = os.Getenv("VERIF_VARIANT")

func TestMain(m *testing.M) {
	evid.Rule("one encoder instance (null|lz4|zstd) is driven through a rapid-generated sequence of SetLevel / Compress+Decompress steps; data from length classes {0,1-64,…,4095-4097,8192-8193,…,300 KiB} × compressibility classes {zeros, period, random, mixed, alphabet}; " +
		"scratch buffer classes {nil, len 0 with small/large capacity, non-empty filled with junk (shorter and longer than the output), exactly the 8 KiB buffer the storage layer passes}; run in the build configurations cgo, CGO_ENABLED=0, goprobe_noliblz4, goprobe_nolibzstd; " +
		"non-trivial = the scratch buffer is non-empty (len>0) or the data is incompressible (output larger than input); distinct by (encoder, level, data hash, buffer class)")
	evid.Assume("levels are drawn from the documented useful ranges (lz4 1..12, zstd 1..19) plus 0 = keep default, as gpfile only calls SetLevel for level > 0",
		"the decompression buffers are sized by the caller as the Encoder contract requires: in = exactly the n compressed bytes, out = exactly len(data)")
	evid.Main(m)
}

type countWriter struct {
	buf bytes.Buffer
}

func (w *countWriter) Write(p []byte) (int, error) { return w.buf.Write(p) }

func drawScratch(t *rapid.T, want int) ([]byte, string) {
	cls := rapid.SampledFrom([]string{"nil", "len0-cap0", "len0-cap64", "len0-capbig", "junk-short", "junk-long", "junk-8k", "junk-exact"}).Draw(t, "bufcls")
	junk := func(n, c int) []byte {
		b := make([]byte, n, c)
		for i := range b {
			b[i] = 0xA5 ^ byte(i)
		}
		return b
	}
	switch cls {
	case "nil":
		return nil, cls
	case "len0-cap0":
		return []byte{}, cls
	case "len0-cap64":
		return make([]byte, 0, 64), cls
	case "len0-capbig":
		return make([]byte, 0, 2*want+1024), cls
	case "junk-short":
		n := rapid.IntRange(1, 64).Draw(t, "junklen")
		return junk(n, n+rapid.IntRange(0, 64).Draw(t, "junkcap")), cls
	case "junk-long":
		n := want + 1 + rapid.IntRange(0, 4096).Draw(t, "junkextra")
		return junk(n, n), cls
	case "junk-8k":
		return junk(8192, 8192), cls
	default:
		return junk(want, want+rapid.IntRange(0, 16).Draw(t, "junkcap")), cls
	}
}

func TestC07RoundTrip(t *testing.T) {
	maxLen := evid.Pick(120000, 300000)
	rapid.Check(t, func(t *rapid.T) {
		et := rapid.SampledFrom([]encoders.Type{encoders.EncoderTypeNull, encoders.EncoderTypeLZ4, encoders.EncoderTypeZSTD, encoders.EncoderTypeZSTD, encoders.EncoderTypeLZ4}).Draw(t, "encoder")
		enc, err := encoder.New(et)
		if err != nil {
			t.Fatalf("encoder.New(%v): %v", et, err)
		}
		defer enc.Close()
		maxLevel := 0
		switch et {
		case encoders.EncoderTypeLZ4:
			maxLevel = lz4.MaxCompressionLevel
		case encoders.EncoderTypeZSTD:
			maxLevel = zstd.MaxCompressionLevel
		}
		level := 0
		steps := rapid.IntRange(1, 6).Draw(t, "steps")
		for s := 0; s < steps; s++ {
			if rapid.IntRange(0, 2).Draw(t, "setlevel?") == 0 && maxLevel > 0 {
				level = rapid.IntRange(1, maxLevel).Draw(t, "level")
				enc.SetLevel(level)
			}
			p := gen.DrawPayload(t, fmt.Sprintf("data%d", s), maxLen)
			if rapid.IntRange(0, 39).Draw(t, "huge?") == 0 { // rarely an input above 1 MiB (window / buffer limits of the libraries)
				n := rapid.SampledFrom([]int{1 << 20, 1<<20 + 8, 1<<20 + 70000, 3 << 19, 3 << 20}).Draw(t, "hugelen")
				p = gen.DrawPayloadN(t, fmt.Sprintf("data%d", s), n, ">1MiB")
			}
			if len(p.Data) == 0 && rapid.Bool().Draw(t, "nil-input") {
				p.Data = nil // an empty input may just as well be a nil slice
				evid.Class("nil-input")
			}
			orig := append([]byte(nil), p.Data...)
			scratch, bcls := drawScratch(t, len(p.Data))
			w := &countWriter{}
			var (
				n   int
				err error
			)
			func() {
				// a Go panic inside the codec (not a crash of the C library) gets a signature of its own
				defer func() {
					if r := recover(); r != nil {
						if tn := fmt.Sprintf("%T", r); tn == "rapid.stopTest" || tn == "rapid.invalidData" {
							panic(r)
						}
						t.Fatalf("%s", evid.Sig("C07:compress-panic", "variant=%s enc=%s level=%d data{%s} buf(len %d cap %d): Compress panicked: %v", variant, et, level, p.Describe(), len(scratch), cap(scratch), r))
					}
				}()
				n, err = enc.Compress(p.Data, scratch, w)
			}()
			desc := fmt.Sprintf("variant=%s enc=%s level=%d step=%d data{%s} buf=%s(len %d cap %d)", variant, et, level, s, p.Describe(), bcls, len(scratch), cap(scratch))
			if err != nil {
				t.Fatalf("%s", evid.Sig("C07:compress-error", "%s: Compress: %v", desc, err))
			}
			if n != w.buf.Len() {
				t.Fatalf("%s", evid.Sig("C07:byte-count", "%s: Compress reported n=%d but the writer received %d bytes", desc, n, w.buf.Len()))
			}
			if !bytes.Equal(orig, p.Data) {
				t.Fatalf("%s", evid.Sig("C07:input-modified", "%s: Compress changed its input", desc))
			}
			comp := w.buf.Bytes()
			nt := len(scratch) > 0 || n > len(p.Data)
			evid.Case(fmt.Sprintf("%s|%d|%x|%s|%d", et, level, p.Data, bcls, len(scratch)), nt, "enc:"+et.String(), "len:"+p.LenCls, "comp:"+p.CompCls, "buf:"+bcls, "variant:"+variant)
			if evid.WantSample(nt) {
				evid.Sample(map[string]any{"variant": variant, "encoder": et.String(), "level": level, "data": p.Describe(), "scratch": bcls, "scratch_len": len(scratch), "compressed_len": n}, nt)
			}
			if n > len(p.Data) {
				evid.Class("expanding-output")
			}
			if len(p.Data) == 0 {
				// the storage layer never compresses or decompresses an empty block (it only records it in the header)
				continue
			}
			in := make([]byte, n)
			out := make([]byte, len(p.Data))
			for i := range out {
				out[i] = 0x5A
			}
			dn, err := enc.Decompress(in, out, bytes.NewReader(comp))
			if err != nil {
				t.Fatalf("%s", evid.Sig("C07:decompress-error", "%s: Decompress of %d bytes: %v", desc, n, err))
			}
			if dn != len(p.Data) {
				t.Fatalf("%s", evid.Sig("C07:decompressed-length", "%s: Decompress returned %d, want %d", desc, dn, len(p.Data)))
			}
			if !bytes.Equal(out, orig) {
				i := 0
				for i < len(out) && out[i] == orig[i] {
					i++
				}
				t.Fatalf("%s", evid.Sig("C07:roundtrip", "%s: decompressed bytes differ from the input at offset %d", desc, i))
			}
		}
	})
}
