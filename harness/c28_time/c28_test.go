// C28 — time arguments parse to the instant they denote.
//
// Absolute times: an instant t (1970…2068) is written with one of the published
// layouts (query.TimeFormatsDefault / TimeFormatsCustom), with an explicit UTC
// offset where the layout has one and in the process' local zone otherwise, and
// given to query.ParseTimeArgument. The expected instant is computed from t
// directly (truncation to the layout's precision), not by parsing.
//
// The local zone is selected by assigning time.Local inside the test process
// (ParseTimeArgument resolves "Local" through time.LoadLocation, which returns
// that variable). The tests of this package therefore must not run in parallel.
package c28

import (
	"fmt"
	"sort"
	"strconv"
	"strings"
	"testing"
	"time"
	_ "time/tzdata"

	"github.com/els0r/goProbe/v4/pkg/query"
	"pgregory.net/rapid"

	"verifharness/internal/evid"
)

func TestMain(m *testing.M) {
	evid.Rule("absolute: instant t uniform or near a zone transition / year boundary in 1970-01-02…2068-12-30, layout drawn from the published default+custom lists, " +
		"text = t formatted with that layout in a drawn UTC offset (-12:00…+14:00, whole minutes, or the local zone) if the layout carries an offset, else in the local zone; " +
		"local zone drawn from {UTC, Europe/Zurich, America/New_York, Asia/Kolkata, Australia/Lord_Howe} and installed as time.Local; non-trivial = the layout has a two-digit year or no explicit offset; distinct by (zone, text). " +
		"relative: '-' + any non-empty in-order subset of Xd, Yh, Zm (integers, optional zero padding) joined by ':' or by nothing; non-trivial = two or more units. " +
		"range: two endpoints (unix seconds, unambiguous offset-carrying layouts, relative forms); non-trivial = start after end, or endpoints in different notations")
	evid.Assume("time.ParseInLocation / Time.Format of the Go standard library are trusted to decide which layouts accept a text and which instant a text denotes under one layout",
		"two-digit years are generated only for civil years 1970…2068 (Go maps 69…99 to 19xx and 00…68 to 20xx; outside that window a two-digit year cannot denote the instant)",
		"texts that fall into a DST gap of the local zone are not generated: no instant formats to them; in a DST fold both instants that format to the text are accepted",
		"relative times are bracketed by clock reads immediately before and after the call; a text accepted by several supported layouts may parse to any of the instants they give (statement of C28)",
		"ParseTimeRange at start == end is not asserted on (doc comment says 'non-zero interval', the code accepts equality)")
	evid.Main(m)
}

// ---- zones

type zone struct {
	name    string
	loc     *time.Location
	offsets []int   // distinct UTC offsets (seconds) in force at some time in 1969…2070
	trans   []int64 // transition instants (first second of the new offset) in 1969…2070
}

var (
	zoneNames = []string{"UTC", "Europe/Zurich", "America/New_York", "Asia/Kolkata", "Australia/Lord_Howe"}
	zones     []*zone
	lo        = time.Date(1970, 1, 2, 0, 0, 0, 0, time.UTC).Unix()
	hi        = time.Date(2068, 12, 30, 23, 59, 59, 0, time.UTC).Unix()
)

func offsetAt(loc *time.Location, u int64) int {
	_, o := time.Unix(u, 0).In(loc).Zone()
	return o
}

func loadZones(tb testing.TB) {
	if zones != nil {
		return
	}
	from := time.Date(1969, 1, 1, 0, 0, 0, 0, time.UTC).Unix()
	to := time.Date(2070, 1, 1, 0, 0, 0, 0, time.UTC).Unix()
	for _, n := range zoneNames {
		loc, err := time.LoadLocation(n)
		if err != nil {
			tb.Fatalf("harness: cannot load zone %s: %v", n, err)
		}
		z := &zone{name: n, loc: loc}
		seen := map[int]bool{}
		prev := offsetAt(loc, from)
		seen[prev] = true
		const stepSec = 6 * 3600
		for u := from + stepSec; u <= to; u += stepSec {
			o := offsetAt(loc, u)
			if o != prev {
				// bisect for the first second with the new offset
				a, b := u-stepSec, u
				for b-a > 1 {
					mid := (a + b) / 2
					if offsetAt(loc, mid) == prev {
						a = mid
					} else {
						b = mid
					}
				}
				z.trans = append(z.trans, b)
				prev = o
				seen[o] = true
			}
		}
		for o := range seen {
			if o%60 != 0 {
				tb.Fatalf("harness: zone %s has an offset of %d s, not a whole minute; truncation rule does not apply", n, o)
			}
			z.offsets = append(z.offsets, o)
		}
		sort.Ints(z.offsets)
		zones = append(zones, z)
	}
}

// withLocal installs loc as the process' local zone and returns the restore function.
func withLocal(loc *time.Location) func() {
	old := time.Local
	time.Local = loc
	return func() { time.Local = old }
}

// ---- layouts

type layout struct {
	f         string
	hasOffset bool
	twoDigit  bool
	hasSec    bool
}

func layouts() []layout {
	var out []layout
	seen := map[string]bool{}
	for _, tf := range append(append([]query.TimeFormat{}, query.TimeFormatsDefault()...), query.TimeFormatsCustom()...) {
		if seen[tf.Format] {
			continue
		}
		seen[tf.Format] = true
		out = append(out, layout{
			f:         tf.Format,
			hasOffset: strings.Contains(tf.Format, "-0700") || strings.Contains(tf.Format, "Z07:00"),
			twoDigit:  !strings.Contains(tf.Format, "2006"),
			hasSec:    strings.Contains(tf.Format, ":05"),
		})
	}
	return out
}

// denoted returns the instants the text s denotes under layout l with local zone z
// (empty if l does not accept s): for a layout with an explicit offset the one
// instant; otherwise every instant whose rendering in z with l is s (two in a DST
// fold) plus what the standard library chooses (relevant only for gap texts).
func denoted(l layout, s string, z *zone) (set []int64, accepts bool) {
	p, err := time.ParseInLocation(l.f, s, z.loc)
	if err != nil {
		return nil, false
	}
	set = append(set, p.Unix())
	if l.hasOffset {
		return set, true
	}
	cu, err := time.ParseInLocation(l.f, s, time.UTC)
	if err != nil {
		return set, true
	}
	civil := cu.Unix()
	for _, off := range z.offsets {
		u := civil - int64(off)
		if offsetAt(z.loc, u) == off && u != p.Unix() {
			set = append(set, u)
		}
	}
	return set, true
}

func contains(set []int64, v int64) bool {
	for _, x := range set {
		if x == v {
			return true
		}
	}
	return false
}

var typicalOffsets = []int{-720, -570, -480, -300, -210, -60, -1, 0, 1, 60, 120, 210, 330, 345, 525, 570, 630, 660, 765, 780, 840}

func genInstant(t *rapid.T, z *zone) int64 {
	k := rapid.IntRange(0, 9).Draw(t, "instantKind")
	var u int64
	switch {
	case k <= 4 || (k <= 6 && len(z.trans) == 0):
		u = rapid.Int64Range(lo, hi).Draw(t, "unix")
	case k <= 6:
		tr := rapid.SampledFrom(z.trans).Draw(t, "transition")
		u = tr + rapid.Int64Range(-7300, 7300).Draw(t, "aroundTransition")
	case k == 7:
		y := rapid.IntRange(1970, 2069).Draw(t, "year")
		u = time.Date(y, 1, 1, 0, 0, 0, 0, time.UTC).Unix() + rapid.Int64Range(-15*3600, 15*3600).Draw(t, "aroundNewYear")
	case k == 8:
		// end of February / leap days
		y := rapid.IntRange(1970, 2068).Draw(t, "year")
		u = time.Date(y, 3, 1, 0, 0, 0, 0, time.UTC).Unix() + rapid.Int64Range(-2*86400, 86400).Draw(t, "aroundMarch1")
	default:
		// days and months that read the same or swap into valid dates (ambiguity between d-m-y / y-m-d orders)
		y := rapid.SampledFrom([]int{2001, 2002, 2003, 2010, 2011, 2012, 2024, 2031}).Draw(t, "year")
		mo := rapid.IntRange(1, 12).Draw(t, "month")
		d := rapid.IntRange(1, 28).Draw(t, "day")
		u = time.Date(y, time.Month(mo), d, 0, 0, 0, 0, time.UTC).Unix() + rapid.Int64Range(0, 86399).Draw(t, "secOfDay")
	}
	return min(max(u, lo), hi)
}

func TestC28Absolute(t *testing.T) {
	loadZones(t)
	ls := layouts()
	noteOutOfDomain(ls)
	defer withLocal(time.Local)() // restore whatever was there
	rapid.Check(t, func(t *rapid.T) {
		z := rapid.SampledFrom(zones).Draw(t, "zone")
		restore := withLocal(z.loc)
		defer restore()
		l := ls[rapid.IntRange(0, len(ls)-1).Draw(t, "layout")]
		u := genInstant(t, z)
		tt := time.Unix(u, 0)

		classes := []string{"zone:" + z.name}
		var s string
		if l.hasOffset {
			if rapid.IntRange(0, 4).Draw(t, "offsetKind") == 0 {
				s = tt.In(z.loc).Format(l.f)
				classes = append(classes, "offset:local-zone")
			} else {
				off := rapid.OneOf(rapid.SampledFrom(typicalOffsets), rapid.IntRange(-720, 840)).Draw(t, "offsetMinutes")
				s = tt.In(time.FixedZone("", off*60)).Format(l.f)
				if off%15 != 0 {
					classes = append(classes, "offset:odd-minutes")
				} else {
					classes = append(classes, "offset:explicit")
				}
			}
		} else {
			s = tt.In(z.loc).Format(l.f)
			classes = append(classes, "offset:none")
		}
		want := u
		if !l.hasSec {
			want = u - u%60
			classes = append(classes, "precision:minute")
		} else {
			classes = append(classes, "precision:second")
		}
		if l.twoDigit {
			classes = append(classes, "year:2-digit")
		} else {
			classes = append(classes, "year:4-digit")
		}

		// what the text denotes under its own layout
		own, ok := denoted(l, s, z)
		if !ok || !contains(own, want) {
			t.Fatalf("harness: %q formatted with %q in zone %s does not denote %d under its own layout (set %v, accepted %v)", s, l.f, z.name, want, own, ok)
		}
		if len(own) > 1 {
			classes = append(classes, "dst-fold")
		}
		// what it denotes under the other published layouts
		allowed := append([]int64(nil), own...)
		var others []string
		for _, o := range ls {
			if o.f == l.f {
				continue
			}
			if set, ok := denoted(o, s, z); ok {
				others = append(others, o.f)
				for _, v := range set {
					if !contains(allowed, v) {
						allowed = append(allowed, v)
					}
				}
			}
		}
		switch {
		case len(others) == 0:
			classes = append(classes, "accepted-by:own-layout-only")
		case len(allowed) == len(own):
			classes = append(classes, "accepted-by:several-layouts-same-instant")
		default:
			classes = append(classes, "accepted-by:several-layouts-different-instants")
		}
		nt := l.twoDigit || !l.hasOffset
		evid.Case(z.name+"|"+s, nt, classes...)
		if evid.WantSample(nt) {
			evid.Sample(map[string]any{"zone": z.name, "layout": l.f, "text": s, "instant": want, "also_accepted_by": others}, nt)
		}

		r, err := query.ParseTimeArgument(s)
		if err != nil {
			t.Fatalf("%s", evid.Sig("C28:absolute-accepted", "ParseTimeArgument(%q) (layout %q, local zone %s): %v", s, l.f, z.name, err))
		}
		if len(others) == 0 {
			if !contains(own, r) {
				t.Fatalf("%s", evid.Sig("C28:absolute-instant", "ParseTimeArgument(%q) = %d (%s), want %v: layout %q, local zone %s, instant %d (%s); no other layout accepts the text",
					s, r, time.Unix(r, 0).UTC().Format(time.RFC3339), own, l.f, z.name, u, tt.UTC().Format(time.RFC3339)))
			}
			return
		}
		if !contains(allowed, r) {
			t.Fatalf("%s", evid.Sig("C28:absolute-instant-ambiguous", "ParseTimeArgument(%q) = %d (%s), not among the instants %v the accepting layouts %q + %q give (local zone %s)",
				s, r, time.Unix(r, 0).UTC().Format(time.RFC3339), allowed, l.f, others, z.name))
		}
	})
}

// noteOutOfDomain records (without asserting) what happens to two-digit-year
// layouts outside the 1970…2068 window.
func noteOutOfDomain(ls []layout) {
	defer withLocal(time.UTC)()
	obs := map[string]string{}
	for _, y := range []int{1968, 1969, 2068, 2069, 2070} {
		tt := time.Date(y, 6, 15, 12, 0, 0, 0, time.UTC)
		for _, l := range ls {
			if !l.twoDigit || l.hasOffset || !l.hasSec {
				continue
			}
			s := tt.Format(l.f)
			r, err := query.ParseTimeArgument(s)
			if err != nil {
				obs[strconv.Itoa(y)] = fmt.Sprintf("%q (%s): error %v", s, l.f, err)
			} else {
				obs[strconv.Itoa(y)] = fmt.Sprintf("%q (%s) -> %s", s, l.f, time.Unix(r, 0).UTC().Format(time.RFC3339))
			}
			break
		}
	}
	evid.Note("two_digit_year_outside_domain_observed", obs)
}

// ---- relative times

type relSpec struct {
	text string
	sec  int64
	n    int // number of units
}

func pad(t *rapid.T, v int64, label string) string {
	s := strconv.FormatInt(v, 10)
	if w := rapid.IntRange(0, 3).Draw(t, label+"Pad"); w == 0 && len(s) < 2 {
		s = "0" + s
	} else if w == 1 && len(s) < 3 {
		s = strings.Repeat("0", 3-len(s)) + s
	}
	return s
}

var magnitude = func(maxV int64) *rapid.Generator[int64] {
	return rapid.OneOf(rapid.Int64Range(0, 60), rapid.Int64Range(0, maxV), rapid.SampledFrom([]int64{0, 1, 23, 24, 59, 60, 365, 1440}))
}

func genRelative(t *rapid.T) (relSpec, []string) {
	mask := rapid.IntRange(1, 7).Draw(t, "units") // bit 0 = d, 1 = h, 2 = m
	colon := rapid.Bool().Draw(t, "colonForm")
	var parts []string
	var sec int64
	cl := []string{}
	if mask&1 != 0 {
		v := magnitude(40000).Draw(t, "days")
		parts = append(parts, pad(t, v, "days")+"d")
		sec += 86400 * v
	}
	if mask&2 != 0 {
		v := magnitude(100000).Draw(t, "hours")
		parts = append(parts, pad(t, v, "hours")+"h")
		sec += 3600 * v
	}
	if mask&4 != 0 {
		v := magnitude(1000000).Draw(t, "minutes")
		parts = append(parts, pad(t, v, "minutes")+"m")
		sec += 60 * v
	}
	sep := ""
	if colon {
		sep = ":"
	}
	form := "compact"
	if colon && len(parts) > 1 {
		form = "colon"
	} else if len(parts) == 1 {
		form = "single-unit"
	}
	cl = append(cl, "relative:"+form, "relative-units:"+[]string{"", "d", "h", "dh", "m", "dm", "hm", "dhm"}[mask])
	return relSpec{text: "-" + strings.Join(parts, sep), sec: sec, n: len(parts)}, cl
}

func TestC28Relative(t *testing.T) {
	loadZones(t)
	defer withLocal(time.Local)()
	rapid.Check(t, func(t *rapid.T) {
		z := rapid.SampledFrom(zones).Draw(t, "zone")
		defer withLocal(z.loc)()
		spec, cl := genRelative(t)
		evid.Case("rel|"+spec.text, spec.n >= 2, cl...)
		if evid.WantSample(spec.n >= 2) {
			evid.Sample(map[string]any{"relative": spec.text, "seconds_back": spec.sec}, spec.n >= 2)
		}
		before := time.Now().Unix()
		r, err := query.ParseTimeArgument(spec.text)
		after := time.Now().Unix()
		if err != nil {
			t.Fatalf("%s", evid.Sig("C28:relative-accepted", "ParseTimeArgument(%q): %v", spec.text, err))
		}
		if r < before-spec.sec || r > after-spec.sec {
			t.Fatalf("%s", evid.Sig("C28:relative-instant", "ParseTimeArgument(%q) = %d, want now - %d s, i.e. within [%d, %d] (off by %d s)", spec.text, r, spec.sec, before-spec.sec, after-spec.sec, r-(before-spec.sec)))
		}
	})
}

// ---- ranges

type endpoint struct {
	text     string
	abs      bool
	instant  int64 // abs
	back     int64 // relative: seconds before now
	notation string
}

func genEndpoint(t *rapid.T, z *zone, ls []layout, label string, near int64) endpoint {
	switch k := rapid.IntRange(0, 5).Draw(t, label+"Kind"); {
	case k <= 1:
		u := genNear(t, label, near)
		return endpoint{text: strconv.FormatInt(u, 10), abs: true, instant: u, notation: "unix"}
	case k <= 3:
		// unambiguous layouts only: explicit offset, four-digit year
		var cands []layout
		for _, l := range ls {
			if l.hasOffset && !l.twoDigit {
				cands = append(cands, l)
			}
		}
		l := rapid.SampledFrom(cands).Draw(t, label+"Layout")
		u := genNear(t, label, near)
		off := rapid.OneOf(rapid.SampledFrom(typicalOffsets), rapid.IntRange(-720, 840)).Draw(t, label+"OffsetMinutes")
		s := time.Unix(u, 0).In(time.FixedZone("", off*60)).Format(l.f)
		if !l.hasSec {
			u -= u % 60
		}
		// keep only texts every accepting layout reads as the same instant
		for _, o := range ls {
			if set, ok := denoted(o, s, z); ok && (len(set) != 1 || set[0] != u) {
				return endpoint{text: strconv.FormatInt(u, 10), abs: true, instant: u, notation: "unix"}
			}
		}
		return endpoint{text: s, abs: true, instant: u, notation: "layout"}
	default:
		spec, _ := genRelative(t)
		return endpoint{text: spec.text, back: spec.sec, notation: "relative"}
	}
}

func genNear(t *rapid.T, label string, near int64) int64 {
	if near != 0 && rapid.IntRange(0, 2).Draw(t, label+"Near") != 0 {
		d := rapid.OneOf(rapid.Int64Range(-3, 3), rapid.Int64Range(-120, 120), rapid.Int64Range(-100000, 100000)).Draw(t, label+"Delta")
		return min(max(near+d, lo), hi)
	}
	return rapid.Int64Range(lo, hi).Draw(t, label+"Unix")
}

func TestC28Range(t *testing.T) {
	loadZones(t)
	ls := layouts()
	defer withLocal(time.Local)()
	rapid.Check(t, func(t *rapid.T) {
		z := rapid.SampledFrom(zones).Draw(t, "zone")
		defer withLocal(z.loc)()
		a := genEndpoint(t, z, ls, "first", 0)
		b := genEndpoint(t, z, ls, "last", a.instant)

		before := time.Now().Unix()
		first, last, err := query.ParseTimeRange(a.text, b.text)
		after := time.Now().Unix()

		// bounds of the instants the two texts denote, given the clock bracket
		aLo, aHi := a.instant, a.instant
		if !a.abs {
			aLo, aHi = before-a.back, after-a.back
		}
		bLo, bHi := b.instant, b.instant
		if !b.abs {
			bLo, bHi = before-b.back, after-b.back
		}
		var order string
		switch {
		case a.abs && b.abs && a.instant == b.instant, !a.abs && !b.abs && a.back == b.back:
			order = "equal"
		case !a.abs && !b.abs && a.back > b.back:
			// the clock read for the end is not earlier than the one for the start
			order = "start-before-end"
		case !a.abs && !b.abs:
			// start > end unless the clock advanced by the difference between the two reads
			if after-before < b.back-a.back {
				order = "start-after-end"
			} else {
				order = "undecided"
			}
		case aLo > bHi:
			order = "start-after-end"
		case aHi < bLo:
			order = "start-before-end"
		default:
			order = "undecided" // instants within the clock bracket of each other
		}
		nt := order == "start-after-end" || a.notation != b.notation
		evid.Case("range|"+z.name+"|"+a.text+"|"+b.text, nt, "range:"+order, "range-notation:"+a.notation+"/"+b.notation)
		if evid.WantSample(nt) {
			evid.Sample(map[string]any{"first": a.text, "last": b.text, "order": order}, nt)
		}

		switch order {
		case "start-after-end":
			if err == nil {
				t.Fatalf("%s", evid.Sig("C28:range-rejects-reversed", "ParseTimeRange(%q, %q) = (%d, %d, nil): start lies after end, an error is required", a.text, b.text, first, last))
			}
			return
		case "start-before-end":
			if err != nil {
				t.Fatalf("%s", evid.Sig("C28:range-accepts-ordered", "ParseTimeRange(%q, %q): %v, but start (%d…%d) lies before end (%d…%d)", a.text, b.text, err, aLo, aHi, bLo, bHi))
			}
		}
		if err == nil {
			if first < aLo || first > aHi || last < bLo || last > bHi {
				t.Fatalf("%s", evid.Sig("C28:range-instants", "ParseTimeRange(%q, %q) = (%d, %d), want first in [%d, %d] and last in [%d, %d]", a.text, b.text, first, last, aLo, aHi, bLo, bHi))
			}
		}
	})
}
