// Package crashlab holds what the crash-point (C04), failed-I/O (C05) and interrupted-merge (C25)
// checks share: write-out histories, the script for cmd/gpwriter, and the examination of a survivor
// database through the executor child.
package crashlab

import (
	"encoding/json"
	"fmt"
	"os"
	"os/exec"
	"path/filepath"
	"sort"
	"strings"
	"time"

	"github.com/els0r/goProbe/v4/pkg/goDB/storage/gpfile"
	"github.com/els0r/goProbe/v4/pkg/query"
	"pgregory.net/rapid"

	"verifharness/internal/execpool"
	"verifharness/internal/gen"
	"verifharness/internal/model"
	"verifharness/internal/qgen"
)

// WriteOut is one write-out of a history.
type WriteOut struct {
	Iface string
	Block model.Block
}

// History is a sequence of write-outs (per interface in increasing time).
type History struct {
	Encoder string
	Outs    []WriteOut
}

type sFlow struct {
	Sip   string `json:"sip"`
	Dip   string `json:"dip"`
	Dport uint16 `json:"dport"`
	Proto uint8  `json:"proto"`
	BR    uint64 `json:"br"`
	BS    uint64 `json:"bs"`
	PR    uint64 `json:"pr"`
	PS    uint64 `json:"ps"`
}

// Step mirrors cmd/gpwriter's script step.
type Step struct {
	Op        string   `json:"op"`
	Iface     string   `json:"iface,omitempty"`
	Ts        int64    `json:"ts,omitempty"`
	Drops     uint64   `json:"drops,omitempty"`
	Flows     []sFlow  `json:"flows,omitempty"`
	Src       string   `json:"src,omitempty"`
	Ifaces    []string `json:"ifaces,omitempty"`
	Overwrite bool     `json:"overwrite,omitempty"`
	Tolerance int64    `json:"tolerance,omitempty"`
}

// Script mirrors cmd/gpwriter's script.
type Script struct {
	DB      string `json:"db"`
	Encoder string `json:"encoder"`
	From    int    `json:"from"`
	To      int    `json:"to"`
	Steps   []Step `json:"steps"`
}

const Day0 = int64(1700006400)

// DrawHistory draws 2–6 write-outs over 1–2 interfaces and 1–3 days: appends to an existing day, the
// first block of a new day, day roll-over, empty flow maps, IPv4 and IPv6 flows.
func DrawHistory(t *rapid.T, minOuts, maxOuts int) *History {
	h := &History{Encoder: rapid.SampledFrom([]string{"lz4", "lz4", "null", "zstd"}).Draw(t, "encoder")}
	n := rapid.IntRange(minOuts, maxOuts).Draw(t, "nouts")
	nif := rapid.IntRange(1, 2).Draw(t, "nifaces")
	slot := map[string]int{}
	for i := 0; i < n; i++ {
		ifc := gen.IfaceAlphabet[rapid.IntRange(0, nif-1).Draw(t, fmt.Sprintf("o%d.iface", i))]
		// advance: mostly the next interval, sometimes to the end of the day / into the next day
		adv := rapid.SampledFrom([]int{1, 1, 1, 2, 287, 288, 289, 300}).Draw(t, fmt.Sprintf("o%d.adv", i))
		slot[ifc] += adv
		b := model.Block{Ts: Day0 + int64(slot[ifc])*300, Drops: rapid.SampledFrom([]uint64{0, 0, 3, 1000}).Draw(t, fmt.Sprintf("o%d.drops", i))}
		nf := rapid.IntRange(0, 3).Draw(t, fmt.Sprintf("o%d.nflows", i))
		seen := map[string]bool{}
		for f := 0; f < nf; f++ {
			fl := gen.DrawFlowKey(t, fmt.Sprintf("o%d.f%d", i, f), 0)
			k := fmt.Sprint(fl.Sip, fl.Dip, fl.Dport, fl.Proto)
			if seen[k] {
				continue
			}
			seen[k] = true
			fl.PR, fl.BR = uint64(1+f+i), uint64(100*(1+f+i))
			if rapid.Bool().Draw(t, fmt.Sprintf("o%d.f%d.bidir", i, f)) {
				fl.PS, fl.BS = uint64(2+i), uint64(80*(2+i))
			}
			b.Flows = append(b.Flows, fl)
		}
		h.Outs = append(h.Outs, WriteOut{Iface: ifc, Block: b})
	}
	return h
}

// Script renders the history as a writer script on database path db.
func (h *History) Script(db string) *Script {
	s := &Script{DB: db, Encoder: h.Encoder}
	for _, o := range h.Outs {
		st := Step{Op: "write", Iface: o.Iface, Ts: o.Block.Ts, Drops: o.Block.Drops}
		for _, f := range o.Block.Flows {
			st.Flows = append(st.Flows, sFlow{f.Sip.String(), f.Dip.String(), f.Dport, f.Proto, f.BR, f.BS, f.PR, f.PS})
		}
		s.Steps = append(s.Steps, st)
	}
	return s
}

// Save writes the script file.
func (s *Script) Save(path string) error {
	b, err := json.Marshal(s)
	if err != nil {
		return err
	}
	return os.WriteFile(path, b, 0o644)
}

// Describe renders the history compactly.
func (h *History) Describe() []string {
	var out []string
	for i, o := range h.Outs {
		out = append(out, fmt.Sprintf("#%d %s ts=%d (day %d) drops=%d flows=%v", i, o.Iface, o.Block.Ts, (o.Block.Ts-Day0)/86400, o.Block.Drops, o.Block.Flows))
	}
	return out
}

// DBOf returns the reference database holding exactly the given write-outs (indices into Outs).
func (h *History) DBOf(include func(i int) bool) *model.DB {
	db := &model.DB{Ifaces: map[string][]model.Block{}}
	for i, o := range h.Outs {
		if include(i) {
			db.Ifaces[o.Iface] = append(db.Ifaces[o.Iface], o.Block)
		}
	}
	for k := range db.Ifaces {
		b := db.Ifaces[k]
		sort.Slice(b, func(i, j int) bool { return b[i].Ts < b[j].Ts })
	}
	return db
}

// Ifaces returns all interfaces of the history, sorted.
func (h *History) Ifaces() []string {
	set := map[string]bool{}
	for _, o := range h.Outs {
		set[o.Iface] = true
	}
	var out []string
	for k := range set {
		out = append(out, k)
	}
	sort.Strings(out)
	return out
}

// RunPlain runs the writer without tracing and returns the per-step results ("ok" or an error text).
func RunPlain(writerBin, scriptPath string) ([]string, error) {
	cmd := exec.Command(writerBin, scriptPath)
	cmd.Env = append(os.Environ(), "TZ=UTC")
	out, err := cmd.Output()
	if err != nil {
		return nil, fmt.Errorf("writer: %w", err)
	}
	var res []string
	if err := json.Unmarshal(out, &res); err != nil {
		return nil, fmt.Errorf("writer output %q: %w", out, err)
	}
	return res, nil
}

// ---- examination of a (survivor) database

type DayDump struct {
	Dir    string       `json:"dir"`
	DayTs  int64        `json:"day_ts"`
	Stats  gpfile.Stats `json:"stats"`
	Blocks []struct {
		Ts      int64                  `json:"ts"`
		Cols    [][]byte               `json:"cols"`
		Traffic gpfile.TrafficMetadata `json:"traffic"`
	} `json:"blocks"`
	Err string `json:"err,omitempty"`
}

// Content is a canonical rendering of the logical content of a day (block timestamps, column bytes,
// per-block and per-day summaries).
func (d DayDump) Content() string {
	s := fmt.Sprintf("stats=%+v", d.Stats)
	for _, b := range d.Blocks {
		s += fmt.Sprintf("|ts=%d traffic=%+v cols=%x", b.Ts, b.Traffic, b.Cols)
	}
	return s
}

type dumpResp struct {
	Err  string    `json:"err,omitempty"`
	Days []DayDump `json:"days,omitempty"`
}

type request struct {
	Op    string      `json:"op"`
	DB    string      `json:"db"`
	Iface string      `json:"iface,omitempty"`
	Args  *query.Args `json:"args,omitempty"`
	First int64       `json:"first,omitempty"`
	Last  int64       `json:"last,omitempty"`
}

// Dump lists the day directories of an interface with their blocks.
func Dump(c *execpool.Child, db, iface string) ([]DayDump, error) {
	if _, err := os.Stat(filepath.Join(db, iface)); err != nil {
		return nil, nil // interface directory does not exist (yet)
	}
	var resp dumpResp
	if err := c.Call(request{Op: "dump", DB: db, Iface: iface}, &resp, 60*time.Second); err != nil {
		return nil, err
	}
	if resp.Err != "" {
		return nil, fmt.Errorf("dump %s: %s", iface, resp.Err)
	}
	return resp.Days, nil
}

// Summary is an interface listing.
type Summary struct {
	V4, V6, Drops uint64
	C             model.Counters
}

// SummaryOf sums the blocks of an interface of a reference database.
func SummaryOf(db *model.DB, iface string) Summary {
	var s Summary
	for _, b := range db.Ifaces[iface] {
		s.Drops += b.Drops
		for _, f := range b.Flows {
			if f.IsV4() {
				s.V4++
			} else {
				s.V6++
			}
			s.C.Add(f)
		}
	}
	return s
}

// List obtains the interface listing over the whole time range.
func List(c *execpool.Child, db, iface string) (Summary, string, error) {
	var resp qgen.Response
	if err := c.Call(request{Op: "list", DB: db, Iface: iface, First: Day0 - 86400, Last: Day0 + 40*86400}, &resp, 60*time.Second); err != nil {
		return Summary{}, "", err
	}
	if resp.Err != "" {
		return Summary{}, resp.Err, nil
	}
	var m struct {
		Counts struct {
			BR uint64 `json:"br"`
			BS uint64 `json:"bs"`
			PR uint64 `json:"pr"`
			PS uint64 `json:"ps"`
		} `json:"counts"`
		Traffic struct {
			V4    uint64 `json:"num_v4_entries"`
			V6    uint64 `json:"num_v6_entries"`
			Drops uint64 `json:"num_drops"`
		} `json:"traffic"`
	}
	if err := json.Unmarshal(resp.Meta, &m); err != nil {
		return Summary{}, "", err
	}
	return Summary{V4: m.Traffic.V4, V6: m.Traffic.V6, Drops: m.Traffic.Drops, C: model.Counters{BR: m.Counts.BR, BS: m.Counts.BS, PR: m.Counts.PR, PS: m.Counts.PS}}, "", nil
}

// QueryAll runs the time-labelled query with all attributes over the given interface argument and
// compares it with the reference aggregation of want. It returns ("", "") if they agree,
// (errText, "") if the query failed, ("", diff) if rows differ.
func QueryAll(c *execpool.Child, db string, ifArg string, sel []string, want *model.DB) (errText, diff string, err error) {
	args := query.Args{Query: "time,sip,dip,dport,proto", Ifaces: ifArg, First: fmt.Sprintf("%d", Day0-86400), Last: fmt.Sprintf("%d", Day0+40*86400),
		Format: "json", MaxMemPct: 100, NumResults: 1 << 40, DNSResolution: query.DNSResolution{Timeout: time.Second, MaxRows: 25}}
	var resp qgen.Response
	if cerr := c.Call(request{Op: "query", DB: db, Args: &args}, &resp, 60*time.Second); cerr != nil {
		return "", "", cerr
	}
	if resp.Err != "" {
		return resp.Err, "", nil
	}
	spec := model.QuerySpec{Ifaces: sel, First: Day0 - 86400, Last: Day0 + 40*86400, Attrs: []string{"sip", "dip", "dport", "proto"}, Time: true}
	exp, _ := want.Aggregate(spec)
	got, bad := qgen.RowsOf(resp.Result, spec)
	if bad != "" {
		return "", bad, nil
	}
	if kind, detail := qgen.Diff(got, exp); kind != "" {
		return "", kind + ": " + detail, nil
	}
	if s := resp.Result.Summary.Stats; s != nil && s.BlocksCorrupted != 0 {
		return "", fmt.Sprintf("%d blocks reported corrupted", s.BlocksCorrupted), nil
	}
	return "", "", nil
}

// DayOf returns the index of the UTC day of ts relative to Day0.
func DayOf(ts int64) int64 { return (ts - ts%86400 - Day0) / 86400 }

// HasExistingFile reports whether the path exists.
func HasExistingFile(p string) bool { _, err := os.Stat(p); return err == nil }

// FindDayDir returns the directory of (iface, day) if exactly one exists.
func FindDayDir(db, iface string, dayTs int64) (string, int) {
	m, _ := filepath.Glob(filepath.Join(db, iface, "*", "*", fmt.Sprintf("%d*", dayTs)))
	if len(m) == 1 {
		return m[0], 1
	}
	return strings.Join(m, ","), len(m)
}
