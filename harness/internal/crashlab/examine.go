package crashlab

import (
	"fmt"
	"path/filepath"

	"verifharness/internal/evid"
	"verifharness/internal/execpool"
	"verifharness/internal/model"
	"verifharness/internal/strace"
)

// Verdict is a failed examination: signature and message.
type Verdict struct {
	Sig, Msg string
}

// ExamOpts describes the situation a database is examined in.
type ExamOpts struct {
	Prefix           string // property id used in signatures (C04, C05)
	KnownStale       string // id of the open finding "stale directory-name summary" for this property
	Inflight         int    // index of the in-flight / faulted write-out (-1: none)
	Committed        bool   // its metadata rename executed
	FirstOfDay       bool   // it is the first write-out of its (interface, day)
	DirRenamePending bool   // metadata committed but the directory rename did not (yet) execute
	Pos              strace.Call
}

func fail(sig, format string, a ...any) *Verdict { return &Verdict{sig, fmt.Sprintf(format, a...)} }

// examine compares a database with the reference content want. ifI >= 0 names the in-flight write-out
// (for the attribution of the two known findings), committed says whether its metadata rename executed.
// Examine compares a database with the reference content want through the executor child.
func Examine(child *execpool.Child, h *History, db string, want *model.DB, o ExamOpts) *Verdict {
	inflight, committed, firstOfDay, pos, dirRenamePending := o.Inflight, o.Committed, o.FirstOfDay, o.Pos, o.DirRenamePending
	f4a := false // a day directory without metadata exists (kill inside the first write-out of a day)
	for _, ifc := range h.Ifaces() {
		days, err := Dump(child, db, ifc)
		if err != nil {
			if ce, ok := execpool.IsCrash(err); ok {
				return fail(o.Prefix+":reader-crash:"+ce.Signature, "reading %s after the crash kills the reader: %s", ifc, ce.Signature)
			}
			return fail(o.Prefix+":dump-error", "%v", err)
		}
		seen := map[int64]bool{}
		var gotTs []int64
		for _, d := range days {
			if seen[d.DayTs] {
				return fail(o.Prefix+":duplicate-day", "two directories for day %d of %s", d.DayTs, ifc)
			}
			seen[d.DayTs] = true
			if d.Err != "" {
				isInflightDay := inflight >= 0 && h.Outs[inflight].Iface == ifc && d.DayTs == h.Outs[inflight].Block.Ts-h.Outs[inflight].Block.Ts%86400
				if isInflightDay && firstOfDay && !committed {
					f4a = true
					continue
				}
				return fail(o.Prefix+":day-unreadable", "day %s of %s cannot be opened: %s", d.Dir, ifc, d.Err)
			}
			for _, b := range d.Blocks {
				gotTs = append(gotTs, b.Ts)
				// per-block summary must match the model block
				var mb *model.Block
				for i := range want.Ifaces[ifc] {
					if want.Ifaces[ifc][i].Ts == b.Ts {
						mb = &want.Ifaces[ifc][i]
					}
				}
				if mb == nil {
					return fail(o.Prefix+":unexpected-block", "%s lists block %d which is neither a completed write-out nor a committed in-flight one (expected %v)", ifc, b.Ts, tsOf(want.Ifaces[ifc]))
				}
				var v4, v6 uint64
				for _, f := range mb.Flows {
					if f.IsV4() {
						v4++
					} else {
						v6++
					}
				}
				if b.Traffic.NumV4Entries != v4 || b.Traffic.NumV6Entries != v6 || b.Traffic.NumDrops != mb.Drops {
					return fail(o.Prefix+":block-summary", "%s block %d summary %+v, written v4=%d v6=%d drops=%d", ifc, b.Ts, b.Traffic, v4, v6, mb.Drops)
				}
			}
		}
		if fmt.Sprint(gotTs) != fmt.Sprint(tsOf(want.Ifaces[ifc])) {
			return fail(o.Prefix+":block-list", "%s lists blocks %v, expected %v", ifc, gotTs, tsOf(want.Ifaces[ifc]))
		}
	}
	// queries: per interface and any
	ifs := h.Ifaces()
	var existing []string
	for _, ifc := range ifs {
		if HasExistingFile(filepath.Join(db, ifc)) {
			existing = append(existing, ifc)
		}
	}
	type qcase struct {
		arg string
		sel []string
	}
	var qs []qcase
	for _, ifc := range existing {
		qs = append(qs, qcase{ifc, []string{ifc}})
	}
	if len(existing) > 0 {
		qs = append(qs, qcase{"any", existing})
	}
	for _, q := range qs {
		errText, diff, err := QueryAll(child, db, q.arg, q.sel, want)
		if err != nil {
			if ce, ok := execpool.IsCrash(err); ok {
				return fail(o.Prefix+":query-crash:"+ce.Signature, "query over %s after the crash kills the process: %s", q.arg, ce.Signature)
			}
			return fail(o.Prefix+":harness", "%v", err)
		}
		if errText != "" {
			if f4a && covers(q.sel, h.Outs[inflight].Iface) {
				if evid.Known(o.Prefix+"-F4a", fmt.Sprintf("kill at %s -> query %s: %s", pos, q.arg, clip(errText, 160))) {
					continue
				}
				return fail(o.Prefix+":query-fails-on-day-without-metadata", "after a kill inside the first write-out of a day (%s) the query over %s fails: %s", pos, q.arg, errText)
			}
			return fail(o.Prefix+":query-error", "query over %s fails after the crash: %s", q.arg, errText)
		}
		if diff != "" {
			return fail(o.Prefix+":query-differs", "query over %s after the crash: %s", q.arg, diff)
		}
	}
	for _, ifc := range existing {
		got, errText, err := List(child, db, ifc)
		if err != nil {
			if ce, ok := execpool.IsCrash(err); ok {
				return fail(o.Prefix+":listing-crash:"+ce.Signature, "listing %s after the crash kills the process: %s", ifc, ce.Signature)
			}
			return fail(o.Prefix+":harness", "%v", err)
		}
		wantS := SummaryOf(want, ifc)
		if errText != "" {
			if f4a && ifc == h.Outs[inflight].Iface {
				if evid.Known(o.Prefix+"-F4a", fmt.Sprintf("kill at %s -> listing %s: %s", pos, ifc, clip(errText, 160))) {
					continue
				}
				return fail(o.Prefix+":listing-fails-on-day-without-metadata", "after a kill inside the first write-out of a day (%s) the listing of %s fails: %s", pos, ifc, errText)
			}
			if wantS == (Summary{}) {
				continue
			}
			return fail(o.Prefix+":listing-error", "listing %s fails after the crash: %s", ifc, errText)
		}
		if got != wantS {
			// known: committed block, directory not yet renamed -> the directory-name summary is stale
			if inflight >= 0 && committed && dirRenamePending && ifc == h.Outs[inflight].Iface {
				without := &model.DB{Ifaces: map[string][]model.Block{}}
				for _, b := range want.Ifaces[ifc] {
					if b.Ts != h.Outs[inflight].Block.Ts {
						without.Ifaces[ifc] = append(without.Ifaces[ifc], b)
					}
				}
				if got == SummaryOf(without, ifc) {
					if evid.Known(o.KnownStale, fmt.Sprintf("kill at %s: listing of %s reports %+v, data holds %+v", pos, ifc, got, wantS)) {
						continue
					}
					return fail(o.Prefix+":listing-stale-after-commit", "kill at %s (metadata committed, directory not renamed): listing of %s reports %+v although queries return the data of %+v", pos, ifc, got, wantS)
				}
			}
			return fail(o.Prefix+":listing-differs", "listing of %s reports %+v, blocks present sum to %+v", ifc, got, wantS)
		}
	}
	return nil
}

func covers(sel []string, ifc string) bool {
	for _, s := range sel {
		if s == ifc {
			return true
		}
	}
	return false
}

func clip(s string, n int) string {
	if len(s) > n {
		return s[:n] + "…"
	}
	return s
}

func tsOf(bs []model.Block) []int64 {
	var r []int64
	for _, b := range bs {
		r = append(r, b.Ts)
	}
	return r
}
