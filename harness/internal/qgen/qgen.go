// Package qgen generates engine queries together with their reference meaning (model.QuerySpec) and
// compares engine results with the reference aggregation. Shared by C08, C06, C11, C12, C29.
package qgen

import (
	"encoding/json"
	"fmt"
	"net/netip"
	"sort"
	"strings"
	"time"

	"github.com/els0r/goProbe/v4/pkg/query"
	"github.com/els0r/goProbe/v4/pkg/results"
	"pgregory.net/rapid"

	"verifharness/internal/execpool"
	"verifharness/internal/gen"
	"verifharness/internal/model"
)

// Query is a generated query: the arguments for the engine and its reference meaning.
type Query struct {
	Args query.Args
	Spec model.QuerySpec
	Desc string
}

// Opts steers the query generator.
type Opts struct {
	Cond        gen.CondOpts
	NoCond      bool
	NoDirFilter bool
	ForceTime   bool // always include the time label (per-day comparisons)
	AllAttrs    bool // always all four attributes
	WideRange   bool // mostly ranges that span most of the data
}

var aliases = map[string][]string{
	"talk_conv": {"sip", "dip"}, "talk_src": {"sip"}, "talk_dst": {"dip"}, "apps_port": {"dport", "proto"},
	"agg_talk_port": {"sip", "dip", "dport", "proto"}, "raw": {"time", "hostname", "hostid", "iface", "sip", "dip", "dport", "proto"},
}

// Boundaries returns the interesting range bounds for a set of block timestamps.
func Boundaries(db *model.DB, ifaces []string) []int64 {
	set := map[int64]bool{}
	for _, ifc := range ifaces {
		for _, b := range db.Ifaces[ifc] {
			day := b.Ts - b.Ts%86400
			for _, v := range []int64{b.Ts, b.Ts - 1, b.Ts + 1, b.Ts - 300, b.Ts + 300, b.Ts - 299, b.Ts + 150, day, day - 1, day + 1, day + 86400, day + 86399, day - 300, day + 300} {
				set[v] = true
			}
		}
	}
	var out []int64
	for v := range set {
		out = append(out, v)
	}
	sort.Slice(out, func(i, j int) bool { return out[i] < out[j] })
	if len(out) == 0 {
		return []int64{1700000000}
	}
	out = append([]int64{out[0] - 100000}, out...)
	out = append(out, out[len(out)-1]+100000)
	return out
}

// Draw draws a query against db.
func Draw(t *rapid.T, db *model.DB, o Opts) *Query {
	q := &Query{}
	names := db.IfaceNames()
	// interface selection: one, a list of distinct existing ones, or any
	var ifArg string
	var sel []string
	switch k := rapid.IntRange(0, 3).Draw(t, "q.ifkind"); {
	case k == 0 || len(names) == 1:
		sel = []string{rapid.SampledFrom(names).Draw(t, "q.iface")}
		ifArg = sel[0]
	case k == 1:
		sel, ifArg = names, rapid.SampledFrom([]string{"any", "ANY"}).Draw(t, "q.any")
	default:
		perm := rapid.Permutation(names).Draw(t, "q.ifperm")
		n := rapid.IntRange(2, len(perm)).Draw(t, "q.nif")
		sel = append([]string(nil), perm[:n]...)
		ifArg = strings.Join(sel, ",")
		sort.Strings(sel)
	}
	// attributes
	var toks []string
	if o.AllAttrs {
		toks = []string{"sip", "dip", "dport", "proto"}
	} else {
		pool := []string{"sip", "dip", "dport", "proto", "time", "iface", "talk_conv", "talk_src", "talk_dst", "apps_port", "agg_talk_port", "raw", "sip", "dip", "dport", "proto"}
		n := rapid.IntRange(1, 4).Draw(t, "q.nattr")
		for i := 0; i < n; i++ {
			toks = append(toks, rapid.SampledFrom(pool).Draw(t, fmt.Sprintf("q.attr%d", i)))
		}
	}
	if o.ForceTime {
		toks = append(toks, "time")
	}
	attrSet := map[string]bool{}
	for _, tk := range toks {
		exp, ok := aliases[tk]
		if !ok {
			exp = []string{tk}
		}
		for _, a := range exp {
			attrSet[a] = true
		}
	}
	var attrs []string
	for _, a := range []string{"sip", "dip", "dport", "proto"} {
		if attrSet[a] {
			attrs = append(attrs, a)
		}
	}
	if len(attrs) == 0 { // at least one attribute (a label-only query type is not a documented query)
		toks = append(toks, "dport")
		attrs = []string{"dport"}
	}
	// condition
	var cond *model.Cond
	condText := ""
	if !o.NoCond && rapid.IntRange(0, 4).Draw(t, "q.cond?") > 0 {
		cond = gen.DrawCond(t, "q.c", o.Cond)
		condText = cond.String()
	}
	dirF := ""
	if !o.NoDirFilter && rapid.IntRange(0, 4).Draw(t, "q.dir?") == 0 {
		dirF = rapid.SampledFrom([]string{"in", "out", "uni", "bi", "inbound", "outbound", "unidirectional", "bidirectional"}).Draw(t, "q.dirval")
		d := rapid.SampledFrom([]string{"dir", "direction"}).Draw(t, "q.dirattr") + " = " + dirF
		switch {
		case condText == "":
			condText = d
		case rapid.Bool().Draw(t, "q.dirleft"):
			condText = d + " & " + condText
		default:
			condText = condText + " & " + d
		}
	}
	// range
	bounds := Boundaries(db, sel)
	i := rapid.IntRange(0, len(bounds)-1).Draw(t, "q.first")
	j := rapid.IntRange(i, len(bounds)-1).Draw(t, "q.last")
	if o.WideRange && rapid.IntRange(0, 3).Draw(t, "q.wide") > 0 {
		i = rapid.IntRange(0, len(bounds)/5).Draw(t, "q.firstw")
		j = rapid.IntRange(len(bounds)-1-len(bounds)/5, len(bounds)-1).Draw(t, "q.lastw")
	}
	first, last := bounds[i], bounds[j]

	q.Spec = model.QuerySpec{Ifaces: sel, First: first, Last: last, Attrs: attrs, Time: attrSet["time"], Cond: cond, DirFilter: dirF}
	q.Args = query.Args{
		Query: strings.Join(toks, ","), Ifaces: ifArg, Condition: condText,
		First: fmt.Sprintf("%d", first), Last: fmt.Sprintf("%d", last),
		Format: "json", MaxMemPct: 100, NumResults: 1 << 40,
		SortBy:        rapid.SampledFrom([]string{"bytes", "packets"}).Draw(t, "q.sort"),
		SortAscending: rapid.Bool().Draw(t, "q.asc"),
		In:            rapid.Bool().Draw(t, "q.in"), Out: rapid.Bool().Draw(t, "q.out"), Sum: rapid.Bool().Draw(t, "q.sum"),
		LowMem:        rapid.Bool().Draw(t, "q.lowmem"),
		DNSResolution: query.DNSResolution{Timeout: time.Second, MaxRows: 25},
	}
	q.Desc = fmt.Sprintf("query=%q ifaces=%q cond=%q first=%d last=%d lowmem=%v", q.Args.Query, ifArg, condText, first, last, q.Args.LowMem)
	return q
}

// Request / Response mirror cmd/gpexec's protocol.
type Request struct {
	Op    string      `json:"op"`
	DB    string      `json:"db"`
	Args  *query.Args `json:"args,omitempty"`
	Units int         `json:"units,omitempty"`
	Procs int         `json:"procs,omitempty"`
	Iface string      `json:"iface,omitempty"`
	First int64       `json:"first,omitempty"`
	Last  int64       `json:"last,omitempty"`
}

type Response struct {
	Err    string          `json:"err,omitempty"`
	Result *results.Result `json:"result,omitempty"`
	Meta   json.RawMessage `json:"meta,omitempty"`
	Ifaces []string        `json:"ifaces,omitempty"`
	TZ     string          `json:"tz,omitempty"`
}

// Run executes the query in the child.
func Run(c *execpool.Child, dbPath string, q *Query, units int) (*Response, error) {
	var resp Response
	err := c.Call(Request{Op: "query", DB: dbPath, Args: &q.Args, Units: units}, &resp, 60*time.Second)
	return &resp, err
}

// RowsOf converts result rows into the reference key space.
func RowsOf(res *results.Result, spec model.QuerySpec) (map[model.RowKey]model.Counters, string) {
	out := map[model.RowKey]model.Counters{}
	want := map[string]bool{}
	for _, a := range spec.Attrs {
		want[a] = true
	}
	for i, r := range res.Rows {
		k := model.RowKey{Iface: r.Labels.Iface}
		if spec.Time {
			if r.Labels.Timestamp.IsZero() {
				return nil, fmt.Sprintf("row %d has no timestamp although the time label was requested", i)
			}
			k.Ts = r.Labels.Timestamp.Unix()
		} else if !r.Labels.Timestamp.IsZero() {
			return nil, fmt.Sprintf("row %d carries timestamp %v although the time label was not requested", i, r.Labels.Timestamp)
		}
		if want["sip"] {
			k.Sip = r.Attributes.SrcIP
		} else if r.Attributes.SrcIP.IsValid() {
			return nil, fmt.Sprintf("row %d carries sip %v although sip was not requested", i, r.Attributes.SrcIP)
		}
		if want["dip"] {
			k.Dip = r.Attributes.DstIP
		} else if r.Attributes.DstIP.IsValid() {
			return nil, fmt.Sprintf("row %d carries dip %v although dip was not requested", i, r.Attributes.DstIP)
		}
		if want["dport"] {
			k.Dport = r.Attributes.DstPort
		}
		if want["proto"] {
			k.Proto = r.Attributes.IPProto
		}
		if _, dup := out[k]; dup {
			return nil, fmt.Sprintf("two rows for the same group %s", k)
		}
		out[k] = model.Counters{BR: r.Counters.BytesRcvd, BS: r.Counters.BytesSent, PR: r.Counters.PacketsRcvd, PS: r.Counters.PacketsSent}
	}
	return out, ""
}

// Diff describes the first differences between two row maps ("" if equal).
func Diff(got, want map[model.RowKey]model.Counters) (kind string, detail string) {
	var missing, extra, wrong []string
	for k, w := range want {
		g, ok := got[k]
		if !ok {
			missing = append(missing, fmt.Sprintf("%s %+v", k, w))
		} else if g != w {
			wrong = append(wrong, fmt.Sprintf("%s got %+v want %+v", k, g, w))
		}
	}
	for k, g := range got {
		if _, ok := want[k]; !ok {
			extra = append(extra, fmt.Sprintf("%s %+v", k, g))
		}
	}
	sort.Strings(missing)
	sort.Strings(extra)
	sort.Strings(wrong)
	clip := func(s []string) string {
		if len(s) > 4 {
			return strings.Join(s[:4], "; ") + fmt.Sprintf("; … (%d)", len(s))
		}
		return strings.Join(s, "; ")
	}
	switch {
	case len(missing) > 0 && len(extra) > 0:
		return "rows-missing-and-invented", "missing: " + clip(missing) + " || unexpected: " + clip(extra)
	case len(missing) > 0:
		return "rows-missing", clip(missing)
	case len(extra) > 0:
		return "rows-invented", clip(extra)
	case len(wrong) > 0:
		return "counters-wrong", clip(wrong)
	}
	return "", ""
}

// HardV6 reports IPv6 addresses whose bytes 4..15 are zero.
func HardV6(a netip.Addr) bool {
	if !a.Is6() {
		return false
	}
	b := a.As16()
	for i := 4; i < 16; i++ {
		if b[i] != 0 {
			return false
		}
	}
	return true
}
