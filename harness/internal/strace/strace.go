// Package strace runs the scripted writer (cmd/gpwriter) under strace, builds the table of its
// file-system call positions from a dry run and re-runs it with a SIGKILL or an error injected at an
// exact position. strace's when= counter is per system call name and per thread, so a position is
// addressed as "the k-th call of that name on the main thread".
package strace

import (
	"bufio"
	"bytes"
	"fmt"
	"os"
	"os/exec"
	"path/filepath"
	"regexp"
	"strconv"
	"strings"
	"time"
)

// traced system calls: everything the DB layer uses on files and directories, plus the markers
const traceSet = "openat,open,creat,read,pread64,write,pwrite64,lseek,close,mkdir,mkdirat,rename,renameat,renameat2,chmod,fchmod,fchmodat,unlink,unlinkat,rmdir,newfstatat,fstat,stat,lstat,statx,getdents64,faccessat,faccessat2,fsync,fdatasync,ftruncate,truncate,link,linkat,symlink,symlinkat,readlink,readlinkat"

// Call is one system call of the main thread.
type Call struct {
	Index  int    // position in the main thread's call sequence (0-based), markers included
	Name   string // system call name
	K      int    // 1-based occurrence count of that name on the main thread (strace's when=)
	Args   string // argument text as printed by strace
	Ret    string // return text ("" if the process died inside the call)
	Step   int    // script step the call belongs to (-1: before the first / after the last step)
	Marker string // for faccessat markers: the event name
}

func (c Call) String() string {
	return fmt.Sprintf("#%d %s[%d](%s) = %s (step %d)", c.Index, c.Name, c.K, clip(c.Args, 110), c.Ret, c.Step)
}

func clip(s string, n int) string {
	if len(s) > n {
		return s[:n] + "…"
	}
	return s
}

// Run is the outcome of one traced execution.
type Run struct {
	Calls    []Call
	Markers  []string // marker events in order
	Stdout   string
	ExitCode int
	Killed   bool
}

var lineRe = regexp.MustCompile(`^(\d+)\s+([a-z0-9_]+)\((.*)$`)

func parse(logPath string) (*Run, error) {
	f, err := os.Open(logPath)
	if err != nil {
		return nil, err
	}
	defer f.Close()
	r := &Run{}
	sc := bufio.NewScanner(f)
	sc.Buffer(make([]byte, 1<<20), 1<<24)
	mainPid := ""
	counts := map[string]int{}
	step := -1
	for sc.Scan() {
		line := sc.Text()
		m := lineRe.FindStringSubmatch(line)
		if m == nil {
			continue // resumed lines, signals, exit
		}
		if mainPid == "" {
			mainPid = m[1]
		}
		if m[1] != mainPid {
			continue
		}
		name, rest := m[2], m[3]
		if name == "execve" {
			continue
		}
		args, ret := rest, ""
		if i := strings.LastIndex(rest, ") = "); i >= 0 {
			args, ret = rest[:i], rest[i+4:]
		} else if i := strings.Index(rest, " <unfinished"); i >= 0 {
			args = rest[:i]
		}
		counts[name]++
		c := Call{Index: len(r.Calls), Name: name, K: counts[name], Args: args, Ret: ret, Step: step}
		if strings.HasPrefix(name, "faccessat") && strings.Contains(args, "/verif-marker/") {
			ev := args[strings.Index(args, "/verif-marker/")+len("/verif-marker/"):]
			ev = ev[:strings.IndexByte(ev, '"')]
			c.Marker = ev
			r.Markers = append(r.Markers, ev)
			if strings.HasPrefix(ev, "begin-") {
				step, _ = strconv.Atoi(ev[6:])
				c.Step = step
			}
			if strings.HasPrefix(ev, "done-") {
				c.Step = step
				step = -1
			}
		}
		r.Calls = append(r.Calls, c)
	}
	return r, sc.Err()
}

// Exec runs the writer on a script under strace. inject is "" (dry run) or a strace inject
// expression such as "renameat:signal=SIGKILL:when=3" or "write:error=ENOSPC:when=17".
func Exec(writerBin, scriptPath, workDir, inject string) (*Run, error) {
	logPath := filepath.Join(workDir, fmt.Sprintf("strace-%d.log", time.Now().UnixNano()))
	defer os.Remove(logPath)
	args := []string{"-f", "-o", logPath, "-s", "0", "-e", "trace=" + traceSet, "-e", "signal=none"}
	if inject != "" {
		args = append(args, "-e", "inject="+inject)
	}
	args = append(args, writerBin, scriptPath)
	cmd := exec.Command("strace", args...)
	cmd.Env = append(os.Environ(), "TZ=UTC", "GOMAXPROCS=1", "GODEBUG=asyncpreemptoff=1")
	var out, errb bytes.Buffer
	cmd.Stdout, cmd.Stderr = &out, &errb
	done := make(chan error, 1)
	if err := cmd.Start(); err != nil {
		return nil, fmt.Errorf("strace: %w", err)
	}
	go func() { done <- cmd.Wait() }()
	var werr error
	select {
	case werr = <-done:
	case <-time.After(120 * time.Second):
		cmd.Process.Kill()
		<-done
		return nil, fmt.Errorf("strace run did not finish within 120 s (inject %q)", inject)
	}
	r, perr := parse(logPath)
	if perr != nil {
		return nil, fmt.Errorf("strace log: %w (stderr %s)", perr, errb.String())
	}
	r.Stdout = out.String()
	if werr != nil {
		if ee, ok := werr.(*exec.ExitError); ok {
			r.ExitCode = ee.ExitCode()
			// strace reports a tracee killed by a signal by killing itself with the same signal
			if ee.ExitCode() == -1 || ee.ExitCode() == 137 {
				r.Killed = true
			}
		} else {
			return nil, werr
		}
	}
	return r, nil
}

// SameShape reports whether two runs issued the same sequence of calls (names and steps) — the
// precondition for addressing positions of one run in another.
func SameShape(a, b *Run) bool {
	if len(a.Calls) != len(b.Calls) {
		return false
	}
	for i := range a.Calls {
		if a.Calls[i].Name != b.Calls[i].Name || a.Calls[i].Step != b.Calls[i].Step {
			return false
		}
	}
	return true
}

// KillAt builds the inject expression that kills the process on entry to the given call.
func KillAt(c Call) string { return fmt.Sprintf("%s:signal=SIGKILL:when=%d", c.Name, c.K) }

// FailAt builds the inject expression that makes exactly the given call fail with errno.
func FailAt(c Call, errno string) string {
	return fmt.Sprintf("%s:error=%s:when=%d", c.Name, errno, c.K)
}
