package gen

import (
	"fmt"
	"net/netip"

	"pgregory.net/rapid"

	"verifharness/internal/model"
)

// Address alphabets shared by the flow and condition generators, including the hard
// addresses: IPv6 addresses whose bytes 4..15 are zero, unspecified addresses, addresses that
// share leading bytes across families (32.1.13.184 = the first four bytes of 2001:db8::).
var (
	V4Addrs = []string{"10.0.0.1", "10.0.0.2", "10.200.1.1", "10.128.0.1", "192.168.1.34", "172.16.5.5", "32.1.13.184", "0.0.0.0", "255.255.255.255", "224.0.0.251"}
	V6Addrs = []string{"2001:db8::1", "2001:db8::", "2001:db8:0:1::1", "fe80::1", "::1", "::", "ff02::fb", "2a00:1450:4001:81b::200e", "a00:1::", "2001:db8::ffff"}
	Ports   = []uint16{0, 22, 53, 80, 443, 445, 8080, 32768, 65535}
	Protos  = []uint8{0, 1, 6, 17, 47, 50, 58, 255}
)

// CondOpts steers the condition generator.
type CondOpts struct {
	MaxDepth     int
	NoNet        bool // no snet/dnet/net leaves
	NoAddr       bool // no address or network leaves at all
	OnlyFamily   int  // 0 = both, 4, 6: address/network values of that family only
	NetMultiple8 bool // prefix lengths are multiples of 8 only
	NoSugar      bool
}

func drawAddr(t *rapid.T, label string, fam int) string {
	if fam == 0 {
		fam = rapid.SampledFrom([]int{4, 6}).Draw(t, label+".fam")
	}
	if rapid.IntRange(0, 5).Draw(t, label+".rnd") == 0 { // near miss / random
		if fam == 4 {
			var b [4]byte
			copy(b[:], rapid.SliceOfN(rapid.Byte(), 4, 4).Draw(t, label+".b4"))
			return netip.AddrFrom4(b).String()
		}
		var b [16]byte
		copy(b[:], rapid.SliceOfN(rapid.Byte(), 16, 16).Draw(t, label+".b16"))
		b[0] |= 0x20 // keep out of the v4-mapped / zero-prefixed range so that String() never prints dotted quads
		return netip.AddrFrom16(b).String()
	}
	if fam == 4 {
		return rapid.SampledFrom(V4Addrs).Draw(t, label+".a4")
	}
	return rapid.SampledFrom(V6Addrs).Draw(t, label+".a6")
}

// DrawLeaf draws one comparison.
func DrawLeaf(t *rapid.T, label string, o CondOpts) *model.Cond {
	kinds := []string{"dport", "dport", "proto", "proto"}
	if !o.NoAddr {
		kinds = append(kinds, "sip", "dip", "sip", "dip")
		if !o.NoSugar {
			kinds = append(kinds, "host")
		}
		if !o.NoNet {
			kinds = append(kinds, "snet", "dnet", "snet", "dnet")
			if !o.NoSugar {
				kinds = append(kinds, "net")
			}
		}
	}
	k := rapid.SampledFrom(kinds).Draw(t, label+".kind")
	c := &model.Cond{Kind: "leaf", Attr: k}
	eqne := rapid.SampledFrom([]string{"=", "=", "!="})
	switch k {
	case "sip", "dip", "host":
		c.Cmp = eqne.Draw(t, label+".cmp")
		c.Val = drawAddr(t, label, o.OnlyFamily)
		if !o.NoSugar && k != "host" && rapid.IntRange(0, 3).Draw(t, label+".sugar") == 0 {
			c.Attr = map[string]string{"sip": "src", "dip": "dst"}[k]
		}
	case "snet", "dnet", "net":
		c.Cmp = eqne.Draw(t, label+".cmp")
		a := drawAddr(t, label, o.OnlyFamily)
		max := 32
		if netip.MustParseAddr(a).Is6() {
			max = 128
		}
		var bits int
		if o.NetMultiple8 {
			bits = 8 * rapid.IntRange(0, max/8).Draw(t, label+".bits8")
		} else {
			bits = rapid.IntRange(0, max).Draw(t, label+".bits")
		}
		c.Val = fmt.Sprintf("%s/%d", a, bits)
	case "dport":
		c.Cmp = rapid.SampledFrom([]string{"=", "!=", "<", ">", "<=", ">="}).Draw(t, label+".cmp")
		p := rapid.OneOf(rapid.SampledFrom(Ports), rapid.Uint16()).Draw(t, label+".port")
		c.Val = fmt.Sprintf("%d", p)
		if !o.NoSugar && rapid.IntRange(0, 3).Draw(t, label+".sugar") == 0 {
			c.Attr = "port"
		}
	case "proto":
		c.Cmp = rapid.SampledFrom([]string{"=", "!=", "<", ">", "<=", ">="}).Draw(t, label+".cmp")
		if rapid.Bool().Draw(t, label+".pname") {
			names := []string{"icmp", "tcp", "udp", "gre", "ipv6-icmp"}
			c.Val = rapid.SampledFrom(names).Draw(t, label+".protoname")
		} else {
			c.Val = fmt.Sprintf("%d", rapid.OneOf(rapid.SampledFrom(Protos), rapid.Uint8()).Draw(t, label+".protonum"))
		}
		if !o.NoSugar {
			c.Attr = rapid.SampledFrom([]string{"proto", "proto", "protocol", "ipproto"}).Draw(t, label+".sugar")
		}
	}
	return c
}

// DrawCond draws a condition tree of bounded depth.
func DrawCond(t *rapid.T, label string, o CondOpts) *model.Cond {
	if o.MaxDepth <= 0 {
		o.MaxDepth = 4
	}
	return drawCond(t, label, o, o.MaxDepth)
}

func drawCond(t *rapid.T, label string, o CondOpts, depth int) *model.Cond {
	k := "leaf"
	if depth > 1 {
		k = rapid.SampledFrom([]string{"leaf", "leaf", "not", "and", "or", "and", "or"}).Draw(t, label+".node")
	}
	switch k {
	case "leaf":
		return DrawLeaf(t, label, o)
	case "not":
		return &model.Cond{Kind: "not", L: drawCond(t, label+"n", o, depth-1)}
	default:
		return &model.Cond{Kind: k, L: drawCond(t, label+"l", o, depth-1), R: drawCond(t, label+"r", o, depth-1)}
	}
}

// DrawFlowKey draws the key attributes of a flow (counters zero).
func DrawFlowKey(t *rapid.T, label string, fam int) model.Flow {
	if fam == 0 {
		fam = rapid.SampledFrom([]int{4, 6}).Draw(t, label+".fam")
	}
	f := model.Flow{
		Sip:   netip.MustParseAddr(drawAddr(t, label+".sip", fam)),
		Dip:   netip.MustParseAddr(drawAddr(t, label+".dip", fam)),
		Dport: rapid.OneOf(rapid.SampledFrom(Ports), rapid.Uint16()).Draw(t, label+".dport"),
		Proto: rapid.OneOf(rapid.SampledFrom(Protos), rapid.Uint8()).Draw(t, label+".proto"),
	}
	return f
}
