package gen

import (
	"fmt"
	"net/netip"
	"sort"

	"github.com/els0r/goProbe/v4/pkg/capture/capturetypes"
	"github.com/els0r/goProbe/v4/pkg/goDB"
	"github.com/els0r/goProbe/v4/pkg/goDB/encoder/encoders"
	"github.com/els0r/goProbe/v4/pkg/types"
	"github.com/els0r/goProbe/v4/pkg/types/hashmap"
	"pgregory.net/rapid"

	"verifharness/internal/model"
)

// DBOpts steers the reference database generator.
type DBOpts struct {
	MaxIfaces    int
	Days         []int64 // UTC day starts to choose from (default: around a month and a year boundary)
	MaxBlocksDay int
	MaxFlows     int
	Family       int  // 0 both, 4, 6
	MinFlows     int  // minimum flows per block
	NoHardAddrs  bool // exclude IPv6 addresses whose bytes 4..15 are zero (open finding exclusion)
	AlignedOnly  bool // block timestamps only at multiples of 300 s
}

// DefaultDays: 2023-12-30 … 2024-01-02 (year and month boundary) and 2024-02-29/03-01.
var DefaultDays = []int64{1703894400, 1703980800, 1704067200, 1704153600, 1709164800, 1709251200}

var IfaceAlphabet = []string{"eth0", "eth1", "wlan0", "lo", "t4"}

func hardV6(a netip.Addr) bool {
	if !a.Is6() {
		return false
	}
	b := a.As16()
	for i := 4; i < 16; i++ {
		if b[i] != 0 {
			return false
		}
	}
	return true
}

// DrawDB draws a reference database.
func DrawDB(t *rapid.T, o DBOpts) *model.DB {
	if o.MaxIfaces == 0 {
		o.MaxIfaces = 3
	}
	if o.Days == nil {
		o.Days = DefaultDays
	}
	if o.MaxBlocksDay == 0 {
		o.MaxBlocksDay = 3
	}
	if o.MaxFlows == 0 {
		o.MaxFlows = 6
	}
	db := &model.DB{Ifaces: map[string][]model.Block{}}
	nif := rapid.IntRange(1, o.MaxIfaces).Draw(t, "db.nifaces")
	names := append([]string(nil), IfaceAlphabet...)
	for i := 0; i < nif; i++ {
		name := names[i]
		// a run of consecutive days out of the list
		start := rapid.IntRange(0, len(o.Days)-1).Draw(t, name+".day0")
		ndays := rapid.IntRange(1, 3).Draw(t, name+".ndays")
		var blocks []model.Block
		for d := start; d < start+ndays && d < len(o.Days); d++ {
			nb := rapid.IntRange(1, o.MaxBlocksDay).Draw(t, fmt.Sprintf("%s.d%d.nblocks", name, d))
			slots := map[int]bool{}
			for b := 0; b < nb; b++ {
				// slot 0 = 00:00:00 of the day itself (a block whose interval ended at midnight), 287 = 23:55
				s := rapid.OneOf(rapid.SampledFrom([]int{0, 1, 143, 286, 287}), rapid.IntRange(0, 287)).Draw(t, fmt.Sprintf("%s.d%d.b%d.slot", name, d, b))
				if slots[s] {
					continue
				}
				slots[s] = true
				// write-outs are scheduled at multiples of 300 s, but the write-out at shutdown, the one before a
				// reconfiguration and imported data carry arbitrary seconds: a third of the blocks is off the grid
				var off int64
				if !o.AlignedOnly {
					off = rapid.SampledFrom([]int64{0, 0, 0, 0, 1, 13, 150, 299}).Draw(t, fmt.Sprintf("%s.d%d.b%d.off", name, d, b))
				}
				bl := model.Block{Ts: o.Days[d] + int64(s)*300 + off, Drops: rapid.SampledFrom([]uint64{0, 0, 1, 7, 1000}).Draw(t, fmt.Sprintf("%s.d%d.b%d.drops", name, d, b))}
				nf := rapid.IntRange(o.MinFlows, o.MaxFlows).Draw(t, fmt.Sprintf("%s.d%d.b%d.nflows", name, d, b))
				seen := map[string]bool{}
				for f := 0; f < nf; f++ {
					l := fmt.Sprintf("%s.d%d.b%d.f%d", name, d, b, f)
					fl := DrawFlowKey(t, l, o.Family)
					if o.NoHardAddrs && (hardV6(fl.Sip) || hardV6(fl.Dip)) {
						continue
					}
					k := fmt.Sprintf("%s|%s|%d|%d", fl.Sip, fl.Dip, fl.Dport, fl.Proto)
					if seen[k] {
						continue
					}
					seen[k] = true
					// packets p >= 0 per direction; bytes are zero iff packets are zero (as for captured traffic)
					pk := rapid.OneOf(rapid.SampledFrom([]uint64{1, 2, 1500, 1 << 32}), rapid.Uint64Range(1, 1<<20))
					by := func(l string, p uint64) uint64 {
						return p * rapid.SampledFrom([]uint64{1, 40, 64, 1500}).Draw(t, l)
					}
					switch rapid.IntRange(0, 4).Draw(t, l+".dir") {
					case 0: // inbound only
						fl.PR = pk.Draw(t, l+".pr")
						fl.BR = by(l+".br", fl.PR)
					case 1: // outbound only
						fl.PS = pk.Draw(t, l+".ps")
						fl.BS = by(l+".bs", fl.PS)
					case 2: // a record without traffic (cannot be produced by the capture, but is representable)
					default:
						fl.PR, fl.PS = pk.Draw(t, l+".pr"), pk.Draw(t, l+".ps")
						fl.BR, fl.BS = by(l+".br", fl.PR), by(l+".bs", fl.PS)
					}
					bl.Flows = append(bl.Flows, fl)
				}
				blocks = append(blocks, bl)
			}
		}
		sort.Slice(blocks, func(a, b int) bool { return blocks[a].Ts < blocks[b].Ts })
		if len(blocks) > 0 {
			db.Ifaces[name] = blocks
		}
	}
	return db
}

// FlowMapOf converts model flows into the aggregated flow map the DB writer takes.
func FlowMapOf(flows []model.Flow) *hashmap.AggFlowMap {
	m := hashmap.NewAggFlowMap()
	for _, f := range flows {
		dport := []byte{byte(f.Dport >> 8), byte(f.Dport)}
		if f.IsV4() {
			s, d := f.Sip.As4(), f.Dip.As4()
			m.SetOrUpdate(types.NewV4Key(s[:], d[:], dport, f.Proto), true, f.BR, f.BS, f.PR, f.PS)
		} else {
			s, d := f.Sip.As16(), f.Dip.As16()
			m.SetOrUpdate(types.NewV6Key(s[:], d[:], dport, f.Proto), false, f.BR, f.BS, f.PR, f.PS)
		}
	}
	return m
}

// WriteDB writes the reference database to disk through goProbe's own DBWriter (one Write per block,
// in timestamp order per interface — the way the capture write-out does it).
func WriteDB(db *model.DB, path string, enc encoders.Type) error {
	for _, ifc := range db.IfaceNames() {
		w := goDB.NewDBWriter(path, ifc, enc)
		for _, b := range db.Ifaces[ifc] {
			if err := w.Write(FlowMapOf(b.Flows), capturetypes.CaptureStats{Dropped: b.Drops}, b.Ts); err != nil {
				return fmt.Errorf("write %s block %d: %w", ifc, b.Ts, err)
			}
		}
	}
	return nil
}

// DescribeDB renders the database compactly for failure messages and samples.
func DescribeDB(db *model.DB) []string {
	var out []string
	for _, ifc := range db.IfaceNames() {
		for _, b := range db.Ifaces[ifc] {
			out = append(out, fmt.Sprintf("%s ts=%d drops=%d flows=%v", ifc, b.Ts, b.Drops, b.Flows))
		}
	}
	return out
}

// FlowOf builds a flow key from literals.
func FlowOf(sip, dip string, dport uint16, proto uint8) model.Flow {
	return model.Flow{Sip: netip.MustParseAddr(sip), Dip: netip.MustParseAddr(dip), Dport: dport, Proto: proto}
}
