// Package evid collects, per test process, what a check actually explored:
// number of evaluated cases, the set of distinct non-trivial cases (by hash of a
// canonical encoding), class histograms, sample cases, hits of known findings
// and constructs excluded by construction. The driver (/verif/check) merges the
// per-process files into /verif/evidence/<id>.json.
package evid

import (
	"encoding/json"
	"fmt"
	"hash/fnv"
	"os"
	"sort"
	"strconv"
	"strings"
	"sync"
	"testing"
	"time"
)

const maxHashes = 400000 // per process; beyond that distinct counting is conservative (stops growing)

type finding struct {
	ID       string `json:"id"`
	Property string `json:"property"`
	Status   string `json:"status"`
	What     string `json:"what"`
}

type state struct {
	mu          sync.Mutex
	Evaluations int64             `json:"evaluations"`
	Hashes      map[uint64]bool   `json:"-"`
	HashList    []uint64          `json:"hashes"`
	DirectNT    int64             `json:"direct_nontrivial"` // distinct by construction (enumerations)
	Classes     map[string]int64  `json:"classes"`
	Samples     []any             `json:"samples"`
	TrivSamples []any             `json:"trivial_samples"`
	Known       map[string]int64  `json:"known"`
	KnownWit    map[string]string `json:"known_witness"`
	Excluded    map[string]int64  `json:"excluded"`
	Rule        string            `json:"rule"`
	Assume      []string          `json:"assumptions"`
	Exhaustive  bool              `json:"exhaustive"`
	Notes       map[string]any    `json:"notes"`
	Saturated   bool              `json:"hash_saturated"`
}

var (
	st = &state{Hashes: map[uint64]bool{}, Classes: map[string]int64{}, Known: map[string]int64{},
		KnownWit: map[string]string{}, Excluded: map[string]int64{}, Notes: map[string]any{}}
	open     map[string]bool
	loadOnce sync.Once
)

func loadKnown() {
	loadOnce.Do(func() {
		open = map[string]bool{}
		p := os.Getenv("VERIF_KNOWN")
		if p == "" {
			p = "/verif/known_findings.json"
		}
		b, err := os.ReadFile(p)
		if err != nil {
			return
		}
		var doc struct {
			Findings []finding `json:"findings"`
		}
		if json.Unmarshal(b, &doc) != nil {
			return
		}
		for _, f := range doc.Findings {
			if f.Status == "open" {
				open[f.ID] = true
			}
		}
	})
}

// IsOpen reports whether the finding id is listed as an open known finding.
func IsOpen(id string) bool { loadKnown(); return open[id] }

// Rule sets the generation / non-triviality rule text of this check.
func Rule(s string) { st.mu.Lock(); st.Rule = s; st.mu.Unlock() }

// Assume records an assumption / trusted-base item.
func Assume(s ...string) {
	st.mu.Lock()
	defer st.mu.Unlock()
	for _, a := range s {
		dup := false
		for _, b := range st.Assume {
			if a == b {
				dup = true
			}
		}
		if !dup {
			st.Assume = append(st.Assume, a)
		}
	}
}

func hash(s string) uint64 { h := fnv.New64a(); h.Write([]byte(s)); return h.Sum64() }

// Case records one evaluated case. canon is a canonical encoding of the case
// (used only for distinct counting when nontrivial is true).
func Case(canon string, nontrivial bool, classes ...string) {
	st.mu.Lock()
	defer st.mu.Unlock()
	st.Evaluations++
	if nontrivial {
		if len(st.Hashes) < maxHashes {
			st.Hashes[hash(canon)] = true
		} else {
			st.Saturated = true
		}
	}
	for _, c := range classes {
		st.Classes[c]++
	}
}

// CaseN records n evaluated cases of an enumeration of which nt are non-trivial
// and distinct by construction.
func CaseN(n, nt int64, class string) {
	st.mu.Lock()
	defer st.mu.Unlock()
	st.Evaluations += n
	st.DirectNT += nt
	if class != "" {
		st.Classes[class] += n
	}
}

// Class bumps a class counter without counting an evaluation.
func Class(c string) { st.mu.Lock(); st.Classes[c]++; st.mu.Unlock() }

// ClassN adds n to a class counter.
func ClassN(c string, n int64) { st.mu.Lock(); st.Classes[c] += n; st.mu.Unlock() }

// Sample stores a sample case (kept: first 6 non-trivial, first 2 trivial).
func Sample(v any, nontrivial bool) {
	st.mu.Lock()
	defer st.mu.Unlock()
	if nontrivial {
		if len(st.Samples) < 6 {
			st.Samples = append(st.Samples, v)
		}
	} else if len(st.TrivSamples) < 2 {
		st.TrivSamples = append(st.TrivSamples, v)
	}
}

// WantSample tells whether another sample of that kind would be kept (to avoid
// building expensive sample values).
func WantSample(nontrivial bool) bool {
	st.mu.Lock()
	defer st.mu.Unlock()
	if nontrivial {
		return len(st.Samples) < 6
	}
	return len(st.TrivSamples) < 2
}

// Known records that the open known finding id was hit by a case (witness is a
// short description of the failing input). It returns true if the finding is
// listed open, in which case the caller should treat the case as explained and
// go on; false means the finding is not (or no longer) listed and the caller
// must fail the case.
func Known(id, witness string) bool {
	if !IsOpen(id) {
		return false
	}
	st.mu.Lock()
	defer st.mu.Unlock()
	st.Known[id]++
	if _, ok := st.KnownWit[id]; !ok {
		if len(witness) > 600 {
			witness = witness[:600] + "…"
		}
		st.KnownWit[id] = witness
	}
	return true
}

// Excluded counts a draw that was excluded by construction because it would
// trigger the open finding id.
func Excluded(id string) { st.mu.Lock(); st.Excluded[id]++; st.mu.Unlock() }

// Exhaustive marks the run as a complete enumeration of a finite space.
func Exhaustive(b bool) { st.mu.Lock(); st.Exhaustive = b; st.mu.Unlock() }

// Note stores an extra key in the evidence coverage.
func Note(k string, v any) { st.mu.Lock(); st.Notes[k] = v; st.mu.Unlock() }

// Sig formats a failure message carrying a signature the driver can classify.
func Sig(sig, format string, args ...any) string {
	// the signature is delimited by brackets: keep them out of it
	sig = strings.NewReplacer("[", "(", "]", ")", "\n", " ").Replace(sig)
	if len(sig) > 160 {
		sig = sig[:160]
	}
	return "SIG[" + sig + "] " + fmt.Sprintf(format, args...)
}

// Tier returns "quick" or "thorough".
func Tier() string {
	if os.Getenv("VERIF_TIER") == "thorough" {
		return "thorough"
	}
	return "quick"
}

// Thorough reports whether the thorough tier is running.
func Thorough() bool { return Tier() == "thorough" }

// Seed returns VERIF_SEED (remapped so that it is never 0) mixed with the shard number.
func Seed() int64 {
	s, _ := strconv.ParseInt(os.Getenv("VERIF_SEED"), 10, 64)
	if s == 0 {
		s = 20260921
	}
	return s
}

// Shard returns (index, count) of this process among the shards of the run.
func Shard() (int, int) {
	i, _ := strconv.Atoi(os.Getenv("VERIF_SHARD"))
	n, _ := strconv.Atoi(os.Getenv("VERIF_NSHARDS"))
	if n <= 0 {
		n = 1
	}
	return i, n
}

// Pick returns quick or thorough value depending on the tier.
func Pick[T any](quick, thorough T) T {
	if Thorough() {
		return thorough
	}
	return quick
}

// Flush writes the stats file named by VERIF_STATS.
func Flush() {
	p := os.Getenv("VERIF_STATS")
	if p == "" {
		return
	}
	st.mu.Lock()
	defer st.mu.Unlock()
	st.HashList = st.HashList[:0]
	for h := range st.Hashes {
		st.HashList = append(st.HashList, h)
	}
	sort.Slice(st.HashList, func(i, j int) bool { return st.HashList[i] < st.HashList[j] })
	b, err := json.Marshal(st)
	if err != nil {
		fmt.Fprintln(os.Stderr, "evid: marshal:", err)
		// samples may be unencodable; drop them rather than lose the counts
		st.Samples, st.TrivSamples = []any{"<unencodable sample>"}, nil
		b, _ = json.Marshal(st)
	}
	tmp := p + ".tmp"
	if err := os.WriteFile(tmp, b, 0o644); err == nil {
		os.Rename(tmp, p)
	}
}

// Main is to be called from TestMain.
func Main(m *testing.M) {
	stop := make(chan struct{})
	go func() {
		tk := time.NewTicker(10 * time.Second)
		defer tk.Stop()
		for {
			select {
			case <-tk.C:
				Flush()
			case <-stop:
				return
			}
		}
	}()
	code := m.Run()
	close(stop)
	Flush()
	os.Exit(code)
}
