// Package model holds the reference models (oracles). Nothing in here imports
// goProbe's evaluation or aggregation code.
package model

import (
	"fmt"
	"net/netip"
	"strconv"
	"strings"
)

// Flow is a stored flow record: key attributes plus the four counters.
type Flow struct {
	Sip, Dip netip.Addr // both of the same family (Is4 or Is6; never 4in6-unmapped)
	Dport    uint16
	Proto    uint8
	BR, BS   uint64 // bytes received / sent
	PR, PS   uint64 // packets received / sent
}

// IsV4 tells the family of the flow (the family of its addresses).
func (f Flow) IsV4() bool { return f.Sip.Is4() }

func (f Flow) String() string {
	return fmt.Sprintf("%s>%s:%d/%d[%d,%d,%d,%d]", f.Sip, f.Dip, f.Dport, f.Proto, f.BR, f.BS, f.PR, f.PS)
}

// Cond is a condition AST as the documentation describes the language.
type Cond struct {
	Kind string `json:"k"`           // leaf | not | and | or
	Attr string `json:"a,omitempty"` // leaf: sip dip snet dnet dport proto + sugar src dst host net port protocol ipproto
	Cmp  string `json:"c,omitempty"` // = != < > <= >=
	Val  string `json:"v,omitempty"`
	L    *Cond  `json:"l,omitempty"`
	R    *Cond  `json:"r,omitempty"`
}

// String renders the condition fully parenthesised with the base operator symbols.
func (c *Cond) String() string {
	switch c.Kind {
	case "leaf":
		return c.Attr + " " + c.Cmp + " " + c.Val
	case "not":
		return "!(" + c.L.String() + ")"
	case "and":
		return "(" + c.L.String() + " & " + c.R.String() + ")"
	default:
		return "(" + c.L.String() + " | " + c.R.String() + ")"
	}
}

// Leaves returns all leaves in order.
func (c *Cond) Leaves() []*Cond {
	if c.Kind == "leaf" {
		return []*Cond{c}
	}
	out := c.L.Leaves()
	if c.R != nil {
		out = append(out, c.R.Leaves()...)
	}
	return out
}

// ProtoNames are the (lower-case) protocol names the generators use, with their numbers.
var ProtoNames = map[string]uint8{"icmp": 1, "tcp": 6, "udp": 17, "gre": 47, "ipv6-icmp": 58}

func protoVal(s string) (uint8, error) {
	if n, err := strconv.ParseUint(s, 10, 8); err == nil {
		return uint8(n), nil
	}
	if n, ok := ProtoNames[strings.ToLower(s)]; ok {
		return n, nil
	}
	return 0, fmt.Errorf("unknown protocol %q", s)
}

func cmpNum(a, b uint64, cmp string) bool {
	switch cmp {
	case "=":
		return a == b
	case "!=":
		return a != b
	case "<":
		return a < b
	case ">":
		return a > b
	case "<=":
		return a <= b
	default:
		return a >= b
	}
}

// addrEq: an address comparison can only be true for flows of the same IP family.
func addrEq(flowAddr netip.Addr, val string) (bool, error) {
	a, err := netip.ParseAddr(val)
	if err != nil {
		return false, err
	}
	return a.Is4() == flowAddr.Is4() && a == flowAddr, nil
}

func netContains(flowAddr netip.Addr, val string) (bool, error) {
	i := strings.IndexByte(val, '/')
	if i < 0 {
		return false, fmt.Errorf("no prefix length in %q", val)
	}
	a, err := netip.ParseAddr(val[:i])
	if err != nil {
		return false, err
	}
	bits, err := strconv.Atoi(val[i+1:])
	if err != nil {
		return false, err
	}
	p, err := a.Prefix(bits) // masks the host bits, as the documentation's examples do (172.16.22.0/12)
	if err != nil {
		return false, err
	}
	return a.Is4() == flowAddr.Is4() && p.Contains(flowAddr), nil
}

// Eval is the reference semantics of a condition on one flow.
func (c *Cond) Eval(f Flow) (bool, error) {
	switch c.Kind {
	case "not":
		v, err := c.L.Eval(f)
		return !v, err
	case "and":
		l, err := c.L.Eval(f)
		if err != nil {
			return false, err
		}
		r, err := c.R.Eval(f)
		return l && r, err
	case "or":
		l, err := c.L.Eval(f)
		if err != nil {
			return false, err
		}
		r, err := c.R.Eval(f)
		return l || r, err
	}
	pos := func(v bool, err error) (bool, error) { // '=' gives v, '!=' its complement
		if c.Cmp == "!=" {
			return !v, err
		}
		if c.Cmp != "=" {
			return false, fmt.Errorf("comparator %q not defined for %s", c.Cmp, c.Attr)
		}
		return v, err
	}
	switch c.Attr {
	case "sip", "src":
		return pos(addrEq(f.Sip, c.Val))
	case "dip", "dst":
		return pos(addrEq(f.Dip, c.Val))
	case "host":
		a, err := addrEq(f.Sip, c.Val)
		if err != nil {
			return false, err
		}
		b, err := addrEq(f.Dip, c.Val)
		return pos(a || b, err)
	case "snet":
		return pos(netContains(f.Sip, c.Val))
	case "dnet":
		return pos(netContains(f.Dip, c.Val))
	case "net":
		a, err := netContains(f.Sip, c.Val)
		if err != nil {
			return false, err
		}
		b, err := netContains(f.Dip, c.Val)
		return pos(a || b, err)
	case "dport", "port":
		n, err := strconv.ParseUint(c.Val, 10, 16)
		if err != nil {
			return false, err
		}
		return cmpNum(uint64(f.Dport), n, c.Cmp), nil
	case "proto", "protocol", "ipproto":
		n, err := protoVal(c.Val)
		if err != nil {
			return false, err
		}
		return cmpNum(uint64(f.Proto), uint64(n), c.Cmp), nil
	}
	return false, fmt.Errorf("unknown attribute %q", c.Attr)
}
