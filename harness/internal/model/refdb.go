package model

import (
	"fmt"
	"net/netip"
	"sort"
	"strings"
)

// Block is one write-out of an interface: timestamp (end of the interval), dropped packets and flows.
// Flow keys (sip,dip,dport,proto) are unique within a block.
type Block struct {
	Ts    int64
	Drops uint64
	Flows []Flow
}

// DB is the reference database: interface -> blocks in increasing timestamp order.
type DB struct {
	Ifaces map[string][]Block
}

// IfaceNames returns the sorted interface names.
func (db *DB) IfaceNames() []string {
	var n []string
	for k := range db.Ifaces {
		n = append(n, k)
	}
	sort.Strings(n)
	return n
}

// Counters are the four flow counters.
type Counters struct{ BR, BS, PR, PS uint64 }

func (c *Counters) Add(f Flow) {
	c.BR += f.BR
	c.BS += f.BS
	c.PR += f.PR
	c.PS += f.PS
}

func (c *Counters) AddC(o Counters) {
	c.BR += o.BR
	c.BS += o.BS
	c.PR += o.PR
	c.PS += o.PS
}

// RowKey identifies a result group. Fields that are not requested stay zero.
type RowKey struct {
	Ts    int64
	Iface string
	Sip   netip.Addr
	Dip   netip.Addr
	Dport uint16
	Proto uint8
}

func (k RowKey) String() string {
	return fmt.Sprintf("ts=%d iface=%s %s>%s:%d/%d", k.Ts, k.Iface, k.Sip, k.Dip, k.Dport, k.Proto)
}

// QuerySpec is the part of a query that determines the result rows.
type QuerySpec struct {
	Ifaces      []string // resolved selection
	First, Last int64    // a block is in range iff First <= Ts <= Last
	Attrs       []string // subset of sip dip dport proto
	Time        bool     // group by block timestamp
	Cond        *Cond    // nil = no condition
	DirFilter   string   // "" | in | out | uni | bi : applied to the summed counters of a group
}

func has(list []string, s string) bool {
	for _, x := range list {
		if x == s {
			return true
		}
	}
	return false
}

// DirMatch is the documented meaning of the direction filter values ("incoming but no outgoing
// packets", …): it is defined on packets.
func DirMatch(filter string, c Counters) bool {
	in, out := c.PR > 0, c.PS > 0
	switch {
	case filter == "":
		return true
	case strings.HasPrefix(filter, "in"):
		return in && !out
	case strings.HasPrefix(filter, "out"):
		return out && !in
	case strings.HasPrefix(filter, "uni"):
		return in != out
	case strings.HasPrefix(filter, "bi"):
		return in && out
	}
	return false
}

// Aggregate is the direct aggregation of the stored flows: exactly the flows that satisfy the condition
// and whose block time lies in the range, grouped by the requested attributes, the interface and
// (if requested) the block time, all four counters summed per group; the direction filter keeps the
// groups whose summed counters match.
func (db *DB) Aggregate(q QuerySpec) (map[RowKey]Counters, error) {
	out := map[RowKey]Counters{}
	for _, ifc := range q.Ifaces {
		for _, b := range db.Ifaces[ifc] {
			if b.Ts < q.First || b.Ts > q.Last {
				continue
			}
			for _, f := range b.Flows {
				if q.Cond != nil {
					ok, err := q.Cond.Eval(f)
					if err != nil {
						return nil, err
					}
					if !ok {
						continue
					}
				}
				k := RowKey{Iface: ifc}
				if q.Time {
					k.Ts = b.Ts
				}
				if has(q.Attrs, "sip") {
					k.Sip = f.Sip
				}
				if has(q.Attrs, "dip") {
					k.Dip = f.Dip
				}
				if has(q.Attrs, "dport") {
					k.Dport = f.Dport
				}
				if has(q.Attrs, "proto") {
					k.Proto = f.Proto
				}
				c := out[k]
				c.Add(f)
				out[k] = c
			}
		}
	}
	if q.DirFilter != "" {
		for k, c := range out {
			if !DirMatch(q.DirFilter, c) {
				delete(out, k)
			}
		}
	}
	return out, nil
}

// BlocksInRange returns the blocks of an interface with First <= Ts <= Last.
func (db *DB) BlocksInRange(iface string, first, last int64) []Block {
	var out []Block
	for _, b := range db.Ifaces[iface] {
		if b.Ts >= first && b.Ts <= last {
			out = append(out, b)
		}
	}
	return out
}
