// Package execpool is the parent side of the crash-isolating executor (cmd/gpexec).
package execpool

import (
	"bufio"
	"bytes"
	"encoding/json"
	"errors"
	"fmt"
	"io"
	"os"
	"os/exec"
	"path/filepath"
	"regexp"
	"strings"
	"sync"
	"syscall"
	"time"
)

// Child is one executor process.
type Child struct {
	bin    string
	env    []string
	cmd    *exec.Cmd
	stdin  io.WriteCloser
	stdout *bufio.Reader
	stderr *lockedBuf
	mu     sync.Mutex
	// Restarts counts how often the process had to be restarted after it died.
	Restarts int
}

type lockedBuf struct {
	mu sync.Mutex
	b  bytes.Buffer
}

func (l *lockedBuf) Write(p []byte) (int, error) {
	l.mu.Lock()
	defer l.mu.Unlock()
	if l.b.Len() > 1<<20 {
		l.b.Reset()
	}
	return l.b.Write(p)
}
func (l *lockedBuf) String() string { l.mu.Lock(); defer l.mu.Unlock(); return l.b.String() }
func (l *lockedBuf) Reset()         { l.mu.Lock(); l.b.Reset(); l.mu.Unlock() }

// Bin resolves the path of a helper binary built by the driver (VERIF_BIN).
func Bin(name string) string {
	d := os.Getenv("VERIF_BIN")
	if d == "" {
		d = "/verif/.build/bin"
	}
	return filepath.Join(d, name)
}

// New prepares a child running the binary with extra environment (e.g. "TZ=America/New_York").
func New(bin string, env ...string) *Child {
	return &Child{bin: bin, env: env}
}

func (c *Child) start() error {
	cmd := exec.Command(c.bin)
	cmd.Env = append(os.Environ(), c.env...)
	cmd.Env = append(cmd.Env, "GOTRACEBACK=all")
	in, err := cmd.StdinPipe()
	if err != nil {
		return err
	}
	out, err := cmd.StdoutPipe()
	if err != nil {
		return err
	}
	c.stderr = &lockedBuf{}
	cmd.Stderr = c.stderr
	if err := cmd.Start(); err != nil {
		return fmt.Errorf("start %s: %w", c.bin, err)
	}
	c.cmd, c.stdin, c.stdout = cmd, in, bufio.NewReaderSize(out, 1<<20)
	return nil
}

// Close terminates the child.
func (c *Child) Close() {
	c.mu.Lock()
	defer c.mu.Unlock()
	c.kill()
}

func (c *Child) kill() {
	if c.cmd != nil {
		c.stdin.Close()
		c.cmd.Process.Kill()
		c.cmd.Wait()
		c.cmd = nil
	}
}

// CrashError reports that the child died (or hung) while executing a request.
type CrashError struct {
	Kind      string // "died" | "hang"
	Signature string // panic message + top frames of goProbe code
	Deadlock  bool   // hang with a structural deadlock witness in the goroutine dump
	Stderr    string
}

func (e *CrashError) Error() string {
	return fmt.Sprintf("executor child %s: %s", e.Kind, e.Signature)
}

var frameRe = regexp.MustCompile(`(?m)^(github\.com/els0r/goProbe/v4/[^\s(]+|github\.com/fako1024/[^\s(]+)\(`)

// signatureOf condenses a Go crash dump into "message @ frame < frame".
func signatureOf(stderr string) string {
	msg := ""
	for _, l := range strings.Split(stderr, "\n") {
		if strings.HasPrefix(l, "panic: ") || strings.HasPrefix(l, "fatal error: ") || strings.HasPrefix(l, "SIGSEGV") {
			msg = strings.TrimSpace(l)
			break
		}
	}
	var frames []string
	for _, m := range frameRe.FindAllStringSubmatch(stderr, -1) {
		f := m[1]
		f = f[strings.LastIndex(f, "/")+1:]
		if len(frames) == 0 || frames[len(frames)-1] != f {
			frames = append(frames, f)
		}
		if len(frames) == 3 {
			break
		}
	}
	if msg == "" {
		msg = "no panic message"
	}
	if len(msg) > 200 {
		msg = msg[:200]
	}
	return msg + " @ " + strings.Join(frames, " < ")
}

// Call sends one request and waits for the answer. bound is the generous upper bound after which the
// child is asked for a goroutine dump (SIGQUIT) and the call is reported as a hang.
func (c *Child) Call(req any, resp any, bound time.Duration) error {
	c.mu.Lock()
	defer c.mu.Unlock()
	if c.cmd == nil {
		if err := c.start(); err != nil {
			return err
		}
	}
	b, err := json.Marshal(req)
	if err != nil {
		return err
	}
	c.stderr.Reset()
	if _, err := c.stdin.Write(append(b, '\n')); err != nil {
		return c.crashed("died")
	}
	type rd struct {
		line []byte
		err  error
	}
	ch := make(chan rd, 1)
	go func() {
		l, e := c.stdout.ReadBytes('\n')
		ch <- rd{l, e}
	}()
	timer := time.NewTimer(bound)
	defer timer.Stop()
	select {
	case r := <-ch:
		if r.err != nil {
			return c.crashed("died")
		}
		if err := json.Unmarshal(r.line, resp); err != nil {
			return fmt.Errorf("executor child: undecodable answer %.200q: %w", r.line, err)
		}
		return nil
	case <-timer.C:
		// ask for a goroutine dump, then collect it
		c.cmd.Process.Signal(syscall.SIGQUIT)
		select {
		case <-ch:
		case <-time.After(10 * time.Second):
		}
		time.Sleep(200 * time.Millisecond)
		return c.crashed("hang")
	}
}

func (c *Child) crashed(kind string) error {
	// give the runtime a moment to finish writing the dump
	done := make(chan struct{})
	go func() { c.cmd.Wait(); close(done) }()
	select {
	case <-done:
	case <-time.After(5 * time.Second):
		c.cmd.Process.Kill()
		<-done
	}
	se := c.stderr.String()
	c.cmd = nil
	c.Restarts++
	e := &CrashError{Kind: kind, Stderr: se, Signature: signatureOf(se)}
	if kind == "hang" {
		// structural witnesses of a deadlock in the goroutine dump (never the elapsed time alone):
		// (1) the producer blocked in a channel send inside CreateWorkerJobs while no worker goroutine exists;
		// (2) every goroutine running goProbe code is parked on a channel / sync operation and none is
		//     running, runnable or inside a system call — nothing in the process can ever wake them.
		if strings.Contains(se, "[chan send") && strings.Contains(se, "DBWorkManager).CreateWorkerJobs") && !strings.Contains(se, "grabAndProcessWorkload") {
			e.Deadlock = true
			e.Signature = "deadlock: chan send in CreateWorkerJobs, no worker goroutine"
		} else if w := allBlocked(se); w != "" {
			e.Deadlock = true
			e.Signature = "deadlock: every goProbe goroutine is parked on a channel or sync operation (" + w + ")"
		} else {
			e.Signature = "no answer within bound (inconclusive): " + e.Signature
		}
	}
	if len(e.Stderr) > 6000 {
		e.Stderr = e.Stderr[:6000] + "\n…"
	}
	return e
}

// IsCrash unwraps a CrashError.
func IsCrash(err error) (*CrashError, bool) {
	var ce *CrashError
	if errors.As(err, &ce) {
		return ce, true
	}
	return nil, false
}

var goroutineRe = regexp.MustCompile(`(?m)^goroutine \d+(?: gp=\S+ m=\S+(?: mp=\S+)?)? \[([^\]]+)\]:$`)

// allBlocked inspects a goroutine dump: if at least one goroutine with goProbe frames is blocked in a
// channel send/receive or WaitGroup wait, and no goroutine with goProbe (or harness main) frames is running,
// runnable or in a system call, it returns a short description of the blocked states, else "".
func allBlocked(dump string) string {
	locs := goroutineRe.FindAllStringSubmatchIndex(dump, -1)
	if len(locs) == 0 {
		return ""
	}
	var blocked []string
	for i, l := range locs {
		end := len(dump)
		if i+1 < len(locs) {
			end = locs[i+1][0]
		}
		body := dump[l[0]:end]
		if !strings.Contains(body, "github.com/els0r/goProbe/v4/") {
			continue
		}
		state := dump[l[2]:l[3]]
		if j := strings.IndexByte(state, ','); j >= 0 {
			state = state[:j]
		}
		switch state {
		case "chan send", "chan receive", "sync.WaitGroup.Wait", "semacquire", "sync.Mutex.Lock", "sync.RWMutex.Lock", "sync.RWMutex.RLock", "sync.Cond.Wait":
			frame := ""
			if m := frameRe.FindStringSubmatch(body); m != nil {
				frame = m[1][strings.LastIndex(m[1], "/")+1:]
			}
			blocked = append(blocked, state+" @ "+frame)
		case "select", "sleep", "select (no cases)":
			// timers and watchers: idle by design, cannot unblock the others by themselves
		default:
			return "" // running, runnable, syscall, IO wait, GC …: the process can still make progress
		}
	}
	hard := 0
	for _, b := range blocked {
		if strings.HasPrefix(b, "chan send") || strings.HasPrefix(b, "chan receive") || strings.HasPrefix(b, "sync.WaitGroup") {
			hard++
		}
	}
	if hard == 0 {
		return ""
	}
	if len(blocked) > 4 {
		blocked = blocked[:4]
	}
	return strings.Join(blocked, "; ")
}
