// C22 — flow orientation does not depend on which side is seen first.
//
// A new flow is stored (capture.go addToFlowLogV4/V6) under
//
//	stored(p) = Reverse(hash(p))  if ClassifyPacketDirection(hash(p), aux(p)) == DirectionReverts
//	          = hash(p)           otherwise (DirectionRemains and DirectionUnknown keep the packet's direction)
//
// with (hash, aux) = ParsePacketV4/V6(p). For every conversation in which the
// heuristics claim to be decisive the first packet of either side has to lead
// to the same stored key:
//
//   - TCP without handshake information (no SYN) and UDP between unicast
//     addresses, when the ports that remain after the common-port aggregation
//     differ ("identical ports" is the documented non-decisive fallback),
//   - TCP SYN (no ACK) against SYN-ACK, whatever the ports: stored from the SYN
//     sender to the SYN-ACK sender,
//   - ICMP echo (8/0) and timestamp (13/14), ICMPv6 echo (128/129): stored from
//     the requester to the responder.
//
// Everything else (unknown ICMP types, other protocols, identical ports,
// recognised broadcast/multicast destinations whose mirror image cannot occur)
// is counted, not asserted.
package c22

import (
	"encoding/binary"
	"fmt"
	"testing"

	"github.com/els0r/goProbe/v4/pkg/capture"
	ct "github.com/els0r/goProbe/v4/pkg/capture/capturetypes"
	"pgregory.net/rapid"

	"verifharness/internal/evid"
)

func TestMain(m *testing.M) {
	evid.Rule("conversation = (family, address pair, protocol, port pair, what each side sends first); case = the first packet of side A (a->b) and the first packet of side B (b->a), both parsed with ParsePacketV4/V6 and stored as addToFlowLog stores a new flow (re-stated from the classifier's verdict); a further run (through-capture) feeds decisive conversations — TCP handshakes incl. ECN flag variants, ICMP echo / timestamp, decisive port pairs, both families — through the real capture (capture.Manager on an in-memory source inside a synctest bubble) in both orders and with only one of the two packets and compares the written flow record; " +
		"ports: boundary/common ports x boundary/common ports, rapid-sampled 256-pair blocks (quick), all 2^32 ordered pairs for TCP without flags and UDP in both families sharded over processes (thorough); " +
		"TCP flags: all 256 x 256 flag bytes of the two sides on a port grid; ICMP/ICMPv6: all 256 x 256 type pairs; addresses: unicast, same host, unspecified, limited/directed broadcast, recognised and unrecognised multicast, random; " +
		"non-trivial = the case is decisive: differing post-aggregation ports (TCP no SYN / UDP unicast), SYN vs SYN-ACK, echo/timestamp request vs reply; enumerations count distinct cases by construction, sampled blocks are deduplicated by block id")
	evid.Assume("stored(p) is modelled as in capture.go addToFlowLogV4/V6 for a flow that is not yet in the map: Reverse(hash) iff the classification is DirectionReverts",
		"the mirror image of a packet to a recognised broadcast/multicast destination (255.255.255.255, 224.0.0.x, 224.0.1.x, ff00::/8) would have a multicast source and does not occur (classify.go says so); such conversations only assert that the flow is stored towards the group",
		"handshake packet against a non-handshake first packet of the other side (e.g. SYN vs RST) and SYN vs SYN are not among the decisive cases of the property; they are counted only",
		"the end-to-end path through a running Capture needs the packet source and is covered by the capture checks (C20/C21), not here")
	evid.Main(m)
}

const (
	protoICMP   = 1
	protoTCP    = 6
	protoUDP    = 17
	protoICMPv6 = 58

	flagSYN = 0x02
	flagACK = 0x10
)

// ---------------------------------------------------------------- packets (fixed buffers, no allocation)

// conv4 / conv6 hold the two directions of one conversation as IP layers of 54 bytes.
type conv4 struct{ p, m [54]byte }
type conv6 struct{ p, m [54]byte }

func newConv4(a, b [4]byte, proto byte) *conv4 {
	c := &conv4{}
	for _, x := range []*[54]byte{&c.p, &c.m} {
		x[0], x[8], x[9] = 0x45, 64, proto
		binary.BigEndian.PutUint16(x[2:4], 54)
	}
	copy(c.p[12:16], a[:])
	copy(c.p[16:20], b[:])
	copy(c.m[12:16], b[:])
	copy(c.m[16:20], a[:])
	return c
}

func newConv6(a, b [16]byte, proto byte) *conv6 {
	c := &conv6{}
	for _, x := range []*[54]byte{&c.p, &c.m} {
		x[0], x[6], x[7] = 0x60, proto, 64
		binary.BigEndian.PutUint16(x[4:6], 14)
	}
	copy(c.p[8:24], a[:])
	copy(c.p[24:40], b[:])
	copy(c.m[8:24], b[:])
	copy(c.m[24:40], a[:])
	return c
}

// ports: side A sends s->d, side B sends d->s
func (c *conv4) ports(s, d uint16) {
	c.p[20], c.p[21], c.p[22], c.p[23] = byte(s>>8), byte(s), byte(d>>8), byte(d)
	c.m[20], c.m[21], c.m[22], c.m[23] = byte(d>>8), byte(d), byte(s>>8), byte(s)
}
func (c *conv6) ports(s, d uint16) {
	c.p[40], c.p[41], c.p[42], c.p[43] = byte(s>>8), byte(s), byte(d>>8), byte(d)
	c.m[40], c.m[41], c.m[42], c.m[43] = byte(d>>8), byte(d), byte(s>>8), byte(s)
}
func (c *conv4) tcpFlags(fa, fb byte) { c.p[33], c.m[33] = fa, fb }
func (c *conv6) tcpFlags(fa, fb byte) { c.p[53], c.m[53] = fa, fb }
func (c *conv4) icmp(ta, ca, tb, cb byte) {
	c.p[20], c.p[21], c.m[20], c.m[21] = ta, ca, tb, cb
}
func (c *conv6) icmp(ta, ca, tb, cb byte) {
	c.p[40], c.p[41], c.m[40], c.m[41] = ta, ca, tb, cb
}

// ---------------------------------------------------------------- stored(p)

type view struct {
	hash, stored []byte
	dir          ct.Direction
	portsEqual   bool // source and destination port of the hash are identical (after aggregation)
}

type result struct {
	a, b view // first packet of side A / of side B
	same bool // stored keys identical
}

func (c *conv4) eval() (r result, err string) {
	ha, auxa, ea := capture.ParsePacketV4(c.p[:])
	hb, auxb, eb := capture.ParsePacketV4(c.m[:])
	if ea != ct.ErrnoOK || eb != ct.ErrnoOK {
		return r, fmt.Sprintf("parse errno %d / %d", ea, eb)
	}
	sa, sb := ha, hb
	da, db := ct.ClassifyPacketDirectionV4(ha, auxa), ct.ClassifyPacketDirectionV4(hb, auxb)
	if da == ct.DirectionReverts {
		sa = ha.Reverse()
	}
	if db == ct.DirectionReverts {
		sb = hb.Reverse()
	}
	r.a = view{ha[:], sa[:], da, ha[4] == ha[10] && ha[5] == ha[11]}
	r.b = view{hb[:], sb[:], db, hb[4] == hb[10] && hb[5] == hb[11]}
	r.same = sa == sb
	return
}

func (c *conv6) eval() (r result, err string) {
	ha, auxa, ea := capture.ParsePacketV6(c.p[:])
	hb, auxb, eb := capture.ParsePacketV6(c.m[:])
	if ea != ct.ErrnoOK || eb != ct.ErrnoOK {
		return r, fmt.Sprintf("parse errno %d / %d", ea, eb)
	}
	sa, sb := ha, hb
	da, db := ct.ClassifyPacketDirectionV6(ha, auxa), ct.ClassifyPacketDirectionV6(hb, auxb)
	if da == ct.DirectionReverts {
		sa = ha.Reverse()
	}
	if db == ct.DirectionReverts {
		sb = hb.Reverse()
	}
	r.a = view{ha[:], sa[:], da, ha[16] == ha[34] && ha[17] == ha[35]}
	r.b = view{hb[:], sb[:], db, hb[16] == hb[34] && hb[17] == hb[35]}
	r.same = sa == sb
	return
}

type conv interface {
	ports(s, d uint16)
	tcpFlags(fa, fb byte)
	icmp(ta, ca, tb, cb byte)
	eval() (result, string)
	layers() (p, m []byte)
}

func (c *conv4) layers() ([]byte, []byte) { return c.p[:], c.m[:] }
func (c *conv6) layers() ([]byte, []byte) { return c.p[:], c.m[:] }

func newConv(v6 bool, a, b []byte, proto byte) conv {
	if v6 {
		var x, y [16]byte
		copy(x[:], a)
		copy(y[:], b)
		return newConv6(x, y, proto)
	}
	var x, y [4]byte
	copy(x[:], a)
	copy(y[:], b)
	return newConv4(x, y, proto)
}

func dirName(d ct.Direction) string {
	switch d {
	case ct.DirectionUnknown:
		return "unknown"
	case ct.DirectionRemains:
		return "remains"
	case ct.DirectionReverts:
		return "reverts"
	}
	return fmt.Sprintf("dir%d", d)
}

func describe(c conv, r result) string {
	p, m := c.layers()
	return fmt.Sprintf("first packet of A %x -> hash %x, %s, stored %x; first packet of B %x -> hash %x, %s, stored %x",
		p, r.a.hash, dirName(r.a.dir), r.a.stored, m, r.b.hash, dirName(r.b.dir), r.b.stored)
}

// srcDst decodes the addresses of a stored key by the documented layout.
func srcDst(v6 bool, k []byte) (src, dst []byte) {
	if v6 {
		return k[0:16], k[18:34]
	}
	return k[0:4], k[6:10]
}

type failer interface {
	Fatalf(format string, args ...any)
	Helper()
}

// mustAgree: decisive conversation, both first packets must give the same stored key
func mustAgree(t failer, sig string, c conv) result {
	t.Helper()
	r, e := c.eval()
	if e != "" {
		p, m := c.layers()
		t.Fatalf("%s", evid.Sig("C22:parse", "%s for %x / %x", e, p, m))
	}
	if !r.same {
		t.Fatalf("%s", evid.Sig(sig, "orientation depends on the first packet: %s", describe(c, r)))
	}
	return r
}

// mustStartAt: the stored key runs from the requester's address to the responder's (and equals the requester packet's own key)
func mustStartAt(t failer, sig string, c conv, r result, v6 bool, requester, responder []byte, requesterIsA bool) {
	t.Helper()
	src, dst := srcDst(v6, r.a.stored)
	req := r.b
	if requesterIsA {
		req = r.a
	}
	if string(src) != string(requester) || string(dst) != string(responder) || string(req.stored) != string(req.hash) {
		t.Fatalf("%s", evid.Sig(sig, "request not stored requester (%x) -> responder (%x): %s", requester, responder, describe(c, r)))
	}
}

// ---------------------------------------------------------------- address material

var (
	uni4a = []byte{10, 0, 0, 1}
	uni4b = []byte{172, 16, 254, 9}
	uni6a = []byte{0x20, 0x01, 0x0d, 0xb8, 0, 0, 0, 0, 0, 0, 0, 0, 0, 0, 0, 1}
	uni6b = []byte{0x2a, 0x00, 0x14, 0x50, 0x40, 0x01, 0x08, 0x1b, 0, 0, 0, 0, 0, 0, 0x20, 0x0e}
)

type addrKind int

const (
	akUnicast   addrKind = iota
	akGroup              // broadcast / multicast the code recognises
	akGroupLike          // broadcast / multicast it does not recognise (directed broadcast, 239/8, 224.0.2.0 ...)
)

// recognisedGroup re-states isBroadcastMulticastV4/V6 from the comments: limited broadcast,
// 224.0.0.0/24 and 224.0.1.0/24 (local network control / internetwork control block); ff00::/8.
func recognisedGroup(v6 bool, a []byte) bool {
	if v6 {
		return a[0] == 0xff
	}
	return (a[0] == 255 && a[1] == 255 && a[2] == 255 && a[3] == 255) || (a[0] == 224 && a[1] == 0 && (a[2] == 0 || a[2] == 1))
}

var pool4 = [][]byte{uni4a, uni4b, {10, 0, 0, 2}, {127, 0, 0, 1}, {0, 0, 0, 0}, {192, 168, 1, 1}, {1, 1, 1, 1}, {254, 255, 255, 255}, {223, 255, 255, 255},
	{255, 255, 255, 255}, {224, 0, 0, 1}, {224, 0, 0, 251}, {224, 0, 1, 1}, {224, 0, 1, 129}, {224, 0, 0, 0}, {224, 0, 1, 255}, // recognised
	{224, 0, 2, 0}, {224, 1, 0, 1}, {225, 0, 0, 1}, {239, 255, 255, 250}, {10, 0, 0, 255}, {192, 168, 1, 255}, {255, 255, 255, 254}, {255, 255, 255, 0}} // not recognised

func a16(prefix []byte, last ...byte) []byte {
	b := make([]byte, 16)
	copy(b, prefix)
	copy(b[16-len(last):], last)
	return b
}

var pool6 = [][]byte{uni6a, uni6b, a16(nil), a16(nil, 1), a16([]byte{0xfe, 0x80}, 1), a16([]byte{0xfe, 0xff}, 2), a16([]byte{0xfc}, 7), a16([]byte{0, 0, 0, 0, 0, 0, 0, 0, 0, 0, 0xff, 0xff}, 10, 0, 0, 1),
	a16([]byte{0xff, 0x02}, 1), a16([]byte{0xff, 0x02}, 2), a16([]byte{0xff, 0x02}, 0xfb), a16([]byte{0xff, 0x02}, 1, 0xff, 0, 0, 1), a16([]byte{0xff, 0x05}, 1, 3), a16([]byte{0xff}), a16([]byte{0xff, 0xff}, 0xff),
	a16([]byte{0xfe, 0xff, 0xff}, 0xff), a16([]byte{0x00, 0xff}, 1)}

func genAddr(t *rapid.T, v6 bool, label string) []byte {
	n, pool := 4, pool4
	if v6 {
		n, pool = 16, pool6
	}
	if rapid.IntRange(0, 3).Draw(t, label+"kind") == 0 {
		return rapid.SliceOfN(rapid.Byte(), n, n).Draw(t, label)
	}
	return rapid.SampledFrom(pool).Draw(t, label)
}

// ---------------------------------------------------------------- ports

var boundaryPorts = []uint16{0, 1, 2, 21, 22, 52, 53, 54, 67, 68, 79, 80, 81, 123, 255, 256, 257, 442, 443, 444, 445, 446, 1023, 1024, 1025, 5353, 8079, 8080, 8081,
	13568, 20480, 32766, 32767, 32768, 32769, 33023, 33024, 36895, 47873, 48385, 49151, 49152, 60999, 61000, 65279, 65280, 65534, 65535}

// a few telling port pairs for the evidence samples
func sampleWorthy(s, d uint16) bool {
	switch [2]uint16{s, d} {
	case [2]uint16{49152, 443}, [2]uint16{53, 32768}, [2]uint16{1024, 1023}, [2]uint16{60999, 61000}, [2]uint16{8080, 8080}, [2]uint16{80, 53}, [2]uint16{0, 22}:
		return true
	}
	return false
}

func fams() []bool { return []bool{false, true} }

func famName(v6 bool) string {
	if v6 {
		return "v6"
	}
	return "v4"
}

func protoName(p byte) string {
	switch p {
	case protoTCP:
		return "tcp"
	case protoUDP:
		return "udp"
	case protoICMP:
		return "icmp"
	case protoICMPv6:
		return "icmp6"
	}
	return fmt.Sprintf("proto%d", p)
}

func uniPair(v6 bool) (a, b []byte) {
	if v6 {
		return uni6a, uni6b
	}
	return uni4a, uni4b
}

// TestC22PortsBoundary: every ordered pair of boundary / common ports, TCP (several flag bytes without SYN) and UDP,
// both families, three address constellations (two hosts in both orders, one host talking to itself).
func TestC22PortsBoundary(t *testing.T) {
	noSyn := [][2]byte{{0x00, 0x00}, {0x10, 0x10}, {0x18, 0x10}, {0x11, 0x14}, {0x04, 0x19}, {0xfd, 0xed}}
	for _, v6 := range fams() {
		a, b := uniPair(v6)
		for ai, ab := range [][2][]byte{{a, b}, {b, a}, {a, a}} {
			for _, proto := range []byte{protoTCP, protoUDP} {
				c := newConv(v6, ab[0], ab[1], proto)
				flagSets := noSyn
				if proto == protoUDP {
					flagSets = noSyn[:1]
				}
				for _, s := range boundaryPorts {
					for _, d := range boundaryPorts {
						c.ports(s, d)
						for fi, f := range flagSets {
							if proto == protoTCP {
								c.tcpFlags(f[0], f[1])
							}
							r, e := c.eval()
							if e != "" {
								t.Fatalf("%s", evid.Sig("C22:parse", "%s", e))
							}
							decisive := !r.a.portsEqual
							cls := fmt.Sprintf("boundary:%s/%s:", famName(v6), protoName(proto))
							if decisive {
								cls += "decisive"
							} else {
								cls += "identical-ports"
							}
							evid.Case(fmt.Sprintf("b|%v|%d|%d|%d|%d|%d", v6, ai, proto, s, d, fi), decisive, cls, "boundary:A-"+dirName(r.a.dir))
							if ai == 0 && fi == 0 && sampleWorthy(s, d) && evid.WantSample(decisive) {
								p, m := c.layers()
								evid.Sample(map[string]any{"family": famName(v6), "proto": protoName(proto), "sport": s, "dport": d, "first_of_A": fmt.Sprintf("%x", p), "first_of_B": fmt.Sprintf("%x", m),
									"A": dirName(r.a.dir), "B": dirName(r.b.dir), "stored": fmt.Sprintf("%x", r.a.stored), "decisive": decisive}, decisive)
							}
							if !decisive {
								continue
							}
							if !r.same {
								t.Fatalf("%s", evid.Sig("C22:mirror-ports", "%s %s ports %d/%d: orientation depends on the first packet: %s", famName(v6), protoName(proto), s, d, describe(c, r)))
							}
						}
					}
				}
			}
		}
	}
}

// ---------------------------------------------------------------- port sweeps (allocation free)

type sweepStats struct {
	n, decisive, identical, remainsA, revertsA int64
	fail                                       string
}

// sweep4 / sweep6 evaluate the ordered pairs (s, d) for s in S (given by next) and d in [dLo, dHi].
func sweep4(proto byte, sList []uint16, dLo, dHi int, st *sweepStats) {
	var a, b [4]byte
	copy(a[:], uni4a)
	copy(b[:], uni4b)
	c := newConv4(a, b, proto)
	for _, s := range sList {
		for d := dLo; d <= dHi; d++ {
			c.ports(s, uint16(d))
			ha, auxa, ea := capture.ParsePacketV4(c.p[:])
			hb, auxb, eb := capture.ParsePacketV4(c.m[:])
			if ea != ct.ErrnoOK || eb != ct.ErrnoOK {
				st.fail = fmt.Sprintf("parse errno %d/%d for ports %d/%d", ea, eb, s, d)
				return
			}
			st.n++
			sa, sb := ha, hb
			if ct.ClassifyPacketDirectionV4(ha, auxa) == ct.DirectionReverts {
				sa = ha.Reverse()
				st.revertsA++
			} else {
				st.remainsA++
			}
			if ct.ClassifyPacketDirectionV4(hb, auxb) == ct.DirectionReverts {
				sb = hb.Reverse()
			}
			if ha[4] == ha[10] && ha[5] == ha[11] {
				st.identical++
				continue
			}
			st.decisive++
			if sa != sb {
				r, _ := c.eval()
				st.fail = fmt.Sprintf("v4 %s ports %d/%d: orientation depends on the first packet: %s", protoName(proto), s, d, describe(c, r))
				return
			}
		}
	}
}

func sweep6(proto byte, sList []uint16, dLo, dHi int, st *sweepStats) {
	var a, b [16]byte
	copy(a[:], uni6a)
	copy(b[:], uni6b)
	c := newConv6(a, b, proto)
	for _, s := range sList {
		for d := dLo; d <= dHi; d++ {
			c.ports(s, uint16(d))
			ha, auxa, ea := capture.ParsePacketV6(c.p[:])
			hb, auxb, eb := capture.ParsePacketV6(c.m[:])
			if ea != ct.ErrnoOK || eb != ct.ErrnoOK {
				st.fail = fmt.Sprintf("parse errno %d/%d for ports %d/%d", ea, eb, s, d)
				return
			}
			st.n++
			sa, sb := ha, hb
			if ct.ClassifyPacketDirectionV6(ha, auxa) == ct.DirectionReverts {
				sa = ha.Reverse()
				st.revertsA++
			} else {
				st.remainsA++
			}
			if ct.ClassifyPacketDirectionV6(hb, auxb) == ct.DirectionReverts {
				sb = hb.Reverse()
			}
			if ha[16] == ha[34] && ha[17] == ha[35] {
				st.identical++
				continue
			}
			st.decisive++
			if sa != sb {
				r, _ := c.eval()
				st.fail = fmt.Sprintf("v6 %s ports %d/%d: orientation depends on the first packet: %s", protoName(proto), s, d, describe(c, r))
				return
			}
		}
	}
}

func sweep(v6 bool, proto byte, sList []uint16, dLo, dHi int, st *sweepStats) {
	if v6 {
		sweep6(proto, sList, dLo, dHi, st)
	} else {
		sweep4(proto, sList, dLo, dHi, st)
	}
}

// TestC22PortsSampled (quick tier): rapid draws blocks (family, protocol, source port, high byte of the destination
// port); each block is the 256 ordered pairs (s, dHi<<8 | 0..255). Blocks of different shards are disjoint by
// construction (dHi mod nshards == shard), blocks drawn twice in a process are not counted again.
func TestC22PortsSampled(t *testing.T) {
	shard, nshards := evid.Shard()
	if nshards > 256 {
		nshards = 256
	}
	shard %= nshards
	seen := map[uint32]bool{}
	rapid.Check(t, func(t *rapid.T) {
		v6 := rapid.Bool().Draw(t, "v6")
		proto := rapid.SampledFrom([]byte{protoTCP, protoUDP}).Draw(t, "proto")
		var s uint16
		if rapid.IntRange(0, 3).Draw(t, "skind") == 0 {
			s = rapid.SampledFrom(boundaryPorts).Draw(t, "sport")
		} else {
			s = rapid.Uint16().Draw(t, "sport")
		}
		dHi := shard + nshards*rapid.IntRange(0, (255-shard)/nshards).Draw(t, "dportHighByteIndex")
		var st sweepStats
		sweep(v6, proto, []uint16{s}, dHi<<8, dHi<<8|0xff, &st)
		if st.fail != "" {
			t.Fatalf("%s", evid.Sig("C22:mirror-ports", "%s", st.fail))
		}
		id := uint32(s)<<16 | uint32(dHi)<<8 | uint32(proto&0x10)>>3
		if v6 {
			id |= 1
		}
		cls := fmt.Sprintf("sampled:%s/%s", famName(v6), protoName(proto))
		if seen[id] {
			evid.ClassN("sampled:block-drawn-again", st.n)
			return
		}
		seen[id] = true
		evid.CaseN(st.n, st.decisive, cls)
		evid.ClassN("sampled:identical-ports", st.identical)
		evid.ClassN("sampled:A-remains", st.remainsA)
		evid.ClassN("sampled:A-reverts", st.revertsA)
	})
}

// TestC22PortsExhaustive (thorough tier): all 2^32 ordered port pairs for TCP (no flags) and UDP, IPv4 and IPv6.
// Shard i of n takes the source ports s with s mod n == i.
func TestC22PortsExhaustive(t *testing.T) {
	if !evid.Thorough() {
		t.Skip("thorough tier only")
	}
	shard, nshards := evid.Shard()
	var sList []uint16
	for s := shard; s < 65536; s += nshards {
		sList = append(sList, uint16(s))
	}
	for _, v6 := range fams() {
		for _, proto := range []byte{protoTCP, protoUDP} {
			var st sweepStats
			sweep(v6, proto, sList, 0, 65535, &st)
			if st.fail != "" {
				t.Fatalf("%s", evid.Sig("C22:mirror-ports", "%s", st.fail))
			}
			if st.n != int64(len(sList))*65536 {
				t.Fatalf("enumeration incomplete: %d of %d", st.n, int64(len(sList))*65536)
			}
			cls := fmt.Sprintf("exhaustive:%s/%s", famName(v6), protoName(proto))
			evid.CaseN(st.n, st.decisive, cls)
			evid.ClassN(cls+":identical-ports", st.identical)
			evid.ClassN(cls+":A-remains", st.remainsA)
			evid.ClassN(cls+":A-reverts", st.revertsA)
		}
	}
	evid.Note("port_pairs_enumerated_per_family_and_protocol", "2^32 (all ordered pairs), split over the shards by source port")
	evid.Exhaustive(true)
}

// ---------------------------------------------------------------- TCP flags

type flagRole int

const (
	roleNone   flagRole = iota // no SYN: no handshake information
	roleSyn                    // SYN without ACK: connection request
	roleSynAck                 // SYN with ACK: connection accept
)

func roleOf(f byte) flagRole {
	if f&flagSYN == 0 {
		return roleNone
	}
	if f&flagACK != 0 {
		return roleSynAck
	}
	return roleSyn
}

// TestC22TCPFlags: all 256 x 256 combinations of the flag bytes of the two first packets on a grid of port pairs.
func TestC22TCPFlags(t *testing.T) {
	grid := []uint16{0, 22, 53, 80, 443, 1024, 8080, 32767, 32768, 40000, 65535}
	var cross, crossDisagree int64
	for _, v6 := range fams() {
		a, b := uniPair(v6)
		c := newConv(v6, a, b, protoTCP)
		for _, s := range grid {
			for _, d := range grid {
				c.ports(s, d)
				var n, nt int64
				for fa := 0; fa < 256; fa++ {
					for fb := 0; fb < 256; fb++ {
						c.tcpFlags(byte(fa), byte(fb))
						ra, rb := roleOf(byte(fa)), roleOf(byte(fb))
						n++
						switch {
						case ra == roleSyn && rb == roleSynAck:
							nt++
							r := mustAgree(t, "C22:mirror-handshake", c)
							mustStartAt(t, "C22:handshake-requester", c, r, v6, a, b, true)
						case ra == roleSynAck && rb == roleSyn:
							nt++
							r := mustAgree(t, "C22:mirror-handshake", c)
							mustStartAt(t, "C22:handshake-requester", c, r, v6, b, a, false)
						case ra == roleNone && rb == roleNone:
							r, e := c.eval()
							if e != "" {
								t.Fatalf("%s", evid.Sig("C22:parse", "%s", e))
							}
							if r.a.portsEqual {
								continue
							}
							nt++
							if !r.same {
								t.Fatalf("%s", evid.Sig("C22:mirror-ports", "tcp flags %#x/%#x ports %d/%d: orientation depends on the first packet: %s", fa, fb, s, d, describe(c, r)))
							}
						case ra == rb: // SYN vs SYN, SYN-ACK vs SYN-ACK: no defined exchange
						default: // handshake packet against a packet without handshake information: two different heuristics
							r, _ := c.eval()
							cross++
							if !r.same {
								crossDisagree++
							}
						}
					}
				}
				evid.CaseN(n, nt, "flags:"+famName(v6))
			}
		}
	}
	evid.ClassN("flags:handshake-vs-no-handshake(not asserted)", cross)
	evid.ClassN("flags:handshake-vs-no-handshake disagreeing with the port heuristic(not asserted)", crossDisagree)
}

// ---------------------------------------------------------------- ICMP

type exchange struct{ req, rep byte }

func exchanges(v6 bool) []exchange {
	if v6 {
		return []exchange{{128, 129}} // RFC 4443 echo request / reply
	}
	return []exchange{{8, 0}, {13, 14}} // RFC 792 echo / timestamp
}

func icmpProto(v6 bool) byte {
	if v6 {
		return protoICMPv6
	}
	return protoICMP
}

// TestC22ICMP: all 256 x 256 combinations of the ICMP types of the two first packets (unicast pair, three code
// combinations); request/reply pairs are asserted in both role assignments, everything else is counted by verdict.
func TestC22ICMP(t *testing.T) {
	for _, v6 := range fams() {
		a, b := uniPair(v6)
		c := newConv(v6, a, b, icmpProto(v6))
		isReq, isRep := map[byte]byte{}, map[byte]byte{}
		for _, x := range exchanges(v6) {
			isReq[x.req], isRep[x.rep] = x.rep, x.req
		}
		var n, nt int64
		for ta := 0; ta < 256; ta++ {
			for tb := 0; tb < 256; tb++ {
				for _, codes := range [][2]byte{{0, 0}, {0, 255}, {13, 1}} {
					c.icmp(byte(ta), codes[0], byte(tb), codes[1])
					n++
					if rep, ok := isReq[byte(ta)]; ok && rep == byte(tb) { // A asks, B answers
						nt++
						r := mustAgree(t, "C22:mirror-icmp", c)
						mustStartAt(t, "C22:icmp-requester", c, r, v6, a, b, true)
						continue
					}
					if req, ok := isRep[byte(ta)]; ok && req == byte(tb) { // B asks, A answers
						nt++
						r := mustAgree(t, "C22:mirror-icmp", c)
						mustStartAt(t, "C22:icmp-requester", c, r, v6, b, a, false)
						continue
					}
				}
			}
		}
		evid.CaseN(n, nt, "icmp:"+famName(v6))
		for ta := 0; ta < 256; ta++ { // verdict histogram over the types
			c.icmp(byte(ta), 0, 0, 0)
			r, _ := c.eval()
			evid.Class(fmt.Sprintf("icmp:%s types with verdict %s", famName(v6), dirName(r.a.dir)))
		}
	}
}

// ---------------------------------------------------------------- generated conversations (addresses incl. broadcast / multicast)

func genPort(t *rapid.T, label string) uint16 {
	if rapid.IntRange(0, 2).Draw(t, label+"kind") == 0 {
		return rapid.Uint16().Draw(t, label)
	}
	return rapid.SampledFrom(boundaryPorts).Draw(t, label)
}

func genFlags(t *rapid.T, label string, role flagRole) byte {
	f := rapid.Byte().Draw(t, label)
	switch role {
	case roleNone:
		return f &^ flagSYN
	case roleSyn:
		return f&^flagACK | flagSYN
	}
	return f | flagSYN | flagACK
}

func TestC22Conversations(t *testing.T) {
	rapid.Check(t, func(t *rapid.T) {
		v6 := rapid.Bool().Draw(t, "v6")
		a := genAddr(t, v6, "a")
		b := a
		if rapid.IntRange(0, 7).Draw(t, "sameaddr") != 0 {
			b = genAddr(t, v6, "b")
		}
		ga, gb := recognisedGroup(v6, a), recognisedGroup(v6, b)
		addrClass := "addr:unicast-pair"
		switch {
		case ga && gb:
			addrClass = "addr:group-both"
		case gb:
			addrClass = "addr:to-group"
		case ga:
			addrClass = "addr:from-group"
		case string(a) == string(b):
			addrClass = "addr:same-host"
		}
		kind := rapid.SampledFrom([]string{"tcp-handshake", "tcp-handshake", "tcp-established", "tcp-established", "udp", "udp", "udp", "icmp-exchange", "icmp-exchange", "icmp-other", "other-proto"}).Draw(t, "kind")
		s, d := genPort(t, "sport"), genPort(t, "dport")
		canon := fmt.Sprintf("%v|%x|%x|%s|%d|%d|", v6, a, b, kind, s, d)
		fam := famName(v6)

		switch kind {
		case "tcp-handshake":
			c := newConv(v6, a, b, protoTCP)
			c.ports(s, d)
			aAsks := rapid.Bool().Draw(t, "aAsks")
			fa, fb := genFlags(t, "flagsReq", roleSyn), genFlags(t, "flagsRep", roleSynAck)
			req, rsp := a, b
			if !aAsks {
				fa, fb, req, rsp = fb, fa, b, a
			}
			c.tcpFlags(fa, fb)
			evid.Case(canon+fmt.Sprintf("%x|%x", fa, fb), true, "conv:"+fam+"/tcp-handshake", addrClass)
			r := mustAgree(t, "C22:mirror-handshake", c)
			mustStartAt(t, "C22:handshake-requester", c, r, v6, req, rsp, aAsks)

		case "tcp-established":
			c := newConv(v6, a, b, protoTCP)
			c.ports(s, d)
			fa, fb := genFlags(t, "flagsA", roleNone), genFlags(t, "flagsB", roleNone)
			c.tcpFlags(fa, fb)
			r, e := c.eval()
			if e != "" {
				t.Fatalf("%s", evid.Sig("C22:parse", "%s", e))
			}
			decisive := !r.a.portsEqual
			evid.Case(canon+fmt.Sprintf("%x|%x", fa, fb), decisive, "conv:"+fam+"/tcp-established", addrClass, fmt.Sprintf("conv:tcp-established decisive=%v", decisive))
			if decisive && !r.same {
				t.Fatalf("%s", evid.Sig("C22:mirror-ports", "tcp flags %#x/%#x ports %d/%d: orientation depends on the first packet: %s", fa, fb, s, d, describe(c, r)))
			}

		case "udp":
			c := newConv(v6, a, b, protoUDP)
			c.ports(s, d)
			r, e := c.eval()
			if e != "" {
				t.Fatalf("%s", evid.Sig("C22:parse", "%s", e))
			}
			switch {
			case ga || gb:
				// Only the direction towards the group exists. Documented: such a flow stays as seen (towards the group).
				evid.Case(canon, gb && !ga, "conv:"+fam+"/udp", addrClass, "conv:udp to/from group (mirror outside the domain)")
				if gb && !ga {
					src, dst := srcDst(v6, r.a.stored)
					if string(src) != string(a) || string(dst) != string(b) || string(r.a.stored) != string(r.a.hash) {
						t.Fatalf("%s", evid.Sig("C22:group-destination", "udp to a broadcast/multicast destination is not stored towards the group: %s", describe(c, r)))
					}
				}
			default:
				decisive := !r.a.portsEqual
				evid.Case(canon, decisive, "conv:"+fam+"/udp", addrClass, fmt.Sprintf("conv:udp decisive=%v", decisive))
				if decisive && !r.same {
					t.Fatalf("%s", evid.Sig("C22:mirror-ports", "udp ports %d/%d: orientation depends on the first packet: %s", s, d, describe(c, r)))
				}
			}

		case "icmp-exchange":
			c := newConv(v6, a, b, icmpProto(v6))
			x := rapid.SampledFrom(exchanges(v6)).Draw(t, "exchange")
			aAsks := rapid.Bool().Draw(t, "aAsks")
			ca, cb := rapid.Byte().Draw(t, "codeA"), rapid.Byte().Draw(t, "codeB")
			req, rsp := a, b
			if aAsks {
				c.icmp(x.req, ca, x.rep, cb)
			} else {
				c.icmp(x.rep, ca, x.req, cb)
				req, rsp = b, a
			}
			if recognisedGroup(v6, req) || recognisedGroup(v6, rsp) {
				// a reply never comes from (or goes to) the group address: only the request direction exists
				evid.Case(canon+fmt.Sprintf("%d|%v", x.req, aAsks), !recognisedGroup(v6, req), "conv:"+fam+"/icmp-exchange", addrClass, "conv:icmp request to group (mirror outside the domain)")
				if recognisedGroup(v6, req) {
					return
				}
				r, e := c.eval()
				if e != "" {
					t.Fatalf("%s", evid.Sig("C22:parse", "%s", e))
				}
				v := r.a
				if !aAsks {
					v = r.b
				}
				src, dst := srcDst(v6, v.stored)
				if string(src) != string(req) || string(dst) != string(rsp) || string(v.stored) != string(v.hash) {
					t.Fatalf("%s", evid.Sig("C22:icmp-requester", "request to a group address not stored requester -> group: %s", describe(c, r)))
				}
				return
			}
			evid.Case(canon+fmt.Sprintf("%d|%v|%d|%d", x.req, aAsks, ca, cb), true, "conv:"+fam+"/icmp-exchange", addrClass)
			r := mustAgree(t, "C22:mirror-icmp", c)
			mustStartAt(t, "C22:icmp-requester", c, r, v6, req, rsp, aAsks)

		case "icmp-other":
			c := newConv(v6, a, b, icmpProto(v6))
			ta, tb := rapid.Byte().Draw(t, "typeA"), rapid.Byte().Draw(t, "typeB")
			c.icmp(ta, 0, tb, 0)
			r, e := c.eval()
			if e != "" {
				t.Fatalf("%s", evid.Sig("C22:parse", "%s", e))
			}
			evid.Case(canon+fmt.Sprintf("%d|%d", ta, tb), false, "conv:"+fam+"/icmp-other(not asserted)", "conv:icmp-other A-"+dirName(r.a.dir))

		case "other-proto":
			proto := rapid.SampledFrom([]byte{0, 2, 41, 47, 50, 51, 89, 132, 255, protoICMPv6, protoICMP}).Draw(t, "proto")
			if proto == icmpProto(v6) {
				proto = 47
			}
			c := newConv(v6, a, b, proto)
			r, e := c.eval()
			if e != "" {
				t.Fatalf("%s", evid.Sig("C22:parse", "%s", e))
			}
			evid.Case(canon+fmt.Sprintf("%d", proto), false, "conv:"+fam+"/other-proto(not asserted)", "conv:other-proto A-"+dirName(r.a.dir))
		}
	})
}
