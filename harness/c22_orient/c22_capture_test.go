// C22 (capture path) — the orientation under which the real capture stores a conversation.
package c22

import (
	"fmt"
	"testing"

	"pgregory.net/rapid"

	"verifharness/c20_capture/capharness"
	"verifharness/internal/evid"
)

// storedThroughCapture feeds the given IP layers, in order, to a real capture (capture.Manager on an in-memory
// source inside a synctest bubble, see capharness), lets the scheduled write-out happen and returns the
// addresses of the flow records of the written block.
func storedThroughCapture(t *testing.T, v6 bool, layers ...[]byte) (recs []string, err string) {
	s := &capharness.Script{Ifaces: []string{"eth0"}, Encoder: "null", NBuffers: 1, BufLimit: 64 * 1024 * 1024}
	for i, l := range layers {
		p := &capharness.Packet{ID: i, V6: v6, Layer: l, PktType: 0, Size: 100}
		s.Actions = append(s.Actions, &capharness.Action{Kind: capharness.ActPkt, At: int64(1000 + i), Iface: 0, P: p})
	}
	s.NPackets = len(layers)
	s.Actions = append(s.Actions, &capharness.Action{Kind: capharness.ActRotate, At: capharness.Interval, Win: make([]*capharness.Window, 1)})
	res := capharness.Run(t, s)
	if f := capharness.RunFailure(res); f != nil {
		return nil, f.Clause + ": " + f.Text
	}
	bs := res.Blocks["eth0"]
	if len(bs) == 0 {
		return nil, "no block was written"
	}
	for k := range bs[0].Flows {
		recs = append(recs, fmt.Sprintf("%x>%x", k.Sip, k.Dip))
	}
	return recs, ""
}

// TestC22ThroughCapture: for conversations the heuristics decide, the flow record the capture writes runs from
// the same source to the same destination whether side A's or side B's packet is seen first — and when only
// one of the two packets is seen at all. The expected orientation is the one the parser and classifier give
// (what the enumerations of this package verify); here the step that creates the flow is the real one.
func TestC22ThroughCapture(t *testing.T) {
	rapid.Check(t, func(rt *rapid.T) {
		v6 := rapid.Bool().Draw(rt, "v6")
		a, b := uniPair(v6)
		if rapid.Bool().Draw(rt, "swap") {
			a, b = b, a
		}
		kind := rapid.SampledFrom([]string{"tcp-handshake", "tcp-handshake", "icmp-echo", "icmp-echo", "icmp-timestamp", "ports", "ports"}).Draw(rt, "kind")
		var c conv
		desc := kind
		switch kind {
		case "tcp-handshake":
			c = newConv(v6, a, b, 6)
			pa := rapid.SampledFrom([]uint16{80, 443, 1024, 2000, 40000, 50000, 65535}).Draw(rt, "porta")
			pb := rapid.SampledFrom([]uint16{80, 443, 1024, 2000, 40000, 50000, 65535}).Draw(rt, "portb")
			c.ports(pa, pb)
			extra := rapid.SampledFrom([]byte{0, 0, 0x40, 0x80, 0xc0, 0x08}).Draw(rt, "extraflags")
			c.tcpFlags(0x02|extra, 0x12|(extra&0x40))
			desc = fmt.Sprintf("tcp %d<->%d SYN%#x", pa, pb, extra)
		case "icmp-echo":
			if v6 {
				c = newConv(v6, a, b, 58)
				c.icmp(128, 0, 129, 0)
			} else {
				c = newConv(v6, a, b, 1)
				c.icmp(8, 0, 0, 0)
			}
		case "icmp-timestamp":
			if v6 {
				c = newConv(v6, a, b, 58)
				c.icmp(128, 0, 129, 0)
				desc = "icmp-echo"
			} else {
				c = newConv(v6, a, b, 1)
				c.icmp(13, 0, 14, 0)
			}
		default:
			proto := rapid.SampledFrom([]byte{6, 17}).Draw(rt, "proto")
			c = newConv(v6, a, b, proto)
			pa := rapid.SampledFrom([]uint16{1024, 2000, 32768, 40000, 50000, 65535}).Draw(rt, "porta")
			pb := rapid.SampledFrom([]uint16{22, 53, 80, 123, 443, 1023, 8080}).Draw(rt, "portb")
			c.ports(pa, pb)
			if proto == 6 {
				c.tcpFlags(0x10, 0x10)
			}
			desc = fmt.Sprintf("proto %d ports %d<->%d", proto, pa, pb)
		}
		r, e := c.eval()
		if e != "" {
			rt.Fatalf("harness: %s", e)
		}
		decisive := r.same
		evid.Case(fmt.Sprintf("capture|%v|%x|%x|%s", v6, a, b, desc), decisive, "capture-path", "capture-path:"+kind)
		if !decisive {
			return // the heuristics do not decide: nothing is demanded
		}
		src, dst := srcDst(v6, r.a.stored)
		want := fmt.Sprintf("%x>%x", src, dst)
		pa, pb := c.layers()
		if evid.WantSample(true) {
			evid.Sample(map[string]any{"kind": "through the capture", "conversation": desc, "ipv6": v6, "first_of_A": fmt.Sprintf("%x", pa), "first_of_B": fmt.Sprintf("%x", pb), "expected_record": want}, true)
		}
		for _, order := range []struct {
			name   string
			layers [][]byte
		}{{"A first", [][]byte{pa, pb}}, {"B first", [][]byte{pb, pa}}, {"only A", [][]byte{pa}}, {"only B", [][]byte{pb}}} {
			recs, err := storedThroughCapture(t, v6, order.layers...)
			if err != "" {
				rt.Fatalf("%s", evid.Sig("C22:capture-run", "%s (%s, %s)", err, desc, order.name))
			}
			if len(recs) != 1 || recs[0] != want {
				rt.Fatalf("%s", evid.Sig("C22:capture-orientation", "%s, %s: the capture stored %v, want the single record %s (%s)", desc, order.name, recs, want, describe(c, r)))
			}
		}
	})
}
