// C02 — databases are interchangeable between cgo and native compression builds.
package c02

import (
	"bytes"
	"fmt"
	"os"
	"strings"
	"sync"
	"testing"
	"time"

	"github.com/els0r/goProbe/v4/pkg/goDB/storage/gpfile"
	"github.com/els0r/goProbe/v4/pkg/types"
	"pgregory.net/rapid"

	"verifharness/internal/evid"
	"verifharness/internal/execpool"
	"verifharness/internal/gen"
)

func TestMain(m *testing.M) {
	evid.Rule("a script of 1–3 write sessions (encoder ∈ {lz4, zstd, null}, level, 1–3 blocks of 8 independently drawn column payloads from the length classes {0 … 4095-4097 … 8192-8193 … 40 KiB} × compressibility classes) on one day is executed by executor children built in different configurations " +
		"(quick: default cgo and CGO_ENABLED=0; thorough: also -tags goprobe_noliblz4 and -tags goprobe_nolibzstd): session i is written by writer configuration W_i, then EVERY configuration reads the day back (raw block dump through GPDir) and must return exactly the written bytes, timestamps and summaries; " +
		"non-trivial = the script contains an lz4/zstd block larger than the 8 KiB preallocated scratch buffer and at least one reader differs from the writer of that block; distinct by (script, writer assignment)")
	evid.Assume("the children run the same source tree; only build tags / CGO_ENABLED differ", "bytes on disk may differ between writers; only the logical content is compared")
	evid.Main(m)
}

var (
	mu       sync.Mutex
	children = map[string]*execpool.Child{}
)

func child(cfg string) *execpool.Child {
	mu.Lock()
	defer mu.Unlock()
	c, ok := children[cfg]
	if !ok {
		c = execpool.New(execpool.Bin("gpexec-"+cfg), "TZ=UTC")
		children[cfg] = c
	}
	return c
}

func configs() []string {
	if evid.Thorough() {
		return []string{"cgo", "nocgo", "nolz4", "nozstd"}
	}
	return []string{"cgo", "nocgo"}
}

type rawBlock struct {
	Ts       int64                  `json:"ts"`
	Cols     [][]byte               `json:"cols"`
	Traffic  gpfile.TrafficMetadata `json:"traffic"`
	Counters types.Counters         `json:"counters"`
}

type writeSession struct {
	Encoder string     `json:"encoder"`
	Level   int        `json:"level"`
	Blocks  []rawBlock `json:"blocks"`
}

type request struct {
	Op       string         `json:"op"`
	DB       string         `json:"db"`
	Iface    string         `json:"iface"`
	Sessions []writeSession `json:"sessions,omitempty"`
}

type dayDump struct {
	Dir    string       `json:"dir"`
	Stats  gpfile.Stats `json:"stats"`
	Blocks []struct {
		Ts      int64                  `json:"ts"`
		Cols    [][]byte               `json:"cols"`
		Traffic gpfile.TrafficMetadata `json:"traffic"`
	} `json:"blocks"`
	Err string `json:"err,omitempty"`
}

type response struct {
	Err  string    `json:"err,omitempty"`
	Days []dayDump `json:"days,omitempty"`
}

const day0 = int64(1700006400)

func TestC02Builds(t *testing.T) {
	cfgs := configs()
	rapid.Check(t, func(t *rapid.T) {
		base, err := os.MkdirTemp(os.Getenv("VERIF_WORK"), "c02-")
		if err != nil {
			t.Fatalf("tempdir: %v", err)
		}
		defer os.RemoveAll(base)
		nsess := rapid.IntRange(1, 3).Draw(t, "nsessions")
		slot := 0
		var model []rawBlock
		var desc []string
		big := false
		var writers []string
		var wstats gpfile.Stats
		for s := 0; s < nsess; s++ {
			sess := writeSession{Encoder: rapid.SampledFrom([]string{"lz4", "zstd", "zstd", "lz4", "null"}).Draw(t, fmt.Sprintf("s%d.enc", s))}
			switch sess.Encoder {
			case "lz4":
				sess.Level = rapid.IntRange(0, 12).Draw(t, fmt.Sprintf("s%d.level", s))
			case "zstd":
				sess.Level = rapid.IntRange(0, 19).Draw(t, fmt.Sprintf("s%d.level", s))
			}
			w := rapid.SampledFrom(cfgs).Draw(t, fmt.Sprintf("s%d.writer", s))
			writers = append(writers, w)
			nb := rapid.IntRange(1, 3).Draw(t, fmt.Sprintf("s%d.nblocks", s))
			var bd []string
			for b := 0; b < nb; b++ {
				slot += rapid.IntRange(1, 3).Draw(t, fmt.Sprintf("s%d.b%d.gap", s, b))
				blk := rawBlock{Ts: day0 + int64(slot)*300,
					Traffic:  gpfile.TrafficMetadata{NumV4Entries: uint64(b + 1), NumV6Entries: uint64(s), NumDrops: uint64(slot)},
					Counters: types.Counters{BytesRcvd: uint64(1000 + slot), BytesSent: 7, PacketsRcvd: uint64(slot), PacketsSent: 1}}
				// rarely one column of a block is huge (above 1 MiB: busy links produce such columns, and window /
				// buffer limits of the compression libraries live there)
				hugeCol := -1
				if rapid.IntRange(0, 11).Draw(t, fmt.Sprintf("s%d.b%d.huge?", s, b)) == 0 {
					hugeCol = rapid.IntRange(0, int(types.ColIdxCount)-1).Draw(t, fmt.Sprintf("s%d.b%d.hugecol", s, b))
				}
				for c := 0; c < int(types.ColIdxCount); c++ {
					var p gen.Payload
					if c == hugeCol {
						n := rapid.SampledFrom([]int{1 << 20, 1<<20 + 8, 1<<20 + 70000, 3 << 19, 3 << 20}).Draw(t, fmt.Sprintf("s%d.b%d.hugelen", s, b))
						p = gen.DrawPayloadN(t, fmt.Sprintf("s%d.b%d.c%d", s, b, c), n, ">1MiB")
						evid.Class("huge-column")
					} else {
						p = gen.DrawPayload(t, fmt.Sprintf("s%d.b%d.c%d", s, b, c), 40000)
					}
					blk.Cols = append(blk.Cols, p.Data)
					if len(p.Data) > 8192 && sess.Encoder != "null" {
						big = true
					}
					bd = append(bd, p.Describe())
					evid.Class("col:" + p.LenCls + "/" + p.CompCls)
				}
				sess.Blocks = append(sess.Blocks, blk)
				model = append(model, blk)
				wstats.Traffic = wstats.Traffic.Add(blk.Traffic)
				wstats.Counts.Add(blk.Counters)
			}
			desc = append(desc, fmt.Sprintf("session %d: writer=%s %s level %d: %s", s, w, sess.Encoder, sess.Level, strings.Join(bd, "; ")))
			var resp response
			if err := child(w).Call(request{Op: "writeraw", DB: base, Iface: "eth0", Sessions: []writeSession{sess}}, &resp, 180*time.Second); err != nil {
				if ce, ok := execpool.IsCrash(err); ok {
					if ce.Kind == "hang" && !ce.Deadlock {
						evid.Class("inconclusive:no-answer-within-bound")
						return
					}
					t.Fatalf("%s\n%s", evid.Sig("C02:writer-crash:"+ce.Signature, "writer %s died: %s\n  %s", w, ce.Signature, strings.Join(desc, "\n  ")), ce.Stderr)
				}
				t.Fatalf("harness: %v", err)
			}
			if resp.Err != "" {
				t.Fatalf("%s", evid.Sig("C02:write-error", "writer %s: %s\n  %s", w, resp.Err, strings.Join(desc, "\n  ")))
			}
		}
		cross := false
		for _, w := range writers {
			for _, r := range cfgs {
				if r != w {
					cross = true
				}
			}
		}
		nt := big && cross
		evid.Case(strings.Join(desc, "\n"), nt, "writers:"+strings.Join(writers, "+"))
		if evid.WantSample(nt) {
			evid.Sample(map[string]any{"script": desc, "readers": cfgs}, nt)
		}
		for _, r := range cfgs {
			var resp response
			if err := child(r).Call(request{Op: "dump", DB: base, Iface: "eth0"}, &resp, 180*time.Second); err != nil {
				if ce, ok := execpool.IsCrash(err); ok {
					if ce.Kind == "hang" && !ce.Deadlock {
						evid.Class("inconclusive:no-answer-within-bound")
						return
					}
					t.Fatalf("%s\n%s", evid.Sig("C02:reader-crash:"+ce.Signature, "reader %s died: %s\n  %s", r, ce.Signature, strings.Join(desc, "\n  ")), ce.Stderr)
				}
				t.Fatalf("harness: %v", err)
			}
			ctx := fmt.Sprintf("reader=%s writers=%v\n  %s", r, writers, strings.Join(desc, "\n  "))
			if resp.Err != "" || len(resp.Days) != 1 {
				t.Fatalf("%s", evid.Sig("C02:read-error", "dump failed: %q, %d days\n  %s", resp.Err, len(resp.Days), ctx))
			}
			d := resp.Days[0]
			if d.Err != "" {
				t.Fatalf("%s", evid.Sig("C02:read-error", "data written by %v cannot be read by %s: %s\n  %s", writers, r, d.Err, ctx))
			}
			if len(d.Blocks) != len(model) {
				t.Fatalf("%s", evid.Sig("C02:block-count", "%d blocks read, %d written\n  %s", len(d.Blocks), len(model), ctx))
			}
			if d.Stats != wstats {
				t.Fatalf("%s", evid.Sig("C02:day-summary", "day summary %+v, written %+v\n  %s", d.Stats, wstats, ctx))
			}
			for i, b := range model {
				g := d.Blocks[i]
				if g.Ts != b.Ts || g.Traffic != b.Traffic {
					t.Fatalf("%s", evid.Sig("C02:block-metadata", "block %d: read ts=%d %+v, written ts=%d %+v\n  %s", i, g.Ts, g.Traffic, b.Ts, b.Traffic, ctx))
				}
				for c := range b.Cols {
					if !bytes.Equal(g.Cols[c], b.Cols[c]) {
						t.Fatalf("%s", evid.Sig("C02:bytes-differ", "block %d column %d: read %d bytes, written %d bytes, contents differ\n  %s", i, c, len(g.Cols[c]), len(b.Cols[c]), ctx))
					}
				}
			}
		}
	})
}
